import HappyProofs.C01.Props
import HappyModel.C01.Spec
/-!
# C01 — the trace the engine model produces satisfies the trace Spec

The property theorems of `Props.lean` speak about the model in its own terms (`St.log`, `keyLt`, …);
the verdict on the implementation comes from the decidable predicate `Spec.judge` over a recorded
trace.  Here the link is closed: `traceOf` is the trace *the model itself* writes (same line kinds,
in the judge's parsed form `Spec.Trace`; the tag of an event is its creation index + 1, so that no
model event is "untagged"), built along the run exactly as the harness records it — a delivery line
when a handler is entered, then the creations and the cancels of that handler — and

* `engine_trace_order_clauses` : `Spec.judgeOrder (traceOf …) = none` — clauses 1–5 of the judge
  (clock monotone, clock = event time, delivered at its timestamp, at most once, only created /
  non-cancelled / non-stale events delivered, time order with FIFO ties by creation) never fire on a
  trace of the model, for every machine, pre-run schedule, end time and number of iterations.
-/
namespace HappyModel.C01
open HappyModel.C01.Spec (Trace Created Deliv)
set_option linter.unusedVariables false
set_option linter.unusedSimpArgs false

variable {σ : Type}

/-! ## the trace of a run -/

/-- the `c` line of an event created at trace position `p` -/
def cOf (e : Ev) (p : Nat) : Created := ⟨e.id + 1, e.time, e.target, e.daemon, e.born, p⟩

def mkCreated : Nat → List Ev → List Created
  | _, [] => []
  | p, e :: r => cOf e p :: mkCreated (p + 1) r

/-- `x` lines: `cancel()` called on the events with these creation indices -/
def mkCancels : Nat → List Nat → List (Nat × Nat)
  | _, [] => []
  | p, i :: r => (i + 1, p) :: mkCancels (p + 1) r

/-- `C` / `U` lines -/
def mkFlags : Nat → List (Nat × Bool) → List (Nat × Bool × Nat)
  | _, [] => []
  | p, f :: r => (f.1, f.2, p) :: mkFlags (p + 1) r

/-- what one loop iteration adds to the trace: nothing for a pop that runs no handler; otherwise the
    delivery line, then the creations and the cancels of the handler, then the `C` / `U` lines of the
    entities it crashed / restored (`fl before after`: which ones, as the model at hand defines it;
    `fun _ _ => []` for a machine without crash gate) -/
def traceStep (fl : σ → σ → List (Nat × Bool)) (mc : Machine σ) (s : St σ) (t : Trace) (e : Ev) : Trace :=
  if s.cancelled.contains e.id then t
  else if e.time < s.now then t
  else if mc.crashed s.ent e then t
  else
    let o := mc.handle s.ent e.time e
    let evs := mkEvents s.nextId e.time o.specs
    { t with delivs := t.delivs ++ [⟨e.id + 1, e.time, some e.time, t.len⟩],
             created := t.created ++ mkCreated (t.len + 1) evs,
             cancels := t.cancels ++ mkCancels (t.len + 1 + evs.length) o.cancels,
             flags := t.flags ++ mkFlags (t.len + 1 + evs.length + o.cancels.length) (fl s.ent o.ent),
             len := t.len + 1 + evs.length + o.cancels.length + (fl s.ent o.ent).length }

/-- the pre-run schedule: one creation line per event, at the start clock -/
def initTrace (start : Nat) (pre : List Spec) : Trace :=
  { created := mkCreated 0 (mkEvents 0 start pre), len := pre.length }

/-- the trace written along `run` (same recursion) -/
def traceRun (fl : σ → σ → List (Nat × Bool)) (mc : Machine σ) (endT : Option Nat) : Nat → St σ → Trace → Trace
  | 0, _, t => t
  | n+1, s, t =>
    match s.heap with
    | [] => t
    | x :: xs =>
      if continues endT s then
        traceRun fl mc endT n (stepWith mc s (minOf x xs)) (traceStep fl mc s t (minOf x xs))
      else t

/-- the complete trace of a run from the initial state, with its `end` line -/
def traceOf (fl : σ → σ → List (Nat × Bool)) (mc : Machine σ) (ent : σ) (start : Nat) (pre : List Spec)
    (endT : Option Nat) (n : Nat) : Trace :=
  { traceRun fl mc endT n (init ent start pre) (initTrace start pre) with
    endClock := (runFrom mc ent start pre endT n).now, endT := endT }

/-! ## small list facts -/

theorem mem_mkCreated (p : Nat) (evs : List Ev) : ∀ e ∈ evs, ∃ q, cOf e q ∈ mkCreated p evs := by
  induction evs generalizing p with
  | nil => intro e h; simp at h
  | cons a r ih =>
    intro e h
    rcases List.mem_cons.mp h with rfl | h
    · exact ⟨p, by simp [mkCreated]⟩
    · obtain ⟨q, hq⟩ := ih (p + 1) e h
      exact ⟨q, by simp [mkCreated, hq]⟩

theorem mkCreated_tags (p : Nat) (evs : List Ev) : (mkCreated p evs).map (·.tag) = evs.map (fun e => e.id + 1) := by
  induction evs generalizing p with
  | nil => rfl
  | cons a r ih => simp [mkCreated, cOf, ih]

theorem mem_mkCancels (p : Nat) (l : List Nat) : ∀ x ∈ mkCancels p l, (∃ i ∈ l, x.1 = i + 1) ∧ p ≤ x.2 := by
  induction l generalizing p with
  | nil => intro x h; simp [mkCancels] at h
  | cons a r ih =>
    intro x h
    simp only [mkCancels, List.mem_cons] at h
    rcases h with rfl | h
    · exact ⟨⟨a, by simp, rfl⟩, Nat.le_refl _⟩
    · obtain ⟨⟨i, hi, hx⟩, hp⟩ := ih (p + 1) x h
      exact ⟨⟨i, by simp [hi], hx⟩, by omega⟩

theorem adjOk_of_pairwise {α} (ok : α → α → Bool) (l : List α) (h : l.Pairwise (fun a b => ok a b = true)) :
    Spec.adjOk ok l = true := by
  induction l with
  | nil => simp [Spec.adjOk]
  | cons a r ih =>
    cases r with
    | nil => simp [Spec.adjOk]
    | cons b r' =>
      rw [List.pairwise_cons] at h
      simp only [Spec.adjOk, Bool.and_eq_true]
      exact ⟨h.1 b (by simp), ih h.2⟩

theorem pairwiseOk_of_pairwise {α} (ok : α → α → Bool) (l : List α) (h : l.Pairwise (fun a b => ok a b = true)) :
    Spec.pairwiseOk ok l = true := by
  induction l with
  | nil => simp [Spec.pairwiseOk]
  | cons a r ih =>
    rw [List.pairwise_cons] at h
    simp only [Spec.pairwiseOk, Bool.and_eq_true, List.all_eq_true]
    exact ⟨fun b hb => h.1 b hb, ih h.2⟩

theorem find?_of_tag_nodup (l : List Created) (h : (l.map (·.tag)).Nodup) (c : Created) (hc : c ∈ l) :
    l.find? (fun x => x.tag == c.tag) = some c := by
  induction l with
  | nil => simp at hc
  | cons a r ih =>
    simp only [List.map_cons, List.nodup_cons] at h
    rcases List.mem_cons.mp hc with rfl | hc
    · simp
    · have hne : a.tag ≠ c.tag := by
        intro heq
        exact h.1 (List.mem_map.mpr ⟨c, hc, heq.symm⟩)
      have : (a.tag == c.tag) = false := by simp [hne]
      simp only [List.find?_cons, this]
      exact ih h.2 hc

theorem nodup_map_succ (l : List Nat) (h : l.Nodup) : (l.map (· + 1)).Nodup := by
  unfold List.Nodup at *
  rw [List.pairwise_map]
  exact h.imp (by intro a b hab; omega)

theorem nodup_succ_ids (l : List Ev) (h : (l.map (·.id)).Nodup) : (l.map (fun e => e.id + 1)).Nodup := by
  unfold List.Nodup at *
  rw [List.pairwise_map] at *
  exact h.imp (by intro a b hab; omega)

/-! ## the invariant linking trace and engine state -/

def dkey (d : Deliv) : Nat × Nat × Option Nat := (d.tag, d.clock, d.evtime)
def ekey (e : Ev) : Nat × Nat × Option Nat := (e.id + 1, e.time, some e.time)

structure TI (s : St σ) (t : Trace) : Prop where
  delivs_eq : t.delivs.map dkey = s.log.map ekey
  pos_d : ∀ d ∈ t.delivs, d.pos < t.len
  canc : ∀ x ∈ t.cancels, ∃ i ∈ s.cancelled, x.1 = i + 1
  canc_after : ∀ d ∈ t.delivs, ∀ x ∈ t.cancels, x.1 = d.tag → d.pos < x.2
  cre_nodup : (t.created.map (·.tag)).Nodup
  cre_fresh : ∀ c ∈ t.created, c.tag ≤ s.nextId
  cre_heap : ∀ e ∈ s.heap, ∃ p, cOf e p ∈ t.created
  cre_log : ∀ e ∈ s.log, ∃ p, cOf e p ∈ t.created
  born_heap : ∀ e ∈ s.heap, e.born ≤ s.now
  born_log : ∀ e ∈ s.log, e.born ≤ e.time

theorem TI_skip (s : St σ) (t : Trace) (m : Ev) (now' a b c prim : Nat) (pp : List (Ev × Verdict))
    (hnow : s.now ≤ now') (h : TI s t) :
    TI { s with heap := s.heap.erase m, primary := prim, now := now', processed := a, nCancelled := b,
                nStale := c, popped := pp } t :=
  { delivs_eq := h.delivs_eq, pos_d := h.pos_d, canc := h.canc, canc_after := h.canc_after,
    cre_nodup := h.cre_nodup, cre_fresh := h.cre_fresh,
    cre_heap := fun e he => h.cre_heap e (List.mem_of_mem_erase he), cre_log := h.cre_log,
    born_heap := fun e he => Nat.le_trans (h.born_heap e (List.mem_of_mem_erase he)) hnow,
    born_log := h.born_log }

theorem TI_step (fl : σ → σ → List (Nat × Bool)) (mc : Machine σ) (s : St σ) (t : Trace) (m : Ev) (hm : m ∈ s.heap)
    (inv : Inv s) (h : TI s t) : TI (stepWith mc s m) (traceStep fl mc s t m) := by
  unfold stepWith traceStep
  simp only []
  split
  · exact TI_skip s t m s.now _ _ _ _ _ (Nat.le_refl _) h
  · split
    · exact TI_skip s t m s.now _ _ _ _ _ (Nat.le_refl _) h
    · rename_i hnc hns
      have hnow : s.now ≤ m.time := by omega
      split
      · exact TI_skip s t m m.time _ _ _ _ _ hnow h
      · generalize mc.handle s.ent m.time m = o
        have hnew := mkEvents_id s.nextId m.time o.specs
        have hmc : m.id ∉ s.cancelled := by simpa using hnc
        refine
          { delivs_eq := ?_, pos_d := ?_, canc := ?_, canc_after := ?_, cre_nodup := ?_, cre_fresh := ?_,
            cre_heap := ?_, cre_log := ?_, born_heap := ?_, born_log := ?_ }
        · simp only [List.map_append, h.delivs_eq, List.map_cons, List.map_nil]
          rfl
        · intro d hd
          rcases List.mem_append.mp hd with hd | hd
          · have := h.pos_d d hd; simp only []; omega
          · simp only [List.mem_singleton] at hd; subst hd; simp only []; omega
        · intro x hx
          rcases List.mem_append.mp hx with hx | hx
          · obtain ⟨i, hi, hxi⟩ := h.canc x hx
            exact ⟨i, List.mem_append_left _ hi, hxi⟩
          · obtain ⟨⟨i, hi, hxi⟩, _⟩ := mem_mkCancels _ _ x hx
            exact ⟨i, List.mem_append_right _ hi, hxi⟩
        · intro d hd x hx hxd
          rcases List.mem_append.mp hd with hd | hd
          · rcases List.mem_append.mp hx with hx | hx
            · exact h.canc_after d hd x hx hxd
            · have := (mem_mkCancels _ _ x hx).2
              have := h.pos_d d hd
              omega
          · simp only [List.mem_singleton] at hd
            subst hd
            rcases List.mem_append.mp hx with hx | hx
            · obtain ⟨i, hi, hxi⟩ := h.canc x hx
              simp only [] at hxd
              have : i = m.id := by omega
              subst this
              exact absurd hi hmc
            · have := (mem_mkCancels _ _ x hx).2
              simp only []; omega
        · rw [List.map_append, List.nodup_append]
          refine ⟨h.cre_nodup, ?_, ?_⟩
          · rw [mkCreated_tags]
            exact nodup_succ_ids _ (mkEvents_ids_nodup s.nextId m.time o.specs)
          · intro a ha b hb
            obtain ⟨c, hc, rfl⟩ := List.mem_map.mp ha
            rw [mkCreated_tags] at hb
            obtain ⟨e, he, rfl⟩ := List.mem_map.mp hb
            have := h.cre_fresh c hc
            have := (hnew e he).1
            omega
        · intro c hc
          rcases List.mem_append.mp hc with hc | hc
          · have := h.cre_fresh c hc; simp only []; omega
          · have hmem : c.tag ∈ (mkCreated (t.len + 1) (mkEvents s.nextId m.time o.specs)).map (·.tag) :=
              List.mem_map.mpr ⟨c, hc, rfl⟩
            rw [mkCreated_tags] at hmem
            obtain ⟨e, he, hce⟩ := List.mem_map.mp hmem
            have := (hnew e he).2.1
            simp only []; omega
        · intro e he
          rcases List.mem_append.mp he with he | he
          · obtain ⟨p, hp⟩ := h.cre_heap e (List.mem_of_mem_erase he)
            exact ⟨p, List.mem_append_left _ hp⟩
          · obtain ⟨p, hp⟩ := mem_mkCreated (t.len + 1) _ e he
            exact ⟨p, List.mem_append_right _ hp⟩
        · intro e he
          rcases List.mem_append.mp he with he | he
          · obtain ⟨p, hp⟩ := h.cre_log e he
            exact ⟨p, List.mem_append_left _ hp⟩
          · simp only [List.mem_singleton] at he
            subst he
            obtain ⟨p, hp⟩ := h.cre_heap e hm
            exact ⟨p, List.mem_append_left _ hp⟩
        · intro e he
          rcases List.mem_append.mp he with he | he
          · have := h.born_heap e (List.mem_of_mem_erase he); simp only []; omega
          · have := (hnew e he).2.2; simp only []; omega
        · intro e he
          rcases List.mem_append.mp he with he | he
          · exact h.born_log e he
          · simp only [List.mem_singleton] at he
            subst he
            have := h.born_heap e hm
            omega

theorem TI_init (ent : σ) (start : Nat) (pre : List Spec) : TI (init ent start pre) (initTrace start pre) := by
  have hnew := mkEvents_id 0 start pre
  refine
    { delivs_eq := by simp [init, initTrace], pos_d := by simp [initTrace], canc := by simp [initTrace],
      canc_after := by simp [initTrace], cre_nodup := ?_, cre_fresh := ?_, cre_heap := ?_,
      cre_log := by simp [init], born_heap := ?_, born_log := by simp [init] }
  · simp only [initTrace]
    rw [mkCreated_tags]
    exact nodup_succ_ids _ (mkEvents_ids_nodup 0 start pre)
  · intro c hc
    have hmem : c.tag ∈ (mkCreated 0 (mkEvents 0 start pre)).map (·.tag) := List.mem_map.mpr ⟨c, hc, rfl⟩
    rw [mkCreated_tags] at hmem
    obtain ⟨e, he, hce⟩ := List.mem_map.mp hmem
    have := (hnew e he).2.1
    simp only [init]; omega
  · intro e he
    exact mem_mkCreated 0 _ e he
  · intro e he
    have := (hnew e he).2.2
    simp only [init] at *; omega

theorem TI_run (fl : σ → σ → List (Nat × Bool)) (mc : Machine σ) (endT : Option Nat) (n : Nat) (s : St σ) (t : Trace)
    (inv : Inv s) (h : TI s t) : TI (run mc endT n s) (traceRun fl mc endT n s t) := by
  induction n generalizing s t with
  | zero => simpa [run, traceRun]
  | succ n ih =>
    unfold run traceRun step
    cases hh : s.heap with
    | nil => simpa
    | cons x xs =>
      simp only []
      by_cases hc : continues endT s = true
      · simp only [hc, if_true]
        have hmem : minOf x xs ∈ s.heap := by rw [hh]; exact (pop_is_min x xs).1
        exact ih _ _ (step_preserves mc s x xs hh inv) (TI_step fl mc s t _ hmem inv h)
      · simp only [hc, Bool.false_eq_true, if_false]
        exact h

/-! ## clauses 1–5 of the judge on a linked trace -/

theorem order_clauses_of_TI (s : St σ) (t : Trace) (inv : Inv s) (h : TI s t) : Spec.judgeOrder t = none := by
  -- every delivery line is the line of a logged event
  have hmemD : ∀ d ∈ t.delivs, ∃ e ∈ s.log, dkey d = ekey e := by
    intro d hd
    have : dkey d ∈ s.log.map ekey := by rw [← h.delivs_eq]; exact List.mem_map.mpr ⟨d, hd, rfl⟩
    obtain ⟨e, he, hk⟩ := List.mem_map.mp this
    exact ⟨e, he, hk.symm⟩
  have htagged : Spec.tagged t = t.delivs := by
    unfold Spec.tagged
    rw [List.filter_eq_self]
    intro d hd
    obtain ⟨e, _, hk⟩ := hmemD d hd
    have : d.tag = e.id + 1 := congrArg (·.1) hk
    simp [this]
  -- the log order, transported to the delivery lines
  have hsorted := logSorted_pairwise _ inv.sorted
  have hpw : t.delivs.Pairwise (fun a b => (dkey a).2.1 < (dkey b).2.1 ∨
      ((dkey a).2.1 = (dkey b).2.1 ∧ (dkey a).1 < (dkey b).1)) := by
    have h1 : (s.log.map ekey).Pairwise (fun a b => a.2.1 < b.2.1 ∨ (a.2.1 = b.2.1 ∧ a.1 < b.1)) := by
      rw [List.pairwise_map]
      refine hsorted.imp ?_
      intro a b hab
      unfold keyLt at hab
      simp only [ekey]
      simp at hab
      omega
    rw [← h.delivs_eq, List.pairwise_map] at h1
    exact h1
  -- the creation line of a delivered event
  have hcre : ∀ d ∈ t.delivs, ∃ c, Spec.createdOf t d.tag = some c ∧ c.time = d.clock ∧ c.clock ≤ c.time := by
    intro d hd
    obtain ⟨e, he, hk⟩ := hmemD d hd
    obtain ⟨p, hp⟩ := h.cre_log e he
    have htag : d.tag = e.id + 1 := congrArg (·.1) hk
    have hclk : d.clock = e.time := congrArg (·.2.1) hk
    refine ⟨cOf e p, ?_, by simp [cOf, hclk], by simpa [cOf] using h.born_log e he⟩
    have := find?_of_tag_nodup t.created h.cre_nodup (cOf e p) hp
    unfold Spec.createdOf
    rw [htag]
    simpa [cOf] using this
  have c1 : Spec.clockMonotone t = true := by
    unfold Spec.clockMonotone
    apply adjOk_of_pairwise
    refine hpw.imp ?_
    intro a b hab
    simp only [dkey] at hab
    simp; omega
  have c2 : Spec.clockNotEventTime t = false := by
    unfold Spec.clockNotEventTime
    rw [List.any_eq_false]
    intro d hd
    obtain ⟨e, _, hk⟩ := hmemD d hd
    have h1 : d.evtime = some e.time := congrArg (·.2.2) hk
    have h2 : d.clock = e.time := congrArg (·.2.1) hk
    simp [h1, h2]
  have c3 : Spec.deliveredAtWrongTime t = false := by
    unfold Spec.deliveredAtWrongTime
    rw [htagged, List.any_eq_false]
    intro d hd
    obtain ⟨c, hc, hct, _⟩ := hcre d hd
    simp [hc, hct]
  -- no two delivery lines carry the same tag: logged events have distinct creation indices
  have hids : (s.log.map (·.id)).Nodup := by
    unfold List.Nodup
    rw [List.pairwise_map]
    refine List.Pairwise.imp_of_mem ?_ hsorted
    intro a b ha hb hlt heq
    have pa := (inv.log_popped a).mp ha
    have pb := (inv.log_popped b).mp hb
    have := inj_of_nodup_map (fun p : Ev × Verdict => p.1.id) inv.popped_nodup pa pb heq
    simp at this
    subst this
    rw [keyLt_irrefl] at hlt
    exact absurd hlt (by simp)
  have htags : (t.delivs.map (·.tag)).Nodup := by
    have e1 : t.delivs.map (·.tag) = (t.delivs.map dkey).map (·.1) := by simp [List.map_map, dkey]
    have e2 : (s.log.map ekey).map (·.1) = (s.log.map (·.id)).map (· + 1) := by simp [List.map_map, ekey]
    rw [e1, h.delivs_eq, e2]
    exact nodup_map_succ _ hids
  have c4 : Spec.atMostOnce t = true := by
    unfold Spec.atMostOnce
    rw [htagged]
    apply pairwiseOk_of_pairwise
    have := htags
    unfold List.Nodup at this
    rw [List.pairwise_map] at this
    refine this.imp ?_
    intro a b hab
    simp [hab]
  have c5 : Spec.deliveredUnknown t = false := by
    unfold Spec.deliveredUnknown
    rw [htagged, List.any_eq_false]
    intro d hd
    obtain ⟨c, hc, _, _⟩ := hcre d hd
    simp [hc]
  have c6 : Spec.cancelledDelivered t = false := by
    unfold Spec.cancelledDelivered Spec.cancelledBefore
    rw [htagged, List.any_eq_false]
    intro d hd
    simp only [List.any_eq_true, not_exists, not_and, Bool.and_eq_true, beq_iff_eq, decide_eq_true_eq]
    intro x hx hxd
    have := h.canc_after d hd x hx hxd
    omega
  have c7 : Spec.staleDelivered t = false := by
    unfold Spec.staleDelivered
    rw [htagged, List.any_eq_false]
    intro d hd
    obtain ⟨c, hc, _, hcc⟩ := hcre d hd
    simp [hc]; omega
  have c8 : Spec.tieOrder t = true := by
    unfold Spec.tieOrder
    rw [htagged]
    apply adjOk_of_pairwise
    refine hpw.imp ?_
    intro a b hab
    simp only [dkey] at hab
    simp; omega
  simp [Spec.judgeOrder, c1, c2, c3, c4, c5, c6, c7, c8]

/-- **clauses 1–5 of the trace Spec never fire on a trace of the model**: for every machine (handler
    function and crash predicate), pre-run schedule, start clock, end time and number of loop
    iterations, the trace the model writes has a clock that never moves backwards, equal to the event's
    timestamp at every delivery; every delivered event was created, is delivered at most once, was not
    cancelled before its delivery and was not stale when created; deliveries are in time order with
    ties in creation order — `Spec.judgeOrder` returns no signature. -/
theorem engine_trace_order_clauses (fl : σ → σ → List (Nat × Bool)) (mc : Machine σ) (ent : σ) (start : Nat)
    (pre : List Spec) (endT : Option Nat) (n : Nat) : Spec.judgeOrder (traceOf fl mc ent start pre endT n) = none := by
  have inv := run_inv mc endT n _ (init_inv ent start pre)
  have ti := TI_run fl mc endT n _ _ (init_inv ent start pre) (TI_init ent start pre)
  -- the `end` line plays no part in the link
  have ti' : TI (runFrom mc ent start pre endT n) (traceOf fl mc ent start pre endT n) :=
    ⟨ti.delivs_eq, ti.pos_d, ti.canc, ti.canc_after, ti.cre_nodup, ti.cre_fresh, ti.cre_heap, ti.cre_log,
      ti.born_heap, ti.born_log⟩
  exact order_clauses_of_TI _ _ inv ti'

end HappyModel.C01
