import HappyProofs.C01.Inv
/-!
# C01 — property theorems (engine)

"During a run, every scheduled event that is live (not cancelled, target not crashed, timestamp not
earlier than the clock at the moment it was scheduled and not later than end_time) is delivered to
its target exactly once, in non-decreasing timestamp order, and events with equal timestamps are
delivered in the order they were created, whether they were scheduled before the run or during it.
At each delivery the simulation clock equals the event's timestamp and it never moves backwards; a
cancelled event is never delivered. With no end_time the run stops exactly when no non-daemon event
is pending, and daemon events alone never keep it alive."

All theorems hold for every `Machine` (every handler function and crash predicate), every pre-run
schedule, every `endT` and every number of loop iterations.
-/
namespace HappyModel.C01
set_option linter.unusedVariables false
set_option linter.unusedSimpArgs false

variable {σ : Type}

/-- a run from the initial state of any model -/
abbrev runFrom (mc : Machine σ) (ent : σ) (start : Nat) (pre : List Spec) (endT : Option Nat) (n : Nat) :=
  run mc endT n (init ent start pre)

/-- deliveries are strictly increasing in (time, creation index): time order, FIFO ties by creation,
    pre-run and in-run events alike -/
theorem delivered_sorted (mc : Machine σ) (ent : σ) (start : Nat) (pre : List Spec) (endT : Option Nat)
    (n : Nat) : (runFrom mc ent start pre endT n).log.Pairwise (fun a b => keyLt a b = true) :=
  logSorted_pairwise _ (run_inv mc endT n _ (init_inv ent start pre)).sorted

/-- timestamps along the delivery log never decrease -/
theorem delivery_times_nondecreasing (mc : Machine σ) (ent : σ) (start : Nat) (pre : List Spec)
    (endT : Option Nat) (n : Nat) :
    (runFrom mc ent start pre endT n).log.Pairwise (fun a b => a.time ≤ b.time) :=
  (delivered_sorted mc ent start pre endT n).imp keyLt_time

/-- among deliveries with the same timestamp, creation order is delivery order -/
theorem fifo_ties (mc : Machine σ) (ent : σ) (start : Nat) (pre : List Spec) (endT : Option Nat)
    (n : Nat) :
    (runFrom mc ent start pre endT n).log.Pairwise (fun a b => a.time = b.time → a.id < b.id) :=
  (delivered_sorted mc ent start pre endT n).imp (by
    intro a b h heq; unfold keyLt at h; simp at h; omega)

theorem inj_of_nodup_map {α β} (f : α → β) {l : List α} (h : (l.map f).Nodup) {a b : α}
    (ha : a ∈ l) (hb : b ∈ l) (hf : f a = f b) : a = b := by
  induction l with
  | nil => simp at ha
  | cons x xs ih =>
    simp only [List.map_cons, List.nodup_cons, List.mem_map, not_exists, not_and] at h
    simp at ha hb
    rcases ha with rfl | ha <;> rcases hb with rfl | hb
    · rfl
    · exact absurd hf.symm (h.1 b hb)
    · exact absurd hf (h.1 a ha)
    · exact ih h.2 ha hb

/-- no event is delivered twice -/
theorem at_most_once (mc : Machine σ) (ent : σ) (start : Nat) (pre : List Spec) (endT : Option Nat)
    (n : Nat) : ((runFrom mc ent start pre endT n).log.map (·.id)).Nodup := by
  have inv := run_inv mc endT n _ (init_inv ent start pre)
  have hs := delivered_sorted mc ent start pre endT n
  unfold List.Nodup
  rw [List.pairwise_map]
  refine List.Pairwise.imp_of_mem ?_ hs
  intro a b ha hb hlt heq
  have pa := (inv.log_popped a).mp ha
  have pb := (inv.log_popped b).mp hb
  have := inj_of_nodup_map (fun p : Ev × Verdict => p.1.id) inv.popped_nodup pa pb heq
  simp at this
  subst this
  rw [keyLt_irrefl] at hlt
  exact absurd hlt (by simp)

/-- one loop iteration: what a pop does.  A popped event is handed to its handler iff it is not
    cancelled, not in the past and its target is not crashed; then (and in the crashed case) the
    clock becomes exactly the event's timestamp; the clock never moves backwards. -/
theorem pop_verdict (mc : Machine σ) (s : St σ) (e : Ev) :
    let s' := stepWith mc s e
    s.now ≤ s'.now ∧
    (s'.log = s.log ∨ (s'.log = s.log ++ [e] ∧ s'.now = e.time ∧ e.id ∉ s.cancelled ∧ s.now ≤ e.time
        ∧ mc.crashed s.ent e = false)) ∧
    ((e.id ∉ s.cancelled ∧ s.now ≤ e.time ∧ mc.crashed s.ent e = false) → s'.log = s.log ++ [e]) := by
  simp only [stepWith]
  by_cases hc : s.cancelled.contains e.id = true
  · have hc' : e.id ∈ s.cancelled := by simpa using hc
    simp [hc, hc']
  · have hc' : e.id ∉ s.cancelled := by simpa using hc
    by_cases hs : e.time < s.now
    · simp [hc, hs, hc']; omega
    · by_cases hg : mc.crashed s.ent e = true
      · simp [hc, hs, hg, hc']; omega
      · simp [hc, hs, hg, hc']; omega

/-- the clock never moves backwards along a run -/
theorem clock_monotone (mc : Machine σ) (endT : Option Nat) (n : Nat) (s : St σ) :
    s.now ≤ (run mc endT n s).now := by
  induction n generalizing s with
  | zero => simp [run]
  | succ n ih =>
    unfold run
    cases hs : step mc endT s with
    | none => simp
    | some s' =>
      simp only []
      have : s.now ≤ s'.now := by
        unfold step at hs
        split at hs
        · simp at hs
        · split at hs
          · simp at hs; subst hs; exact (pop_verdict mc s _).1
          · simp at hs
      exact Nat.le_trans this (ih s')

/-- every delivered event was popped exactly once, with verdict `delivered`; pops are unique per id -/
theorem popped_unique (mc : Machine σ) (ent : σ) (start : Nat) (pre : List Spec) (endT : Option Nat)
    (n : Nat) : ((runFrom mc ent start pre endT n).popped.map (·.1.id)).Nodup :=
  (run_inv mc endT n _ (init_inv ent start pre)).popped_nodup

/-- the primary-event counter is the number of non-daemon events in the heap -/
theorem primary_count_eq (mc : Machine σ) (ent : σ) (start : Nat) (pre : List Spec) (endT : Option Nat)
    (n : Nat) :
    (runFrom mc ent start pre endT n).primary = countPrimary (runFrom mc ent start pre endT n).heap :=
  (run_inv mc endT n _ (init_inv ent start pre)).prim

/-- an event that was not stale when it was scheduled is never stale while it waits in the heap -/
theorem pending_never_stale (mc : Machine σ) (ent : σ) (start : Nat) (pre : List Spec)
    (endT : Option Nat) (n : Nat) :
    ∀ e ∈ (runFrom mc ent start pre endT n).heap, e.born ≤ e.time →
      (runFrom mc ent start pre endT n).now ≤ e.time :=
  (run_inv mc endT n _ (init_inv ent start pre)).notStale

/-- **completeness with an end time**: when the loop has halted, no event that is still pending is
    live — every pending event is beyond the horizon or was already in the past when scheduled.
    Together with `pop_verdict` (a popped live event is delivered) and `at_most_once`: every live
    event is delivered exactly once. -/
theorem halt_no_live_pending (mc : Machine σ) (ent : σ) (start : Nat) (pre : List Spec) (t : Nat)
    (n : Nat) (hhalt : step mc (some t) (runFrom mc ent start pre (some t) n) = none) :
    ∀ e ∈ (runFrom mc ent start pre (some t) n).heap, e.time < e.born ∨ t < e.time := by
  intro e he
  have hns := pending_never_stale mc ent start pre (some t) n e he
  generalize runFrom mc ent start pre (some t) n = s at *
  unfold step at hhalt
  split at hhalt
  · rename_i h; rw [h] at he; simp at he
  · rename_i x xs hx
    split at hhalt
    · simp at hhalt
    · rename_i hcont
      simp [continues, hx] at hcont
      by_cases hb : e.born ≤ e.time
      · right; have := hns hb; omega
      · left; omega

/-- **auto-termination (the code's notion)**: with no end time the loop halts exactly when the heap
    holds no non-daemon event — daemon events alone never keep it alive -/
theorem autoterm_iff_no_primary_in_heap (mc : Machine σ) (ent : σ) (start : Nat) (pre : List Spec)
    (n : Nat) :
    step mc none (runFrom mc ent start pre none n) = none ↔
      ∀ e ∈ (runFrom mc ent start pre none n).heap, e.daemon = true := by
  have hp := primary_count_eq mc ent start pre none n
  generalize runFrom mc ent start pre none n = s at *
  unfold step
  split
  · rename_i h; simp [h]
  · rename_i x xs hx
    simp only [continues, hx]
    have hcp : countPrimary s.heap = 0 ↔ ∀ e ∈ s.heap, e.daemon = true := by
      unfold countPrimary
      rw [List.length_eq_zero_iff, List.filter_eq_nil_iff]
      simp
    rw [← hx, ← hcp, ← hp]
    by_cases h0 : s.primary = 0
    · simp [h0]
    · have : 0 < s.primary := Nat.pos_of_ne_zero h0
      simp [this, h0]
      rw [hx]; simp

/-- the property's reading of auto-termination counts only *non-cancelled* non-daemon events as
    pending.  The code counts cancelled ones too (lazy deletion): in this state the only pending
    non-daemon event is cancelled, yet the loop goes on and delivers the daemon tick.
    This is the known finding `engine/autoterm/cancelled-primary-keeps-alive`. -/
theorem autoterm_cancelled_primary_keeps_alive :
    let mc : Machine Unit := { handle := fun _ _ _ => { ent := () } }
    let s : St Unit := { heap := [⟨0, 10, 0, 0, true, 0, 0, 0⟩, ⟨1, 50, 0, 1, false, 0, 0, 0⟩], now := 0,
                         nextId := 2, cancelled := [1], ent := (), primary := 1 }
    (∀ e ∈ s.heap, e.daemon = false → e.id ∈ s.cancelled) ∧
    (step mc none s).map (·.log.map (·.id)) = some [0] := by
  decide

/-- non-vacuity: a model with ties between pre-run and in-run events; the in-run child (id 3) is
    delivered after both earlier-created pre-run events of the same nanosecond -/
example :
    let mc : Machine Unit :=
      { handle := fun _ now e => { ent := (), specs := if e.kind = 0 then [⟨now + 1, 0, 9, false, 0, 0⟩] else [] } }
    (runFrom mc () 0 [⟨1, 0, 0, false, 0, 0⟩, ⟨2, 0, 1, false, 0, 0⟩, ⟨2, 0, 2, false, 0, 0⟩] (some 10) 10).log.map (·.id)
      = [0, 1, 2, 3] := by decide

end HappyModel.C01
