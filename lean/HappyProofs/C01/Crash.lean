import HappyProofs.C01.Props
import HappyProofs.C01.TraceGate
import HappyModel.C01.Parse
/-!
# C01 — "target not crashed" is judged when the event falls due, not when it is scheduled

The heap accepts whatever a handler returns (`scheduled_whatever_the_target_state`); the crash flag of
the target is read only when the event is popped (`pop_verdict`).  So an event created for an entity
that is down at that moment and restored before the event's timestamp is delivered
(`up_target_gets_event`), and one that falls due inside the down window is dropped, counted as
processed (`down_target_drops_event`).  The trace Spec (`HappyModel/C01/Spec.lean`, `mayBeDown`)
exempts exactly the events whose target is down in the stretch in which they fall due.
-/
namespace HappyModel.C01
set_option linter.unusedVariables false

theorem mem_mkEvents_of_spec (n now : Nat) (specs : List Spec) :
    ∀ sp ∈ specs, ∃ ev ∈ mkEvents n now specs,
      ev.time = sp.time ∧ ev.target = sp.target ∧ ev.kind = sp.kind ∧ ev.daemon = sp.daemon := by
  induction specs generalizing n with
  | nil => intro sp h; simp at h
  | cons s ss ih =>
    intro sp h
    rcases List.mem_cons.mp h with rfl | h
    · exact ⟨⟨n, sp.time, sp.target, sp.kind, sp.daemon, sp.data, now, sp.tag⟩, by simp [mkEvents], rfl, rfl, rfl, rfl⟩
    · obtain ⟨ev, hev, hh⟩ := ih (n + 1) sp h
      exact ⟨ev, by simp [mkEvents, hev], hh⟩

/-- **scheduling does not look at the target**: when a handler runs, every event it returns is put
    into the heap with its timestamp and target — for every machine, so whatever the crash state of
    those targets is at that moment.  (The crash predicate occurs in a loop iteration only as the gate
    on the *popped* event.) -/
theorem scheduled_whatever_the_target_state {σ : Type} (mc : Machine σ) (s : St σ) (e : Ev)
    (hc : e.id ∉ s.cancelled) (ht : s.now ≤ e.time) (hg : mc.crashed s.ent e = false) :
    (stepWith mc s e).heap = s.heap.erase e ++ mkEvents s.nextId e.time (mc.handle s.ent e.time e).specs ∧
    ∀ sp ∈ (mc.handle s.ent e.time e).specs, ∃ ev ∈ (stepWith mc s e).heap,
      ev.time = sp.time ∧ ev.target = sp.target ∧ ev.kind = sp.kind ∧ ev.daemon = sp.daemon := by
  have hc' : s.cancelled.contains e.id = false := by simpa using hc
  have hs : ¬ e.time < s.now := by omega
  have hheap : (stepWith mc s e).heap
      = s.heap.erase e ++ mkEvents s.nextId e.time (mc.handle s.ent e.time e).specs := by
    simp [stepWith, hc, hs, hg]
  refine ⟨hheap, ?_⟩
  intro sp hsp
  obtain ⟨ev, hev, hh⟩ := mem_mkEvents_of_spec s.nextId e.time _ sp hsp
  exact ⟨ev, by rw [hheap]; exact List.mem_append_right _ hev, hh⟩

/-- `entity._crashed = False` takes the entity out of the crashed set, `= True` puts it in -/
theorem restore_clears_flag (now : Nat) (e : Eff) (x : Nat) : x ∉ (runAct now e (.restore x)).ps.crashed := by
  simp [runAct]

theorem crash_sets_flag (now : Nat) (e : Eff) (x : Nat) : x ∈ (runAct now e (.crash x)).ps.crashed := by
  simp [runAct]

/-- **an event whose target is up when it falls due is delivered** — not cancelled, not in the past,
    target not in the crashed set at the pop: the handler runs and the clock is the event's timestamp,
    whatever the target's state was when the event was created or at any time in between -/
theorem up_target_gets_event (s : St PS) (e : Ev) (hc : e.id ∉ s.cancelled) (ht : s.now ≤ e.time)
    (hup : e.target ∉ s.ent.crashed) :
    (stepWith procMachine s e).log = s.log ++ [e] ∧ (stepWith procMachine s e).now = e.time := by
  have hg : procMachine.crashed s.ent e = false := by
    show procCrashed s.ent e = false
    simp [procCrashed, hup]
  have hc' : s.cancelled.contains e.id = false := by simpa using hc
  have hs : ¬ e.time < s.now := by omega
  simp [stepWith, hc, hs, hg]

/-- a plain event that falls due while its target is down is dropped: no handler runs, it counts as
    processed and the clock still advances to its timestamp -/
theorem down_target_drops_event (s : St PS) (e : Ev) (hc : e.id ∉ s.cancelled) (ht : s.now ≤ e.time)
    (hd : e.data = 0) (hdown : e.target ∈ s.ent.crashed) :
    (stepWith procMachine s e).log = s.log ∧ (stepWith procMachine s e).processed = s.processed + 1 ∧
    (stepWith procMachine s e).now = e.time ∧ (stepWith procMachine s e).heap = s.heap.erase e := by
  have hg : procMachine.crashed s.ent e = true := by
    show procCrashed s.ent e = true
    simp [procCrashed, hdown, hd]
  have hc' : s.cancelled.contains e.id = false := by simpa using hc
  have hs : ¬ e.time < s.now := by omega
  simp [stepWith, hc, hs, hg]

/-- entity 0 is crashed at t = 5 and restored at t = 8 (by entity 1); at t = 6, inside the window, a
    handler schedules two events for it: one due at 7 (inside) and one due at 10 (after the restart) -/
def crashWindowProg : Program :=
  { defs := [⟨1, 1, false, [⟨[.crash 0], .ret⟩]⟩, ⟨1, 2, false, [⟨[.emit 0 7 1 false 0, .emit 0 8 4 false 0], .ret⟩]⟩,
             ⟨1, 3, false, [⟨[.restore 0], .ret⟩]⟩],
    pre := [(⟨5, 1, 1, false, 0, 1⟩, 0, false), (⟨6, 1, 2, false, 0, 2⟩, 0, false), (⟨8, 1, 3, false, 0, 3⟩, 0, false)] }

-- non-vacuity: the event due at 7 is dropped (processed, not delivered), the one due at 10 — scheduled
-- while its target was down — is delivered
example :
    let s := run procMachine (some 20) 10 (crashWindowProg.initState true)
    s.log.map (fun e => (e.time, e.target, e.kind)) = [(5, 1, 1), (6, 1, 2), (8, 1, 3), (10, 0, 8)] ∧
    s.processed = 5 := by decide

/-! ### the process machine is a model with a crash gate -/

/-- `entity._crashed` of the scripted entities: the gate of `procMachine` consults it for the target of
    the popped event (`procCrashed`) -/
def procGate : GateModel procMachine :=
  { down := fun ps x => ps.crashed.contains x, support := fun ps => ps.crashed,
    supp := by intro ps x h; simpa using h,
    sound := by
      intro ps e h
      have h' : procCrashed ps e = true := h
      unfold procCrashed at h'
      simp only [Bool.and_eq_true] at h'
      exact h'.1 }

/-- **the trace of a program run satisfies the trace Spec** — every handler table, every pre-run
    schedule, every end time: on a finished run of the process machine (generator processes, futures,
    hooks, crash / restore actions; all entities up at the start) the judge accepts the trace the model
    writes, with one `C` / `U` line for each entity whose flag a delivery changed; with no end time
    clause 7 can at most report the known lazy-deletion grade. -/
theorem process_trace_satisfies_spec (ps : PS) (hup : ps.crashed = []) (pre : List Spec) (endT : Option Nat) (n : Nat)
    (hhalt : step procMachine endT (runFrom procMachine ps 0 pre endT n) = none)
    (hlen : (traceOf procGate.flags procMachine ps 0 pre endT n).len < 1000000000) :
    Spec.judge (traceOf procGate.flags procMachine ps 0 pre endT n) = none ∨
    (endT = none ∧ Spec.judge (traceOf procGate.flags procMachine ps 0 pre endT n)
        = some "engine/autoterm/ran-with-no-primary-pending") :=
  engine_trace_satisfies_spec_gate procGate ps 0 pre endT n (by intro x; simp [procGate, hup]) hhalt hlen

-- non-vacuity: the crash-window program above, as a trace: one `C` and one `U` line for entity 0, the event
-- due at 7 dropped at the gate, the one due at 10 delivered, the judge accepts
example :
    let s0 := crashWindowProg.initState true
    let pre := crashWindowProg.pre.map (·.1)
    step procMachine (some 20) (runFrom procMachine s0.ent 0 pre (some 20) 20) = none ∧
    (traceOf procGate.flags procMachine s0.ent 0 pre (some 20) 20).flags.map (fun f => (f.1, f.2.1)) = [(0, true), (0, false)] ∧
    Spec.judge (traceOf procGate.flags procMachine s0.ent 0 pre (some 20) 20) = none := by decide

-- the same program run from `start_time = 3` (`Program.start`): the clock starts at 3, nothing else changes — all
-- theorems about `p.initState` hold for every start clock (`init` takes it as a parameter)
example :
    let p := { crashWindowProg with start := 3 }
    (p.initState true).now = 3 ∧
    (run procMachine (some 20) 10 (p.initState true)).log.map (fun e => (e.time, e.target, e.kind))
      = [(5, 1, 1), (6, 1, 2), (8, 1, 3), (10, 0, 8)] := by decide

end HappyModel.C01
