import HappyProofs.C01.Lemmas
namespace HappyModel.C01
set_option linter.unusedVariables false

structure Inv {σ} (s : St σ) : Prop where
  fresh_heap : ∀ e ∈ s.heap, e.id < s.nextId
  fresh_log  : ∀ e ∈ s.log, e.id < s.nextId
  nodup      : (s.heap.map (·.id)).Nodup
  sorted     : LogSorted s.log
  log_le_now : ∀ d ∈ s.log, d.time ≤ s.now
  log_lt_heap : ∀ d ∈ s.log, ∀ e ∈ s.heap, s.now ≤ e.time → keyLt d e = true
  log_ne_heap : ∀ d ∈ s.log, ∀ e ∈ s.heap, d.id ≠ e.id
  prim       : s.primary = countPrimary s.heap
  notStale   : ∀ e ∈ s.heap, e.born ≤ e.time → s.now ≤ e.time
  popped_ne_heap : ∀ p ∈ s.popped, ∀ e ∈ s.heap, p.1.id ≠ e.id
  fresh_popped : ∀ p ∈ s.popped, p.1.id < s.nextId
  popped_nodup : (s.popped.map (·.1.id)).Nodup
  log_popped : ∀ e, e ∈ s.log ↔ (e, Verdict.delivered) ∈ s.popped

/-- common part of the three "skip" branches: the popped event leaves the heap, nothing is created -/
theorem inv_skip {σ} (s : St σ) (m : Ev) (v : Verdict) (hv : v ≠ .delivered) (now' : Nat)
    (hnow : s.now ≤ now') (hnowm : now' = s.now ∨ (now' = m.time ∧ ∀ e ∈ s.heap, keyLt e m = false))
    (hm : m ∈ s.heap) (a b c : Nat) (inv : Inv s) :
    Inv { s with heap := s.heap.erase m, primary := if m.daemon then s.primary else s.primary - 1,
                 now := now', processed := a, nCancelled := b, nStale := c,
                 popped := s.popped ++ [(m, v)] } := by
  have hne : ∀ e ∈ s.heap.erase m, e.id ≠ m.id := fun e he => ne_id_of_mem_erase inv.nodup hm he
  refine
    { fresh_heap := fun e he => inv.fresh_heap e (List.mem_of_mem_erase he)
      fresh_log := inv.fresh_log
      nodup := erase_ids_nodup m inv.nodup
      sorted := inv.sorted
      log_le_now := fun d hd => Nat.le_trans (inv.log_le_now d hd) hnow
      log_lt_heap := fun d hd e he hge =>
        inv.log_lt_heap d hd e (List.mem_of_mem_erase he) (Nat.le_trans hnow hge)
      log_ne_heap := fun d hd e he => inv.log_ne_heap d hd e (List.mem_of_mem_erase he)
      prim := ?_, notStale := ?_, popped_ne_heap := ?_, fresh_popped := ?_, popped_nodup := ?_,
      log_popped := ?_ }
  · have := countPrimary_erase hm
    have hp := inv.prim
    simp only []
    cases hd : m.daemon <;> simp [hd] at this ⊢ <;> omega
  · intro e he hb
    have hel := List.mem_of_mem_erase he
    have h0 := inv.notStale e hel hb
    rcases hnowm with h | ⟨h, hmin⟩
    · simp only []; omega
    · have := time_ge_of_not_keyLt (hmin e hel)
      simp only []; omega
  · intro p hp e he
    rcases List.mem_append.mp hp with hp | hp
    · exact inv.popped_ne_heap p hp e (List.mem_of_mem_erase he)
    · simp at hp; subst hp; exact (hne e he).symm
  · intro p hp
    rcases List.mem_append.mp hp with hp | hp
    · exact inv.fresh_popped p hp
    · simp at hp; subst hp; exact inv.fresh_heap m hm
  · rw [List.map_append, List.nodup_append]
    refine ⟨inv.popped_nodup, by simp, ?_⟩
    intro x hx y hy
    simp only [List.mem_map] at hx
    obtain ⟨p, hp, rfl⟩ := hx
    simp at hy; subst hy
    exact inv.popped_ne_heap p hp m hm
  · intro e
    rw [inv.log_popped e]
    simp only [List.mem_append, List.mem_singleton, Prod.mk.injEq]
    constructor
    · exact Or.inl
    · rintro (h | ⟨_, h⟩)
      · exact h
      · exact absurd h.symm hv

theorem step_preserves {σ} (mc : Machine σ) (s : St σ) (x : Ev) (xs : List Ev)
    (hheap : s.heap = x :: xs) (inv : Inv s) : Inv (stepWith mc s (minOf x xs)) := by
  have ⟨hm_mem, hm_min⟩ := pop_is_min x xs
  generalize minOf x xs = m at *
  have hm_heap : m ∈ s.heap := by rw [hheap]; exact hm_mem
  have hm_min' : ∀ y ∈ s.heap, keyLt y m = false := by rw [hheap]; exact hm_min
  unfold stepWith
  simp only []
  split
  · exact inv_skip s m .cancelled (by simp) s.now (Nat.le_refl _) (Or.inl rfl) hm_heap _ _ _ inv
  · split
    · exact inv_skip s m .stale (by simp) s.now (Nat.le_refl _) (Or.inl rfl) hm_heap _ _ _ inv
    · rename_i hnc hns
      have hnow : s.now ≤ m.time := by omega
      split
      · exact inv_skip s m .gated (by simp) m.time hnow (Or.inr ⟨rfl, hm_min'⟩) hm_heap _ _ _ inv
      · have hne : ∀ e ∈ s.heap.erase m, e.id ≠ m.id :=
          fun e he => ne_id_of_mem_erase inv.nodup hm_heap he
        have hold : ∀ e ∈ s.heap.erase m, keyLt m e = true := fun e he =>
          keyLt_of_not (hne e he) (hm_min' e (List.mem_of_mem_erase he))
        generalize mc.handle s.ent m.time m = o
        have hnew := mkEvents_id s.nextId m.time o.specs
        have hmfresh : m.id < s.nextId := inv.fresh_heap m hm_heap
        refine
          { fresh_heap := ?_, fresh_log := ?_, nodup := ?_, sorted := ?_,
            log_le_now := ?_, log_lt_heap := ?_, log_ne_heap := ?_, prim := ?_, notStale := ?_,
            popped_ne_heap := ?_, fresh_popped := ?_, popped_nodup := ?_, log_popped := ?_ }
        · intro e he
          rcases List.mem_append.mp he with he | he
          · have := inv.fresh_heap e (List.mem_of_mem_erase he); simp; omega
          · have := (hnew e he).2.1; simpa using this
        · intro e he
          rcases List.mem_append.mp he with he | he
          · have := inv.fresh_log e he; simp; omega
          · simp at he; subst he; simp; omega
        · rw [List.map_append, List.nodup_append]
          refine ⟨erase_ids_nodup m inv.nodup, mkEvents_ids_nodup _ _ _, ?_⟩
          intro a ha b hb
          simp only [List.mem_map] at ha hb
          obtain ⟨ea, hea, rfl⟩ := ha
          obtain ⟨eb, heb, rfl⟩ := hb
          have h1 := inv.fresh_heap ea (List.mem_of_mem_erase hea)
          have h2 := (hnew eb heb).1
          omega
        · apply logSorted_append_one _ _ inv.sorted
          intro d hd
          exact inv.log_lt_heap d hd m hm_heap hnow
        · intro d hd
          rcases List.mem_append.mp hd with hd | hd
          · have := inv.log_le_now d hd; simp; omega
          · simp at hd; subst hd; simp
        · intro d hd e he hge
          simp only [] at hge
          rcases List.mem_append.mp hd with hd | hd
          · have hdm : keyLt d m = true := inv.log_lt_heap d hd m hm_heap hnow
            rcases List.mem_append.mp he with he | he
            · exact keyLt_trans hdm (hold e he)
            · have hid := (hnew e he).1
              have hdf := inv.fresh_log d hd
              have := keyLt_time hdm
              unfold keyLt; simp; omega
          · simp at hd; subst hd
            rcases List.mem_append.mp he with he | he
            · exact hold e he
            · have hid := (hnew e he).1
              unfold keyLt; simp; omega
        · intro d hd e he
          rcases List.mem_append.mp hd with hd | hd
          · rcases List.mem_append.mp he with he | he
            · exact inv.log_ne_heap d hd e (List.mem_of_mem_erase he)
            · have := (hnew e he).1; have := inv.fresh_log d hd; omega
          · simp at hd; subst hd
            rcases List.mem_append.mp he with he | he
            · exact (hne e he).symm
            · have := (hnew e he).1; omega
        · have := countPrimary_erase hm_heap
          have hp := inv.prim
          rw [countPrimary_append]
          cases hd : m.daemon <;> simp [hd] at this ⊢ <;> omega
        · intro e he hb
          simp only []
          rcases List.mem_append.mp he with he | he
          · exact time_ge_of_not_keyLt (hm_min' e (List.mem_of_mem_erase he))
          · have := (hnew e he).2.2; omega
        · intro p hp e he
          rcases List.mem_append.mp hp with hp | hp
          · rcases List.mem_append.mp he with he | he
            · exact inv.popped_ne_heap p hp e (List.mem_of_mem_erase he)
            · have := (hnew e he).1; have := inv.fresh_popped p hp; omega
          · simp at hp; subst hp
            rcases List.mem_append.mp he with he | he
            · exact (hne e he).symm
            · have := (hnew e he).1; simp; omega
        · intro p hp
          rcases List.mem_append.mp hp with hp | hp
          · have := inv.fresh_popped p hp; simp; omega
          · simp at hp; subst hp; simp; omega
        · rw [List.map_append, List.nodup_append]
          refine ⟨inv.popped_nodup, by simp, ?_⟩
          intro a ha b hb
          simp only [List.mem_map] at ha
          obtain ⟨p, hp, rfl⟩ := ha
          simp at hb; subst hb
          exact inv.popped_ne_heap p hp m hm_heap
        · intro e
          simp only [List.mem_append, List.mem_singleton, Prod.mk.injEq, and_true]
          rw [inv.log_popped e]

theorem init_inv {σ} (ent : σ) (start : Nat) (pre : List Spec) : Inv (init ent start pre) := by
  have hnew := mkEvents_id 0 start pre
  refine
    { fresh_heap := ?_, fresh_log := by simp [init], nodup := mkEvents_ids_nodup _ _ _,
      sorted := by simp [init, LogSorted], log_le_now := by simp [init],
      log_lt_heap := by simp [init], log_ne_heap := by simp [init], prim := rfl, notStale := ?_,
      popped_ne_heap := by simp [init], fresh_popped := by simp [init],
      popped_nodup := by simp [init], log_popped := by simp [init] }
  · intro e he
    have := (hnew e he).2.1
    simpa [init] using this
  · intro e he hb
    have := (hnew e he).2.2
    simp only [init] at *; omega

theorem run_inv {σ} (mc : Machine σ) (endT : Option Nat) (n : Nat) (s : St σ) (inv : Inv s) :
    Inv (run mc endT n s) := by
  induction n generalizing s with
  | zero => simpa [run]
  | succ n ih =>
    unfold run
    cases hs : step mc endT s with
    | none => simpa
    | some s' =>
      simp only []
      apply ih
      unfold step at hs
      split at hs
      · simp at hs
      · rename_i x xs hheap
        split at hs
        · simp at hs; subst hs; exact step_preserves mc s x xs hheap inv
        · simp at hs

end HappyModel.C01
