import HappyProofs.C01.TraceSpec
/-!
# C01 — clauses 6 and 7 of the trace Spec on the trace of the model

* `engine_trace_no_lost_event` : on a *finished* run of a machine without crash gate, clause 6 finds
  no lost event: every created event that was live (not cancelled, not stale when created) and due
  within the horizon has a delivery line.
* `engine_trace_autoterm_grade` : with no end time, the first grade of clause 7
  (`…/ran-with-no-primary-in-heap`) never fires on a trace of the model — every delivery of an
  auto-terminating run happens while a non-daemon event sits in the heap (`continues` demands
  `primary > 0`, and `primary` counts the heap, `Inv.prim`); what can fire is the second grade
  (`…/ran-with-no-primary-pending`: the non-daemon event in the heap is a cancelled one awaiting its
  lazy deletion), the known finding `autoterm_cancelled_primary_keeps_alive`.
* `engine_trace_satisfies_spec` : the whole judge.
-/
namespace HappyModel.C01
open HappyModel.C01.Spec (Trace Created Deliv)
set_option linter.unusedVariables false
set_option linter.unusedSimpArgs false

variable {σ : Type}

theorem mkCreated_inv (p : Nat) (evs : List Ev) :
    ∀ c ∈ mkCreated p evs, ∃ e ∈ evs, c = cOf e c.pos ∧ p ≤ c.pos ∧ c.pos < p + evs.length := by
  induction evs generalizing p with
  | nil => intro c h; simp [mkCreated] at h
  | cons a r ih =>
    intro c h
    simp only [mkCreated, List.mem_cons] at h
    rcases h with rfl | h
    · exact ⟨a, by simp, rfl, Nat.le_refl _, by simp [cOf]⟩
    · obtain ⟨e, he, hc, h1, h2⟩ := ih (p + 1) c h
      exact ⟨e, by simp [he], hc, by omega, by simp only [List.length_cons]; omega⟩

theorem mkCancels_pos (p : Nat) (l : List Nat) : ∀ x ∈ mkCancels p l, x.2 < p + l.length := by
  induction l generalizing p with
  | nil => intro x h; simp [mkCancels] at h
  | cons a r ih =>
    intro x h
    simp only [mkCancels, List.mem_cons] at h
    rcases h with rfl | h
    · simp
    · have := ih (p + 1) x h; simp only [List.length_cons]; omega

theorem mkCancels_rec (p : Nat) (l : List Nat) : ∀ i ∈ l, ∃ x ∈ mkCancels p l, x.1 = i + 1 := by
  induction l generalizing p with
  | nil => intro i h; simp at h
  | cons a r ih =>
    intro i h
    rcases List.mem_cons.mp h with rfl | h
    · exact ⟨(i + 1, p), by simp [mkCancels], rfl⟩
    · obtain ⟨x, hx, hxi⟩ := ih (p + 1) i h
      exact ⟨x, by simp [mkCancels, hx], hxi⟩

theorem exists_primary_of_count (l : List Ev) (h : 0 < countPrimary l) : ∃ e ∈ l, e.daemon = false := by
  unfold countPrimary at h
  have : (l.filter (fun e => !e.daemon)) ≠ [] := by
    intro hnil; rw [hnil] at h; simp at h
  obtain ⟨e, he⟩ := List.exists_mem_of_ne_nil _ this
  have := List.mem_filter.mp he
  exact ⟨e, this.1, by simpa using this.2⟩

/-- the second part of the link: positions, completeness of the creation / cancel lines, what became
    of every popped event, and (auto-termination) the non-daemon event that sat in the heap at each
    delivery -/
structure TJ (mc : Machine σ) (endT : Option Nat) (s : St σ) (t : Trace) : Prop where
  pos_c : ∀ c ∈ t.created, c.pos < t.len
  pos_x : ∀ x ∈ t.cancels, x.2 < t.len
  cre_exact : ∀ c ∈ t.created, ∃ e, c = cOf e c.pos ∧ (e ∈ s.heap ∨ ∃ v, (e, v) ∈ s.popped)
  canc_rec : ∀ i ∈ s.cancelled, ∃ x ∈ t.cancels, x.1 = i + 1
  pop_stale : ∀ e, (e, Verdict.stale) ∈ s.popped → e.time < e.born
  pop_canc : ∀ e, (e, Verdict.cancelled) ∈ s.popped → e.id ∈ s.cancelled
  pop_gated : ∀ e, (e, Verdict.gated) ∈ s.popped → ∃ ent, mc.crashed ent e = true
  h7 : endT = none → ∀ d ∈ t.delivs, ∃ c ∈ t.created, c.daemon = false ∧ c.pos < d.pos ∧
      (∀ d' ∈ t.delivs, d'.tag = c.tag → d.pos ≤ d'.pos) ∧ c.clock ≤ c.time ∧ d.clock ≤ c.time

/-- the three pops that run no handler -/
theorem TJ_skip (mc : Machine σ) (endT : Option Nat) (s : St σ) (t : Trace) (m : Ev) (v : Verdict)
    (now' a b c prim : Nat) (hm : m ∈ s.heap) (h : TJ mc endT s t)
    (hs : v = .stale → m.time < m.born) (hc : v = .cancelled → m.id ∈ s.cancelled)
    (hg : v = .gated → ∃ ent, mc.crashed ent m = true) (hv : v ≠ .delivered) :
    TJ mc endT { s with heap := s.heap.erase m, primary := prim, now := now', processed := a, nCancelled := b,
                        nStale := c, popped := s.popped ++ [(m, v)] } t := by
  refine
    { pos_c := h.pos_c, pos_x := h.pos_x, cre_exact := ?_, canc_rec := h.canc_rec, pop_stale := ?_,
      pop_canc := ?_, pop_gated := ?_, h7 := h.h7 }
  · intro c hc'
    obtain ⟨e, hce, hwhere⟩ := h.cre_exact c hc'
    refine ⟨e, hce, ?_⟩
    rcases hwhere with hh | ⟨w, hw⟩
    · by_cases hem : e = m
      · right; exact ⟨v, by simp [hem]⟩
      · left; exact (List.mem_erase_of_ne hem).mpr hh
    · right; exact ⟨w, List.mem_append_left _ hw⟩
  · intro e he
    rcases List.mem_append.mp he with he | he
    · exact h.pop_stale e he
    · simp only [List.mem_singleton, Prod.mk.injEq] at he
      obtain ⟨rfl, hv'⟩ := he
      exact hs hv'.symm
  · intro e he
    rcases List.mem_append.mp he with he | he
    · exact h.pop_canc e he
    · simp only [List.mem_singleton, Prod.mk.injEq] at he
      obtain ⟨rfl, hv'⟩ := he
      exact hc hv'.symm
  · intro e he
    rcases List.mem_append.mp he with he | he
    · exact h.pop_gated e he
    · simp only [List.mem_singleton, Prod.mk.injEq] at he
      obtain ⟨rfl, hv'⟩ := he
      exact hg hv'.symm

theorem TJ_step (fl : σ → σ → List (Nat × Bool)) (mc : Machine σ) (endT : Option Nat) (s : St σ) (t : Trace) (m : Ev)
    (hm : m ∈ s.heap)
    (hmin : ∀ y ∈ s.heap, keyLt y m = false) (hcont : continues endT s = true)
    (inv : Inv s) (ti : TI s t) (h : TJ mc endT s t) :
    TJ mc endT (stepWith mc s m) (traceStep fl mc s t m) := by
  unfold stepWith traceStep
  simp only []
  split
  · rename_i hc
    exact TJ_skip mc endT s t m .cancelled s.now _ _ _ _ hm h (by simp) (fun _ => by simpa using hc) (by simp) (by simp)
  · split
    · rename_i hnc hst
      refine TJ_skip mc endT s t m .stale s.now _ _ _ _ hm h (fun _ => ?_) (by simp) (by simp) (by simp)
      rcases Nat.lt_or_ge m.time m.born with hlt | hge
      · exact hlt
      · have := inv.notStale m hm hge; omega
    · rename_i hnc hns
      have hnow : s.now ≤ m.time := by omega
      split
      · rename_i hg
        exact TJ_skip mc endT s t m .gated m.time _ _ _ _ hm h (by simp) (by simp) (fun _ => ⟨s.ent, hg⟩) (by simp)
      · generalize mc.handle s.ent m.time m = o
        have hnew := mkEvents_id s.nextId m.time o.specs
        have hlen : (mkEvents s.nextId m.time o.specs).length = o.specs.length := by
          generalize s.nextId = k
          induction o.specs generalizing k with
          | nil => rfl
          | cons a r ih => simp [mkEvents, ih]
        refine
          { pos_c := ?_, pos_x := ?_, cre_exact := ?_, canc_rec := ?_, pop_stale := ?_, pop_canc := ?_,
            pop_gated := ?_, h7 := ?_ }
        · intro c hc
          rcases List.mem_append.mp hc with hc | hc
          · have := h.pos_c c hc; simp only []; omega
          · obtain ⟨_, _, _, _, h2⟩ := mkCreated_inv _ _ c hc
            simp only []; omega
        · intro x hx
          rcases List.mem_append.mp hx with hx | hx
          · have := h.pos_x x hx; simp only []; omega
          · have := mkCancels_pos _ _ x hx; simp only []; omega
        · intro c hc
          rcases List.mem_append.mp hc with hc | hc
          · obtain ⟨e, hce, hwhere⟩ := h.cre_exact c hc
            refine ⟨e, hce, ?_⟩
            rcases hwhere with hh | ⟨w, hw⟩
            · by_cases hem : e = m
              · right; exact ⟨.delivered, by simp [hem]⟩
              · left; exact List.mem_append_left _ ((List.mem_erase_of_ne hem).mpr hh)
            · right; exact ⟨w, List.mem_append_left _ hw⟩
          · obtain ⟨e, he, hce, _, _⟩ := mkCreated_inv _ _ c hc
            exact ⟨e, hce, Or.inl (List.mem_append_right _ he)⟩
        · intro i hi
          rcases List.mem_append.mp hi with hi | hi
          · obtain ⟨x, hx, hxi⟩ := h.canc_rec i hi
            exact ⟨x, List.mem_append_left _ hx, hxi⟩
          · obtain ⟨x, hx, hxi⟩ := mkCancels_rec (t.len + 1 + (mkEvents s.nextId m.time o.specs).length) _ i hi
            exact ⟨x, List.mem_append_right _ hx, hxi⟩
        · intro e he
          rcases List.mem_append.mp he with he | he
          · exact h.pop_stale e he
          · simp at he
        · intro e he
          rcases List.mem_append.mp he with he | he
          · exact List.mem_append_left _ (h.pop_canc e he)
          · simp at he
        · intro e he
          rcases List.mem_append.mp he with he | he
          · exact h.pop_gated e he
          · simp at he
        · intro hnone d hd
          rcases List.mem_append.mp hd with hd | hd
          · obtain ⟨c, hc, h1, h2, h3, h4, h5⟩ := h.h7 hnone d hd
            refine ⟨c, List.mem_append_left _ hc, h1, h2, ?_, h4, h5⟩
            intro d' hd' htag
            rcases List.mem_append.mp hd' with hd' | hd'
            · exact h3 d' hd' htag
            · simp only [List.mem_singleton] at hd'
              subst hd'
              have := ti.pos_d d hd
              simp only []; omega
          · simp only [List.mem_singleton] at hd
            subst hd
            -- the loop went on, so a non-daemon event sits in the heap (possibly the popped one)
            have hprim : 0 < countPrimary s.heap := by
              have hc := hcont
              unfold continues at hc
              rw [hnone] at hc
              simp at hc
              rw [← inv.prim]; exact hc.2
            obtain ⟨e, he, hed⟩ := exists_primary_of_count s.heap hprim
            obtain ⟨p, hp⟩ := ti.cre_heap e he
            refine ⟨cOf e p, List.mem_append_left _ hp, hed, ?_, ?_, ?_, ?_⟩
            · have := h.pos_c _ hp; simpa [cOf] using this
            · intro d' hd' htag
              rcases List.mem_append.mp hd' with hd' | hd'
              · -- an earlier delivery line of `e`: impossible, `e` is still in the heap
                exfalso
                have hk : dkey d' ∈ s.log.map ekey := by
                  rw [← ti.delivs_eq]; exact List.mem_map.mpr ⟨d', hd', rfl⟩
                obtain ⟨e', he', hk'⟩ := List.mem_map.mp hk
                have : d'.tag = e'.id + 1 := (congrArg (·.1) hk').symm
                have hid : e'.id = e.id := by simp [cOf] at htag; omega
                exact inv.log_ne_heap e' he' e he hid
              · simp only [List.mem_singleton] at hd'
                subst hd'
                exact Nat.le_refl _
            · have := ti.born_heap e he
              have := time_ge_of_not_keyLt (hmin e he)
              simp only [cOf]; omega
            · have := time_ge_of_not_keyLt (hmin e he)
              simpa [cOf] using this

theorem TJ_init (mc : Machine σ) (endT : Option Nat) (ent : σ) (start : Nat) (pre : List Spec) :
    TJ mc endT (init ent start pre) (initTrace start pre) := by
  have hlen : (mkEvents 0 start pre).length = pre.length := by
    generalize (0 : Nat) = k
    induction pre generalizing k with
    | nil => rfl
    | cons a r ih => simp [mkEvents, ih]
  refine
    { pos_c := ?_, pos_x := by simp [initTrace], cre_exact := ?_, canc_rec := by simp [init],
      pop_stale := by simp [init], pop_canc := by simp [init], pop_gated := by simp [init],
      h7 := by simp [initTrace] }
  · intro c hc
    obtain ⟨_, _, _, _, h2⟩ := mkCreated_inv 0 _ c hc
    simp only [initTrace]; omega
  · intro c hc
    obtain ⟨e, he, hce, _, _⟩ := mkCreated_inv 0 _ c hc
    exact ⟨e, hce, Or.inl he⟩

theorem TJ_run (fl : σ → σ → List (Nat × Bool)) (mc : Machine σ) (endT : Option Nat) (n : Nat) (s : St σ) (t : Trace)
    (inv : Inv s) (ti : TI s t) (h : TJ mc endT s t) : TJ mc endT (run mc endT n s) (traceRun fl mc endT n s t) := by
  induction n generalizing s t with
  | zero => simpa [run, traceRun]
  | succ n ih =>
    unfold run traceRun step
    cases hh : s.heap with
    | nil => simpa
    | cons x xs =>
      simp only []
      by_cases hc : continues endT s = true
      · simp only [hc, if_true]
        have hmem : minOf x xs ∈ s.heap := by rw [hh]; exact (pop_is_min x xs).1
        have hmin : ∀ y ∈ s.heap, keyLt y (minOf x xs) = false := by rw [hh]; exact (pop_is_min x xs).2
        exact ih _ _ (step_preserves mc s x xs hh inv) (TI_step fl mc s t _ hmem inv ti)
          (TJ_step fl mc endT s t _ hmem hmin hc inv ti h)
      · simp only [hc, Bool.false_eq_true, if_false]
        exact h

/-- the link for the complete trace of a run from the initial state -/
theorem traceOf_linked (fl : σ → σ → List (Nat × Bool)) (mc : Machine σ) (ent : σ) (start : Nat) (pre : List Spec) (endT : Option Nat) (n : Nat) :
    Inv (runFrom mc ent start pre endT n) ∧
    TI (runFrom mc ent start pre endT n) (traceOf fl mc ent start pre endT n) ∧
    TJ mc endT (runFrom mc ent start pre endT n) (traceOf fl mc ent start pre endT n) := by
  have inv := run_inv mc endT n _ (init_inv ent start pre)
  have ti := TI_run fl mc endT n _ _ (init_inv ent start pre) (TI_init ent start pre)
  have tj := TJ_run fl mc endT n _ _ (init_inv ent start pre) (TI_init ent start pre) (TJ_init mc endT ent start pre)
  exact ⟨inv,
    ⟨ti.delivs_eq, ti.pos_d, ti.canc, ti.canc_after, ti.cre_nodup, ti.cre_fresh, ti.cre_heap, ti.cre_log,
      ti.born_heap, ti.born_log⟩,
    ⟨tj.pos_c, tj.pos_x, tj.cre_exact, tj.canc_rec, tj.pop_stale, tj.pop_canc, tj.pop_gated, tj.h7⟩⟩

theorem all_daemon_of_count_zero (l : List Ev) (h : countPrimary l = 0) : ∀ e ∈ l, e.daemon = true := by
  intro e he
  cases hd : e.daemon with
  | true => rfl
  | false =>
    exfalso
    unfold countPrimary at h
    have : e ∈ l.filter (fun e => !e.daemon) := List.mem_filter.mpr ⟨he, by simp [hd]⟩
    have hl := List.length_pos_of_mem this
    omega

/-- **clause 7, first grade, never fires on the model**: in an auto-terminating run every delivery
    happens while a non-daemon event created earlier and not yet delivered sits in the heap, due no
    earlier than the delivery's clock (possibly a cancelled event awaiting its lazy deletion).  The
    judge can therefore only report the second grade, `…/ran-with-no-primary-pending` — the known
    finding of the code's lazy deletion — never `…/ran-with-no-primary-in-heap`. -/
theorem engine_trace_autoterm_grade (fl : σ → σ → List (Nat × Bool)) (mc : Machine σ) (ent : σ) (start : Nat) (pre : List Spec) (n : Nat) :
    Spec.judgeAutoterm (traceOf fl mc ent start pre none n) = none ∨
    Spec.judgeAutoterm (traceOf fl mc ent start pre none n) = some "engine/autoterm/ran-with-no-primary-pending" := by
  obtain ⟨inv, ti, tj⟩ := traceOf_linked fl mc ent start pre none n
  generalize traceOf fl mc ent start pre none n = t at *
  have hfirst : t.delivs.find? (fun d => !Spec.primaryInHeap t d && !Spec.laterFutureResume t d) = none := by
    rw [List.find?_eq_none]
    intro d hd
    obtain ⟨c, hc, h1, h2, h3, h4, h5⟩ := tj.h7 rfl d hd
    have hin : Spec.primaryInHeap t d = true := by
      unfold Spec.primaryInHeap
      rw [List.any_eq_true]
      refine ⟨c, hc, ?_⟩
      have hund : Spec.undelivered t c d = true := by
        unfold Spec.undelivered Spec.tagged
        simp only [Bool.and_eq_true, decide_eq_true_eq, Bool.not_eq_true', List.any_eq_false, List.mem_filter]
        refine ⟨h2, ?_⟩
        intro d' hd'
        have := h3 d' hd'.1
        simp only [Bool.and_eq_true, beq_iff_eq, decide_eq_true_eq, not_and]
        intro htag
        have := this htag
        omega
      simp [h1, hund, h4, h5]
    simp [hin]
  unfold Spec.judgeAutoterm
  rw [hfirst]
  simp only []
  cases t.delivs.find? (fun d => !Spec.primaryPending t d && !Spec.laterFutureResume t d) with
  | none => left; rfl
  | some _ => right; rfl

/-- clause 6, given that the events dropped at the gate are exempt (`Spec.mayBeDown`): every created event that is live — not cancelled by the end of the run, not
    stamped before the clock at which it was created — and due within the horizon (`≤ end_time`;
    with no end time: every non-daemon event, and every daemon event due before the final clock) has
    a delivery line.  `hlen` is the judge's own horizon for "cancelled by the end of the run". -/
theorem no_lost_event_core (fl : σ → σ → List (Nat × Bool)) (mc : Machine σ) (ent : σ) (start : Nat) (pre : List Spec)
    (endT : Option Nat) (n : Nat)
    (hgate : ∀ e, (e, Verdict.gated) ∈ (runFrom mc ent start pre endT n).popped →
      ∀ c ∈ (traceOf fl mc ent start pre endT n).created, c = cOf e c.pos →
        Spec.mayBeDown (traceOf fl mc ent start pre endT n) c = true)
    (hhalt : step mc endT (runFrom mc ent start pre endT n) = none)
    (hlen : (traceOf fl mc ent start pre endT n).len < 1000000000) :
    Spec.lostEvent (traceOf fl mc ent start pre endT n) = none := by
  obtain ⟨inv, ti, tj⟩ := traceOf_linked fl mc ent start pre endT n
  have hend : (traceOf fl mc ent start pre endT n).endT = endT := rfl
  have hclk : (traceOf fl mc ent start pre endT n).endClock = (runFrom mc ent start pre endT n).now := rfl
  generalize traceOf fl mc ent start pre endT n = t at *
  generalize runFrom mc ent start pre endT n = s at *
  unfold Spec.lostEvent
  rw [List.find?_eq_none]
  intro c hc
  obtain ⟨e, hce, hwhere⟩ := tj.cre_exact c hc
  have hflds : c.tag = e.id + 1 ∧ c.time = e.time ∧ c.clock = e.born ∧ c.daemon = e.daemon := by
    rw [hce]; simp [cOf]
  obtain ⟨f1, f2, f3, f4⟩ := hflds
  rcases hwhere with hheap | ⟨v, hv⟩
  · -- still pending when the run stopped: beyond the horizon, or not live
    by_cases hlive : e.born ≤ e.time
    · have hnow := inv.notStale e hheap hlive
      have hne : s.heap ≠ [] := List.ne_nil_of_mem hheap
      unfold step at hhalt
      cases hh : s.heap with
      | nil => exact absurd hh hne
      | cons x xs =>
        rw [hh] at hhalt
        simp only [] at hhalt
        have hcont : continues endT s = false := by
          by_cases hc' : continues endT s = true
          · simp [hc'] at hhalt
          · simpa using hc'
        unfold continues at hcont
        rw [hh] at hcont
        cases hE : endT with
        | some te =>
          rw [hE] at hcont
          simp at hcont
          simp only [hend, hE, f2]
          have : ¬ e.time ≤ te := by omega
          simp [this]
        | none =>
          rw [hE] at hcont
          simp at hcont
          have hd := all_daemon_of_count_zero s.heap (by rw [← inv.prim]; exact hcont) e hheap
          simp only [hend, hE, hclk, f2, f4, hd]
          have : ¬ e.time < s.now := by omega
          simp [this]
    · have : Spec.live t c 1000000000 = false := by
        unfold Spec.live
        have : ¬ c.clock ≤ c.time := by rw [f2, f3]; exact hlive
        simp [this]
      simp [this]
  · cases v with
    | delivered =>
      have hlog := (inv.log_popped e).mpr hv
      have hk : ekey e ∈ t.delivs.map dkey := by rw [ti.delivs_eq]; exact List.mem_map.mpr ⟨e, hlog, rfl⟩
      obtain ⟨d, hd, hdk⟩ := List.mem_map.mp hk
      have htag : d.tag = e.id + 1 := congrArg (·.1) hdk
      have : Spec.delivered t c.tag = true := by
        unfold Spec.delivered Spec.tagged
        rw [List.any_eq_true]
        exact ⟨d, List.mem_filter.mpr ⟨hd, by simp [htag]⟩, by simp [htag, f1]⟩
      simp [this]
    | cancelled =>
      obtain ⟨x, hx, hxi⟩ := tj.canc_rec e.id (tj.pop_canc e hv)
      have hpx := tj.pos_x x hx
      have : Spec.live t c 1000000000 = false := by
        unfold Spec.live Spec.cancelledBefore
        have hany : (t.cancels.any fun c' => c'.1 == c.tag && decide (c'.2 < 1000000000)) = true := by
          rw [List.any_eq_true]
          exact ⟨x, hx, by simp [hxi, f1]; omega⟩
        simp [hany]
      simp [this]
    | stale =>
      have hs := tj.pop_stale e hv
      have : Spec.live t c 1000000000 = false := by
        unfold Spec.live
        have : ¬ c.clock ≤ c.time := by rw [f2, f3]; omega
        simp [this]
      simp [this]
    | gated =>
      have := hgate e hv c hc hce
      simp [this]

/-- **clause 6 finds no lost event on a finished run of the model** (machines without crash gate; for
    machines with one see `engine_trace_no_lost_event_gate`): every created event that is live — not
    cancelled by the end of the run, not stamped before the clock at which it was created — and due within
    the horizon (`≤ end_time`; with no end time: every non-daemon event, and every daemon event due before
    the final clock) has a delivery line.  `hlen` is the judge's own horizon for "cancelled by the end of
    the run". -/
theorem engine_trace_no_lost_event (fl : σ → σ → List (Nat × Bool)) (mc : Machine σ) (ent : σ) (start : Nat)
    (pre : List Spec) (endT : Option Nat) (n : Nat) (hcr : ∀ x e, mc.crashed x e = false)
    (hhalt : step mc endT (runFrom mc ent start pre endT n) = none)
    (hlen : (traceOf fl mc ent start pre endT n).len < 1000000000) :
    Spec.lostEvent (traceOf fl mc ent start pre endT n) = none := by
  refine no_lost_event_core fl mc ent start pre endT n ?_ hhalt hlen
  intro e he
  obtain ⟨x, hx⟩ := (traceOf_linked fl mc ent start pre endT n).2.2.pop_gated e he
  rw [hcr x e] at hx
  exact absurd hx (by simp)

/-- **the trace of the model satisfies the trace Spec**: for every machine without crash gate, pre-run
    schedule, start clock and end time, on a finished run the judge `Spec.judge` accepts the trace the
    model writes — clauses 1–6 raise nothing; with no end time clause 7 can only report its second
    grade, the known finding `…/ran-with-no-primary-pending` (lazy deletion of cancelled events), never
    `…/ran-with-no-primary-in-heap`. -/
theorem engine_trace_satisfies_spec (fl : σ → σ → List (Nat × Bool)) (mc : Machine σ) (ent : σ) (start : Nat) (pre : List Spec)
    (endT : Option Nat) (n : Nat) (hcr : ∀ x e, mc.crashed x e = false)
    (hhalt : step mc endT (runFrom mc ent start pre endT n) = none)
    (hlen : (traceOf fl mc ent start pre endT n).len < 1000000000) :
    Spec.judge (traceOf fl mc ent start pre endT n) = none ∨
    (endT = none ∧
      Spec.judge (traceOf fl mc ent start pre endT n) = some "engine/autoterm/ran-with-no-primary-pending") := by
  have h15 := engine_trace_order_clauses fl mc ent start pre endT n
  have h6 := engine_trace_no_lost_event fl mc ent start pre endT n hcr hhalt hlen
  unfold Spec.judge Spec.judgeLive
  rw [h15, h6]
  simp only []
  cases hE : endT with
  | some te =>
    left
    have : (traceOf fl mc ent start pre (some te) n).endT = some te := rfl
    simp [this]
  | none =>
    have : (traceOf fl mc ent start pre none n).endT = none := rfl
    simp only [this]
    rcases engine_trace_autoterm_grade fl mc ent start pre n with h | h
    · left; exact h
    · right; exact ⟨trivial, h⟩

/-- a model with ties between pre-run and in-run events, a cancel and an event stamped in the past -/
def demoTraceMachine : Machine Unit :=
  { handle := fun _ now e =>
      { ent := (),
        specs := if e.kind = 0 then [⟨now + 1, 0, 9, false, 0, 0⟩, ⟨now - 1, 0, 8, false, 0, 0⟩] else [],
        cancels := if e.kind = 1 then [2] else [] } }

-- non-vacuity: the hypotheses of `engine_trace_satisfies_spec` hold on a finished bounded run with ties,
-- a cancelled and a stale event, and the judge accepts its trace (4 deliveries, 6 created events)
example :
    let pre : List Spec := [⟨1, 0, 0, false, 0, 0⟩, ⟨2, 0, 1, false, 0, 0⟩, ⟨2, 0, 2, false, 0, 0⟩, ⟨30, 0, 3, false, 0, 0⟩]
    step demoTraceMachine (some 10) (runFrom demoTraceMachine () 0 pre (some 10) 20) = none ∧
    (traceOf (fun _ _ => []) demoTraceMachine () 0 pre (some 10) 20).len < 1000000000 ∧
    (traceOf (fun _ _ => []) demoTraceMachine () 0 pre (some 10) 20).delivs.length = 4 ∧
    (traceOf (fun _ _ => []) demoTraceMachine () 0 pre (some 10) 20).created.length = 6 ∧
    Spec.judge (traceOf (fun _ _ => []) demoTraceMachine () 0 pre (some 10) 20) = none := by decide

-- the second grade of clause 7 does occur on the model (the known finding): the handler of the first event
-- cancels the only other non-daemon event; the daemon tick at t = 10 is still delivered
example :
    let mc : Machine Unit := { handle := fun _ _ e => { ent := (), cancels := if e.kind = 0 then [2] else [] } }
    let pre : List Spec := [⟨5, 0, 0, false, 0, 0⟩, ⟨10, 0, 1, true, 0, 0⟩, ⟨50, 0, 2, false, 0, 0⟩]
    step mc none (runFrom mc () 0 pre none 20) = none ∧
    Spec.judge (traceOf (fun _ _ => []) mc () 0 pre none 20) = some "engine/autoterm/ran-with-no-primary-pending" := by decide

end HappyModel.C01
