import HappyModel.C01.Engine
namespace HappyModel.C01

theorem minOf_mem (m : Ev) (l : List Ev) : minOf m l = m ∨ minOf m l ∈ l := by
  induction l generalizing m with
  | nil => simp [minOf]
  | cons x xs ih =>
    unfold minOf
    split
    · rcases ih x with h | h
      · right; simp [h]
      · right; simp [h]
    · rcases ih m with h | h
      · left; exact h
      · right; simp [h]

theorem keyLt_trans {a b c : Ev} (h1 : keyLt a b = true) (h2 : keyLt b c = true) : keyLt a c = true := by
  unfold keyLt at *; simp at *; omega

theorem keyLt_total (a b : Ev) (h : a.id ≠ b.id) : keyLt a b = true ∨ keyLt b a = true := by
  unfold keyLt; simp; omega

theorem keyLt_irrefl (a : Ev) : keyLt a a = false := by unfold keyLt; simp

theorem minOf_le (m : Ev) (l : List Ev) :
    keyLt m (minOf m l) = false ∧ ∀ y ∈ l, keyLt y (minOf m l) = false := by
  induction l generalizing m with
  | nil => simp [minOf, keyLt]
  | cons x xs ih =>
    unfold minOf
    split
    · rename_i hx
      have ⟨h1, h2⟩ := ih x
      refine ⟨?_, ?_⟩
      · cases hm : keyLt m (minOf x xs) with
        | false => rfl
        | true =>
          have := keyLt_trans hx hm
          simp [this] at h1
      · intro y hy
        simp at hy
        rcases hy with rfl | hy
        · exact h1
        · exact h2 y hy
    · rename_i hx
      have ⟨h1, h2⟩ := ih m
      refine ⟨h1, ?_⟩
      intro y hy
      simp at hy
      rcases hy with rfl | hy
      · cases hm : keyLt y (minOf m xs) with
        | false => rfl
        | true =>
          exfalso
          rcases minOf_mem m xs with e | e
          · rw [e] at hm; simp [hm] at hx
          · unfold keyLt at *; simp at *; omega
      · exact h2 y hy

theorem pop_is_min (x : Ev) (xs : List Ev) :
    minOf x xs ∈ x :: xs ∧ ∀ y ∈ x :: xs, keyLt y (minOf x xs) = false := by
  constructor
  · rcases minOf_mem x xs with h | h
    · rw [h]; simp
    · simp [h]
  · intro y hy
    have ⟨h1, h2⟩ := minOf_le x xs
    rcases List.mem_cons.mp hy with rfl | hy
    · exact h1
    · exact h2 y hy

theorem keyLt_of_not {a b : Ev} (hne : a.id ≠ b.id) (h : keyLt a b = false) : keyLt b a = true := by
  rcases keyLt_total a b hne with h' | h'
  · simp [h] at h'
  · exact h'

theorem keyLt_time {a b : Ev} (h : keyLt a b = true) : a.time ≤ b.time := by
  unfold keyLt at h; simp at h; omega

theorem time_ge_of_not_keyLt {a b : Ev} (h : keyLt a b = false) : b.time ≤ a.time := by
  unfold keyLt at h; simp at h; omega

/-- strict sortedness of the delivery log by (time, id) -/
def LogSorted : List Ev → Prop
  | [] => True
  | [_] => True
  | a :: b :: r => keyLt a b = true ∧ LogSorted (b :: r)

theorem logSorted_append_one (l : List Ev) (e : Ev)
    (hs : LogSorted l) (hlast : ∀ d ∈ l, keyLt d e = true) : LogSorted (l ++ [e]) := by
  induction l with
  | nil => simp [LogSorted]
  | cons a t ih =>
    cases t with
    | nil => simp [LogSorted]; exact hlast a (by simp)
    | cons b r =>
      simp [LogSorted] at hs ⊢
      refine ⟨hs.1, ?_⟩
      have := ih hs.2 (fun d hd => hlast d (by simp at hd ⊢; right; exact hd))
      simpa using this

/-- sortedness gives the pairwise statement -/
theorem logSorted_pairwise (l : List Ev) (h : LogSorted l) : l.Pairwise (fun a b => keyLt a b = true) := by
  induction l with
  | nil => simp
  | cons a t ih =>
    cases t with
    | nil => simp
    | cons b r =>
      simp only [LogSorted] at h
      have iht := ih h.2
      rw [List.pairwise_cons]
      refine ⟨?_, iht⟩
      intro c hc
      rcases List.mem_cons.mp hc with rfl | hc
      · exact h.1
      · rw [List.pairwise_cons] at iht
        exact keyLt_trans h.1 (iht.1 c hc)

theorem mkEvents_id (n now : Nat) (specs : List Spec) :
    ∀ e ∈ mkEvents n now specs, n ≤ e.id ∧ e.id < n + specs.length ∧ e.born = now := by
  induction specs generalizing n with
  | nil => simp [mkEvents]
  | cons s ss ih =>
    intro e he
    simp [mkEvents] at he
    rcases he with rfl | he
    · simp
    · have := ih (n+1) e he; simp; omega

theorem mkEvents_ids_nodup (n now : Nat) (specs : List Spec) :
    ((mkEvents n now specs).map (·.id)).Nodup := by
  induction specs generalizing n with
  | nil => simp [mkEvents]
  | cons s ss ih =>
    simp only [mkEvents, List.map_cons, List.nodup_cons]
    refine ⟨?_, ih (n+1)⟩
    intro hmem
    simp only [List.mem_map] at hmem
    obtain ⟨e, he, hid⟩ := hmem
    have := (mkEvents_id (n+1) now ss e he).1
    omega

theorem heap_nodup {l : List Ev} (h : (l.map (·.id)).Nodup) : l.Nodup := by
  unfold List.Nodup at *
  rw [List.pairwise_map] at h
  exact h.imp (fun hab heq => hab (by rw [heq]))

theorem erase_ids_nodup {l : List Ev} (m : Ev) (h : (l.map (·.id)).Nodup) :
    ((l.erase m).map (·.id)).Nodup := by
  have hs : (l.erase m).Sublist l := List.erase_sublist
  exact (hs.map _).nodup h

theorem id_inj_of_nodup {l : List Ev} (h : (l.map (·.id)).Nodup) {a b : Ev}
    (ha : a ∈ l) (hb : b ∈ l) (hid : a.id = b.id) : a = b := by
  induction l with
  | nil => simp at ha
  | cons x xs ih =>
    simp only [List.map_cons, List.nodup_cons, List.mem_map, not_exists, not_and] at h
    simp at ha hb
    rcases ha with rfl | ha <;> rcases hb with rfl | hb
    · rfl
    · exact absurd hid.symm (h.1 b hb)
    · exact absurd hid (h.1 a ha)
    · exact ih h.2 ha hb

theorem ne_id_of_mem_erase {l : List Ev} {m e : Ev} (h : (l.map (·.id)).Nodup)
    (hm : m ∈ l) (he : e ∈ l.erase m) : e.id ≠ m.id := by
  intro hid
  have hnd := heap_nodup h
  have hel : e ∈ l := List.mem_of_mem_erase he
  have : e = m := id_inj_of_nodup h hel hm hid
  subst this
  exact (List.Nodup.not_mem_erase hnd) he

theorem countPrimary_append (a b : List Ev) : countPrimary (a ++ b) = countPrimary a + countPrimary b := by
  simp [countPrimary, List.filter_append]

theorem countPrimary_erase {l : List Ev} {m : Ev} (hm : m ∈ l) :
    countPrimary l = countPrimary (l.erase m) + (if m.daemon then 0 else 1) := by
  induction l with
  | nil => simp at hm
  | cons x xs ih =>
    by_cases hx : x = m
    · subst hx
      simp only [List.erase_cons_head]
      simp only [countPrimary, List.filter_cons]
      cases x.daemon <;> simp
    · have hm' : m ∈ xs := by
        rcases List.mem_cons.mp hm with h | h
        · exact absurd h.symm hx
        · exact h
      have hne : ¬ (x == m) = true := by simp [hx]
      rw [List.erase_cons_tail hne]
      have := ih hm'
      simp only [countPrimary, List.filter_cons] at this ⊢
      cases x.daemon <;> simp <;> omega

end HappyModel.C01
