import HappyProofs.C17.MLTGhost
/-!
`MLT` run level, part A: the shape of `_install` / the anti-entropy merge loop, `n` and `lww` are constant
along a run, and every action preserves `TInv P` (versions only enter through client writes).
-/
namespace HappyModel.C17.MLT
open HappyModel.C17.ML (Version Msg Proc MKind PKind vcGet dominates vcMerge vcTick Coherent vlt)
open HappyModel.C17.MLM (Join)

def setMsg (s : St) (mid : Nat) (m : Msg) : St := { s with msgs := upd s.msgs mid (some m) }
def setVer (s : St) (i k : Nat) (w : Version) : St :=
  { s with store := upd2 s.store i k (some w.val), vers := upd2 s.vers i k (some w),
           order := if (s.order i).contains k then s.order else upd s.order i (s.order i ++ [k]) }

theorem install_shape (s : St) (i k : Nat) (v : Version) :
    (install s i k v).1 = s ∨
      (takesR s (s.vers i k) v = true ∧ (install s i k v).1 = setVer s i k (pickR s (s.vers i k) v)) := by
  unfold install; split
  · exact Or.inr ⟨‹_›, rfl⟩
  · exact Or.inl rfl

theorem install_frame (s : St) (i k : Nat) (v : Version) :
    (install s i k v).1.n = s.n ∧ (install s i k v).1.lww = s.lww ∧ (install s i k v).1.np = s.np ∧
    (install s i k v).1.procs = s.procs ∧ (install s i k v).1.nm = s.nm ∧ (install s i k v).1.msgs = s.msgs := by
  unfold install; split <;> exact ⟨rfl, rfl, rfl, rfl, rfl, rfl⟩

theorem aeLoop_fst (s : St) (i : Nat) : ∀ items, (aeLoop s i items).1 = s
  | [] => rfl
  | (k, v) :: rest => by
    unfold aeLoop; split
    · rfl
    · exact aeLoop_fst s i rest

theorem aeLoop_snd_sub (s : St) (i : Nat) : ∀ items kv, kv ∈ (aeLoop s i items).2 → kv ∈ items
  | [], kv, h => by simp [aeLoop] at h
  | (k, v) :: rest, kv, h => by
    unfold aeLoop at h; split at h
    · exact h
    · exact List.mem_cons_of_mem _ (aeLoop_snd_sub s i rest kv h)

/-- what `aeContinue` does: handler `pid` becomes `p'` (same identity, items among `items`), and an
`AntiEntropyResponse` carrying the current versions may be sent by a request handler -/
theorem aeContinue_shape (s : St) (pid : Nat) (p : Proc) (items : List (Nat × Version)) :
    ∃ p' : Proc, p'.kind = p.kind ∧ p'.node = p.node ∧ p'.src = p.src ∧ p'.op = p.op ∧ p'.key = p.key ∧
      p'.ver = p.ver ∧ (∀ kv, kv ∈ p'.items → kv ∈ items) ∧
      (aeContinue s pid p items = s.setProc pid p' ∨
        (p.kind = .aereq ∧ aeContinue s pid p items =
          (s.send { kind := .aeresp, src := p.node, dst := p.src, items := versionsOf s p.node }).setProc pid p')) := by
  unfold aeContinue
  have e1 := aeLoop_fst s p.node items
  have e2 := aeLoop_snd_sub s p.node items
  rcases hl : aeLoop s p.node items with ⟨s1, left⟩
  rw [hl] at e1 e2
  simp only at e1 e2 ⊢
  subst e1
  cases left with
  | cons x xs =>
    simp only
    exact ⟨{ p with items := x :: xs, waiting := true }, rfl, rfl, rfl, rfl, rfl, rfl, e2, Or.inl rfl⟩
  | nil =>
    simp only
    split
    · rename_i hc
      exact ⟨{ p with items := [], waiting := false, sent := true }, rfl, rfl, rfl, rfl, rfl, rfl,
        (fun kv h => by cases h), Or.inr ⟨hc.1, rfl⟩⟩
    · exact ⟨{ p with items := [], waiting := false, fin := true }, rfl, rfl, rfl, rfl, rfl, rfl,
        (fun kv h => by cases h), Or.inl rfl⟩

theorem foldl_send_ind (I : St → Prop) (mk : Nat → Msg) (hI : ∀ s j, I s → I (s.send (mk j))) :
    ∀ (l : List Nat) (s : St), I s → I (l.foldl (fun s j => s.send (mk j)) s)
  | [], _, h => h
  | j :: l, s, h => by
    simp only [List.foldl_cons]
    exact foldl_send_ind I mk hI l _ (hI s j h)

theorem foldl_frame (mk : Nat → Msg) (l : List Nat) (s : St) :
    (l.foldl (fun s j => s.send (mk j)) s).n = s.n ∧ (l.foldl (fun s j => s.send (mk j)) s).lww = s.lww ∧
    (l.foldl (fun s j => s.send (mk j)) s).np = s.np ∧ (l.foldl (fun s j => s.send (mk j)) s).procs = s.procs ∧
    (l.foldl (fun s j => s.send (mk j)) s).vers = s.vers :=
  foldl_send_ind (fun s' => s'.n = s.n ∧ s'.lww = s.lww ∧ s'.np = s.np ∧ s'.procs = s.procs ∧ s'.vers = s.vers)
    mk (fun _ _ h => h) l s ⟨rfl, rfl, rfl, rfl, rfl⟩

/-! ### `n` and `lww` never change -/

theorem aeContinue_nl (s : St) (pid : Nat) (p : Proc) (items : List (Nat × Version)) :
    (aeContinue s pid p items).n = s.n ∧ (aeContinue s pid p items).lww = s.lww := by
  obtain ⟨p', _, _, _, _, _, _, _, h | ⟨_, h⟩⟩ := aeContinue_shape s pid p items <;> rw [h] <;> exact ⟨rfl, rfl⟩

theorem step_nl (s : St) (a : Act) : (step s a).n = s.n ∧ (step s a).lww = s.lww := by
  cases a with
  | tick t => exact ⟨rfl, rfl⟩
  | cw op node k v => simp only [step]; split <;> exact ⟨rfl, rfl⟩
  | cr op node k => simp only [step]; split <;> exact ⟨rfl, rfl⟩
  | ae node peer => simp only [step]; split <;> exact ⟨rfl, rfl⟩
  | dl mid =>
    show (deliver s mid).n = s.n ∧ (deliver s mid).lww = s.lww
    unfold deliver
    cases h0 : s.msgs mid with
    | none => exact ⟨rfl, rfl⟩
    | some m =>
      simp only
      by_cases hd : m.delivered = true
      · simp only [hd, if_true]; exact ⟨rfl, rfl⟩
      · have hd' : m.delivered = false := by simpa using hd
        simp only [hd', Bool.false_eq_true, if_false]
        cases hk : m.kind with
        | repl => simp only; split <;> exact ⟨rfl, rfl⟩
        | aereq => simp only; exact aeContinue_nl _ _ _ _
        | aeresp => simp only; exact aeContinue_nl _ _ _ _
  | rs pid =>
    show (resume s pid).n = s.n ∧ (resume s pid).lww = s.lww
    unfold resume
    cases h0 : s.procs pid with
    | none => exact ⟨rfl, rfl⟩
    | some p0 =>
      simp only
      by_cases hf : p0.fin = true
      · simp only [hf, if_true]; exact ⟨rfl, rfl⟩
      · have hf' : p0.fin = false := by simpa using hf
        simp only [hf', Bool.false_eq_true, if_false]
        have ae : ∀ k v rest (p : Proc), (aeContinue (install s p0.node k v).1 pid p rest).n = s.n ∧
            (aeContinue (install s p0.node k v).1 pid p rest).lww = s.lww := by
          intro k v rest p
          have a := aeContinue_nl (install s p0.node k v).1 pid p rest
          have b := install_frame s p0.node k v
          exact ⟨a.1.trans b.1, a.2.trans b.2.1⟩
        cases hk : p0.kind with
        | write =>
          simp only
          by_cases hs : p0.seg = 1
          · simp only [hs, if_true]
            have b := install_frame s p0.node p0.key p0.ver
            have f := foldl_frame
              (fun j => ({ kind := .repl, src := p0.node, dst := j, key := p0.key, ver := p0.ver } : Msg))
              (peersOf s p0.node) (install s p0.node p0.key p0.ver).1
            exact ⟨f.1.trans b.1, f.2.1.trans b.2.1⟩
          · simp only [hs, if_false]; exact ⟨rfl, rfl⟩
        | repl =>
          simp only
          have b := install_frame s p0.node p0.key p0.ver
          exact ⟨b.1, b.2.1⟩
        | read => exact ⟨rfl, rfl⟩
        | ae => exact ⟨rfl, rfl⟩
        | aereq =>
          simp only
          split
          · exact ⟨rfl, rfl⟩
          · split
            · split
              · exact ae _ _ _ _
              · exact ⟨rfl, rfl⟩
            · exact ⟨rfl, rfl⟩
        | aeresp =>
          simp only
          split
          · exact ⟨rfl, rfl⟩
          · split
            · split
              · exact ae _ _ _ _
              · exact ⟨rfl, rfl⟩
            · exact ⟨rfl, rfl⟩
        | other => exact ⟨rfl, rfl⟩

theorem step_n (s : St) (a : Act) : (step s a).n = s.n := (step_nl s a).1
theorem step_lww (s : St) (a : Act) : (step s a).lww = s.lww := (step_nl s a).2

theorem run_n (s : St) : ∀ acts, (run s acts).n = s.n
  | [] => rfl
  | a :: as => by rw [run, run_n (step s a) as, step_n]

theorem run_lww (s : St) : ∀ acts, (run s acts).lww = s.lww
  | [] => rfl
  | a :: as => by rw [run, run_lww (step s a) as, step_lww]

/-! ### `TInv`: elementary state changes -/

theorem tinv_frame {P} {s s' : St} (h : TInv P s) (e1 : s'.np = s.np) (e2 : s'.procs = s.procs)
    (e3 : s'.nm = s.nm) (e4 : s'.msgs = s.msgs) (e5 : s'.vers = s.vers) (e6 : s'.store = s.store) : TInv P s' :=
  ⟨by rw [e1, e2]; exact h.freshP, by rw [e3, e4]; exact h.freshM, by rw [e5]; exact h.versP,
   by rw [e5, e6]; exact h.store, by rw [e4]; exact h.msgP, by rw [e2]; exact h.procP⟩

theorem TInv.procs_lt {P} {s : St} (h : TInv P s) {pid : Nat} {p : Proc} (h0 : s.procs pid = some p) :
    pid < s.np := by
  apply Decidable.byContradiction; intro hn
  rw [h.freshP pid (by omega)] at h0; cases h0

theorem TInv.msgs_lt {P} {s : St} (h : TInv P s) {mid : Nat} {m : Msg} (h0 : s.msgs mid = some m) :
    mid < s.nm := by
  apply Decidable.byContradiction; intro hn
  rw [h.freshM mid (by omega)] at h0; cases h0

theorem tinv_spawn {P} {s : St} (h : TInv P s) (p : Proc)
    (hp : (p.kind = .write ∨ p.kind = .repl) → P p.key p.ver) (hi : ∀ kv, kv ∈ p.items → P kv.1 kv.2) :
    TInv P (s.spawn p) := by
  refine ⟨?_, h.freshM, h.versP, h.store, h.msgP, ?_⟩
  · intro pid hp'
    show upd s.procs s.np (some p) pid = none
    have : s.np + 1 ≤ pid := hp'
    rw [upd_other _ _ _ _ (by omega)]; exact h.freshP pid (by omega)
  · intro pid q hq
    have hq' : (if pid = s.np then some p else s.procs pid) = some q := hq
    split at hq'
    · cases hq'; exact ⟨hp, hi⟩
    · exact h.procP pid q hq'

theorem tinv_setProc {P} {s : St} (h : TInv P s) {pid : Nat} (hlt : pid < s.np) (p : Proc)
    (hp : (p.kind = .write ∨ p.kind = .repl) → P p.key p.ver) (hi : ∀ kv, kv ∈ p.items → P kv.1 kv.2) :
    TInv P (s.setProc pid p) := by
  refine ⟨?_, h.freshM, h.versP, h.store, h.msgP, ?_⟩
  · intro pid1 hp'
    show upd s.procs pid (some p) pid1 = none
    have : s.np ≤ pid1 := hp'
    rw [upd_other _ _ _ _ (by omega)]; exact h.freshP pid1 this
  · intro pid1 q hq
    have hq' : (if pid1 = pid then some p else s.procs pid1) = some q := hq
    split at hq'
    · cases hq'; exact ⟨hp, hi⟩
    · exact h.procP pid1 q hq'

theorem tinv_send {P} {s : St} (h : TInv P s) (m : Msg)
    (hr : m.kind = .repl → P m.key m.ver) (hi : ∀ kv, kv ∈ m.items → P kv.1 kv.2) : TInv P (s.send m) := by
  refine ⟨h.freshP, ?_, h.versP, h.store, ?_, h.procP⟩
  · intro mid hp'
    show upd s.msgs s.nm (some m) mid = none
    have : s.nm + 1 ≤ mid := hp'
    rw [upd_other _ _ _ _ (by omega)]; exact h.freshM mid (by omega)
  · intro mid q hq
    have hq' : (if mid = s.nm then some m else s.msgs mid) = some q := hq
    split at hq'
    · cases hq'; exact ⟨hr, hi⟩
    · exact h.msgP mid q hq'

theorem tinv_setMsg {P} {s : St} (h : TInv P s) {mid : Nat} (hlt : mid < s.nm) (m : Msg)
    (hr : m.kind = .repl → P m.key m.ver) (hi : ∀ kv, kv ∈ m.items → P kv.1 kv.2) :
    TInv P (setMsg s mid m) := by
  refine ⟨h.freshP, ?_, h.versP, h.store, ?_, h.procP⟩
  · intro mid1 hp'
    show upd s.msgs mid (some m) mid1 = none
    have : s.nm ≤ mid1 := hp'
    rw [upd_other _ _ _ _ (by omega)]; exact h.freshM mid1 this
  · intro mid1 q hq
    have hq' : (if mid1 = mid then some m else s.msgs mid1) = some q := hq
    split at hq'
    · cases hq'; exact ⟨hr, hi⟩
    · exact h.msgP mid1 q hq'

theorem tinv_setVer {P} {s : St} (h : TInv P s) (i k : Nat) (w : Version) (hw : P k w) :
    TInv P (setVer s i k w) := by
  refine ⟨h.freshP, h.freshM, ?_, ?_, h.msgP, h.procP⟩
  · intro i' k' v hv
    have hv' : upd2 s.vers i k (some w) i' k' = some v := hv
    rw [upd2_apply] at hv'
    split at hv'
    · rename_i e; cases hv'; rw [e.2]; exact hw
    · exact h.versP i' k' v hv'
  · intro i' k'
    show upd2 s.store i k (some w.val) i' k' = (upd2 s.vers i k (some w) i' k').map (·.val)
    rw [upd2_apply, upd2_apply]
    split
    · rfl
    · exact h.store i' k'

theorem pickR_lww {s : St} (hl : s.lww = true) (e : Option Version) (inc : Version) : pickR s e inc = inc := by
  unfold pickR; rw [if_pos hl]

theorem takesR_lww {s : St} (hl : s.lww = true) (e : Option Version) (inc : Version) :
    takesR s e inc = ML.takes s.n e inc := by
  unfold takesR; rw [if_pos hl]

theorem tinv_install {P} {s : St} (h : TInv P s) (hl : s.lww = true) (i k : Nat) (inc : Version)
    (hinc : P k inc) : TInv P (install s i k inc).1 := by
  rcases install_shape s i k inc with e | ⟨_, e⟩
  · rw [e]; exact h
  · rw [e, pickR_lww hl]; exact tinv_setVer h i k inc hinc

theorem versionsOf_P {P} {s : St} (h : TInv P s) (i : Nat) : ∀ kv, kv ∈ versionsOf s i → P kv.1 kv.2 := by
  intro kv hkv
  unfold versionsOf at hkv
  rw [List.mem_filterMap] at hkv
  obtain ⟨k, _, hk⟩ := hkv
  cases hv : s.vers i k with
  | none => rw [hv] at hk; cases hk
  | some v =>
    rw [hv] at hk; cases hk
    exact h.versP i k v hv

theorem tinv_aeContinue {P} {s : St} {pid : Nat} {p : Proc} {items : List (Nat × Version)} (h : TInv P s)
    (hlt : pid < s.np) (hk : p.kind = .aereq ∨ p.kind = .aeresp) (hi : ∀ kv, kv ∈ items → P kv.1 kv.2) :
    TInv P (aeContinue s pid p items) := by
  obtain ⟨p', k1, _, _, _, _, _, sub, e | ⟨_, e⟩⟩ := aeContinue_shape s pid p items
  · rw [e]
    exact tinv_setProc h hlt p' (fun e' => by rw [k1] at e'; rcases hk with a | a <;> rw [a] at e' <;> simp at e')
      (fun kv hkv => hi kv (sub kv hkv))
  · rw [e]
    exact tinv_setProc (tinv_send h _ (fun e' => by simp at e') (versionsOf_P h p.node)) hlt p'
      (fun e' => by rw [k1] at e'; rcases hk with a | a <;> rw [a] at e' <;> simp at e')
      (fun kv hkv => hi kv (sub kv hkv))

end HappyModel.C17.MLT
