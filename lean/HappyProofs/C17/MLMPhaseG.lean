import HappyProofs.C17.MLMPhaseF
/-!
Run-level composition, part G: the ghost part `GI` of the phase invariant (what the knowledge lists
of `krun` mean), its frame lemma, and what `kstep` computes.
-/
namespace HappyModel.C17.MLM
open HappyModel.C17.ML (Version Msg Proc MKind PKind vcGet dominates vcMerge vcTick)

/-- `v` is a copy, under the common clock of key `k`, of a value that includes leader `h`'s initial one -/
def Wit (sp : St) (h k : Nat) (v : Version) : Prop :=
  (∀ i, i < sp.n → ∃ u, sp.vers i k = some u ∧ SameClock sp.n u v) ∧ Le sp.join (x0 sp h k) v.val

def Lc (sp s : St) (g : GK) (b : Nat) : Prop :=
  ∀ h, h ∈ g.k b → ∀ k, Le sp.join (x0 sp h k) (valD (s.vers b k))

def SMc (sp : St) (g : GK) (mid : Nat) (m : Msg) : Prop :=
  ∀ h, h ∈ g.sk mid → ∀ k, x0 sp h k = 0 ∨ ∃ v, (k, v) ∈ m.items ∧ Wit sp h k v

def SPc (sp s : St) (g : GK) (p : Proc) : Prop :=
  ∀ h, h ∈ g.sk p.op → ∀ k, Le sp.join (x0 sp h k) (valD (s.vers p.node k)) ∨
    (p.sent = false ∧ ∃ v, (k, v) ∈ p.items ∧ Wit sp h k v)

structure GI (sp s : St) (g : GK) : Prop where
  l : ∀ b, b < sp.n → Lc sp s g b
  sm : ∀ mid m, s.msgs mid = some m → m.kind = .aereq → m.delivered = false → SMc sp g mid m
  spr : ∀ pid p, s.procs pid = some p → p.kind = .aereq → p.fin = false → SPc sp s g p

theorem wit_holder (sp : St) (V : Nat → Nat → Option Version) (i : Nat) (hi : i < sp.n) (hcl : ClAt sp V i)
    (h k : Nat) (v : Version) (hw : Wit sp h k v) : ∃ u', V i k = some u' ∧ SameClock sp.n u' v := by
  obtain ⟨u, hu, hs⟩ := hw.1 i hi
  obtain ⟨c1, c2⟩ := hcl k
  rw [hu] at c1 c2
  cases hv : V i k with
  | none => rw [hv] at c2; cases c2
  | some u' =>
    refine ⟨u', rfl, fun c hc => ?_⟩
    have := c1 c hc
    rw [hv, clk_some, clk_some] at this
    rw [this]; exact hs c hc

theorem wit_takes (sp : St) (V : Nat → Nat → Option Version) (i : Nat) (hi : i < sp.n) (hcl : ClAt sp V i)
    (h k : Nat) (v : Version) (hw : Wit sp h k v) : takes sp.n (V i k) v = true := by
  obtain ⟨u', hu', hs⟩ := wit_holder sp V i hi hcl h k v hw
  exact takes_of_same sp.n _ v u' hu' hs

theorem le_zero_eq {j : Join} {a : Nat} (h : Le j a 0) : a = 0 := by
  unfold Le at h
  rw [joinVal_comm, joinVal_zero] at h
  exact h

/-- after a merge loop: a witness is still in the list, it is never skipped -/
theorem after_loop (sp : St) (V : Nat → Nat → Option Version) (node : Nat) (hN : node < sp.n)
    (hcl : ClAt sp V node) (items left : List (Nat × Version))
    (skip : ∀ kv, kv ∈ items → kv ∈ left ∨ takes sp.n (V node kv.1) kv.2 = false) (h k : Nat)
    (pre : Le sp.join (x0 sp h k) (valD (V node k)) ∨ x0 sp h k = 0 ∨ ∃ v, (k, v) ∈ items ∧ Wit sp h k v) :
    Le sp.join (x0 sp h k) (valD (V node k)) ∨ ∃ v, (k, v) ∈ left ∧ Wit sp h k v := by
  rcases pre with p | p | ⟨v, hv, hw⟩
  · exact Or.inl p
  · left; rw [p]; exact zero_le _ _
  · rcases skip (k, v) hv with m | m
    · exact Or.inr ⟨v, m, hw⟩
    · have := wit_takes sp V node hN hcl h k v hw
      rw [this] at m; cases m

theorem GI_frame {sp s s' : St} {g g' : GK} (h : GI sp s g) (haux : AuxInv s) (hn : s.n = sp.n)
    (mono : Mono sp s s')
    (hL : ∀ b, b < sp.n → g'.k b = g.k b ∨ Lc sp s' g' b)
    (hM : ∀ mid m, s'.msgs mid = some m → m.kind = .aereq → m.delivered = false →
      (s.msgs mid = some m ∧ g'.sk mid = g.sk mid) ∨ SMc sp g' mid m)
    (hP : ∀ pid p, s'.procs pid = some p → p.kind = .aereq → p.fin = false →
      (s.procs pid = some p ∧ g'.sk p.op = g.sk p.op) ∨ SPc sp s' g' p) : GI sp s' g' := by
  refine ⟨?_, ?_, ?_⟩
  · intro b hb
    rcases hL b hb with e | e
    · intro x hx k
      rw [e] at hx
      exact le_trans (h.l b hb x hx k) (mono b hb k)
    · exact e
  · intro mid m hm hk hd
    rcases hM mid m hm hk hd with ⟨e1, e2⟩ | e
    · intro x hx k
      rw [e2] at hx
      exact h.sm mid m e1 hk hd x hx k
    · exact e
  · intro pid p hp hk hf
    rcases hP pid p hp hk hf with ⟨e1, e2⟩ | e
    · intro x hx k
      rw [e2] at hx
      have hN : p.node < sp.n := by rw [← hn]; exact (haux.procN pid p e1 (Or.inl hk)).1
      rcases h.spr pid p e1 hk hf x hx k with r | r
      · exact Or.inl (le_trans r (mono p.node hN k))
      · exact Or.inr r
    · exact e

/-! ### what `kstep` computes -/

theorem kstep_none (s : St) (g : GK) (a : Act) (hw : isWR s a = false) (hne : ∀ node peer, a ≠ .ae node peer)
    (hf : finishedReq s a = none) : kstep s g a = g := by
  unfold kstep
  rw [hw]
  cases a with
  | ae node peer => exact absurd rfl (hne node peer)
  | tick t => simp only [Bool.false_eq_true, if_false, hf]
  | cw op node k v => simp only [Bool.false_eq_true, if_false, hf]
  | cr op node k => simp only [Bool.false_eq_true, if_false, hf]
  | dl mid => simp only [Bool.false_eq_true, if_false, hf]
  | rs pid => simp only [Bool.false_eq_true, if_false, hf]

theorem kstep_some (s : St) (g : GK) (a : Act) (hw : isWR s a = false) (hne : ∀ node peer, a ≠ .ae node peer)
    (b mid : Nat) (hf : finishedReq s a = some (b, mid)) :
    kstep s g a = { g with k := upd g.k b (g.k b ++ g.sk mid) } := by
  unfold kstep
  rw [hw]
  cases a with
  | ae node peer => exact absurd rfl (hne node peer)
  | tick t => simp only [Bool.false_eq_true, if_false, hf]
  | cw op node k v => simp only [Bool.false_eq_true, if_false, hf]
  | cr op node k => simp only [Bool.false_eq_true, if_false, hf]
  | dl mid => simp only [Bool.false_eq_true, if_false, hf]
  | rs pid => simp only [Bool.false_eq_true, if_false, hf]

theorem finishedReq_dl (s : St) (mid : Nat) (p' : Proc) (hp : (step s (.dl mid)).procs s.np = some p') :
    finishedReq s (.dl mid) = if p'.kind = .aereq ∧ p'.fin = true then some (p'.node, p'.op) else none := by
  simp only [finishedReq, hp]

theorem finishedReq_dl_none (s : St) (mid : Nat) (hp : (step s (.dl mid)).procs s.np = none) :
    finishedReq s (.dl mid) = none := by
  simp only [finishedReq, hp]

theorem finishedReq_rs (s : St) (pid : Nat) (p0 p' : Proc) (h0 : s.procs pid = some p0)
    (hp : (step s (.rs pid)).procs pid = some p') :
    finishedReq s (.rs pid) =
      if p0.fin = false ∧ p'.kind = .aereq ∧ p'.fin = true then some (p'.node, p'.op) else none := by
  simp only [finishedReq, h0, hp]

theorem finishedReq_rs_same (s : St) (pid : Nat) (hp : (step s (.rs pid)).procs pid = s.procs pid) :
    finishedReq s (.rs pid) = none := by
  cases h0 : s.procs pid with
  | none => simp only [finishedReq, h0]
  | some p0 =>
    rw [h0] at hp
    rw [finishedReq_rs s pid p0 p0 h0 hp]
    cases hf : p0.fin <;> simp

end HappyModel.C17.MLM
