import HappyProofs.C17.MLTPhaseD
/-!
Anti-entropy phase on a topology, part E: the phase invariant along `krun`, and the result — in a run
segment without write / `Replicate` handler steps, under a resolver that returns one of its inputs,
complete knowledge (`KComplete`, what `Spec.gossipComplete` evaluates) implies that all leaders hold the
same versions and the same store.
-/
namespace HappyModel.C17.MLT
open HappyModel.C17.ML (Version Msg Proc MKind PKind vcGet dominates vcMerge vcTick Coherent vlt takes_iff_lt
  vlt_trans vlt_total)
open HappyModel.C17.MLM (GK KComplete)

theorem GI_step {P : Nat → Version → Prop} (sp s : St) (hc : ∀ k, Coherent sp.n (P k))
    (hP0 : ∀ h k v, sp.vers h k = some v → P k v) (g : GK) (a : Act) (hs : SI P sp s) (hg : GI sp s g)
    (hw : isWR s a = false) (hs' : SI P sp (step s a)) (mono : Mono s (step s a)) :
    GI sp (step s a) (kstep s g a) := by
  cases a with
  | tick t =>
    rw [kstep_none s g _ hw (fun _ _ e => by cases e) rfl]
    exact GI_quiet hg mono (fun _ _ hm _ _ => hm) (fun _ _ hp _ _ => hp)
  | cw op node k v => simp [isWR] at hw
  | cr op node k =>
    rw [kstep_none s g _ hw (fun _ _ e => by cases e) rfl]
    by_cases hn : node ≥ s.n
    · have e : step s (.cr op node k) = s.fail "no-such-node" := by simp only [step, hn, if_true]
      refine GI_quiet hg mono (fun _ _ hm _ _ => by rw [e] at hm; exact hm)
        (fun _ _ hp _ _ => by rw [e] at hp; exact hp)
    · have e : step s (.cr op node k) = s.spawn { kind := .read, node := node, key := k, op := op } := by
        simp only [step, hn, if_false]
      refine GI_quiet hg mono (fun _ _ hm _ _ => by rw [e] at hm; exact hm) ?_
      intro pid q hq hk _
      rw [e] at hq
      have hq' : upd s.procs s.np (some { kind := .read, node := node, key := k, op := op }) pid = some q := hq
      rw [upd_apply] at hq'
      split at hq'
      · cases hq'; cases hk
      · exact hq'
  | dl mid => exact GI_dl sp s hc hP0 g mid hs hg hw mono
  | rs pid => exact GI_rs sp s hc hP0 g pid hs hg hw hs' mono
  | ae node peer =>
    by_cases hcnd : node ≥ s.n ∨ peer ≥ s.n ∨ (!(peersOf s node).contains peer) = true
    · have hc' : ¬(node < s.n ∧ peer < s.n ∧ (peersOf s node).contains peer = true) := by
        rintro ⟨a1, a2, a3⟩
        rcases hcnd with h | h | h
        · omega
        · omega
        · rw [a3] at h; cases h
      have e : step s (.ae node peer) = s.fail "bad-anti-entropy" := by
        simp only [step]; rw [if_pos hcnd]
      have ek : kstep s g (.ae node peer) = g := by
        simp only [kstep, isWR, Bool.false_eq_true, if_false, if_neg hc']
      rw [ek]
      exact GI_quiet hg mono (fun _ _ hm _ _ => by rw [e] at hm; exact hm)
        (fun _ _ hp _ _ => by rw [e] at hp; exact hp)
    · have hc' : node < s.n ∧ peer < s.n ∧ (peersOf s node).contains peer = true := by
        refine ⟨?_, ?_, ?_⟩
        · rcases Nat.lt_or_ge node s.n with x | x
          · exact x
          · exact absurd (Or.inl x) hcnd
        · rcases Nat.lt_or_ge peer s.n with x | x
          · exact x
          · exact absurd (Or.inr (Or.inl x)) hcnd
        · cases hx : (peersOf s node).contains peer with
          | true => rfl
          | false => exact absurd (Or.inr (Or.inr (by rw [hx]; rfl))) hcnd
      have e : step s (.ae node peer) =
          (s.send { kind := .aereq, src := node, dst := peer, items := versionsOf s node, hash := s.store node }).spawn
            { kind := .ae, node := node } := by
        simp only [step]; rw [if_neg hcnd]
      have ek : kstep s g (.ae node peer) = { g with sk := upd g.sk s.nm (g.k node) } := by
        simp only [kstep, isWR, Bool.false_eq_true, if_false, if_pos hc']
      rw [ek]
      refine GI_tick hs.aux hg node peer (by rw [← hs.n]; exact hc'.1) (by rw [e]; rfl) (by rw [e]; rfl) ?_
      intro pid q hq hk _
      rw [e] at hq
      have hq' : upd s.procs s.np (some { kind := .ae, node := node }) pid = some q := hq
      rw [upd_apply] at hq'
      split at hq'
      · cases hq'; cases hk
      · exact hq'

theorem SI_init {P : Nat → Version → Prop} (sp : St) (hl : sp.lww = true) (hT : TInv P sp) (hA : AuxInv sp)
    (hS : SubInv sp) : SI P sp sp :=
  ⟨hT, hA, hS, rfl, hl, fun b hb _ u hu => ⟨b, hb, u, hu, ML.vlt_irrefl u⟩⟩

theorem GI_init (sp : St) : GI sp sp GK.reset := by
  refine ⟨?_, ?_, ?_⟩
  · intro b _ x hx k v hv
    have : x = b := by simpa [GK.reset] using hx
    subst this
    exact ⟨v, hv, ML.vlt_irrefl v⟩
  · intro mid m _ _ _ x hx
    simp [GK.reset] at hx
  · intro pid p _ _ _ x hx
    simp [GK.reset] at hx

theorem krun_P2 {P : Nat → Version → Prop}
    (FT : ∀ s a, s.lww = true → isWR s a = false → TInv P s → TInv P (step s a))
    (FA : ∀ s a, AuxInv s → TInv P s → AuxInv (step s a))
    (FS : ∀ s a, s.lww = true → (∀ k, Coherent s.n (P k)) → TInv P s → SubInv s → SubInv (step s a))
    (Fn : ∀ s a, (step s a).n = s.n) (Fl : ∀ s a, (step s a).lww = s.lww)
    (sp : St) (hc : ∀ k, Coherent sp.n (P k)) (hP0 : ∀ h k v, sp.vers h k = some v → P k v) :
    ∀ (acts : List Act) (s : St) (g : GK), SI P sp s → GI sp s g → noWR s acts = true →
      SI P sp (krun s g acts).1 ∧ GI sp (krun s g acts).1 (krun s g acts).2
  | [], _, _, hs, hg, _ => ⟨hs, hg⟩
  | a :: as, s, g, hs, hg, hno => by
    have hno' : (!isWR s a && noWR (step s a) as) = true := hno
    rw [Bool.and_eq_true] at hno'
    have hw : isWR s a = false := by simpa using hno'.1
    obtain ⟨hs', mono⟩ := SI_step FT FA FS Fn Fl sp s hc a hs hw
    have hg' := GI_step sp s hc hP0 g a hs hg hw hs' mono
    exact krun_P2 FT FA FS Fn Fl sp hc hP0 as (step s a) (kstep s g a) hs' hg' hno'.2

/-- **anti-entropy phase, last-writer-wins on any topology: complete knowledge ⇒ the leaders agree** -/
theorem phase2_converges {P : Nat → Version → Prop}
    (FT : ∀ s a, s.lww = true → isWR s a = false → TInv P s → TInv P (step s a))
    (FA : ∀ s a, AuxInv s → TInv P s → AuxInv (step s a))
    (FS : ∀ s a, s.lww = true → (∀ k, Coherent s.n (P k)) → TInv P s → SubInv s → SubInv (step s a))
    (Fn : ∀ s a, (step s a).n = s.n) (Fl : ∀ s a, (step s a).lww = s.lww)
    (sp : St) (hl : sp.lww = true)
    (hc : ∀ k, Coherent sp.n (P k)) (hT : TInv P sp) (hA : AuxInv sp) (hS : SubInv sp)
    (acts : List Act) (hno : noWR sp acts = true)
    (hk : KComplete sp.n (krun sp GK.reset acts).2) (i j k : Nat) (hi : i < sp.n) (hj : j < sp.n) :
    (run sp acts).vers i k = (run sp acts).vers j k ∧ (run sp acts).store i k = (run sp acts).store j k := by
  have hP0 : ∀ h k v, sp.vers h k = some v → P k v := hT.versP
  obtain ⟨hs, hg⟩ := krun_P2 FT FA FS Fn Fl sp hc hP0 acts sp GK.reset (SI_init sp hl hT hA hS) (GI_init sp) hno
  rw [krun_fst] at hs hg
  generalize run sp acts = s at hs hg
  generalize (krun sp GK.reset acts).2 = g at hk hg
  have claim : ∀ a b, a < sp.n → b < sp.n → ∀ u, s.vers a k = some u →
      ∃ u', s.vers b k = some u' ∧ ¬ vlt u' u := by
    intro a b ha hb u hu
    obtain ⟨h, hh, x, hx, hxu⟩ := hs.u a ha k u hu
    obtain ⟨u', e, hux⟩ := hg.l b hb h (hk b hb h hh) k x hx
    exact ⟨u', e, nlt_trans sp.n (P k) (hc k) u' x u (hP0 h k x hx) (hs.tinv.versP _ _ _ hu) hux hxu⟩
  have hv : s.vers i k = s.vers j k := by
    cases hvi : s.vers i k with
    | none =>
      cases hvj : s.vers j k with
      | none => rfl
      | some u' =>
        obtain ⟨u'', e, _⟩ := claim j i hj hi u' hvj
        rw [hvi] at e; cases e
    | some u =>
      obtain ⟨u', e1, h1⟩ := claim i j hi hj u hvi
      obtain ⟨u'', e2, h2⟩ := claim j i hj hi u' e1
      rw [hvi] at e2; cases e2
      rw [e1]
      rcases vlt_total sp.n (P k) (hc k) u u' (hs.tinv.versP _ _ _ hvi) (hs.tinv.versP _ _ _ e1) with t | t | t
      · exact absurd t h2
      · rw [t]
      · exact absurd t h1
  refine ⟨hv, ?_⟩
  rw [hs.tinv.store i k, hs.tinv.store j k, hv]

end HappyModel.C17.MLT
