import HappyProofs.C17.PBStep2
/-! Preservation of the invariant: resuming a handler. -/
namespace HappyModel.C17.PB

/-- assemble `Inv s'` when one process record is replaced and messages only grow -/
theorem inv_assemble (s s' : St) (pid : Nat) (p p' : Proc) (h : Inv s)
    (hp : s.procs pid = some p) (hprocs : s'.procs = upd s.procs pid (some p')) (hnp : s'.np = s.np)
    (hk : p'.kind = p.kind) (hseq : p'.seq = p.seq) (hop : p'.op = p.op) (hsq : s'.seq = s.seq)
    (rep : s'.repaired = true) (app_le : s'.applied ≤ s'.seq)
    (msgs_none : ∀ mid, s'.nm ≤ mid → s'.msgs mid = none)
    (msg_ok : ∀ mid m, s'.msgs mid = some m → m.kind = .repl → ReplMsg s' m)
    (bk_ok : ∀ b k, s'.kseq b k ≤ s'.applied ∧ (s'.kseq b k = 0 → s'.store (b + 1) k = none) ∧
      (s'.kseq b k ≠ 0 → s'.wk (s'.kseq b k) = k ∧ s'.store (b + 1) k = some (s'.wv (s'.kseq b k))))
    (prim_ok : ∀ k, s'.store 0 k =
      (if lastFor s'.wk s'.applied k = 0 then none else some (s'.wv (lastFor s'.wk s'.applied k))))
    (repl_others : ∀ x q, x ≠ pid → s.procs x = some q → q.kind = .repl → ReplProc s' q)
    (write_others : ∀ x q, x ≠ pid → s.procs x = some q → q.kind = .write → WriteProc s' q)
    (self_w : p.kind = .write → WriteProc s' p') (self_r : p.kind = .repl → ReplProc s' p')
    (hdel : ∀ mid m', s'.msgs mid = some m' → m'.delivered = true →
      ∃ m, s.msgs mid = some m ∧ m.delivered = true ∧ m.kind = m'.kind) : Inv s' := by
  obtain ⟨h1, h2, h3, h4, h5, h6, h7, h8, h9, h10, h11, h12⟩ := h
  have hlt : pid < s.np := by
    by_cases hh : pid < s.np
    · exact hh
    · rw [h3 pid (by omega)] at hp; cases hp
  have hself : s'.procs pid = some p' := by rw [hprocs, upd_same]
  have hoth : ∀ x, x ≠ pid → s'.procs x = s.procs x := by
    intro x hx; rw [hprocs, upd_other _ _ _ _ hx]
  refine ⟨rep, app_le, ?_, msgs_none, msg_ok, bk_ok, ?_, ?_, ?_, ?_, ?_, prim_ok⟩
  · intro x hx
    rw [hnp] at hx
    rw [hoth x (by omega)]; exact h3 x hx
  · intro x q hq hqk
    by_cases hx : x = pid
    · subst hx; rw [hself] at hq; cases hq
      exact self_r (by rw [← hk]; exact hqk)
    · rw [hoth x hx] at hq; exact repl_others x q hx hq hqk
  · intro x q hq hqk
    by_cases hx : x = pid
    · subst hx; rw [hself] at hq; cases hq
      exact self_w (by rw [← hk]; exact hqk)
    · rw [hoth x hx] at hq; exact write_others x q hx hq hqk
  · intro x q x' q' hq hq' hqk hqk' hs
    by_cases hx : x = pid <;> by_cases hx' : x' = pid
    · omega
    · subst hx; rw [hself] at hq; cases hq
      rw [hoth x' hx'] at hq'
      exact h9 _ p _ q' hp hq' (by rw [← hk]; exact hqk) hqk' (by omega)
    · subst hx'; rw [hself] at hq'; cases hq'
      rw [hoth x hx] at hq
      exact h9 _ q _ p hq hp hqk (by rw [← hk]; exact hqk') (by omega)
    · rw [hoth x hx] at hq; rw [hoth x' hx'] at hq'
      exact h9 _ _ _ _ hq hq' hqk hqk' hs
  · intro q hq1 hq2
    rw [hsq] at hq2
    obtain ⟨x, r, hx, hrk, hrs⟩ := h10 q hq1 hq2
    by_cases hxp : x = pid
    · subst hxp; rw [hp] at hx; cases hx
      exact ⟨x, p', hself, by rw [hk]; exact hrk, by rw [hseq]; exact hrs⟩
    · exact ⟨x, r, by rw [hoth x hxp]; exact hx, hrk, hrs⟩
  · intro mid m' hm' hmk hmd
    obtain ⟨m, e1, e2, e3⟩ := hdel mid m' hm' hmd
    obtain ⟨x, r, hx, hrk, hrs⟩ := h11 mid m e1 (by rw [e3]; exact hmk) e2
    by_cases hxp : x = pid
    · subst hxp; rw [hp] at hx; cases hx
      exact ⟨x, p', hself, by rw [hk]; exact hrk, by rw [hop]; exact hrs⟩
    · exact ⟨x, r, by rw [hoth x hxp]; exact hx, hrk, hrs⟩

theorem resumeWrite_apply (s : St) (pid : Nat) (p : Proc) (h : Inv s) (hp : s.procs pid = some p)
    (hk : p.kind = .write) (hseg : p.seg = 1) (hfifo : p.seq = s.applied + 1)
    (fin' : Bool) (hfin' : fin' = true → s.nb = 0) :
    Inv ((sendRepls { s with applied := s.applied + 1, store := upd2 s.store 0 p.key (some p.val) }
      p.key p.val p.seq).setProc pid { p with mid0 := s.nm, seg := 2, fin := fin' }) := by
  let s1 : St := { s with applied := s.applied + 1, store := upd2 s.store 0 p.key (some p.val) }
  let s2 : St := sendRepls s1 p.key p.val p.seq
  let p' : Proc := { p with mid0 := s.nm, seg := 2, fin := fin' }
  show Inv (s2.setProc pid p')
  have spec : SendSpec p.key p.val p.seq (s1.mode != .async) s1 s2 s1.nb := sendRepls_spec s1 _ _ _
  obtain ⟨sp1, sp2, sp3, sp4⟩ := spec
  have sp1 : s2.nm = s.nm + s.nb := sp1
  have sp2 : ∀ b, b < s.nb → s2.msgs (s.nm + b) =
      some { kind := .repl, b := b, key := p.key, val := p.val, seq := p.seq, fut := (s.mode != .async) } := sp2
  have sp3 : ∀ mid, (mid < s.nm ∨ s.nm + s.nb ≤ mid) → s2.msgs mid = s.msgs mid := sp3
  have e_app : s2.applied = s.applied + 1 := by rw [sp4]
  have e_seq : s2.seq = s.seq := by rw [sp4]
  have e_nb : s2.nb = s.nb := by rw [sp4]
  have e_mode : s2.mode = s.mode := by rw [sp4]
  have e_wk : s2.wk = s.wk := by rw [sp4]
  have e_wv : s2.wv = s.wv := by rw [sp4]
  have e_kseq : s2.kseq = s.kseq := by rw [sp4]
  have e_store : s2.store = upd2 s.store 0 p.key (some p.val) := by rw [sp4]
  have e_procs : s2.procs = s.procs := by rw [sp4]
  have e_np : s2.np = s.np := by rw [sp4]
  have e_rep : s2.repaired = s.repaired := by rw [sp4]
  have hw := h.write_ok pid p hp hk
  obtain ⟨w1, w2, w3, w4, w5, w6, w7, w8⟩ := hw
  -- classification of message slots
  have hslot : ∀ mid m, s2.msgs mid = some m →
      (s.msgs mid = some m) ∨ (s.nm ≤ mid ∧ mid < s.nm + s.nb ∧
        m = { kind := .repl, b := mid - s.nm, key := p.key, val := p.val, seq := p.seq, fut := (s.mode != .async) }) := by
    intro mid m hm
    by_cases hlt : mid < s.nm
    · left; rw [sp3 mid (Or.inl hlt)] at hm; exact hm
    · by_cases hge : s.nm + s.nb ≤ mid
      · left; rw [sp3 mid (Or.inr hge)] at hm; exact hm
      · right
        have := sp2 (mid - s.nm) (by omega)
        rw [show s.nm + (mid - s.nm) = mid by omega] at this
        rw [this] at hm; cases hm
        exact ⟨by omega, by omega, rfl⟩
  have hme : MsgsExt s (s2.setProc pid p') := by
    intro mid m hm
    have hlt : mid < s.nm := by
      by_cases hh : mid < s.nm
      · exact hh
      · rw [h.msgs_none mid (by omega)] at hm; cases hm
    exact ⟨m, by show s2.msgs mid = some m; rw [sp3 mid (Or.inl hlt)]; exact hm, rfl, rfl, rfl, rfl, rfl, id, id⟩
  apply inv_assemble s (s2.setProc pid p') pid p p' h hp
  · show upd s2.procs pid (some p') = upd s.procs pid (some p'); rw [e_procs]
  · exact e_np
  · rfl
  · rfl
  · rfl
  · exact e_seq
  · show s2.repaired = true; rw [e_rep]; exact h.rep
  · show s2.applied ≤ s2.seq; rw [e_app, e_seq]; omega
  · intro mid hmid
    have hmid : s2.nm ≤ mid := hmid
    show s2.msgs mid = none
    rw [sp3 mid (Or.inr (by omega))]; exact h.msgs_none mid (by omega)
  · intro mid m hm hmk
    have hm : s2.msgs mid = some m := hm
    show ReplMsg s2 m
    rcases hslot mid m hm with ho | ⟨c1, c2, c3⟩
    · have r := h.msg_ok mid m ho hmk
      refine replMsg_transfer s s2 m m r rfl rfl rfl rfl e_nb (by rw [e_app]; omega) (by rw [e_wk]) (by rw [e_wv]) ?_
      rw [e_kseq]; exact r.2.2.2.2.2
    · subst c3
      refine ⟨by show mid - s.nm < s2.nb; rw [e_nb]; omega, w1, by show p.seq ≤ s2.applied; rw [e_app]; omega,
        by show s2.wk p.seq = p.key; rw [e_wk]; exact w3, by show s2.wv p.seq = p.val; rw [e_wv]; exact w4, ?_⟩
      intro hf; cases hf
  · intro b k
    show s2.kseq b k ≤ s2.applied ∧ (s2.kseq b k = 0 → s2.store (b + 1) k = none) ∧
      (s2.kseq b k ≠ 0 → s2.wk (s2.kseq b k) = k ∧ s2.store (b + 1) k = some (s2.wv (s2.kseq b k)))
    have hst : s2.store (b + 1) k = s.store (b + 1) k := by
      rw [e_store, upd2_apply]; simp
    rw [e_kseq, e_app, e_wk, e_wv, hst]
    obtain ⟨a1, a2, a3⟩ := h.bk_ok b k
    exact ⟨by omega, a2, a3⟩
  · intro k
    show s2.store 0 k = if lastFor s2.wk s2.applied k = 0 then none
      else some (s2.wv (lastFor s2.wk s2.applied k))
    rw [e_store, e_wk, e_wv, e_app, upd2_apply]
    have hkey : s.wk (s.applied + 1) = p.key := by rw [← hfifo]; exact w3
    have hval : s.wv (s.applied + 1) = p.val := by rw [← hfifo]; exact w4
    by_cases hkk : k = p.key
    · subst hkk
      simp [lastFor, hkey, hval]
    · have : ¬ (s.wk (s.applied + 1) = k) := by rw [hkey]; exact fun e => hkk e.symm
      simp only [lastFor, this, if_false, hkk, and_false]
      exact h.prim_ok k
  · intro x q hx hq hqk
    exact replProc_transfer s _ q (h.repl_ok x q hq hqk) hme
  · intro x q hx hq hqk
    have hwq := h.write_ok x q hq hqk
    refine writeProc_transfer s _ q hwq (by show s.seq ≤ s2.seq; rw [e_seq]; exact Nat.le_refl _)
      (by show s2.wk q.seq = s.wk q.seq; rw [e_wk]) (by show s2.wv q.seq = s.wv q.seq; rw [e_wv])
      (by show s.applied ≤ s2.applied; rw [e_app]; omega) ?_ e_nb e_mode hme
    intro hs1
    show s2.applied < q.seq
    rw [e_app]
    have hlt := hwq.2.2.2.2.1 hs1
    have hne : q.seq ≠ p.seq := by
      intro e
      exact hx (h.write_uniq x q pid p hq hp hqk hk e)
    omega
  · intro _
    refine ⟨w1, by show p.seq ≤ s2.seq; rw [e_seq]; exact w2, by show s2.wk p.seq = p.key; rw [e_wk]; exact w3,
      by show s2.wv p.seq = p.val; rw [e_wv]; exact w4, ?_, ?_, ?_, ?_⟩
    · intro hh; simp [p'] at hh
    · intro _
      refine ⟨by show p.seq ≤ s2.applied; rw [e_app]; omega, ?_⟩
      intro b hb
      have hb : b < s.nb := by rw [← e_nb]; exact hb
      exact ⟨_, sp2 b hb, rfl, rfl, rfl, rfl⟩
    · intro hf
      refine ⟨by simp [p'], Or.inl ?_⟩
      show s2.nb = 0
      rw [e_nb]; exact hfin' hf
    · simp [p']
  · intro hkr; rw [hk] at hkr; cases hkr
  · intro mid m' hm' hmd
    have hm' : s2.msgs mid = some m' := hm'
    rcases hslot mid m' hm' with ho | ⟨_, _, c3⟩
    · exact ⟨m', ho, hmd, rfl⟩
    · subst c3; cases hmd

end HappyModel.C17.PB
