import HappyProofs.C17.MLStep
/-! Multi-leader: deliveries, client events and whole runs preserve `Inv`; what quiescence gives. -/
namespace HappyModel.C17.ML

theorem deliver_inv {P} (s : St) (mid : Nat) (hc : ∀ k, Coherent s.n (P k)) (h : Inv P s) :
    Inv P (deliver s mid) := by
  unfold deliver
  unfold Inv
  cases h0 : s.msgs mid with
  | none => exact h
  | some m =>
    simp only
    by_cases hd : m.delivered = true
    · simp only [hd, if_true]; exact h
    · have hd' : m.delivered = false := by simpa using hd
      simp only [hd', Bool.false_eq_true, if_false]
      have hmw := h.msgW mid m h0
      cases hk : m.kind with
      | repl =>
        simp only
        have hw : WrittenC s.core m.key m.ver := hmw.1 hk
        split
        · have hs := inv_spawn h ({ kind := .repl, node := m.dst, key := m.key, ver := m.ver, op := mid } : Proc)
            (fun e => by simp at e) (fun _ => hw) (fun kv hkv => by simp at hkv)
          exact inv_setMsg hs (m0 := m) (m' := { m with kind := .repl, delivered := true }) h0 hk.symm rfl rfl rfl
            (fun _ _ => Or.inr ⟨s.core.np, { kind := .repl, node := m.dst, key := m.key, ver := m.ver, op := mid },
              by show upd _ _ _ _ = _; simp, rfl, rfl, rfl, rfl, rfl⟩)
        · rename_i ht
          have ht' : takes s.n (s.vers m.dst m.key) m.ver = false := by simpa using ht
          have hs := inv_spawn h
            ({ kind := .repl, node := m.dst, key := m.key, ver := m.ver, op := mid, fin := true } : Proc)
            (fun e => by simp at e) (fun _ => hw) (fun kv hkv => by simp at hkv)
          exact inv_setMsg hs (m0 := m) (m' := { m with kind := .repl, delivered := true }) h0 hk.symm rfl rfl rfl
            (fun _ _ => Or.inl (ge_of_not_takes (hc m.key)
              (fun u hu => h.written_P (h.versW m.dst m.key u hu)) (h.written_P hw) ht'))
      | aereq =>
        simp only
        have h1 : InvC P (s.core.setMsg mid { m with kind := .aereq, delivered := true }) :=
          inv_setMsg h h0 hk.symm rfl rfl rfl (fun e => by rw [hk] at e; cases e)
        have h2 := inv_spawn h1 ({ kind := .aereq, node := m.dst, src := m.src, hash := m.hash, op := mid } : Proc)
          (fun e => by simp at e) (fun e => by simp at e) (fun kv hkv => by simp at hkv)
        refine inv_aeContinue _ _ _ _ m.items h2 (by show upd _ _ _ _ = _; simp) rfl rfl rfl rfl
          (by simp) (by simp) ?_
        exact (h2.msgW mid { m with kind := .aereq, delivered := true } (by show upd _ _ _ _ = _; simp)).2
      | aeresp =>
        simp only
        have h1 : InvC P (s.core.setMsg mid { m with kind := .aeresp, delivered := true }) :=
          inv_setMsg h h0 hk.symm rfl rfl rfl (fun e => by rw [hk] at e; cases e)
        have h2 := inv_spawn h1 ({ kind := .aeresp, node := m.dst, src := m.src, op := mid } : Proc)
          (fun e => by simp at e) (fun e => by simp at e) (fun kv hkv => by simp at hkv)
        refine inv_aeContinue _ _ _ _ m.items h2 (by show upd _ _ _ _ = _; simp) rfl rfl rfl rfl
          (by simp) (by simp) ?_
        exact (h2.msgW mid { m with kind := .aeresp, delivered := true } (by show upd _ _ _ _ = _; simp)).2

/-- the version a client write delivered now to `node` would be stamped with -/
def stamp (s : St) (node v : Nat) : Version := ⟨v, s.now, node, vcTick s.n (s.clock node) node⟩

theorem step_inv {P} (s : St) (a : Act) (hc : ∀ k, Coherent s.n (P k)) (h : Inv P s)
    (hP : ∀ op node k v, a = .cw op node k v → node < s.n → P k (stamp s node v)) : Inv P (step s a) := by
  cases a with
  | tick t => exact h
  | cw op node k v =>
    simp only [step]
    by_cases hn : node ≥ s.n
    · simp only [hn, if_true]; exact h
    · simp only [hn, if_false]
      exact inv_spawn h _ (fun _ => ⟨hP op node k v rfl (by omega), rfl, rfl⟩) (fun e => by simp at e)
        (fun kv hkv => by simp at hkv)
  | cr op node k =>
    simp only [step]
    by_cases hn : node ≥ s.n
    · simp only [hn, if_true]; exact h
    · simp only [hn, if_false]
      exact inv_spawn h _ (fun e => by simp at e) (fun e => by simp at e) (fun kv hkv => by simp at hkv)
  | dl mid => exact deliver_inv s mid hc h
  | rs pid => exact resume_inv s pid hc h
  | ae node peer =>
    simp only [step]
    split
    · exact h
    · have h1 := inv_send h ({ kind := .aereq, src := node, dst := peer, items := versionsOf s node, hash := s.store node } : Msg)
        (fun e => by simp at e) (versionsOf_written s h node)
      exact inv_spawn h1 _ (fun e => by simp at e) (fun e => by simp at e) (fun kv hkv => by simp at hkv)

theorem step_n (s : St) (a : Act) : (step s a).n = s.n := by
  have aeC : ∀ (s : St) pid p items, (aeContinue s pid p items).n = s.n := by
    intro s pid p items
    unfold aeContinue
    have e1 := aeLoop_fst s p.node items
    rcases hl : aeLoop s p.node items with ⟨s1, left⟩
    rw [hl] at e1
    simp only at e1 ⊢
    subst e1
    cases left with
    | cons x xs => rfl
    | nil => simp only; split <;> rfl
  have inst : ∀ (s : St) i k v, (install s i k v).1.n = s.n := by
    intro s i k v; unfold install; split <;> rfl
  have fold : ∀ (mk : Nat → Msg) (l : List Nat) (s : St), (l.foldl (fun s j => s.send (mk j)) s).n = s.n := by
    intro mk l
    induction l with
    | nil => intro s; rfl
    | cons j l ih => intro s; simp only [List.foldl_cons]; rw [ih]; rfl
  cases a with
  | tick t => rfl
  | cw op node k v => simp only [step]; split <;> rfl
  | cr op node k => simp only [step]; split <;> rfl
  | ae node peer => simp only [step]; split <;> rfl
  | dl mid =>
    show (deliver s mid).n = s.n
    unfold deliver
    cases h0 : s.msgs mid with
    | none => rfl
    | some m =>
      simp only
      by_cases hd : m.delivered = true
      · simp only [hd, if_true]; rfl
      · have hd' : m.delivered = false := by simpa using hd
        simp only [hd', Bool.false_eq_true, if_false]
        cases hk : m.kind with
        | repl => simp only; split <;> rfl
        | aereq => simp only; rw [aeC]; rfl
        | aeresp => simp only; rw [aeC]; rfl
  | rs pid =>
    show (resume s pid).n = s.n
    unfold resume
    cases h0 : s.procs pid with
    | none => rfl
    | some p0 =>
      simp only
      by_cases hf : p0.fin = true
      · simp only [hf, if_true]; rfl
      · have hf' : p0.fin = false := by simpa using hf
        simp only [hf', Bool.false_eq_true, if_false]
        cases hk : p0.kind with
        | write =>
          simp only
          by_cases hs : p0.seg = 1
          · simp only [hs, if_true]
            show St.n (List.foldl _ _ _) = _
            rw [fold, inst]
          · simp only [hs, if_false]; rfl
        | repl =>
          simp only
          show St.n (install _ _ _ _).1 = _
          rw [inst]
        | read => rfl
        | ae => rfl
        | aereq =>
          simp only
          split
          · rfl
          · split
            · split
              · rw [aeC, inst]
              · rfl
            · rfl
        | aeresp =>
          simp only
          split
          · rfl
          · split
            · split
              · rw [aeC, inst]
              · rfl
            · rfl
        | other => rfl

/-- the (key, version) pair stamped by one action (a client write at an existing leader), if any -/
def newOf (s : St) : Act → List (Nat × Version)
  | .cw _ node k v => if node < s.n then [(k, stamp s node v)] else []
  | _ => []

/-- the (key, version) pairs stamped by the client writes of a run, in order -/
def created (s : St) : List Act → List (Nat × Version)
  | [] => []
  | a :: as => newOf s a ++ created (step s a) as

theorem run_n (s : St) : ∀ acts, (run s acts).n = s.n
  | [] => rfl
  | a :: as => by rw [run, run_n (step s a) as, step_n]

theorem run_inv {P} : ∀ (acts : List Act) (s : St), (∀ k, Coherent s.n (P k)) → Inv P s →
    (∀ kv, kv ∈ created s acts → P kv.1 kv.2) → Inv P (run s acts)
  | [], _, _, h, _ => h
  | a :: as, s, hc, h, hP => by
    rw [run]
    refine run_inv as (step s a) (by rw [step_n]; exact hc) (step_inv s a hc h ?_) ?_
    · intro op node k v ha hn
      subst ha
      apply hP (k, stamp s node v)
      simp [created, newOf, hn]
    · intro kv hkv
      apply hP kv
      simp only [created, List.mem_append]
      exact Or.inr hkv

theorem init_inv {P} (n nk : Nat) : Inv P (init n nk) := by
  refine ⟨fun _ _ => rfl, fun _ _ => rfl, ?_, ?_, fun _ _ => rfl, ?_, ?_, ?_⟩
  · intro pid p hp; cases hp
  · intro i k v hv; cases hv
  · intro mid m hm; cases hm
  · intro pid p hp; cases hp
  · intro pid p hp; cases hp

end HappyModel.C17.ML
