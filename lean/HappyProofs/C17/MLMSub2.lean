import HappyProofs.C17.MLMSub
/-!
Multi-leader with a merging resolver, run level: `replQuiescent` and steps that are not
client-write / `Replicate` handler steps (`isWR s a = false`).

Such a step never changes an existing `Replicate` message nor an existing write / `Replicate`
handler, and what it adds (an `AntiEntropyRequest` / `AntiEntropyResponse`, a read / anti-entropy
handler) is of another kind: the `Replicate` messages and the write / `Replicate` handlers of the
two states are the same (`SameWR`, `step_sameWR`).  So `replQuiescent` is carried over such steps in
both directions.
-/
namespace HappyModel.C17.MLM
open HappyModel.C17.ML (Version Msg Proc MKind PKind vcGet dominates vcMerge vcTick)

/-- the two cores have the same `Replicate` messages and the same write / `Replicate` handlers -/
structure SameWR (c c' : Core) : Prop where
  msg : ∀ mid m, m.kind = .repl → (c.msgs mid = some m ↔ c'.msgs mid = some m)
  proc : ∀ pid p, (p.kind = .write ∨ p.kind = .repl) → (c.procs pid = some p ↔ c'.procs pid = some p)

theorem SameWR.refl (c : Core) : SameWR c c := ⟨fun _ _ _ => Iff.rfl, fun _ _ _ => Iff.rfl⟩

theorem SameWR.trans {a b c : Core} (h1 : SameWR a b) (h2 : SameWR b c) : SameWR a c :=
  ⟨fun mid m hk => (h1.msg mid m hk).trans (h2.msg mid m hk),
   fun pid p hk => (h1.proc pid p hk).trans (h2.proc pid p hk)⟩

theorem replQuiescent_iff_of_sameWR {s s' : St} (h : SameWR s.core s'.core) :
    replQuiescent s ↔ replQuiescent s' := by
  constructor
  · rintro ⟨qm, qp⟩
    exact ⟨fun mid m hm hk => qm mid m ((h.msg mid m hk).2 hm) hk,
      fun pid p hp hk => qp pid p ((h.proc pid p hk).2 hp) hk⟩
  · rintro ⟨qm, qp⟩
    exact ⟨fun mid m hm hk => qm mid m ((h.msg mid m hk).1 hm) hk,
      fun pid p hp hk => qp pid p ((h.proc pid p hk).1 hp) hk⟩

/-! ### elementary state changes -/

theorem sameWR_spawn {c : Core} (hf : c.procs c.np = none) (p : Proc)
    (hp : ¬(p.kind = .write ∨ p.kind = .repl)) : SameWR c (c.spawn p) := by
  refine ⟨fun _ _ _ => Iff.rfl, fun pid q hk => ?_⟩
  show c.procs pid = some q ↔ upd c.procs c.np (some p) pid = some q
  rw [upd_apply]
  split
  · rename_i e
    subst e
    rw [hf]
    constructor
    · intro x; cases x
    · intro x; cases x; exact absurd hk hp
  · exact Iff.rfl

theorem sameWR_send {c : Core} (hf : c.msgs c.nm = none) (m : Msg) (hm : m.kind ≠ .repl) :
    SameWR c (c.send m) := by
  refine ⟨fun mid q hk => ?_, fun _ _ _ => Iff.rfl⟩
  show c.msgs mid = some q ↔ upd c.msgs c.nm (some m) mid = some q
  rw [upd_apply]
  split
  · rename_i e
    subst e
    rw [hf]
    constructor
    · intro x; cases x
    · intro x; cases x; exact absurd hk hm
  · exact Iff.rfl

theorem sameWR_setProc {c : Core} {pid : Nat} {p0 : Proc} (h0 : c.procs pid = some p0)
    (hk0 : ¬(p0.kind = .write ∨ p0.kind = .repl)) (p' : Proc)
    (hp : ¬(p'.kind = .write ∨ p'.kind = .repl)) : SameWR c (c.setProc pid p') := by
  refine ⟨fun _ _ _ => Iff.rfl, fun pid1 q hk => ?_⟩
  show c.procs pid1 = some q ↔ upd c.procs pid (some p') pid1 = some q
  rw [upd_apply]
  split
  · rename_i e
    subst e
    rw [h0]
    constructor
    · intro x; cases x; exact absurd hk hk0
    · intro x; cases x; exact absurd hk hp
  · exact Iff.rfl

theorem sameWR_setMsg {c : Core} {mid : Nat} {m0 : Msg} (h0 : c.msgs mid = some m0)
    (hk0 : m0.kind ≠ .repl) (m' : Msg) (hm : m'.kind ≠ .repl) : SameWR c (c.setMsg mid m') := by
  refine ⟨fun mid1 q hk => ?_, fun _ _ _ => Iff.rfl⟩
  show c.msgs mid1 = some q ↔ upd c.msgs mid (some m') mid1 = some q
  rw [upd_apply]
  split
  · rename_i e
    subst e
    rw [h0]
    constructor
    · intro x; cases x; exact absurd hk hk0
    · intro x; cases x; exact absurd hk hm
  · exact Iff.rfl

theorem sameWR_install (c : Core) (i k : Nat) (inc : Version) : SameWR c (c.install i k inc) := by
  refine ⟨fun mid m _ => ?_, fun pid p _ => ?_⟩
  · rw [install_msgs]
  · rw [install_procs]

/-! ### handlers -/

theorem sameWR_aeContinue (s : St) (pid : Nat) (p q : Proc) (items : List (Nat × Version))
    (hq : s.procs pid = some q) (hqk : ¬(q.kind = .write ∨ q.kind = .repl))
    (hpk : ¬(p.kind = .write ∨ p.kind = .repl)) (hfm : s.msgs s.nm = none) :
    SameWR s.core (aeContinue s pid p items).core := by
  unfold aeContinue
  have e1 := aeLoop_fst s p.node items
  rcases hl : aeLoop s p.node items with ⟨s1, left⟩
  rw [hl] at e1
  simp only at e1 ⊢
  subst e1
  cases left with
  | cons x xs =>
    simp only
    rw [core_setProc]
    exact sameWR_setProc hq hqk _ hpk
  | nil =>
    simp only
    split
    · rw [core_setProc, core_send]
      exact SameWR.trans (sameWR_send hfm _ (fun e => by cases e)) (sameWR_setProc hq hqk _ hpk)
    · rw [core_setProc]
      exact sameWR_setProc hq hqk _ hpk

/-- the anti-entropy branch of `resume`, shared by request and response handlers -/
theorem resume_ae_sameWR (s : St) (pid : Nat) (p0 p : Proc) (hi : Inv s) (h0 : s.procs pid = some p0)
    (hk0 : ¬(p0.kind = .write ∨ p0.kind = .repl)) (hkp : ¬(p.kind = .write ∨ p.kind = .repl)) :
    SameWR s.core (if p.sent then s.setProc pid { p with fin := true }
      else match p.items with
        | (k, v) :: rest =>
          if p.waiting then aeContinue (install s p.node k v).1 pid p rest
          else s.fail "not-waiting"
        | [] => s.fail "not-waiting").core := by
  split
  · rw [core_setProc]; exact sameWR_setProc h0 hk0 _ hkp
  · split
    · rename_i k v rest hit
      split
      · have a1 : SameWR s.core (install s p.node k v).1.core := by
          rw [core_install]; exact sameWR_install _ _ _ _
        refine a1.trans (sameWR_aeContinue _ pid p p0 rest ?_ hk0 hkp ?_)
        · show (install s p.node k v).1.core.procs pid = some p0
          rw [core_install, install_procs]; exact h0
        · show (install s p.node k v).1.core.msgs (install s p.node k v).1.core.nm = none
          rw [core_install, install_msgs, install_nm]; exact hi.freshM _ (Nat.le_refl _)
      · exact SameWR.refl _
    · exact SameWR.refl _

theorem resume_sameWR (s : St) (pid : Nat) (hw : isWR s (.rs pid) = false) (hi : Inv s) :
    SameWR s.core (resume s pid).core := by
  unfold resume
  cases h0 : s.procs pid with
  | none => exact SameWR.refl _
  | some p0 =>
    have hnk : ¬(p0.kind = .write ∨ p0.kind = .repl) := by simpa [isWR, h0] using hw
    simp only
    by_cases hf : p0.fin = true
    · simp only [hf, if_true]; exact SameWR.refl _
    · have hf' : p0.fin = false := by simpa using hf
      simp only [hf', Bool.false_eq_true, if_false]
      cases hk : p0.kind with
      | write => exact absurd (Or.inl hk) hnk
      | repl => exact absurd (Or.inr hk) hnk
      | read =>
        simp only
        rw [core_setProc, core_reply]
        exact sameWR_setProc h0 hnk _ (by simp)
      | ae =>
        simp only
        rw [core_setProc]
        exact sameWR_setProc h0 hnk _ (by simp)
      | aereq =>
        simp only
        exact resume_ae_sameWR s pid p0 { p0 with kind := .aereq, seg := p0.seg + 1, fin := false } hi h0
          hnk (by simp)
      | aeresp =>
        simp only
        exact resume_ae_sameWR s pid p0 { p0 with kind := .aeresp, seg := p0.seg + 1, fin := false } hi h0
          hnk (by simp)
      | other => simp only; exact SameWR.refl _

/-- delivery of an anti-entropy message: mark it delivered, start the handler, run its loop -/
theorem deliver_ae_sameWR (s : St) (mid : Nat) (m m' : Msg) (p : Proc) (items : List (Nat × Version))
    (hi : Inv s) (h0 : s.msgs mid = some m) (hk : m.kind ≠ .repl) (hk' : m'.kind ≠ .repl)
    (hp : ¬(p.kind = .write ∨ p.kind = .repl)) :
    SameWR s.core (aeContinue (St.spawn { s with msgs := upd s.msgs mid (some m') } p) s.np p items).core := by
  have hne : s.nm ≠ mid := by
    intro e
    have h1 : s.msgs s.nm = none := hi.freshM s.nm (Nat.le_refl _)
    rw [e, h0] at h1; cases h1
  have a1 : SameWR s.core (s.core.setMsg mid m') := sameWR_setMsg h0 hk m' hk'
  have a2 : SameWR (s.core.setMsg mid m') ((s.core.setMsg mid m').spawn p) :=
    sameWR_spawn (c := s.core.setMsg mid m') (hi.freshP _ (Nat.le_refl _)) p hp
  refine (a1.trans a2).trans ?_
  refine sameWR_aeContinue (St.spawn { s with msgs := upd s.msgs mid (some m') } p) s.np p p items ?_ hp hp ?_
  · show upd s.procs s.np (some p) s.np = some p
    simp
  · show upd s.msgs mid (some m') s.nm = none
    rw [upd_other _ _ _ _ hne]; exact hi.freshM _ (Nat.le_refl _)

theorem deliver_sameWR (s : St) (mid : Nat) (hw : isWR s (.dl mid) = false) (hi : Inv s) :
    SameWR s.core (deliver s mid).core := by
  unfold deliver
  cases h0 : s.msgs mid with
  | none => exact SameWR.refl _
  | some m =>
    have hnk : m.kind ≠ .repl := by simpa [isWR, h0] using hw
    simp only
    by_cases hd : m.delivered = true
    · simp only [hd, if_true]; exact SameWR.refl _
    · have hd' : m.delivered = false := by simpa using hd
      simp only [hd', Bool.false_eq_true, if_false]
      cases hk : m.kind with
      | repl => exact absurd hk hnk
      | aereq =>
        simp only
        exact deliver_ae_sameWR s mid m _ _ m.items hi h0 hnk (fun e => by cases e) (by simp)
      | aeresp =>
        simp only
        exact deliver_ae_sameWR s mid m _ _ m.items hi h0 hnk (fun e => by cases e) (by simp)

/-- a step that is not a write / `Replicate` handler step neither delivers a `Replicate` nor advances
a write / `Replicate` handler, and creates none -/
theorem step_sameWR (s : St) (a : Act) (hw : isWR s a = false) (hi : Inv s) :
    SameWR s.core (step s a).core := by
  cases a with
  | tick t => exact SameWR.refl _
  | cw op node k v => simp [isWR] at hw
  | cr op node k =>
    simp only [step]
    split
    · exact SameWR.refl _
    · exact sameWR_spawn (hi.freshP _ (Nat.le_refl _)) _ (by simp)
  | dl mid => exact deliver_sameWR s mid hw hi
  | rs pid => exact resume_sameWR s pid hw hi
  | ae node peer =>
    simp only [step]
    split
    · exact SameWR.refl _
    · rw [core_spawn, core_send]
      have a1 := sameWR_send (c := s.core) (hi.freshM _ (Nat.le_refl _))
        ({ kind := .aereq, src := node, dst := peer, items := versionsOf s node, hash := s.store node } : Msg)
        (fun e => by cases e)
      exact a1.trans (sameWR_spawn (c := s.core.send _) (hi.freshP _ (Nat.le_refl _)) _ (by simp))

/-! ### C. `replQuiescent` over steps that are not write / `Replicate` steps -/

/-- a step that is not a write/Replicate-handler step neither delivers a Replicate nor advances a
write/Replicate handler -/
theorem replQuiescent_of_step (s : St) (a : Act) (hw : isWR s a = false) (hi : Inv s)
    (hq : replQuiescent (step s a)) : replQuiescent s :=
  (replQuiescent_iff_of_sameWR (step_sameWR s a hw hi)).2 hq

/-- forward: such steps keep it -/
theorem replQuiescent_step (s : St) (a : Act) (hw : isWR s a = false) (hi : Inv s)
    (hq : replQuiescent s) : replQuiescent (step s a) :=
  (replQuiescent_iff_of_sameWR (step_sameWR s a hw hi)).1 hq

theorem noWR_cons {s : St} {a : Act} {as : List Act} (hn : noWR s (a :: as) = true) :
    isWR s a = false ∧ noWR (step s a) as = true := by
  have hn' : (!isWR s a && noWR (step s a) as) = true := hn
  rw [Bool.and_eq_true] at hn'
  exact ⟨by simpa using hn'.1, hn'.2⟩

theorem run_sameWR (acts : List Act) (s : St) (hn : noWR s acts = true) (hi : Inv s) :
    SameWR s.core (run s acts).core := by
  induction acts generalizing s with
  | nil => exact SameWR.refl _
  | cons a as ih =>
    obtain ⟨hw, hn'⟩ := noWR_cons hn
    rw [run]
    exact (step_sameWR s a hw hi).trans (ih (step s a) hn' (step_inv s a hi))

theorem replQuiescent_of_run (acts : List Act) (s : St) (hn : noWR s acts = true) (hi : Inv s)
    (hq : replQuiescent (run s acts)) : replQuiescent s :=
  (replQuiescent_iff_of_sameWR (run_sameWR acts s hn hi)).2 hq

/-- forward over a run without write / `Replicate` steps -/
theorem replQuiescent_run (acts : List Act) (s : St) (hn : noWR s acts = true) (hi : Inv s)
    (hq : replQuiescent s) : replQuiescent (run s acts) :=
  (replQuiescent_iff_of_sameWR (run_sameWR acts s hn hi)).1 hq

theorem replQuiescent_of_quiescentB (s : St) (hi : Inv s) (hq : quiescentB s = true) : replQuiescent s := by
  obtain ⟨qm, qp⟩ := quiescent_spec s hq
  refine ⟨fun mid m hm _ => qm mid m ?_ hm, fun pid p hp _ => qp pid p ?_ hp⟩
  · rcases Nat.lt_or_ge mid s.nm with x | x
    · exact x
    · have h1 : s.msgs mid = none := hi.freshM mid x
      rw [hm] at h1; cases h1
  · rcases Nat.lt_or_ge pid s.np with x | x
    · exact x
    · have h1 : s.procs pid = none := hi.freshP pid x
      rw [hp] at h1; cases h1

end HappyModel.C17.MLM
