import HappyProofs.C17.MLTInvC
/-!
`MLT` run level, part D: every action preserves `AuxInv` (either resolver), and the three run
invariants hold after every run from `init` with the last-writer-wins resolver (`run_all`).
-/
namespace HappyModel.C17.MLT
open HappyModel.C17.ML (Version Msg Proc MKind PKind vcGet dominates vcMerge vcTick Coherent vlt)
open HappyModel.C17.MLM (Join)

theorem aux_frame {s s' : St} (h : AuxInv s) (e0 : s'.n = s.n) (e1 : s'.nm = s.nm) (e2 : s'.msgs = s.msgs)
    (e3 : s'.procs = s.procs) (e4 : s'.vers = s.vers) (e5 : s'.order = s.order) : AuxInv s' :=
  ⟨by rw [e0, e2]; exact h.msgN, by rw [e0, e3]; exact h.procN, by rw [e4, e5]; exact h.ord,
   by rw [e1, e3]; exact h.opLt⟩

theorem aux_spawn {s : St} (h : AuxInv s) (p : Proc)
    (hn : (p.kind = .aereq ∨ p.kind = .aeresp) → p.node < s.n ∧ p.src < s.n)
    (ho : p.kind = .aereq → p.op < s.nm) : AuxInv (s.spawn p) := by
  refine ⟨h.msgN, ?_, h.ord, ?_⟩
  · intro pid q hq hk
    have hq' : (if pid = s.np then some p else s.procs pid) = some q := hq
    split at hq'
    · cases hq'; exact hn hk
    · exact h.procN pid q hq' hk
  · intro pid q hq hk
    have hq' : (if pid = s.np then some p else s.procs pid) = some q := hq
    split at hq'
    · cases hq'; exact ho hk
    · exact h.opLt pid q hq' hk

theorem aux_setProc {s : St} (h : AuxInv s) (pid : Nat) (p : Proc)
    (hn : (p.kind = .aereq ∨ p.kind = .aeresp) → p.node < s.n ∧ p.src < s.n)
    (ho : p.kind = .aereq → p.op < s.nm) : AuxInv (s.setProc pid p) := by
  refine ⟨h.msgN, ?_, h.ord, ?_⟩
  · intro pid1 q hq hk
    have hq' : (if pid1 = pid then some p else s.procs pid1) = some q := hq
    split at hq'
    · cases hq'; exact hn hk
    · exact h.procN pid1 q hq' hk
  · intro pid1 q hq hk
    have hq' : (if pid1 = pid then some p else s.procs pid1) = some q := hq
    split at hq'
    · cases hq'; exact ho hk
    · exact h.opLt pid1 q hq' hk

theorem aux_send {s : St} (h : AuxInv s) (m : Msg)
    (hn : (m.kind = .aereq ∨ m.kind = .aeresp) → m.src < s.n ∧ m.dst < s.n) : AuxInv (s.send m) := by
  refine ⟨?_, h.procN, h.ord, ?_⟩
  · intro mid q hq hk
    have hq' : (if mid = s.nm then some m else s.msgs mid) = some q := hq
    split at hq'
    · cases hq'; exact hn hk
    · exact h.msgN mid q hq' hk
  · intro pid q hq hk
    exact Nat.lt_succ_of_lt (h.opLt pid q hq hk)

theorem aux_setMsg {s : St} (h : AuxInv s) (mid : Nat) (m : Msg)
    (hn : (m.kind = .aereq ∨ m.kind = .aeresp) → m.src < s.n ∧ m.dst < s.n) : AuxInv (setMsg s mid m) := by
  refine ⟨?_, h.procN, h.ord, h.opLt⟩
  intro mid1 q hq hk
  have hq' : (if mid1 = mid then some m else s.msgs mid1) = some q := hq
  split at hq'
  · cases hq'; exact hn hk
  · exact h.msgN mid1 q hq' hk

theorem aux_setVer {s : St} (h : AuxInv s) (i k : Nat) (w : Version) : AuxInv (setVer s i k w) := by
  refine ⟨h.msgN, h.procN, ?_, h.opLt⟩
  intro i' k' hs
  have hs' : (upd2 s.vers i k (some w) i' k').isSome = true := hs
  show k' ∈ (if (s.order i).contains k then s.order else upd s.order i (s.order i ++ [k])) i'
  rw [upd2_apply] at hs'
  by_cases e : i' = i ∧ k' = k
  · obtain ⟨e1, e2⟩ := e
    subst e1; subst e2
    split
    · rename_i hc; simpa using hc
    · simp
  · rw [if_neg e] at hs'
    have := h.ord i' k' hs'
    split
    · exact this
    · rw [upd_apply]; split
      · rename_i e1; subst e1; exact List.mem_append_left _ this
      · exact this

theorem aux_install {s : St} (h : AuxInv s) (i k : Nat) (v : Version) : AuxInv (install s i k v).1 := by
  rcases install_shape s i k v with e | ⟨_, e⟩
  · rw [e]; exact h
  · rw [e]; exact aux_setVer h i k _

theorem aux_aeContinue {s : St} {pid : Nat} {p : Proc} {items : List (Nat × Version)} (h : AuxInv s)
    (hn : p.node < s.n ∧ p.src < s.n) (ho : p.kind = .aereq → p.op < s.nm) :
    AuxInv (aeContinue s pid p items) := by
  obtain ⟨p', k1, k2, k3, k4, _, _, _, e | ⟨hka, e⟩⟩ := aeContinue_shape s pid p items
  · rw [e]
    refine aux_setProc h pid p' ?_ ?_
    · intro _; rw [k2, k3]; exact hn
    · intro e'; rw [k4]; rw [k1] at e'; exact ho e'
  · rw [e]
    refine aux_setProc (aux_send h _ ?_) pid p' ?_ ?_
    · intro _; exact hn
    · intro _; rw [k2, k3]; exact hn
    · intro _; rw [k4]; exact Nat.lt_succ_of_lt (ho hka)

theorem deliver_aux {P} (s : St) (mid : Nat) (h : AuxInv s) (hT : TInv P s) : AuxInv (deliver s mid) := by
  unfold deliver
  cases h0 : s.msgs mid with
  | none => exact aux_frame h rfl rfl rfl rfl rfl rfl
  | some m =>
    simp only
    by_cases hd : m.delivered = true
    · simp only [hd, if_true]; exact aux_frame h rfl rfl rfl rfl rfl rfl
    · have hd' : m.delivered = false := by simpa using hd
      simp only [hd', Bool.false_eq_true, if_false]
      have hlt : mid < s.nm := hT.msgs_lt h0
      cases hk : m.kind with
      | repl =>
        simp only
        have h1 : AuxInv (setMsg s mid { m with kind := .repl, delivered := true }) :=
          aux_setMsg h mid _ (fun e => by simp at e)
        split
        · refine aux_spawn ?_ _ ?_ ?_
          · exact aux_frame h1 rfl rfl rfl rfl rfl rfl
          · intro e; simp at e
          · intro e; simp at e
        · refine aux_spawn ?_ _ ?_ ?_
          · exact aux_frame h1 rfl rfl rfl rfl rfl rfl
          · intro e; simp at e
          · intro e; simp at e
      | aereq =>
        simp only
        have hm := h.msgN mid m h0 (Or.inl hk)
        have h1 : AuxInv (setMsg s mid { m with kind := .aereq, delivered := true }) :=
          aux_setMsg h mid _ (fun _ => hm)
        refine aux_aeContinue (aux_spawn h1 _ ?_ ?_) ?_ ?_
        · intro _; exact ⟨hm.2, hm.1⟩
        · intro _; exact hlt
        · exact ⟨hm.2, hm.1⟩
        · intro _; exact hlt
      | aeresp =>
        simp only
        have hm := h.msgN mid m h0 (Or.inr hk)
        have h1 : AuxInv (setMsg s mid { m with kind := .aeresp, delivered := true }) :=
          aux_setMsg h mid _ (fun _ => hm)
        refine aux_aeContinue (aux_spawn h1 _ ?_ ?_) ?_ ?_
        · intro _; exact ⟨hm.2, hm.1⟩
        · intro e; simp at e
        · exact ⟨hm.2, hm.1⟩
        · intro e; simp at e

theorem resume_aux (s : St) (pid : Nat) (h : AuxInv s) : AuxInv (resume s pid) := by
  unfold resume
  cases h0 : s.procs pid with
  | none => exact aux_frame h rfl rfl rfl rfl rfl rfl
  | some p0 =>
    simp only
    by_cases hf : p0.fin = true
    · simp only [hf, if_true]; exact aux_frame h rfl rfl rfl rfl rfl rfl
    · have hf' : p0.fin = false := by simpa using hf
      simp only [hf', Bool.false_eq_true, if_false]
      cases hk : p0.kind with
      | write =>
        simp only
        by_cases hs : p0.seg = 1
        · simp only [hs, if_true]
          have i1 := aux_install h p0.node p0.key p0.ver
          have f2 := foldl_send_ind (fun s' => AuxInv s')
            (fun j => ({ kind := .repl, src := p0.node, dst := j, key := p0.key, ver := p0.ver } : Msg))
            (fun s' j hs' => aux_send hs' _ (fun e => by simp at e))
            (peersOf s p0.node) (install s p0.node p0.key p0.ver).1 i1
          refine aux_setProc f2 pid _ ?_ ?_
          · intro e; simp at e
          · intro e; simp at e
        · simp only [hs, if_false]
          refine aux_setProc ?_ pid _ ?_ ?_
          · exact aux_frame h rfl rfl rfl rfl rfl rfl
          · intro e; simp at e
          · intro e; simp at e
      | repl =>
        simp only
        refine aux_setProc (aux_install h p0.node p0.key p0.ver) pid _ ?_ ?_
        · intro e; simp at e
        · intro e; simp at e
      | read =>
        simp only
        refine aux_setProc ?_ pid _ ?_ ?_
        · exact aux_frame h rfl rfl rfl rfl rfl rfl
        · intro e; simp at e
        · intro e; simp at e
      | ae =>
        simp only
        refine aux_setProc h pid _ ?_ ?_
        · intro e; simp at e
        · intro e; simp at e
      | aereq =>
        simp only
        have hpn := h.procN pid p0 h0 (Or.inl hk)
        have hop := h.opLt pid p0 h0 hk
        split
        · refine aux_setProc h pid _ ?_ ?_
          · intro _; exact hpn
          · intro _; exact hop
        · split
          · rename_i k v rest hit
            split
            · have fr := install_frame s p0.node k v
              refine aux_aeContinue (aux_install h p0.node k v) ?_ ?_
              · rw [fr.1]; exact hpn
              · intro _; rw [fr.2.2.2.2.1]; exact hop
            · exact aux_frame h rfl rfl rfl rfl rfl rfl
          · exact aux_frame h rfl rfl rfl rfl rfl rfl
      | aeresp =>
        simp only
        have hpn := h.procN pid p0 h0 (Or.inr hk)
        split
        · refine aux_setProc h pid _ ?_ ?_
          · intro _; exact hpn
          · intro e; simp at e
        · split
          · rename_i k v rest hit
            split
            · have fr := install_frame s p0.node k v
              refine aux_aeContinue (aux_install h p0.node k v) ?_ ?_
              · rw [fr.1]; exact hpn
              · intro e; simp at e
            · exact aux_frame h rfl rfl rfl rfl rfl rfl
          · exact aux_frame h rfl rfl rfl rfl rfl rfl
      | other => simp only; exact aux_frame h rfl rfl rfl rfl rfl rfl

theorem step_aux {P} (s : St) (a : Act) (h : AuxInv s) (hT : TInv P s) : AuxInv (step s a) := by
  cases a with
  | tick t => exact aux_frame h rfl rfl rfl rfl rfl rfl
  | cw op node k v =>
    simp only [step]
    by_cases hn : node ≥ s.n
    · simp only [hn, if_true]; exact aux_frame h rfl rfl rfl rfl rfl rfl
    · simp only [hn, if_false]
      refine aux_spawn ?_ _ ?_ ?_
      · exact aux_frame h rfl rfl rfl rfl rfl rfl
      · intro e; simp at e
      · intro e; simp at e
  | cr op node k =>
    simp only [step]
    by_cases hn : node ≥ s.n
    · simp only [hn, if_true]; exact aux_frame h rfl rfl rfl rfl rfl rfl
    · simp only [hn, if_false]
      refine aux_spawn h _ ?_ ?_
      · intro e; simp at e
      · intro e; simp at e
  | dl mid => exact deliver_aux s mid h hT
  | rs pid => exact resume_aux s pid h
  | ae node peer =>
    simp only [step]
    split
    · exact aux_frame h rfl rfl rfl rfl rfl rfl
    · rename_i hg
      have h1 : node < s.n := Nat.lt_of_not_le (fun c => hg (Or.inl c))
      have h2 : peer < s.n := Nat.lt_of_not_le (fun c => hg (Or.inr (Or.inl c)))
      refine aux_spawn (aux_send h _ ?_) _ ?_ ?_
      · intro _; exact ⟨h1, h2⟩
      · intro e; simp at e
      · intro e; simp at e

theorem init_aux (n nk : Nat) (jn : Join) (lww : Bool) (adj : List (List Nat)) :
    AuxInv (init n nk jn lww adj) := by
  refine ⟨?_, ?_, ?_, ?_⟩
  · intro mid m hm; cases hm
  · intro pid p hp; cases hp
  · intro i k hs; cases hs
  · intro pid p hp; cases hp

/-! ### whole runs -/

theorem run_all_from {P} : ∀ (acts : List Act) (s : St), s.lww = true → (∀ k, Coherent s.n (P k)) →
    TInv P s → AuxInv s → SubInv s → (∀ kv, kv ∈ created s acts → P kv.1 kv.2) →
    TInv P (run s acts) ∧ AuxInv (run s acts) ∧ SubInv (run s acts)
  | [], _, _, _, hT, hA, hS, _ => ⟨hT, hA, hS⟩
  | a :: as, s, hl, hc, hT, hA, hS, hP => by
    rw [run]
    have hT' : TInv P (step s a) := by
      refine step_tinv s a hl hT ?_
      intro op node k v ha hn
      subst ha
      apply hP (k, stamp s node v)
      simp [created, newOf, hn]
    refine run_all_from as (step s a) (by rw [step_lww]; exact hl) (by rw [step_n]; exact hc) hT'
      (step_aux s a hA hT) (step_sub s a hl hc hT hS) ?_
    intro kv hkv
    apply hP kv
    simp only [created, List.mem_append]
    exact Or.inr hkv

/-- everything at once, from `init`, for every action list -/
theorem run_all {P} (n nk : Nat) (jn : MLM.Join) (adj : List (List Nat)) (acts : List Act)
    (hc : ∀ k, Coherent n (P k))
    (hP : ∀ kv, kv ∈ created (init n nk jn true adj) acts → P kv.1 kv.2) :
    TInv P (run (init n nk jn true adj) acts) ∧ AuxInv (run (init n nk jn true adj) acts) ∧
    SubInv (run (init n nk jn true adj) acts) :=
  run_all_from acts (init n nk jn true adj) rfl hc (init_tinv n nk jn true adj) (init_aux n nk jn true adj)
    (init_sub n nk jn true adj) hP

end HappyModel.C17.MLT
