import HappyProofs.C17.MLInv
/-! Multi-leader: every action of the model preserves `Inv` (`step_inv`, `run_inv`). -/
namespace HappyModel.C17.ML

theorem core_spawn (s : St) (p : Proc) : (s.spawn p).core = s.core.spawn p := rfl
theorem core_send (s : St) (m : Msg) : (s.send m).core = s.core.send m := rfl
theorem core_setProc (s : St) (pid : Nat) (p : Proc) : (s.setProc pid p).core = s.core.setProc pid p := rfl
theorem core_fail (s : St) (e : String) : (s.fail e).core = s.core := rfl
theorem core_reply (s : St) (op : Nat) (t : String) : (s.reply op t).core = s.core := rfl

theorem core_install (s : St) (i k : Nat) (inc : Version) :
    (install s i k inc).1.core = s.core.install i k inc := by
  unfold install Core.install
  show (if takes s.n (s.vers i k) inc = true then _ else _ : St × Bool).1.core =
    if takes s.n (s.vers i k) inc = true then _ else _
  split <;> rfl

theorem install_procs (c : Core) (i k : Nat) (inc : Version) : (c.install i k inc).procs = c.procs := by
  unfold Core.install; split <;> rfl
theorem install_n (c : Core) (i k : Nat) (inc : Version) : (c.install i k inc).n = c.n := by
  unfold Core.install; split <;> rfl

theorem written_install {c : Core} (i k : Nat) (inc : Version) {k' v} :
    WrittenC c k' v → WrittenC (c.install i k inc) k' v := by
  unfold WrittenC; rw [install_procs]; exact id

theorem inv_setProc_other {P} {c : Core} (h : InvC P c) {pid : Nat} {p0 p' : Proc} (h0 : c.procs pid = some p0)
    (hk : p'.kind = p0.kind) (hkey : p'.key = p0.key) (hv : p'.ver = p0.ver) (hnode : p'.node = p0.node)
    (hnw : p'.kind ≠ .write) (hnr : p'.kind ≠ .repl) (hi : ItemsW c p'.items) : InvC P (c.setProc pid p') :=
  inv_setProc h h0 hk hkey hv hnode (fun e => absurd e hnw) hi (fun e => absurd e hnw)
    (fun e => absurd (hk ▸ e) hnr)

theorem versionsOf_written {P} (s : St) (h : Inv P s) (i : Nat) : ItemsW s.core (versionsOf s i) := by
  intro kv hkv
  unfold versionsOf at hkv
  rw [List.mem_filterMap] at hkv
  obtain ⟨k, _, hk⟩ := hkv
  cases hv : s.vers i k with
  | none => rw [hv] at hk; cases hk
  | some v =>
    rw [hv] at hk; cases hk
    exact h.versW i k v hv

/-! ### anti-entropy loops -/

theorem aeLoop_fst (s : St) (i : Nat) : ∀ items, (aeLoop s i items).1 = s
  | [] => rfl
  | (k, v) :: rest => by
    unfold aeLoop; split
    · rfl
    · exact aeLoop_fst s i rest

theorem aeLoop_snd_sub (s : St) (i : Nat) : ∀ items kv, kv ∈ (aeLoop s i items).2 → kv ∈ items
  | [], kv, h => by simp [aeLoop] at h
  | (k, v) :: rest, kv, h => by
    unfold aeLoop at h; split at h
    · exact h
    · exact List.mem_cons_of_mem _ (aeLoop_snd_sub s i rest kv h)

theorem inv_aeContinue {P} (s : St) (pid : Nat) (p q : Proc) (items : List (Nat × Version)) (h : Inv P s)
    (hq : s.procs pid = some q) (hk : p.kind = q.kind) (hkey : p.key = q.key) (hv : p.ver = q.ver)
    (hnode : p.node = q.node) (hnw : p.kind ≠ .write) (hnr : p.kind ≠ .repl)
    (hi : ItemsW s.core items) : Inv P (aeContinue s pid p items) := by
  unfold aeContinue
  have e1 := aeLoop_fst s p.node items
  have e2 := aeLoop_snd_sub s p.node items
  rcases hl : aeLoop s p.node items with ⟨s1, left⟩
  rw [hl] at e1 e2
  simp only at e1 e2 ⊢
  subst e1
  cases left with
  | cons x xs =>
    simp only
    exact inv_setProc_other h hq hk hkey hv hnode hnw hnr (fun kv hkv => hi kv (e2 kv hkv))
  | nil =>
    simp only
    split
    · have h1 : InvC P (s1.core.send { kind := .aeresp, src := p.node, dst := p.src, items := versionsOf s1 p.node }) :=
        inv_send h _ (fun e => by cases e) (versionsOf_written s1 h p.node)
      exact inv_setProc_other h1 hq hk hkey hv hnode hnw hnr (fun kv hkv => by cases hkv)
    · exact inv_setProc_other h hq hk hkey hv hnode hnw hnr (fun kv hkv => by cases hkv)

/-! ### the fan-out of `Replicate` messages -/

theorem foldl_send_core (mk : Nat → Msg) : ∀ (l : List Nat) (s : St),
    (l.foldl (fun s j => s.send (mk j)) s).core = l.foldl (fun c j => c.send (mk j)) s.core
  | [], _ => rfl
  | j :: l, s => by
    simp only [List.foldl_cons]
    rw [foldl_send_core mk l (s.send (mk j))]; rfl

theorem inv_foldl_send {P} (mk : Nat → Msg) (k : Nat) (v : Version)
    (hmk : ∀ j, (mk j).kind = .repl ∧ (mk j).dst = j ∧ (mk j).key = k ∧ (mk j).ver = v ∧
      (mk j).delivered = false ∧ (mk j).items = []) :
    ∀ (l : List Nat) (c : Core), InvC P c → WrittenC c k v →
      InvC P (l.foldl (fun c j => c.send (mk j)) c) ∧
      (l.foldl (fun c j => c.send (mk j)) c).vers = c.vers ∧
      (l.foldl (fun c j => c.send (mk j)) c).procs = c.procs ∧
      (l.foldl (fun c j => c.send (mk j)) c).n = c.n ∧
      (∀ j, j ∈ l → MsgCarrier (l.foldl (fun c j => c.send (mk j)) c) j k v) ∧
      (∀ i k' v', MsgCarrier c i k' v' → MsgCarrier (l.foldl (fun c j => c.send (mk j)) c) i k' v')
  | [], c, h, _ => by
    refine ⟨h, rfl, rfl, rfl, ?_, ?_⟩
    · intro j hj; cases hj
    · intro _ _ _ g; exact g
  | j :: l, c, h, hw => by
    obtain ⟨m1, m2, m3, m4, m5, m6⟩ := hmk j
    have h1 : InvC P (c.send (mk j)) :=
      inv_send h (mk j) (fun _ => by rw [m3, m4]; exact hw) (by rw [m6]; intro kv hkv; cases hkv)
    obtain ⟨a1, a2, a3, a4, a5, a6⟩ := inv_foldl_send mk k v hmk l (c.send (mk j)) h1 hw
    simp only [List.foldl_cons]
    refine ⟨a1, a2, a3, a4, ?_, ?_⟩
    · intro j' hj'
      rcases List.mem_cons.mp hj' with e | e
      · subst e
        apply a6
        exact ⟨c.nm, mk j', by show upd _ _ _ _ = _; simp, m1, m2, m3, m4, m5⟩
      · exact a5 j' e
    · intro i k' v' g
      exact a6 i k' v' (msgCarrier_send h.freshM (mk j) g)

/-! ### resume -/

theorem resume_inv {P} (s : St) (pid : Nat) (hc : ∀ k, Coherent s.n (P k)) (h : Inv P s) :
    Inv P (resume s pid) := by
  unfold resume
  unfold Inv
  cases h0 : s.procs pid with
  | none => exact h
  | some p0 =>
    simp only
    by_cases hf : p0.fin = true
    · simp only [hf, if_true]; exact h
    · have hf' : p0.fin = false := by simpa using hf
      simp only [hf', Bool.false_eq_true, if_false]
      have hcc : ∀ k, Coherent s.core.n (P k) := hc
      cases hk : p0.kind with
      | write =>
        simp only
        have hwr := h.wr pid p0 h0 hk
        have hw : WrittenC s.core p0.key p0.ver := ⟨pid, p0, h0, hk, rfl, rfl⟩
        by_cases hs : p0.seg = 1
        · simp only [hs, if_true]
          rw [core_setProc, foldl_send_core, core_install]
          obtain ⟨i1, i2, _⟩ := inv_install hcc h p0.node p0.key p0.ver hw
          have hw1 : WrittenC (s.core.install p0.node p0.key p0.ver) p0.key p0.ver := written_install _ _ _ hw
          obtain ⟨a1, a2, a3, a4, a5, _⟩ := inv_foldl_send
            (fun j => ({ kind := .repl, src := p0.node, dst := j, key := p0.key, ver := p0.ver } : Msg))
            p0.key p0.ver (fun j => ⟨rfl, rfl, rfl, rfl, rfl, rfl⟩) (peersOf s p0.node) _ i1 hw1
          refine inv_setProc a1 (p0 := p0) ?_ hk.symm rfl rfl rfl ?_ ?_ ?_ ?_
          · rw [a3, install_procs]; exact h0
          · intro _; exact ⟨by simp, fun e => by simp at e⟩
          · intro kv hkv
            have := (h.procW pid p0 h0).2 kv hkv
            unfold WrittenC; rw [a3, install_procs]; exact this
          · intro _ _ i hi
            rw [a4, install_n] at hi
            by_cases e : i = p0.node
            · left; rw [a2, e]; exact i2
            · right; left
              apply a5
              unfold peersOf
              simp only [List.mem_filter, List.mem_range, bne_iff_ne, ne_eq]
              exact ⟨hi, e⟩
          · intro e; simp [hk] at e
        · simp only [hs, if_false]
          rw [core_setProc, core_reply]
          refine inv_setProc h h0 hk.symm rfl rfl rfl ?_ ?_ ?_ ?_
          · intro _; exact ⟨by simp, fun _ => by simp; omega⟩
          · exact (h.procW pid p0 h0).2
          · intro _ _ i hi; exact h.cov pid p0 h0 hk (by omega) i hi
          · intro e; simp [hk] at e
      | repl =>
        simp only
        rw [core_setProc, core_install]
        have hw : WrittenC s.core p0.key p0.ver := (h.procW pid p0 h0).1 hk
        obtain ⟨i1, i2, _⟩ := inv_install hcc h p0.node p0.key p0.ver hw
        refine inv_setProc i1 (p0 := p0) (by rw [install_procs]; exact h0) hk.symm rfl rfl rfl ?_ ?_ ?_ ?_
        · intro e; simp [hk] at e
        · intro kv hkv; exact written_install _ _ _ ((h.procW pid p0 h0).2 kv hkv)
        · intro e; simp [hk] at e
        · intro _; exact Or.inr i2
      | read =>
        simp only
        rw [core_setProc, core_reply]
        exact inv_setProc_other h h0 hk.symm rfl rfl rfl (by simp) (by simp) (h.procW pid p0 h0).2
      | ae =>
        simp only
        rw [core_setProc]
        exact inv_setProc_other h h0 hk.symm rfl rfl rfl (by simp) (by simp) (h.procW pid p0 h0).2
      | aereq =>
        simp only
        split
        · rw [core_setProc]
          exact inv_setProc_other h h0 hk.symm rfl rfl rfl (by simp) (by simp) (h.procW pid p0 h0).2
        · split
          · rename_i k v rest hit
            split
            · have hit' : p0.items = (k, v) :: rest := hit
              have hiw := (h.procW pid p0 h0).2
              rw [hit'] at hiw
              have hw : WrittenC s.core k v := hiw (k, v) (by simp)
              obtain ⟨i1, _, _⟩ := inv_install hcc h p0.node k v hw
              refine inv_aeContinue _ pid _ p0 rest ?_ ?_ hk.symm rfl rfl rfl (by simp) (by simp) ?_
              · show InvC P (install s p0.node k v).1.core
                rw [core_install]; exact i1
              · have : (install s p0.node k v).1.core.procs pid = some p0 := by
                  rw [core_install, install_procs]; exact h0
                exact this
              · rw [core_install]
                intro kv hkv
                exact written_install _ _ _ (hiw kv (List.mem_cons_of_mem _ hkv))
            · exact h
          · exact h
      | aeresp =>
        simp only
        split
        · rw [core_setProc]
          exact inv_setProc_other h h0 hk.symm rfl rfl rfl (by simp) (by simp) (h.procW pid p0 h0).2
        · split
          · rename_i k v rest hit
            split
            · have hit' : p0.items = (k, v) :: rest := hit
              have hiw := (h.procW pid p0 h0).2
              rw [hit'] at hiw
              have hw : WrittenC s.core k v := hiw (k, v) (by simp)
              obtain ⟨i1, _, _⟩ := inv_install hcc h p0.node k v hw
              refine inv_aeContinue _ pid _ p0 rest ?_ ?_ hk.symm rfl rfl rfl (by simp) (by simp) ?_
              · show InvC P (install s p0.node k v).1.core
                rw [core_install]; exact i1
              · have : (install s p0.node k v).1.core.procs pid = some p0 := by
                  rw [core_install, install_procs]; exact h0
                exact this
              · rw [core_install]
                intro kv hkv
                exact written_install _ _ _ (hiw kv (List.mem_cons_of_mem _ hkv))
            · exact h
          · exact h
      | other => simp only; exact h

end HappyModel.C17.ML
