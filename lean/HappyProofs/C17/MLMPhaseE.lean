import HappyProofs.C17.MLMPhaseD
/-!
Run-level composition, part E: the anti-entropy phase, state part.  In a run segment without
write / `Replicate` handler steps that starts with every `Replicate` done, the clocks never change
(`SI.cl`), every value stays below the join of the values at the start of the phase (`SI.u`), and
values only go up in the join order (`Mono`).
-/
namespace HappyModel.C17.MLM
open HappyModel.C17.ML (Version Msg Proc MKind PKind vcGet dominates vcMerge vcTick)

/-- value of leader `h` for key `k` at the start of the phase -/
def x0 (sp : St) (h k : Nat) : Nat := valD (sp.vers h k)
/-- the join of all leaders' values at the start of the phase -/
def top (sp : St) (k : Nat) : Nat := bigJoin sp.join (fun h => x0 sp h k) sp.n

/-- all leaders hold the same clock for every key -/
def Agree (s : St) : Prop := ∀ i j k, i < s.n → j < s.n →
  (∀ c, c < s.n → clk (s.vers i k) c = clk (s.vers j k) c) ∧ ((s.vers i k).isSome = (s.vers j k).isSome)

/-- `vers` carries, at leader `i`, the clocks of the phase start -/
def ClAt (sp : St) (vers : Nat → Nat → Option Version) (i : Nat) : Prop :=
  ∀ k, (∀ c, c < sp.n → clk (vers i k) c = clk (sp.vers i k) c) ∧ (vers i k).isSome = (sp.vers i k).isSome

def Mono (sp s s' : St) : Prop :=
  ∀ b, b < sp.n → ∀ k, Le sp.join (valD (s.vers b k)) (valD (s'.vers b k))

structure SI (sp s : St) : Prop where
  inv : Inv s
  sub : SubInv s
  aux : AuxInv s
  rq : replQuiescent s
  n : s.n = sp.n
  join : s.join = sp.join
  cl : ∀ i, i < sp.n → ClAt sp s.vers i
  u : ∀ b, b < sp.n → ∀ k, Le sp.join (valD (s.vers b k)) (top sp k)

theorem mono_refl (sp s s' : St) (h : s'.vers = s.vers) : Mono sp s s' := by
  intro b _ k; rw [h]; exact le_refl _ _

/-! ### `_install` of a version whose clock is below the holder's -/

theorem installOpt_cases (n : Nat) (jn : Join) (u v : Version)
    (hle : ∀ c, c < n → vcGet v.vc c ≤ vcGet u.vc c) :
    ∃ w, installOpt n jn (some u) v = some w ∧ (∀ c, c < n → vcGet w.vc c = vcGet u.vc c) ∧
      ((w.val = u.val ∧ ¬ SameClock n u v) ∨ (w.val = joinVal jn u.val v.val ∧ SameClock n u v)) := by
  by_cases hs : SameClock n u v
  · obtain ⟨h1, h2, h3⟩ := pick_same_clock n jn u v hs
    refine ⟨pick n jn (some u) v, ?_, h3, Or.inr ⟨h2, hs⟩⟩
    unfold installOpt; rw [if_pos h1]
  · have hex : ∃ c, c < n ∧ vcGet v.vc c < vcGet u.vc c := by
      apply Classical.byContradiction
      intro hne
      apply hs
      intro c hc
      have h1 := hle c hc
      have h2 : ¬ vcGet v.vc c < vcGet u.vc c := fun h => hne ⟨c, hc, h⟩
      omega
    have hd : dominates n u.vc v.vc = true := by
      unfold dominates
      simp only [Bool.and_eq_true, List.all_eq_true, List.any_eq_true, List.mem_range, decide_eq_true_eq]
      exact ⟨hle, hex⟩
    have hd2 : dominates n v.vc u.vc = false := by
      cases hx : dominates n v.vc u.vc with
      | false => rfl
      | true =>
        obtain ⟨c, hc, hlt⟩ := dominates_strict hx
        have := hle c hc
        omega
    have ht : takes n (some u) v = false := by simp [takes, hd, hd2]
    refine ⟨u, ?_, fun _ _ => rfl, Or.inl ⟨rfl, hs⟩⟩
    unfold installOpt; rw [ht]; rfl

/-- a version that carries the common clock is never skipped by a merge loop -/
theorem takes_of_same (n : Nat) (cur : Option Version) (v u : Version) (hc : cur = some u)
    (hs : SameClock n u v) : takes n cur v = true := by
  subst hc
  exact (pick_same_clock n .union u v hs).1

/-! ### which steps change versions -/

/-- a step of the phase either leaves the versions alone or is the `_install` of the head item of an
anti-entropy handler -/
def VersChange (s s' : St) : Prop :=
  s'.vers = s.vers ∨ ∃ pid p0 k v rest, s.procs pid = some p0 ∧ (p0.kind = .aereq ∨ p0.kind = .aeresp) ∧
    p0.items = (k, v) :: rest ∧ s'.vers = (install s p0.node k v).1.vers

theorem step_versChange (s : St) (a : Act) (hw : isWR s a = false) : VersChange s (step s a) := by
  cases a with
  | tick t => exact Or.inl rfl
  | cw op node k v => simp [isWR] at hw
  | cr op node k =>
    simp only [step]; split <;> exact Or.inl rfl
  | ae node peer =>
    simp only [step]; split <;> exact Or.inl rfl
  | dl mid =>
    show VersChange s (deliver s mid)
    cases deliver_shape s mid with
    | fail e h => rw [h]; exact Or.inl rfl
    | repl m h0 hk => simp [isWR, h0, hk] at hw
    | ae m p p' h0 hd hk hpk hpk2 hnode hsrc hop hfin hsent sh => exact Or.inl sh.vers
  | rs pid =>
    show VersChange s (resume s pid)
    cases resume_shape s pid with
    | fail e h => rw [h]; exact Or.inl rfl
    | wr p0 h0 hk => simp [isWR, h0, hk] at hw
    | other p0 p' h0 hf hk hk' hv hm hp => exact Or.inl hv
    | sent p0 h0 hf hk hs h => rw [h]; exact Or.inl rfl
    | wait p0 p' k v rest h0 hf hk hs hit sh =>
      exact Or.inr ⟨pid, p0, k, v, rest, h0, hk, hit, sh.vers⟩

theorem step_join (s : St) (a : Act) : (step s a).join = s.join := by
  have inst : ∀ (s : St) i k v, (install s i k v).1.join = s.join := fun s i k v => (install_frame s i k v).2.1
  have fold : ∀ (mk : Nat → Msg) (l : List Nat) (s : St), (l.foldl (fun s j => s.send (mk j)) s).join = s.join := by
    intro mk l
    induction l with
    | nil => intro s; rfl
    | cons j l ih => intro s; simp only [List.foldl_cons]; rw [ih]; rfl
  cases a with
  | tick t => rfl
  | cw op node k v => simp only [step]; split <;> rfl
  | cr op node k => simp only [step]; split <;> rfl
  | ae node peer => simp only [step]; split <;> rfl
  | dl mid =>
    show (deliver s mid).join = s.join
    cases deliver_shape s mid with
    | fail e h => rw [h]; rfl
    | repl m h0 hk =>
      unfold deliver
      simp only [h0]
      split
      · rfl
      · simp only [hk]; split <;> rfl
    | ae m p p' h0 hd hk hpk hpk2 hnode hsrc hop hfin hsent sh => rw [sh.join]; rfl
  | rs pid =>
    show (resume s pid).join = s.join
    cases resume_shape s pid with
    | fail e h => rw [h]; rfl
    | wr p0 h0 hk =>
      unfold resume
      simp only [h0]
      split
      · rfl
      · rcases hk with hk | hk
        · simp only [hk]
          split
          · show St.join (List.foldl _ _ _) = _
            rw [fold, inst]
          · rfl
        · simp only [hk]
          show St.join (install _ _ _ _).1 = _
          rw [inst]
    | other p0 p' h0 hf hk hk' hv hm hp =>
      unfold resume
      simp only [h0, hf, Bool.false_eq_true, if_false]
      rcases hk with hk | hk <;> simp only [hk] <;> rfl
    | sent p0 h0 hf hk hs h => rw [h]; rfl
    | wait p0 p' k v rest h0 hf hk hs hit sh => rw [sh.join, inst]

end HappyModel.C17.MLM
