import HappyProofs.C17.PBStep4
/-! Consequences of the primary-backup invariant, in the form used by `Props.lean`. -/
namespace HappyModel.C17.PB

theorem sendRepls_nb (s : St) (k v q : Nat) : (sendRepls s k v q).nb = s.nb := by
  have h := (sendRepls_spec s k v q).rest
  rw [h]
theorem sendRepls_mode (s : St) (k v q : Nat) : (sendRepls s k v q).mode = s.mode := by
  have h := (sendRepls_spec s k v q).rest
  rw [h]

theorem ackMsg_static (s : St) (mid : Nat) : (ackMsg s mid).nb = s.nb ∧ (ackMsg s mid).mode = s.mode := by
  unfold ackMsg; split <;> exact ⟨rfl, rfl⟩

theorem applyRepl_static (s : St) (b k v q : Nat) :
    (applyRepl s b k v q).nb = s.nb ∧ (applyRepl s b k v q).mode = s.mode := by
  unfold applyRepl; split
  · split <;> exact ⟨rfl, rfl⟩
  · exact ⟨rfl, rfl⟩

theorem step_static (s : St) (a : Act) : (step s a).nb = s.nb ∧ (step s a).mode = s.mode := by
  cases a with
  | cw op node k v => simp only [step]; split <;> exact ⟨rfl, rfl⟩
  | cr op node k => simp only [step]; split <;> exact ⟨rfl, rfl⟩
  | ae n p => exact ⟨rfl, rfl⟩
  | tick t => exact ⟨rfl, rfl⟩
  | dl mid =>
    simp only [step, deliver]
    split
    · exact ⟨rfl, rfl⟩
    · split
      · exact ⟨rfl, rfl⟩
      · split <;> exact ⟨rfl, rfl⟩
  | rs pid =>
    simp only [step, resume]
    split
    · exact ⟨rfl, rfl⟩
    · split
      · exact ⟨rfl, rfl⟩
      · split
        · unfold resumeWrite
          split
          · split
            · exact ⟨rfl, rfl⟩
            · split
              · exact ⟨sendRepls_nb _ _ _ _, sendRepls_mode _ _ _ _⟩
              · exact ⟨sendRepls_nb _ _ _ _, sendRepls_mode _ _ _ _⟩
          · split
            · split <;> exact ⟨rfl, rfl⟩
            · split <;> exact ⟨rfl, rfl⟩
        · unfold resumeRepl
          split
          · rename_i p _ _ _ _ _
            have h1 := applyRepl_static s (p.node - 1) p.key p.val p.seq
            have h2 := ackMsg_static (applyRepl s (p.node - 1) p.key p.val p.seq) p.op
            exact ⟨h2.1.trans h1.1, h2.2.trans h1.2⟩
          · exact ⟨rfl, rfl⟩
        · exact ⟨rfl, rfl⟩
        · exact ⟨rfl, rfl⟩

theorem run_static (s : St) (acts : List Act) : (run s acts).nb = s.nb ∧ (run s acts).mode = s.mode := by
  induction acts generalizing s with
  | nil => exact ⟨rfl, rfl⟩
  | cons a as ih =>
    have h1 := ih (step s a)
    have h2 := step_static s a
    exact ⟨h1.1.trans h2.1, h1.2.trans h2.2⟩

/-- the store of backup `b` reflects write `q` of key `k`: it holds the value of `q` or of a later
    write to the same key -/
def Reflects (s : St) (b k q : Nat) : Prop :=
  ∃ q', q ≤ q' ∧ s.wk q' = k ∧ s.store (b + 1) k = some (s.wv q')

theorem acked_reflects (s : St) (h : Inv s) (p : Proc) (b : Nat) (hb : b < s.nb)
    (hw : WriteProc s p) (h2 : 2 ≤ p.seg) (ha : ackedAt s (p.mid0 + b) = true) :
    Reflects s b p.key p.seq := by
  obtain ⟨m, c1, c2, c3, c4, c5⟩ := (hw.2.2.2.2.2.1 h2).2 b hb
  unfold ackedAt at ha
  rw [c1] at ha
  obtain ⟨g1, g2, g3, g4, g5, g6⟩ := h.msg_ok _ m c1 c2
  have hle := g6 ha
  rw [c3, c4, c5] at hle
  obtain ⟨a1, a2, a3⟩ := h.bk_ok b p.key
  have hne : s.kseq b p.key ≠ 0 := by omega
  exact ⟨s.kseq b p.key, hle, (a3 hne).1, (a3 hne).2⟩

theorem sync_reflects (s : St) (h : Inv s) (hm : s.mode = .sync) (pid : Nat) (p : Proc)
    (hp : s.procs pid = some p) (hk : p.kind = .write) (hf : p.fin = true) :
    ∀ b, b < s.nb → Reflects s b p.key p.seq := by
  intro b hb
  have hw := h.write_ok pid p hp hk
  obtain ⟨h2, hc⟩ := hw.2.2.2.2.2.2.1 hf
  rcases hc with hc | hc
  · omega
  · unfold ackCond at hc
    rw [hm] at hc
    simp only [List.all_eq_true, List.mem_range] at hc
    exact acked_reflects s h p b hb hw h2 (hc b hb)

theorem semi_reflects (s : St) (h : Inv s) (hm : s.mode = .semi) (hnb : 0 < s.nb) (pid : Nat) (p : Proc)
    (hp : s.procs pid = some p) (hk : p.kind = .write) (hf : p.fin = true) :
    ∃ b, b < s.nb ∧ Reflects s b p.key p.seq := by
  have hw := h.write_ok pid p hp hk
  obtain ⟨h2, hc⟩ := hw.2.2.2.2.2.2.1 hf
  rcases hc with hc | hc
  · omega
  · unfold ackCond at hc
    rw [hm] at hc
    simp only [List.any_eq_true, List.mem_range] at hc
    obtain ⟨b, hb, ha⟩ := hc
    exact ⟨b, hb, acked_reflects s h p b hb hw h2 ha⟩

theorem converge (s : St) (h : Inv s) (hq : quiescent s) (b : Nat) (hb : b < s.nb) (k : Nat) :
    s.store (b + 1) k = s.store 0 k := by
  obtain ⟨q1, q2, q3⟩ := hq
  obtain ⟨a1, a2, a3⟩ := h.bk_ok b k
  rw [h.prim_ok k]
  by_cases hL : lastFor s.wk s.applied k = 0
  · rw [if_pos hL]
    by_cases hz : s.kseq b k = 0
    · exact a2 hz
    · have := lastFor_ge s.wk s.applied k (s.kseq b k) (by omega) a1 (a3 hz).1
      omega
  · rw [if_neg hL]
    have hkey := lastFor_key s.wk s.applied k hL
    have hle := lastFor_le s.wk s.applied k
    obtain ⟨x, p, hx, hpk, hps⟩ := h.write_all (lastFor s.wk s.applied k) (by omega) (by omega)
    have hxlt : x < s.np := by
      by_cases hh : x < s.np
      · exact hh
      · rw [h.procs_none x (by omega)] at hx; cases hx
    have hfin := q3 x hxlt p hx
    have hw := h.write_ok x p hx hpk
    have h2 := (hw.2.2.2.2.2.2.1 hfin).1
    obtain ⟨m, c1, c2, c3, c4, c5⟩ := (hw.2.2.2.2.2.1 h2).2 b hb
    have hmlt : p.mid0 + b < s.nm := by
      by_cases hh : p.mid0 + b < s.nm
      · exact hh
      · rw [h.msgs_none _ (by omega)] at c1; cases c1
    have hdel := q2 _ hmlt m c1
    obtain ⟨y, r, hy, hrk, hro⟩ := h.deliv_ok _ m c1 c2 hdel
    have hylt : y < s.np := by
      by_cases hh : y < s.np
      · exact hh
      · rw [h.procs_none y (by omega)] at hy; cases hy
    have hrfin := q3 y hylt r hy
    obtain ⟨r1, r2, m', d1, d2, d3, d4, d5, d6, d7⟩ := h.repl_ok y r hy hrk
    rw [hro, c1] at d1; cases d1
    have hack := d7 (by have := r2 hrfin; omega)
    have hge := (h.msg_ok _ m c1 c2).2.2.2.2.2 hack
    rw [c3, c4, hps, c5, hw.2.2.1.symm, hps, hkey] at hge
    have hz : s.kseq b k ≠ 0 := by omega
    have hup := lastFor_ge s.wk s.applied k (s.kseq b k) (by omega) a1 (a3 hz).1
    have heq : s.kseq b k = lastFor s.wk s.applied k := by omega
    rw [(a3 hz).2, heq]

end HappyModel.C17.PB
