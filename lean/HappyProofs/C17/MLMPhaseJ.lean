import HappyProofs.C17.MLMPhaseI
/-!
Run-level composition, part J: a resumption in the phase preserves the ghost invariant.
-/
namespace HappyModel.C17.MLM
open HappyModel.C17.ML (Version Msg Proc MKind PKind vcGet dominates vcMerge vcTick)

theorem if_fin_eq3 {α} (p0 p' : Proc) (h0 : p0.fin = false) (hk : p'.kind = .aereq) (a b : α) :
    (if p0.fin = false ∧ p'.kind = .aereq ∧ p'.fin = true then a else b) = if p'.fin = true then a else b := by
  by_cases hf : p'.fin = true
  · rw [if_pos ⟨h0, hk, hf⟩, if_pos hf]
  · rw [if_neg (fun c => hf c.2.2), if_neg hf]

theorem GI_rs (F3 : F3Stmt) (sp s : St) (A : Agree sp) (g : GK) (pid : Nat) (hs : SI sp s) (hg : GI sp s g)
    (hw : isWR s (.rs pid) = false) (hs' : SI sp (step s (.rs pid))) (mono : Mono sp s (step s (.rs pid))) :
    GI sp (step s (.rs pid)) (kstep s g (.rs pid)) := by
  have hne : ∀ node peer, Act.rs pid ≠ .ae node peer := fun _ _ e => by cases e
  have hst : step s (.rs pid) = resume s pid := rfl
  cases resume_shape s pid with
  | fail e h =>
    rw [kstep_none s g _ hw hne (finishedReq_rs_same s pid (by rw [hst, h]; rfl))]
    exact GI_quiet hg hs.aux hs.n mono (fun _ _ hm _ _ => by rw [hst, h] at hm; exact hm)
      (fun _ _ hp _ _ => by rw [hst, h] at hp; exact hp)
  | wr p0 h0 hk => rcases hk with hk | hk <;> simp [isWR, h0, hk] at hw
  | other p0 p' h0 hf hk hk' hv hm hp =>
    have hpp : (step s (.rs pid)).procs pid = some p' := by rw [hst, hp, upd_same]
    have hnk : p'.kind ≠ .aereq := by
      rw [hk']; rcases hk with hk | hk <;> rw [hk] <;> exact fun e => by cases e
    have hfr : finishedReq s (.rs pid) = none := by
      rw [finishedReq_rs s pid p0 p' h0 hpp, if_neg (fun c => hnk c.2.1)]
    rw [kstep_none s g _ hw hne hfr]
    refine GI_quiet hg hs.aux hs.n mono (fun _ _ hmm _ _ => by rw [hst, hm] at hmm; exact hmm) ?_
    intro pid' q hq hkq _
    rw [hst, hp, upd_apply] at hq
    split at hq
    · cases hq; exact absurd hkq hnk
    · exact hq
  | sent p0 h0 hf hk hsent h =>
    have hprocs : (step s (.rs pid)).procs = upd s.procs pid (some { p0 with seg := p0.seg + 1, fin := true }) := by
      rw [hst, h]; rfl
    have hpp : (step s (.rs pid)).procs pid = some { p0 with seg := p0.seg + 1, fin := true } := by
      rw [hprocs, upd_same]
    have hvers : (step s (.rs pid)).vers = s.vers := by rw [hst, h]; rfl
    have hmsgs : ∀ mid' q, (step s (.rs pid)).msgs mid' = some q → q.kind = .aereq → q.delivered = false →
        s.msgs mid' = some q := fun _ _ hm _ _ => by rw [hst, h] at hm; exact hm
    have hfr := finishedReq_rs s pid p0 _ h0 hpp
    by_cases hkq : p0.kind = .aereq
    · refine GI_handler hg hs.aux hs.n mono pid _ hprocs hmsgs ?_ ?_
      · intro x hx k
        rw [hvers]
        rcases hg.spr pid p0 h0 hkq hf x hx k with r | ⟨r, _⟩
        · exact Or.inl r
        · rw [hsent] at r; cases r
      · rw [kstep_handler s g (.rs pid) hw hne _ _ _ hfr]
        rw [if_pos ⟨hf, hkq, rfl⟩, if_pos rfl]
    · have hfr' : finishedReq s (.rs pid) = none := by
        rw [hfr, if_neg (fun c => hkq c.2.1)]
      rw [kstep_none s g _ hw hne hfr']
      refine GI_quiet hg hs.aux hs.n mono hmsgs ?_
      intro pid' q hq hk' _
      rw [hprocs, upd_apply] at hq
      split at hq
      · cases hq; exact absurd hk' hkq
      · exact hq
  | wait p0 p' k v rest h0 hf hk hsent hit sh =>
    obtain ⟨f1, _, _, _, f5, f6, _⟩ := install_frame s p0.node k v
    have hprocs : (step s (.rs pid)).procs = upd s.procs pid (some p') := by
      rw [hst, sh.procs, f6]
    have hpp : (step s (.rs pid)).procs pid = some p' := by rw [hprocs, upd_same]
    have hvers : (step s (.rs pid)).vers = (install s p0.node k v).1.vers := sh.vers
    have hmsgs : ∀ mid' q, (step s (.rs pid)).msgs mid' = some q → q.kind = .aereq → q.delivered = false →
        s.msgs mid' = some q := by
      intro mid' q hq hk' _
      have := ae_msgs_frame sh mid' q hq hk'
      rw [f5] at this
      exact this
    have hfr := finishedReq_rs s pid p0 p' h0 hpp
    have hpk : p'.kind = p0.kind := sh.kind
    have hnode' : p'.node = p0.node := sh.node
    have hop' : p'.op = p0.op := sh.op
    by_cases hkq : p0.kind = .aereq
    · have hp'k : p'.kind = .aereq := hpk.trans hkq
      obtain ⟨u, w, hu, hN, hvers1, _, hcase, _⟩ := install_ok F3 sp s A hs pid p0 k v rest h0 hk hit
      have hcl' : ClAt sp (step s (.rs pid)).vers p0.node := hs'.cl p0.node hN
      have skip' : ∀ kv, kv ∈ rest → kv ∈ p'.items ∨
          takes sp.n ((step s (.rs pid)).vers p0.node kv.1) kv.2 = false := by
        intro kv hkv
        have := sh.skip kv hkv
        rw [f1, hs.n] at this
        rw [hvers]
        exact this
      refine GI_handler hg hs.aux hs.n mono pid p' hprocs hmsgs ?_ ?_
      · intro x hx k'
        rw [hop'] at hx
        rw [hnode']
        have pre : Le sp.join (x0 sp x k') (valD ((step s (.rs pid)).vers p0.node k')) ∨ x0 sp x k' = 0 ∨
            ∃ v', (k', v') ∈ rest ∧ Wit sp x k' v' := by
          rcases hg.spr pid p0 h0 hkq hf x hx k' with r | ⟨_, v', hv', wit⟩
          · exact Or.inl (le_trans r (mono p0.node hN k'))
          · rw [hit] at hv'
            rcases List.mem_cons.mp hv' with e | e
            · left
              have e1 : k' = k := congrArg Prod.fst e
              have e2 : v' = v := congrArg Prod.snd e
              subst e1; subst e2
              rw [hvers, hvers1, if_pos ⟨rfl, rfl⟩, valD_some]
              obtain ⟨u', hu', hsame⟩ := wit_holder sp s.vers p0.node hN (hs.cl p0.node hN) x k' v' wit
              rw [hu] at hu'; cases hu'
              rcases hcase with ⟨_, c⟩ | ⟨c, _⟩
              · exact absurd hsame c
              · rw [c]; exact le_trans wit.2 (le_join_right _ _ _)
            · exact Or.inr (Or.inr ⟨v', e, wit⟩)
        rcases after_loop sp _ p0.node hN hcl' rest p'.items skip' x k' pre with r | ⟨v'', hv'', wit⟩
        · exact Or.inl r
        · right
          obtain ⟨k1, k2⟩ := sh.keep (fun e => by rw [e] at hv''; cases hv'')
          exact ⟨k1.trans hf, k2.trans hsent, v'', hv'', wit⟩
      · rw [kstep_handler s g (.rs pid) hw hne _ p'.node p'.op hfr]
        exact if_fin_eq3 p0 p' hf hp'k _ _
    · have hp'k : p'.kind ≠ .aereq := by rw [hpk]; exact hkq
      have hfr' : finishedReq s (.rs pid) = none := by
        rw [hfr, if_neg (fun c => hp'k c.2.1)]
      rw [kstep_none s g _ hw hne hfr']
      refine GI_quiet hg hs.aux hs.n mono hmsgs ?_
      intro pid' q hq hk' _
      rw [hprocs, upd_apply] at hq
      split at hq
      · cases hq; exact absurd hk' hp'k
      · exact hq

end HappyModel.C17.MLM
