import HappyProofs.C17.MLRun
/-! Multi-leader: at quiescence every replica holds the greatest written version of every key. -/
namespace HappyModel.C17.ML

theorem quiescent_spec (s : St) (hq : quiescentB s = true) :
    (∀ mid m, mid < s.nm → s.msgs mid = some m → m.delivered = true) ∧
    (∀ pid p, pid < s.np → s.procs pid = some p → p.fin = true) := by
  unfold quiescentB at hq
  simp only [Bool.and_eq_true, List.all_eq_true, List.mem_range] at hq
  constructor
  · intro mid m hlt hm
    have := hq.1 mid hlt
    rw [hm] at this; exact this
  · intro pid p hlt hp
    have := hq.2 pid hlt
    rw [hp] at this; exact this

/-- at quiescence every replica is at or above every written version -/
theorem quiescent_ge {P} (s : St) (h : Inv P s) (hq : quiescentB s = true) (k : Nat) (v : Version)
    (hw : WrittenC s.core k v) (i : Nat) (hi : i < s.n) : Ge (s.vers i k) v := by
  obtain ⟨qm, qp⟩ := quiescent_spec s hq
  obtain ⟨pid, p, hp, hk, rfl, rfl⟩ := hw
  have hlt : pid < s.np := by
    rcases Nat.lt_or_ge pid s.np with x | x
    · exact x
    · have := h.freshP pid x
      rw [hp] at this; cases this
  have hfin := qp pid p hlt hp
  have hseg := (h.wr pid p hp hk).2.2 hfin
  rcases h.cov pid p hp hk hseg i hi with g | ⟨mid, m, g1, _, _, _, _, g6⟩ | ⟨pid', p', g1, _, _, _, _, g6⟩
  · exact g
  · have hlt' : mid < s.nm := by
      rcases Nat.lt_or_ge mid s.nm with x | x
      · exact x
      · have := h.freshM mid x
        rw [g1] at this; cases this
    have := qm mid m hlt' g1
    rw [g6] at this; cases this
  · have hlt' : pid' < s.np := by
      rcases Nat.lt_or_ge pid' s.np with x | x
      · exact x
      · have := h.freshP pid' x
        rw [g1] at this; cases this
    have := qp pid' p' hlt' g1
    rw [g6] at this; cases this

/-- … hence all replicas hold the same version, and the same value, of every key -/
theorem quiescent_agree {P} (s : St) (hc : ∀ k, Coherent s.n (P k)) (h : Inv P s) (hq : quiescentB s = true)
    (i j k : Nat) (hi : i < s.n) (hj : j < s.n) : s.vers i k = s.vers j k ∧ s.store i k = s.store j k := by
  have key : s.vers i k = s.vers j k := by
    cases hvi : s.vers i k with
    | none =>
      cases hvj : s.vers j k with
      | none => rfl
      | some w =>
        obtain ⟨u, hu, _⟩ := quiescent_ge s h hq k w (h.versW j k w hvj) i hi
        rw [hvi] at hu; cases hu
    | some u =>
      have hwu := h.versW i k u hvi
      obtain ⟨w, hw, hnw⟩ := quiescent_ge s h hq k u hwu j hj
      have hww := h.versW j k w hw
      obtain ⟨u', hu', hnu⟩ := quiescent_ge s h hq k w hww i hi
      rw [hvi] at hu'; cases hu'
      rw [hw]
      rcases vlt_total s.n (P k) (hc k) u w (h.written_P hwu) (h.written_P hww) with x | x | x
      · exact absurd x hnu
      · rw [x]
      · exact absurd x hnw
  refine ⟨key, ?_⟩
  have e1 := h.store i k
  have e2 := h.store j k
  rw [show s.core.store i k = s.store i k from rfl, show s.core.vers i k = s.vers i k from rfl] at e1
  rw [show s.core.store j k = s.store j k from rfl, show s.core.vers j k = s.vers j k from rfl] at e2
  rw [e1, e2, key]

/-! ### a decidable check of coherence for concrete runs -/

def coherentB (n : Nat) (l : List Version) : Bool :=
  l.all fun a => l.all fun b =>
    (!(dominates n b.vc a.vc) || decide (vlt a b)) &&
    (!(a.ts == b.ts && a.writer == b.writer) || decide (a = b) || dominates n a.vc b.vc || dominates n b.vc a.vc)

theorem coherentB_sound (n : Nat) (L : List (Nat × Version)) (h : coherentB n (L.map (·.2)) = true) (k : Nat) :
    Coherent n (fun v => (k, v) ∈ L) := by
  unfold coherentB at h
  simp only [List.all_eq_true, List.mem_map, Bool.and_eq_true, Bool.or_eq_true,
    decide_eq_true_eq, beq_iff_eq, forall_exists_index, and_imp, Bool.not_eq_eq_eq_not, Bool.not_true,
    Bool.and_eq_false_imp] at h
  constructor
  · intro a b ha hb hd
    rcases (h a (k, a) ha rfl b (k, b) hb rfl).1 with x | x
    · rw [hd] at x; cases x
    · exact x
  · intro a b ha hb e1 e2
    rcases (h a (k, a) ha rfl b (k, b) hb rfl).2 with ((x | x) | x) | x
    · have := x e1; simp [e2] at this
    · exact Or.inl x
    · exact Or.inr (Or.inl x)
    · exact Or.inr (Or.inr x)

end HappyModel.C17.ML
