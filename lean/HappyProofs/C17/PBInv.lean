import HappyModel.C17.PB
/-! Invariant of the repaired primary-backup model and basic lemmas. -/
namespace HappyModel.C17.PB

/-! ### `lastFor` -/

theorem lastFor_le (wk : Nat → Nat) (a k : Nat) : lastFor wk a k ≤ a := by
  induction a with
  | zero => simp [lastFor]
  | succ a ih => unfold lastFor; split <;> omega

theorem lastFor_key (wk : Nat → Nat) (a k : Nat) (h : lastFor wk a k ≠ 0) : wk (lastFor wk a k) = k := by
  induction a with
  | zero => simp [lastFor] at h
  | succ a ih =>
    unfold lastFor at h ⊢
    split
    · assumption
    · rename_i hne; simp [hne] at h; exact ih h

theorem lastFor_ge (wk : Nat → Nat) (a k q : Nat) (h1 : 1 ≤ q) (h2 : q ≤ a) (hk : wk q = k) :
    q ≤ lastFor wk a k := by
  induction a with
  | zero => omega
  | succ a ih =>
    unfold lastFor
    split
    · omega
    · rename_i hne
      have : q ≠ a + 1 := by intro h; subst h; exact hne hk
      exact ih (by omega)

theorem lastFor_congr (wk wk' : Nat → Nat) (a k : Nat) (h : ∀ q, q ≤ a → wk' q = wk q) :
    lastFor wk' a k = lastFor wk a k := by
  induction a with
  | zero => simp [lastFor]
  | succ a ih =>
    unfold lastFor
    rw [h (a + 1) (Nat.le_refl _), ih (fun q hq => h q (by omega))]

/-! ### sending to all backups -/

def sendN (k v q : Nat) (fut : Bool) (s : St) (n : Nat) : St :=
  (List.range n).foldl (sendRepl k v q fut) s

theorem sendN_succ (k v q : Nat) (fut : Bool) (s : St) (n : Nat) :
    sendN k v q fut s (n + 1) = sendRepl k v q fut (sendN k v q fut s n) n := by
  simp [sendN, List.range_succ, List.foldl_append]

structure SendSpec (k v q : Nat) (fut : Bool) (s s' : St) (n : Nat) : Prop where
  nm : s'.nm = s.nm + n
  new : ∀ b, b < n → s'.msgs (s.nm + b) =
    some { kind := .repl, b := b, key := k, val := v, seq := q, fut := fut }
  old : ∀ mid, (mid < s.nm ∨ s.nm + n ≤ mid) → s'.msgs mid = s.msgs mid
  rest : s' = { s with nm := s'.nm, msgs := s'.msgs }

theorem sendN_spec (k v q : Nat) (fut : Bool) (s : St) (n : Nat) :
    SendSpec k v q fut s (sendN k v q fut s n) n := by
  induction n with
  | zero => exact ⟨rfl, by intro b hb; omega, by intro _ _; rfl, rfl⟩
  | succ n ih =>
    rw [sendN_succ]
    obtain ⟨h1, h2, h3, h4⟩ := ih
    refine ⟨?_, ?_, ?_, ?_⟩
    · simp [sendRepl, St.send, h1]; omega
    · intro b hb
      simp only [sendRepl, St.send, h1, upd_apply]
      by_cases hbn : b = n
      · subst hbn; simp
      · simp [hbn]; exact h2 b (by omega)
    · intro mid hm
      simp only [sendRepl, St.send, h1, upd_apply]
      have : mid ≠ s.nm + n := by omega
      simp [this]; exact h3 mid (by omega)
    · rw [h4]; simp [sendRepl, St.send]

theorem sendRepls_spec (s : St) (k v q : Nat) :
    SendSpec k v q (s.mode != .async) s (sendRepls s k v q) s.nb := sendN_spec k v q _ s s.nb

end HappyModel.C17.PB
