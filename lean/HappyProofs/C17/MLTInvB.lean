import HappyProofs.C17.MLTInvA
/-! `MLT` run level, part B: every action preserves `TInv P` (resolver that returns one of its inputs). -/
namespace HappyModel.C17.MLT
open HappyModel.C17.ML (Version Msg Proc MKind PKind vcGet dominates vcMerge vcTick Coherent vlt)
open HappyModel.C17.MLM (Join)

theorem deliver_tinv {P} (s : St) (mid : Nat) (h : TInv P s) : TInv P (deliver s mid) := by
  unfold deliver
  cases h0 : s.msgs mid with
  | none => exact tinv_frame h rfl rfl rfl rfl rfl rfl
  | some m =>
    simp only
    by_cases hd : m.delivered = true
    · simp only [hd, if_true]; exact tinv_frame h rfl rfl rfl rfl rfl rfl
    · have hd' : m.delivered = false := by simpa using hd
      simp only [hd', Bool.false_eq_true, if_false]
      have hmw := h.msgP mid m h0
      have hlt := h.msgs_lt h0
      cases hk : m.kind with
      | repl =>
        simp only
        have h1 : TInv P (setMsg s mid { m with kind := .repl, delivered := true }) :=
          tinv_setMsg h hlt _ (fun _ => hmw.1 hk) hmw.2
        split
        · refine tinv_spawn ?_ _ ?_ ?_
          · exact tinv_frame h1 rfl rfl rfl rfl rfl rfl
          · intro _; exact hmw.1 hk
          · intro kv hkv; simp at hkv
        · refine tinv_spawn ?_ _ ?_ ?_
          · exact tinv_frame h1 rfl rfl rfl rfl rfl rfl
          · intro _; exact hmw.1 hk
          · intro kv hkv; simp at hkv
      | aereq =>
        simp only
        have h1 : TInv P (setMsg s mid { m with kind := .aereq, delivered := true }) :=
          tinv_setMsg h hlt _ (fun e => by cases e) hmw.2
        refine tinv_aeContinue (tinv_spawn h1 _ ?_ ?_) (Nat.lt_succ_self _) (Or.inl rfl) hmw.2
        · intro e; simp at e
        · intro kv hkv; simp at hkv
      | aeresp =>
        simp only
        have h1 : TInv P (setMsg s mid { m with kind := .aeresp, delivered := true }) :=
          tinv_setMsg h hlt _ (fun e => by cases e) hmw.2
        refine tinv_aeContinue (tinv_spawn h1 _ ?_ ?_) (Nat.lt_succ_self _) (Or.inr rfl) hmw.2
        · intro e; simp at e
        · intro kv hkv; simp at hkv

theorem resume_tinv {P} (s : St) (pid : Nat) (hl : s.lww = true) (h : TInv P s) : TInv P (resume s pid) := by
  unfold resume
  cases h0 : s.procs pid with
  | none => exact tinv_frame h rfl rfl rfl rfl rfl rfl
  | some p0 =>
    simp only
    by_cases hf : p0.fin = true
    · simp only [hf, if_true]; exact tinv_frame h rfl rfl rfl rfl rfl rfl
    · have hf' : p0.fin = false := by simpa using hf
      simp only [hf', Bool.false_eq_true, if_false]
      have hpw := h.procP pid p0 h0
      have hlt := h.procs_lt h0
      cases hk : p0.kind with
      | write =>
        simp only
        have hv : P p0.key p0.ver := hpw.1 (Or.inl hk)
        by_cases hs : p0.seg = 1
        · simp only [hs, if_true]
          have i1 := tinv_install h hl p0.node p0.key p0.ver hv
          have fr := install_frame s p0.node p0.key p0.ver
          have f2 := foldl_send_ind (fun s' => TInv P s' ∧ s'.np = s.np)
            (fun j => ({ kind := .repl, src := p0.node, dst := j, key := p0.key, ver := p0.ver } : Msg))
            (fun s' j hs' => ⟨tinv_send hs'.1 _ (fun _ => hv) (fun kv hkv => by simp at hkv), hs'.2⟩)
            (peersOf s p0.node) (install s p0.node p0.key p0.ver).1 ⟨i1, fr.2.2.1⟩
          refine tinv_setProc f2.1 (by rw [f2.2]; exact hlt) _ ?_ ?_
          · intro _; exact hv
          · exact hpw.2
        · simp only [hs, if_false]
          refine tinv_setProc (tinv_frame (s' := s.reply p0.op "ok") h rfl rfl rfl rfl rfl rfl) hlt _ ?_ ?_
          · intro _; exact hv
          · exact hpw.2
      | repl =>
        simp only
        have hv : P p0.key p0.ver := hpw.1 (Or.inr hk)
        have fr := install_frame s p0.node p0.key p0.ver
        refine tinv_setProc (tinv_install h hl p0.node p0.key p0.ver hv) (by rw [fr.2.2.1]; exact hlt) _ ?_ ?_
        · intro _; exact hv
        · exact hpw.2
      | read =>
        simp only
        refine tinv_setProc (tinv_frame (s' := s.reply p0.op _) h rfl rfl rfl rfl rfl rfl) hlt _ ?_ ?_
        · intro e; simp at e
        · exact hpw.2
      | ae =>
        simp only
        refine tinv_setProc h hlt _ ?_ ?_
        · intro e; simp at e
        · exact hpw.2
      | aereq =>
        simp only
        split
        · refine tinv_setProc h hlt _ ?_ ?_
          · intro e; simp at e
          · exact hpw.2
        · split
          · rename_i k v rest hit
            split
            · have hit' : p0.items = (k, v) :: rest := hit
              have hiw := hpw.2
              rw [hit'] at hiw
              have i1 := tinv_install h hl p0.node k v (hiw (k, v) (by simp))
              have fr := install_frame s p0.node k v
              exact tinv_aeContinue i1 (by rw [fr.2.2.1]; exact hlt) (Or.inl rfl)
                (fun kv hkv => hiw kv (List.mem_cons_of_mem _ hkv))
            · exact tinv_frame h rfl rfl rfl rfl rfl rfl
          · exact tinv_frame h rfl rfl rfl rfl rfl rfl
      | aeresp =>
        simp only
        split
        · refine tinv_setProc h hlt _ ?_ ?_
          · intro e; simp at e
          · exact hpw.2
        · split
          · rename_i k v rest hit
            split
            · have hit' : p0.items = (k, v) :: rest := hit
              have hiw := hpw.2
              rw [hit'] at hiw
              have i1 := tinv_install h hl p0.node k v (hiw (k, v) (by simp))
              have fr := install_frame s p0.node k v
              exact tinv_aeContinue i1 (by rw [fr.2.2.1]; exact hlt) (Or.inr rfl)
                (fun kv hkv => hiw kv (List.mem_cons_of_mem _ hkv))
            · exact tinv_frame h rfl rfl rfl rfl rfl rfl
          · exact tinv_frame h rfl rfl rfl rfl rfl rfl
      | other => simp only; exact tinv_frame h rfl rfl rfl rfl rfl rfl

theorem step_tinv {P} (s : St) (a : Act) (hl : s.lww = true) (h : TInv P s)
    (hP : ∀ op node k v, a = .cw op node k v → node < s.n → P k (stamp s node v)) : TInv P (step s a) := by
  cases a with
  | tick t => exact tinv_frame h rfl rfl rfl rfl rfl rfl
  | cw op node k v =>
    simp only [step]
    by_cases hn : node ≥ s.n
    · simp only [hn, if_true]; exact tinv_frame h rfl rfl rfl rfl rfl rfl
    · simp only [hn, if_false]
      refine tinv_spawn ?_ _ ?_ ?_
      · exact tinv_frame h rfl rfl rfl rfl rfl rfl
      · intro _; exact hP op node k v rfl (by omega)
      · intro kv hkv; simp at hkv
  | cr op node k =>
    simp only [step]
    by_cases hn : node ≥ s.n
    · simp only [hn, if_true]; exact tinv_frame h rfl rfl rfl rfl rfl rfl
    · simp only [hn, if_false]
      refine tinv_spawn h _ ?_ ?_
      · intro e; simp at e
      · intro kv hkv; simp at hkv
  | dl mid => exact deliver_tinv s mid h
  | rs pid => exact resume_tinv s pid hl h
  | ae node peer =>
    simp only [step]
    split
    · exact tinv_frame h rfl rfl rfl rfl rfl rfl
    · refine tinv_spawn (tinv_send h _ ?_ (versionsOf_P h node)) _ ?_ ?_
      · intro e; simp at e
      · intro e; simp at e
      · intro kv hkv; simp at hkv

theorem init_tinv {P} (n nk : Nat) (jn : Join) (lww : Bool) (adj : List (List Nat)) :
    TInv P (init n nk jn lww adj) := by
  refine ⟨fun _ _ => rfl, fun _ _ => rfl, ?_, fun _ _ => rfl, ?_, ?_⟩
  · intro i k v hv; cases hv
  · intro mid m hm; cases hm
  · intro pid p hp; cases hp

end HappyModel.C17.MLT
