import HappyModel.C17.ML
/-!
Multi-leader: the per-key merge decision (`takes`, i.e. `LeaderNode._pick`) is "keep the greater
version" for a total order, provided the versions are *coherent*: causal order (vector-clock
dominance) agrees with the `(timestamp, writer, writer's own counter)` order, and two versions of
one writer with one timestamp are causally ordered.  Both hold for versions produced by real runs
whose messages take positive time (timestamps are the simulated clock, a writer's own counter
grows with every write); the harness uses latencies ≥ 1 ns.  With coherence, merging is a
semilattice join: the result of merging any sequence of versions is the maximum of the set,
independent of order, grouping and duplication.
-/
namespace HappyModel.C17.ML

def own (v : Version) : Nat := vcGet v.vc v.writer

/-- `(ts, writer, own)` lexicographic -/
def vlt (a b : Version) : Prop :=
  a.ts < b.ts ∨ (a.ts = b.ts ∧ (a.writer < b.writer ∨ (a.writer = b.writer ∧ own a < own b)))

instance (a b : Version) : Decidable (vlt a b) := by unfold vlt; exact inferInstance

theorem vlt_irrefl (a : Version) : ¬ vlt a a := by unfold vlt; omega
theorem vlt_asymm (a b : Version) : vlt a b → ¬ vlt b a := by unfold vlt; omega
theorem vlt_trans (a b c : Version) : vlt a b → vlt b c → vlt a c := by unfold vlt; omega

structure Coherent (n : Nat) (P : Version → Prop) : Prop where
  /-- causally later ⇒ greater -/
  causal : ∀ a b, P a → P b → dominates n b.vc a.vc = true → vlt a b
  /-- one writer, one instant ⇒ causally ordered (or the same version) -/
  sameWriter : ∀ a b, P a → P b → a.ts = b.ts → a.writer = b.writer →
    a = b ∨ dominates n a.vc b.vc = true ∨ dominates n b.vc a.vc = true

theorem lwwLt_iff (a b : Version) : lwwLt a b = true ↔ (a.ts < b.ts ∨ (a.ts = b.ts ∧ a.writer < b.writer)) := by
  unfold lwwLt; simp

/-- the code's decision is the order -/
theorem takes_iff_lt (n : Nat) (P : Version → Prop) (hc : Coherent n P) (a b : Version) (ha : P a) (hb : P b) :
    takes n (some a) b = true ↔ vlt a b := by
  unfold takes
  by_cases h1 : dominates n b.vc a.vc = true
  · simp only [h1, if_true]
    exact ⟨fun _ => hc.causal a b ha hb h1, fun _ => trivial⟩
  · simp only [h1]
    by_cases h2 : dominates n a.vc b.vc = true
    · simp only [h2, if_true]
      have := hc.causal b a hb ha h2
      exact ⟨fun hf => by simp at hf, fun hlt => absurd hlt (vlt_asymm b a this)⟩
    · simp only [h2, Bool.false_eq_true, if_false]
      rw [lwwLt_iff]
      constructor
      · intro hl; unfold vlt; omega
      · intro hl
        unfold vlt at hl
        rcases hl with hl | ⟨e1, hl | ⟨e2, hl⟩⟩
        · exact Or.inl hl
        · exact Or.inr ⟨e1, hl⟩
        · rcases hc.sameWriter a b ha hb e1 e2 with h | h | h
          · subst h; omega
          · exact absurd h h2
          · exact absurd h h1

/-- coherent versions are totally ordered -/
theorem vlt_total (n : Nat) (P : Version → Prop) (hc : Coherent n P) (a b : Version) (ha : P a) (hb : P b) :
    vlt a b ∨ a = b ∨ vlt b a := by
  by_cases h1 : vlt a b
  · exact Or.inl h1
  · by_cases h2 : vlt b a
    · exact Or.inr (Or.inr h2)
    · right; left
      have e1 : a.ts = b.ts := by unfold vlt at h1 h2; omega
      have e2 : a.writer = b.writer := by unfold vlt at h1 h2; omega
      rcases hc.sameWriter a b ha hb e1 e2 with h | h | h
      · exact h
      · exact absurd (hc.causal b a hb ha h) h2
      · exact absurd (hc.causal a b ha hb h) h1

/-- what `_install` does to the local version of a key -/
def mergeOpt (n : Nat) (cur : Option Version) (inc : Version) : Option Version :=
  if takes n cur inc then some inc else cur

def mergeAll (n : Nat) (cur : Option Version) (l : List Version) : Option Version :=
  l.foldl (mergeOpt n) cur

/-- `r` is the greatest element of `l` -/
def IsMax (l : List Version) (r : Option Version) : Prop :=
  match r with
  | none => l = []
  | some v => v ∈ l ∧ ∀ w, w ∈ l → ¬ vlt v w

theorem mergeOpt_max (n : Nat) (P : Version → Prop) (hc : Coherent n P) (l : List Version) (cur : Option Version)
    (inc : Version) (hl : ∀ v, v ∈ l → P v) (hi : P inc) (hm : IsMax l cur) :
    IsMax (l ++ [inc]) (mergeOpt n cur inc) := by
  unfold mergeOpt
  cases cur with
  | none =>
    simp only [takes, if_true]
    unfold IsMax at hm ⊢
    subst hm
    exact ⟨by simp, fun w hw => by simp at hw; subst hw; exact vlt_irrefl _⟩
  | some c =>
    unfold IsMax at hm
    obtain ⟨hcl, hmax⟩ := hm
    have hpc := hl c hcl
    by_cases ht : takes n (some c) inc = true
    · rw [if_pos ht]
      have hlt := (takes_iff_lt n P hc c inc hpc hi).mp ht
      refine ⟨by simp, fun w hw => ?_⟩
      simp only [List.mem_append, List.mem_singleton] at hw
      rcases hw with hw | hw
      · intro hiw
        exact hmax w hw (vlt_trans c inc w hlt hiw)
      · subst hw; exact vlt_irrefl _
    · rw [if_neg ht]
      have hnlt : ¬ vlt c inc := fun h => ht ((takes_iff_lt n P hc c inc hpc hi).mpr h)
      refine ⟨by simp [hcl], fun w hw => ?_⟩
      simp only [List.mem_append, List.mem_singleton] at hw
      rcases hw with hw | hw
      · exact hmax w hw
      · subst hw; exact hnlt

theorem mergeAll_max (n : Nat) (P : Version → Prop) (hc : Coherent n P) (l : List Version)
    (hl : ∀ v, v ∈ l → P v) : ∀ (pre : List Version) (cur : Option Version), (∀ v, v ∈ pre → P v) →
    IsMax pre cur → IsMax (pre ++ l) (mergeAll n cur l) := by
  induction l with
  | nil => intro pre cur _ hm; simpa [mergeAll] using hm
  | cons x xs ih =>
    intro pre cur hpre hm
    have h1 := mergeOpt_max n P hc pre cur x hpre (hl x (by simp)) hm
    have h2 := ih (fun v hv => hl v (by simp [hv])) (pre ++ [x]) (mergeOpt n cur x)
      (fun v hv => by
        simp only [List.mem_append, List.mem_singleton] at hv
        rcases hv with hv | hv
        · exact hpre v hv
        · subst hv; exact hl _ (by simp)) h1
    simpa [mergeAll, List.append_assoc] using h2

theorem isMax_unique (n : Nat) (P : Version → Prop) (hc : Coherent n P) (l1 l2 : List Version)
    (h1 : ∀ v, v ∈ l1 → P v) (hset : ∀ v, v ∈ l1 ↔ v ∈ l2) (r1 r2 : Option Version)
    (hm1 : IsMax l1 r1) (hm2 : IsMax l2 r2) : r1 = r2 := by
  cases r1 with
  | none =>
    cases r2 with
    | none => rfl
    | some v2 =>
      unfold IsMax at hm1 hm2
      subst hm1
      have := (hset v2).mpr hm2.1
      simp at this
  | some v1 =>
    cases r2 with
    | none =>
      unfold IsMax at hm1 hm2
      subst hm2
      have := (hset v1).mp hm1.1
      simp at this
    | some v2 =>
      unfold IsMax at hm1 hm2
      have p1 := h1 v1 hm1.1
      have p2 := h1 v2 ((hset v2).mpr hm2.1)
      rcases vlt_total n P hc v1 v2 p1 p2 with h | h | h
      · exact absurd h (hm1.2 v2 ((hset v2).mpr hm2.1))
      · rw [h]
      · exact absurd h (hm2.2 v1 ((hset v1).mp hm1.1))

end HappyModel.C17.ML
