import HappyProofs.C17.MLConv
import HappyProofs.C17.MLSched
import HappyModel.C17.Spec
/-!
The judge's convergence clause accepts the model's own final stores.

`storeOf st nk` is the content of one replica's part of an `S` line (the present keys `< nk`, in
order, with their values): what `Driver.showStore` prints and `Spec.parseStore` reads back.  The
theorems are stated on `Spec.Step` lists whose last step carries these stores; that the printed
line parses back to `storeOf` (decimal printing / `String.splitOn` round trip) is not proved.
-/
namespace HappyModel.C17

def storeOf (st : Nat → Option Val) (nk : Nat) : Spec.Store :=
  (List.range nk).filterMap fun k => (st k).map fun v => (k, v)

theorem mem_storeOf (st : Nat → Option Val) (nk : Nat) (kv : Nat × Nat) :
    kv ∈ storeOf st nk ↔ kv.1 < nk ∧ st kv.1 = some kv.2 := by
  unfold storeOf
  rw [List.mem_filterMap]
  constructor
  · rintro ⟨k, hk, he⟩
    rw [List.mem_range] at hk
    cases hs : st k with
    | none => rw [hs] at he; cases he
    | some v =>
      rw [hs] at he
      cases he
      exact ⟨hk, hs⟩
  · rintro ⟨h1, h2⟩
    exact ⟨kv.1, List.mem_range.mpr h1, by rw [h2]; rfl⟩

theorem storeOf_succ (st : Nat → Option Val) (nk : Nat) :
    storeOf st (nk + 1) = storeOf st nk ++ (match st nk with | some v => [(nk, v)] | none => []) := by
  unfold storeOf
  rw [List.range_succ, List.filterMap_append]
  congr 1
  cases h : st nk <;> simp [h]

theorem lookup_storeOf_ge (st : Nat → Option Val) (nk k : Nat) (hk : nk ≤ k) :
    (storeOf st nk).find? (·.1 == k) = none := by
  rw [List.find?_eq_none]
  intro kv hkv
  have := (mem_storeOf st nk kv).mp hkv
  simp only [beq_iff_eq]
  omega

theorem find_storeOf (st : Nat → Option Val) (nk k : Nat) (hk : k < nk) :
    ((storeOf st nk).find? (·.1 == k)).map (·.2) = st k := by
  induction nk with
  | zero => omega
  | succ m ih =>
    rw [storeOf_succ, List.find?_append]
    by_cases e : k = m
    · subst e
      rw [lookup_storeOf_ge st k k (Nat.le_refl _)]
      cases hs : st k <;> simp
    · have hlt : k < m := by omega
      have ih' := ih hlt
      cases hf : (storeOf st m).find? (·.1 == k) with
      | some x => rw [hf] at ih'; simpa using ih'
      | none =>
        rw [hf] at ih'
        have h0 : st k = none := by simpa using ih'.symm
        rw [h0]
        cases hs : st m with
        | none => simp
        | some v =>
          have : (m == k) = false := by simp; omega
          simp [this]

theorem lookup_storeOf (st : Nat → Option Val) (nk k : Nat) (hk : k < nk) :
    Spec.lookup (storeOf st nk) k = st k := find_storeOf st nk k hk

theorem sameMap_storeOf_self (st : Nat → Option Val) (nk : Nat) :
    Spec.sameMap (storeOf st nk) (storeOf st nk) = true := by
  have h : (storeOf st nk).all (fun kv => Spec.lookup (storeOf st nk) kv.1 == some kv.2) = true := by
    rw [List.all_eq_true]
    intro kv hkv
    obtain ⟨h1, h2⟩ := (mem_storeOf st nk kv).mp hkv
    rw [lookup_storeOf st nk kv.1 h1, h2]
    simp
  unfold Spec.sameMap
  rw [h]; rfl

theorem storeOf_congr (a b : Nat → Option Val) (nk : Nat) (h : ∀ k, k < nk → a k = b k) :
    storeOf a nk = storeOf b nk := by
  induction nk with
  | zero => rfl
  | succ m ih =>
    rw [storeOf_succ, storeOf_succ, ih (fun k hk => h k (by omega)), h m (by omega)]

/-- the stores of all `n` replicas, as the last `S` line shows them -/
def modelStores (store : Nat → Nat → Option Val) (n nk : Nat) : List Spec.Store :=
  (List.range n).map fun i => storeOf (store i) nk

theorem converged_of_agree (store : Nat → Nat → Option Val) (n nk : Nat)
    (h : ∀ i j k, i < n → j < n → store i k = store j k) : Spec.converged (modelStores store n nk) = true := by
  unfold modelStores
  cases hn : List.range n with
  | nil => rfl
  | cons i0 rest =>
    show (rest.map fun i => storeOf (store i) nk).all (Spec.sameMap (storeOf (store i0) nk)) = true
    rw [List.all_eq_true]
    intro x hx
    obtain ⟨i, hi, rfl⟩ := List.mem_map.mp hx
    have hi0 : i0 < n := List.mem_range.mp (by rw [hn]; simp)
    have hin : i < n := List.mem_range.mp (by rw [hn]; simp [hi])
    rw [storeOf_congr (store i) (store i0) nk (fun k _ => h i i0 k hin hi0)]
    exact sameMap_storeOf_self _ _

/-- **The judge's multi-leader convergence clause is silent on the model** (resolvers that return one
    of their inputs): for every action list with a non-decreasing clock and positive `Replicate`
    latency, a transcript whose last step shows the model's stores and whose `Q` flag is the model's
    quiescence is accepted by `Spec.judgeML` and by `Spec.judgeMLn n false`. -/
theorem ml_judge_convergence_silent (n nk : Nat) (acts : List Act)
    (hs : ML.schedOK (ML.init n nk) (fun _ => 0) acts = true) (steps : List Spec.Step)
    (hfin : Spec.finalStores steps = modelStores (ML.run (ML.init n nk) acts).store n nk) :
    Spec.judgeML steps (ML.quiescentB (ML.run (ML.init n nk) acts)) = none ∧
    Spec.judgeMLn n false steps (ML.quiescentB (ML.run (ML.init n nk) acts)) = none := by
  have key : Spec.convergence "ml" steps (ML.quiescentB (ML.run (ML.init n nk) acts)) = none := by
    unfold Spec.convergence
    cases hq : ML.quiescentB (ML.run (ML.init n nk) acts) with
    | false => simp
    | true =>
      have hcoh : ∀ k, ML.Coherent n (fun v => (k, v) ∈ ML.created (ML.init n nk) acts) := by
        intro k
        obtain ⟨_, h⟩ := (ML.run_sched acts (ML.init n nk) [] _ (ML.init_inv n nk) (ML.cinv_init n 0) hs).2
        have hn : (ML.run (ML.init n nk) acts).n = n := ML.run_n _ _
        rw [hn, List.nil_append] at h
        exact ML.coherent_of_map n _ (ML.cinv_coherent h) k
      have hinv : ML.Inv (fun k v => (k, v) ∈ ML.created (ML.init n nk) acts) (ML.run (ML.init n nk) acts) :=
        ML.run_inv acts (ML.init n nk) hcoh (ML.init_inv n nk) (fun _ h => h)
      have hn : (ML.run (ML.init n nk) acts).n = n := ML.run_n _ _
      have hc := converged_of_agree (ML.run (ML.init n nk) acts).store n nk (fun i j k hi hj =>
        (ML.quiescent_agree _ (by rw [hn]; exact hcoh) hinv hq i j k (by rw [hn]; exact hi) (by rw [hn]; exact hj)).2)
      rw [hfin, hc]; simp
  exact ⟨key, by unfold Spec.judgeMLn; simpa using key⟩

end HappyModel.C17
