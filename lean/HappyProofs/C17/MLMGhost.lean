import HappyModel.C17.MLMK
import HappyProofs.C17.MLMRun
import HappyProofs.C17.MLMGossip
/-!
Shared definitions for the run-level composition `run_gossip_complete_converges`:

* `isWR s a` — action `a` runs a client-write or `Replicate` handler in state `s`;
* `GK`, `kstep`, `krun` — the knowledge computation of `Spec.gossipComplete`, forward along a run:
  a client-write / `Replicate` handler step resets it (so what is left at the end is what happened
  after the *last* such step), a valid anti-entropy tick snapshots the sender's knowledge into the
  request it sends (message id `s.nm`), and the step that finishes an `AntiEntropyRequest` handler
  adds the request's snapshot to the receiver's knowledge;
* `replQuiescent` — every `Replicate` is delivered and every write / `Replicate` handler has finished;
* `SubInv` — every anti-entropy copy `(k, v)` in a message or handler is *subsumed* by the current
  version of its sender: pointwise smaller clock, and a smaller value if the clocks are equal.
-/
namespace HappyModel.C17.MLM
open HappyModel.C17.ML (Version Msg Proc MKind PKind vcGet dominates vcMerge vcTick)

/-- every `Replicate` message is delivered, every write / `Replicate` handler has finished -/
def replQuiescent (s : St) : Prop :=
  (∀ mid m, s.msgs mid = some m → m.kind = .repl → m.delivered = true) ∧
  (∀ pid p, s.procs pid = some p → (p.kind = .write ∨ p.kind = .repl) → p.fin = true)

/-- `v` is subsumed by the sender's current version `cur` -/
def Sub (j : Join) (n : Nat) (cur : Option Version) (v : Version) : Prop :=
  ∃ u, cur = some u ∧ (∀ c, c < n → vcGet v.vc c ≤ vcGet u.vc c) ∧
    ((∀ c, c < n → vcGet v.vc c = vcGet u.vc c) → Le j v.val u.val)

/-- every anti-entropy copy is subsumed by its sender's current version of that key -/
structure SubInv (s : St) : Prop where
  msgS : ∀ mid m, s.msgs mid = some m → (m.kind = .aereq ∨ m.kind = .aeresp) →
    ∀ kv, kv ∈ m.items → Sub s.join s.n (s.vers m.src kv.1) kv.2
  procS : ∀ pid p, s.procs pid = some p → (p.kind = .aereq ∨ p.kind = .aeresp) →
    ∀ kv, kv ∈ p.items → Sub s.join s.n (s.vers p.src kv.1) kv.2

end HappyModel.C17.MLM
