import HappyProofs.C17.ChainStep3
/-! Consequences of the chain invariant, in the form used by `Props.lean`. -/
namespace HappyModel.C17.Chain

@[simp] theorem markCommitted_n (s : St) (i k q : Nat) : (markCommitted s i k q).n = s.n := by
  unfold markCommitted; dsimp only; split <;> rfl
@[simp] theorem markCommitted_craq (s : St) (i k q : Nat) : (markCommitted s i k q).craq = s.craq := by
  unfold markCommitted; dsimp only; split <;> rfl
@[simp] theorem applyAt_n (s : St) (i k v q : Nat) : (applyAt s i k v q).n = s.n := by
  unfold applyAt; split <;> rfl
@[simp] theorem applyAt_craq (s : St) (i k v q : Nat) : (applyAt s i k v q).craq = s.craq := by
  unfold applyAt; split <;> rfl
@[simp] theorem sendNotes_n (s : St) (k q i : Nat) : (sendNotes s k q i).n = s.n := by
  induction i generalizing s with
  | zero => rfl
  | succ i ih => unfold sendNotes; rw [ih]; rfl
@[simp] theorem sendNotes_craq (s : St) (k q i : Nat) : (sendNotes s k q i).craq = s.craq := by
  induction i generalizing s with
  | zero => rfl
  | succ i ih => unfold sendNotes; rw [ih]; rfl

theorem step_static (s : St) (a : Act) : (step s a).n = s.n ∧ (step s a).craq = s.craq := by
  cases a <;>
    simp only [step, deliver, resume, resumeWrite, resumeProp, resumeRead, St.fail, St.spawn, St.setProc,
      St.reply, St.send] <;>
    (repeat' split) <;> simp

theorem run_static (s : St) (acts : List Act) : (run s acts).n = s.n ∧ (run s acts).craq = s.craq := by
  induction acts generalizing s with
  | nil => exact ⟨rfl, rfl⟩
  | cons a as ih =>
    have h1 := ih (step s a)
    have h2 := step_static s a
    exact ⟨h1.1.trans h2.1, h1.2.trans h2.2⟩

/-- node `i` reflects write `q` of key `k` -/
def Reflects (s : St) (i k q : Nat) : Prop :=
  ∃ q', q ≤ q' ∧ s.wk q' = k ∧ s.store i k = some (s.wv q')

theorem acked_everywhere (s : St) (h : Inv s) (pid : Nat) (p : Proc) (hp : s.procs pid = some p)
    (hk : p.kind = .write) (hf : p.fin = true) (i : Nat) (hi : i < s.n) : Reflects s i p.key p.seq := by
  have hpo := h.procs pid p hp
  unfold ProcOK at hpo; rw [hk] at hpo
  obtain ⟨w1, w2, w3, w4, w5, w6, w7⟩ := hpo
  have h1 := h.core.ackd p.seq (w7 hf)
  rw [w3] at h1
  have h2 := h.core.order i (s.n - 1) p.key (by omega) (by have := h.core.n2; omega)
  obtain ⟨a1, a2, a3⟩ := h.core.store i p.key
  have hne : s.aseq i p.key ≠ 0 := by omega
  exact ⟨s.aseq i p.key, by omega, (a3 hne).1, (a3 hne).2⟩

theorem local_read_is_tail_value (s : St) (h : Inv s) (i k : Nat) (hi : i < s.n)
    (hc : i = s.n - 1 ∨ (s.craq = true ∧ s.dirty i k = false)) : s.store i k = s.store (s.n - 1) k := by
  rcases hc with hc | ⟨hc1, hc2⟩
  · rw [hc]
  · have h1 := h.core.clean i k hc1 hc2
    have h2 := h.core.commit i k
    have h3 := h.core.order i (s.n - 1) k (by omega) (by have := h.core.n2; omega)
    have heq : s.aseq i k = s.aseq (s.n - 1) k := by omega
    obtain ⟨a1, a2, a3⟩ := h.core.store i k
    obtain ⟨b1, b2, b3⟩ := h.core.store (s.n - 1) k
    by_cases hz : s.aseq i k = 0
    · rw [a2 hz, b2 (by omega)]
    · rw [(a3 hz).2, (b3 (by omega)).2, heq]

/-- replicas agree on key `k` as soon as the tail has caught up with the head on `k` -/
theorem caught_up_agree (s : St) (h : Inv s) (k : Nat) (hk : s.aseq (s.n - 1) k = s.aseq 0 k)
    (i : Nat) (hi : i < s.n) : s.store i k = s.store 0 k := by
  have h1 := h.core.order 0 i k (Nat.zero_le _) hi
  have h2 := h.core.order i (s.n - 1) k (by omega) (by have := h.core.n2; omega)
  have heq : s.aseq i k = s.aseq 0 k := by omega
  obtain ⟨a1, a2, a3⟩ := h.core.store i k
  obtain ⟨b1, b2, b3⟩ := h.core.store 0 k
  by_cases hz : s.aseq i k = 0
  · rw [a2 hz, b2 (by omega)]
  · rw [(a3 hz).2, (b3 (by omega)).2, heq]

end HappyModel.C17.Chain
