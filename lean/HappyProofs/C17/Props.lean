import HappyProofs.C17.PBProps
import HappyProofs.C17.ChainReach3
import HappyProofs.C17.MLMerge
import HappyProofs.C17.MLConv
import HappyProofs.C17.MLSched
import HappyProofs.C17.MLMGossip
import HappyProofs.C17.MLMRun
import HappyProofs.C17.MLJudge
import HappyProofs.C17.MLMMain
import HappyProofs.C17.MLTOrd
import HappyProofs.C17.MLTMain
/-!
# C17 — property theorems

"Primary-backup: when a write is acknowledged it has been applied on every backup in SYNC mode and
on at least one in SEMI_SYNC mode.  Chain replication: an acknowledged write is applied at every
node of the chain and a read never returns a value not yet committed at the tail.  In every scheme,
once writes stop and all in-flight messages are delivered (anti-entropy having run for
multi-leader), all replicas hold the same value for every key, under any message reordering."

All theorems quantify over *every* action list (`List Act`): every interleaving of client events,
message deliveries in any order, and handler resumptions that the model accepts (an action that is
not enabled — unknown id, a put resumed out of FIFO order, a parked handler resumed without its
acks — leaves the state unchanged apart from the error flag).
"Write `q` is applied at replica `r`" is `Reflects`: `r` holds, for the key of `q`, the value of `q`
or of a write to that key accepted later (a newer value may have replaced it, an older one may not
be there) — the same reading as `Spec.reflects` on observed transcripts.
-/
namespace HappyModel.C17
open PB

/-! ## primary-backup (repaired tree: backups apply by per-key sequence number) -/

/-- SYNC: a write handler that has replied to its client ⇒ every backup reflects the write. -/
theorem sync_ack_all_backups (nb : Nat) (acts : List Act) (pid : Nat) (p : Proc)
    (hp : (run (init true .sync nb) acts).procs pid = some p) (hk : p.kind = .write)
    (hf : p.fin = true) :
    ∀ b, b < nb → Reflects (run (init true .sync nb) acts) b p.key p.seq := by
  have hi := run_inv _ acts (init_inv .sync nb)
  have hs := run_static (init true .sync nb) acts
  intro b hb
  exact sync_reflects _ hi hs.2 pid p hp hk hf b (by rw [hs.1]; exact hb)

/-- SEMI_SYNC with at least one backup: a replied write is reflected by at least one backup. -/
theorem semisync_ack_one_backup (nb : Nat) (hnb : 0 < nb) (acts : List Act) (pid : Nat) (p : Proc)
    (hp : (run (init true .semi nb) acts).procs pid = some p) (hk : p.kind = .write)
    (hf : p.fin = true) :
    ∃ b, b < nb ∧ Reflects (run (init true .semi nb) acts) b p.key p.seq := by
  have hi := run_inv _ acts (init_inv .semi nb)
  have hs := run_static (init true .semi nb) acts
  obtain ⟨b, hb, hr⟩ := semi_reflects _ hi hs.2 (by rw [hs.1]; exact hnb) pid p hp hk hf
  exact ⟨b, by rw [hs.1] at hb; exact hb, hr⟩

/-- every mode, any reordering: at quiescence every backup's store equals the primary's. -/
theorem pb_quiescent_convergence (mode : Mode) (nb : Nat) (acts : List Act)
    (hq : quiescent (run (init true mode nb) acts)) (b : Nat) (hb : b < nb) (k : Nat) :
    (run (init true mode nb) acts).store (b + 1) k = (run (init true mode nb) acts).store 0 k := by
  have hi := run_inv _ acts (init_inv mode nb)
  have hs := run_static (init true mode nb) acts
  exact converge _ hi hq b (by rw [hs.1]; exact hb) k

/-- two writes of key 0; the second Replicate (message 1) is delivered before the first (message 0) -/
def reorderWitness : List Act :=
  [.cw 0 0 0 1, .rs 0, .cw 1 0 0 2, .rs 0, .rs 1, .rs 1, .dl 1, .rs 2, .rs 2, .dl 0, .rs 3, .rs 3,
   .dl 2, .dl 3]

/-- pinned tree (`repaired = false`, backups apply in arrival order): the run above is quiescent
    and the backup is left on the older value — convergence is false of the current code. -/
theorem backup_reorder_diverges :
    quiescentB (run (init false .async 1) reorderWitness) = true ∧
    (run (init false .async 1) reorderWitness).err = none ∧
    (run (init false .async 1) reorderWitness).store 0 0 = some 2 ∧
    (run (init false .async 1) reorderWitness).store 1 0 = some 1 := by decide

/-- non-vacuity: the same schedule on the repaired model is accepted, quiescent, and both replicas
    hold the newer value; in SYNC mode with two backups a write does get acknowledged. -/
example :
    quiescentB (run (init true .async 1) reorderWitness) = true ∧
    (run (init true .async 1) reorderWitness).err = none ∧
    (run (init true .async 1) reorderWitness).store 0 0 = some 2 ∧
    (run (init true .async 1) reorderWitness).store 1 0 = some 2 := by decide

example :
    let s := run (init true .sync 2)
      [.cw 0 0 0 7, .rs 0, .rs 0, .dl 1, .dl 0, .rs 1, .rs 2, .rs 0]
    (s.procs 0).map (fun p => (p.kind, p.fin, p.seq)) = some (.write, true, 1) ∧ s.err = none ∧
      s.store 1 0 = some 7 ∧ s.store 2 0 = some 7 := by decide

example :
    let s := run (init true .semi 2)
      [.cw 0 0 0 7, .rs 0, .rs 0, .dl 1, .rs 1, .rs 0]
    (s.procs 0).map (fun p => (p.kind, p.fin, p.seq)) = some (.write, true, 1) ∧ s.err = none ∧
      s.store 1 0 = none ∧ s.store 2 0 = some 7 := by decide

/-! ## chain replication (repaired tree: apply by per-key sequence, CRAQ dirtiness by sequence,
    dirty check at the instant of the local read) -/

/-- a write handler at the HEAD that has replied ⇒ every node of the chain reflects the write,
    for every schedule (any overtaking of Propagate / WriteAck / CommitNotify messages). -/
theorem chain_ack_all_nodes (craq : Bool) (n : Nat) (hn : 2 ≤ n) (acts : List Act) (pid : Nat)
    (p : Chain.Proc) (hp : (Chain.run (Chain.init craq n) acts).procs pid = some p)
    (hk : p.kind = .write) (hf : p.fin = true) :
    ∀ i, i < n → Chain.Reflects (Chain.run (Chain.init craq n) acts) i p.key p.seq := by
  have hi := Chain.run_inv _ acts (Chain.init_inv craq n hn)
  have hs := Chain.run_static (Chain.init craq n) acts
  intro i hlt
  exact Chain.acked_everywhere _ hi pid p hp hk hf i (by rw [hs.1]; exact hlt)

/-- whenever a node serves a read from its own store — it is the TAIL, or CRAQ is on and the key
    is clean at the instant the value is read (`resumeRead` replies `store node key` exactly under
    this condition) — that value is the TAIL's current value for the key: a read never returns a
    value that is not committed at the tail. -/
theorem chain_read_committed (craq : Bool) (n : Nat) (hn : 2 ≤ n) (acts : List Act) (i k : Nat)
    (hi : i < n)
    (hc : i = n - 1 ∨ (craq = true ∧ (Chain.run (Chain.init craq n) acts).dirty i k = false)) :
    (Chain.run (Chain.init craq n) acts).store i k = (Chain.run (Chain.init craq n) acts).store (n - 1) k := by
  have hinv := Chain.run_inv _ acts (Chain.init_inv craq n hn)
  have hs := Chain.run_static (Chain.init craq n) acts
  have := Chain.local_read_is_tail_value _ hinv i k (by rw [hs.1]; exact hi)
    (by rw [hs.1, hs.2]; exact hc)
  rw [hs.1] at this; exact this

/-- CRAQ or not, any overtaking of messages: once the head's puts have landed, every message is
    delivered and every handler has finished, every node holds the head's value for every key. -/
theorem chain_quiescent_convergence (craq : Bool) (n : Nat) (hn : 2 ≤ n) (acts : List Act)
    (hq : Chain.quiescent (Chain.run (Chain.init craq n) acts)) (i : Nat) (hi : i < n) (k : Nat) :
    (Chain.run (Chain.init craq n) acts).store i k = (Chain.run (Chain.init craq n) acts).store 0 k := by
  have hinv := Chain.run_inv _ acts (Chain.init_inv craq n hn)
  have hfr := Chain.fr_run _ acts (Chain.init_inv craq n hn) (Chain.fr_init craq n)
  have hs := Chain.run_static (Chain.init craq n) acts
  exact Chain.quiescent_agree _ hinv hfr hq i (by rw [hs.1]; exact hi) k

/-- non-vacuity: CRAQ chain of 3, two writes of key 0 in flight, the second Propagate overtakes the
    first between nodes 1 and 2; both get acknowledged, every node ends on the newer value, and
    while the second write is uncommitted the key stays dirty at the head (so a read is forwarded). -/
example :
    let s := Chain.run (Chain.init true 3)
      [.cw 0 0 0 1, .rs 0, .rs 0, .cw 1 0 0 2, .rs 1, .rs 1, .dl 0, .rs 2, .rs 2, .dl 1, .rs 3, .rs 3,
       .dl 3, .rs 4, .dl 2, .rs 5, .rs 4, .rs 5]
    s.err = none ∧ s.store 0 0 = some 2 ∧ s.store 1 0 = some 2 ∧ s.store 2 0 = some 2 ∧
      s.dirty 0 0 = true ∧ s.aseq 2 0 = 2 := by decide

/-- non-vacuity of `quiescent`: the same run continued until everything is delivered -/
example :
    Chain.quiescentB (Chain.run (Chain.init false 2)
      [.cw 0 0 0 1, .rs 0, .rs 0, .dl 0, .rs 1, .rs 1, .dl 1, .rs 0]) = true := by decide

/-! ## multi-leader (repaired tree: merge decided at the instant a version is installed) -/

/-- `_install` is `mergeOpt` on the local version of the key -/
theorem ml_install_is_merge (s : ML.St) (i k : Nat) (inc : ML.Version) :
    (ML.install s i k inc).1.vers i k = ML.mergeOpt s.n (s.vers i k) inc := by
  unfold ML.install ML.mergeOpt
  split
  · show upd2 s.vers i k (some inc) i k = some inc
    rw [upd2_apply]; simp
  · rfl

/-- merging is order-, grouping- and duplication-independent: two replicas that have merged the
    same *set* of (coherent) versions of a key, in any orders and multiplicities, hold the same
    version — the greatest one. -/
theorem ml_merge_order_independent (n : Nat) (P : ML.Version → Prop) (hc : ML.Coherent n P)
    (l1 l2 : List ML.Version) (h1 : ∀ v, v ∈ l1 → P v) (hset : ∀ v, v ∈ l1 ↔ v ∈ l2) :
    ML.mergeAll n none l1 = ML.mergeAll n none l2 := by
  have h2 : ∀ v, v ∈ l2 → P v := fun v hv => h1 v ((hset v).mpr hv)
  have m1 := ML.mergeAll_max n P hc l1 h1 [] none (fun _ h => by simp at h) rfl
  have m2 := ML.mergeAll_max n P hc l2 h2 [] none (fun _ h => by simp at h) rfl
  simp only [List.nil_append] at m1 m2
  exact ML.isMax_unique n P hc l1 l2 h1 hset _ _ m1 m2

/-! ### run level

`ML.created s acts` is the list of `(key, version)` pairs stamped by the client writes of the run
(`cw` deliveries at an existing node; the version carries the write value, the simulated clock `now`,
the writer and the writer's ticked vector clock).  The coherence hypothesis is stated on that list, per
key: vector-clock dominance implies the `(timestamp, writer, own counter)` order, and two versions of
one writer with one timestamp are causally ordered or equal.  It is implied by "distinct
`(timestamp, writer)` pairs and causally later ⇒ strictly later timestamp"
(`ml_coherent_of_distinct_stamps`), and it is *derived* from the schedule-level condition "the clock
never goes backwards and a leader stamps a write strictly after the timestamps of the versions it has
received" — positive `Replicate` latency — (`ml_coherent_of_positive_latency`,
giving `ml_quiescent_convergence_positive_latency` with no hypothesis on the versions); it cannot be
dropped (`ml_convergence_needs_coherence`).

The invariant behind the theorems (`ML.InvC`, preserved by every action: `ML.step_inv`, `ML.run_inv`):
every version held, carried by a message (`Replicate`, anti-entropy request / response items) or by a
handler is one of the written ones; a replica's store is the value of its version; and for every write
handler past its first segment every replica `i` is *covered* — its version of the key is already
`≥` the written one in the total order, or the `Replicate` to `i` is still undelivered, or the
`_handle_replicate` process at `i` has not finished.  `_install` is `mergeOpt`, which under coherence
only moves a replica's version up (`ML.ge_merge`), so "covered" survives every other install, in any
order and with any duplication (anti-entropy re-delivers versions arbitrarily often). -/

/-- At quiescence every replica holds, for every key, the **greatest written version**: its version
    is one of the written ones and no written version of that key is above it; a replica has no
    version of a key only if no version of that key was written.  Every action list. -/
theorem ml_quiescent_holds_max (n nk : Nat) (acts : List Act)
    (hcoh : ∀ k, ML.Coherent n (fun v => (k, v) ∈ ML.created (ML.init n nk) acts))
    (hq : ML.quiescentB (ML.run (ML.init n nk) acts) = true) (i : Nat) (hi : i < n) (k : Nat) :
    (∀ v, ML.WrittenC (ML.run (ML.init n nk) acts).core k v →
      ∃ u, (ML.run (ML.init n nk) acts).vers i k = some u ∧ ¬ ML.vlt u v) ∧
    (∀ u, (ML.run (ML.init n nk) acts).vers i k = some u → ML.WrittenC (ML.run (ML.init n nk) acts).core k u) := by
  have hinv : ML.Inv (fun k v => (k, v) ∈ ML.created (ML.init n nk) acts) (ML.run (ML.init n nk) acts) :=
    ML.run_inv acts (ML.init n nk) hcoh (ML.init_inv n nk) (fun _ h => h)
  have hn : (ML.run (ML.init n nk) acts).n = n := ML.run_n _ _
  exact ⟨fun v hv => ML.quiescent_ge _ hinv hq k v hv i (by rw [hn]; exact hi), fun u hu => hinv.versW i k u hu⟩

/-- **Multi-leader quiescent convergence, run level.**  For every action list — client writes and
    reads at any leaders, clock readings, anti-entropy ticks between any pairs, `Replicate` and
    anti-entropy messages delivered in any order, handlers resumed in any order — whose written versions
    are coherent: once every message is delivered and every handler has finished, all replicas hold the
    same version and the same value for every key. -/
theorem ml_quiescent_convergence (n nk : Nat) (acts : List Act)
    (hcoh : ∀ k, ML.Coherent n (fun v => (k, v) ∈ ML.created (ML.init n nk) acts))
    (hq : ML.quiescentB (ML.run (ML.init n nk) acts) = true) (i j k : Nat) (hi : i < n) (hj : j < n) :
    (ML.run (ML.init n nk) acts).vers i k = (ML.run (ML.init n nk) acts).vers j k ∧
    (ML.run (ML.init n nk) acts).store i k = (ML.run (ML.init n nk) acts).store j k := by
  have hinv : ML.Inv (fun k v => (k, v) ∈ ML.created (ML.init n nk) acts) (ML.run (ML.init n nk) acts) :=
    ML.run_inv acts (ML.init n nk) hcoh (ML.init_inv n nk) (fun _ h => h)
  have hn : (ML.run (ML.init n nk) acts).n = n := ML.run_n _ _
  exact ML.quiescent_agree _ (by rw [hn]; exact hcoh) hinv hq i j k (by rw [hn]; exact hi) (by rw [hn]; exact hj)

/-- the coherence hypothesis in its plain reading: no two written versions of a key share a
    `(timestamp, writer)` pair, and a causally later version carries a strictly later timestamp
    (positive message latency, non-decreasing clock) -/
theorem ml_coherent_of_distinct_stamps (n : Nat) (P : ML.Version → Prop)
    (hd : ∀ a b, P a → P b → a.ts = b.ts → a.writer = b.writer → a = b)
    (hl : ∀ a b, P a → P b → ML.dominates n b.vc a.vc = true → a.ts < b.ts) : ML.Coherent n P :=
  ⟨fun a b ha hb h => Or.inl (hl a b ha hb h), fun a b ha hb e1 e2 => Or.inl (hd a b ha hb e1 e2)⟩

/-- **Coherence from positive latency.**  If the clock readings of the run never decrease and every
    client write at a leader `i` is stamped strictly after the timestamps of all versions delivered to
    `i` in `Replicate` messages before it (`ML.schedOK`, starting from "nothing heard"; this is what a
    network latency ≥ 1 ns gives: the write happens no earlier than those deliveries, each strictly
    after its version was stamped), the written versions are coherent — for every action list.
    (Anti-entropy messages are unconstrained: they do not merge vector clocks.) -/
theorem ml_coherent_of_positive_latency (n nk : Nat) (acts : List Act)
    (hs : ML.schedOK (ML.init n nk) (fun _ => 0) acts = true) (k : Nat) :
    ML.Coherent n (fun v => (k, v) ∈ ML.created (ML.init n nk) acts) := by
  obtain ⟨hb', h⟩ := (ML.run_sched acts (ML.init n nk) [] _ (ML.init_inv n nk) (ML.cinv_init n 0) hs).2
  have hn : (ML.run (ML.init n nk) acts).n = n := ML.run_n _ _
  rw [hn, List.nil_append] at h
  exact ML.coherent_of_map n _ (ML.cinv_coherent h) k

/-- **Multi-leader quiescent convergence under positive latency** — no hypothesis on the versions:
    for every action list whose clock never goes backwards and whose `Replicate` messages take
    positive time, in any delivery order and with any anti-entropy traffic, at quiescence all replicas
    hold the same version and the same value for every key. -/
theorem ml_quiescent_convergence_positive_latency (n nk : Nat) (acts : List Act)
    (hs : ML.schedOK (ML.init n nk) (fun _ => 0) acts = true)
    (hq : ML.quiescentB (ML.run (ML.init n nk) acts) = true) (i j k : Nat) (hi : i < n) (hj : j < n) :
    (ML.run (ML.init n nk) acts).vers i k = (ML.run (ML.init n nk) acts).vers j k ∧
    (ML.run (ML.init n nk) acts).store i k = (ML.run (ML.init n nk) acts).store j k :=
  ml_quiescent_convergence n nk acts (ml_coherent_of_positive_latency n nk acts hs) hq i j k hi hj

/-- two leaders, key 0: `7` written at leader 0 (t = 10) and `8` at leader 1 (t = 12) concurrently;
    leader 0 receives `8`, then writes `9` (t = 25, causally after both); leader 1 receives the
    `Replicate` of `9` *before* the one of `7`; an anti-entropy round 1 → 0 re-delivers `9`. -/
def mlWitness : List Act :=
  [.tick 10, .cw 0 0 0 7, .tick 12, .cw 1 1 0 8, .rs 0, .rs 1, .tick 20, .dl 1, .rs 2, .tick 25, .cw 2 0 0 9, .rs 3,
   .tick 30, .dl 2, .rs 4, .dl 0, .rs 0, .rs 1, .rs 3, .ae 1 0, .rs 6, .dl 3]

/-- non-vacuity: the run is accepted, quiescent, its three written versions are coherent (checked by
    the executable `coherentB`, sound by `ML.coherentB_sound`), and both replicas end on `9` -/
example :
    ML.quiescentB (ML.run (ML.init 2 1) mlWitness) = true ∧ (ML.run (ML.init 2 1) mlWitness).err = none ∧
    (ML.created (ML.init 2 1) mlWitness).map (fun kv => (kv.1, kv.2.val, kv.2.ts, kv.2.writer)) =
      [(0, 7, 10, 0), (0, 8, 12, 1), (0, 9, 25, 0)] ∧
    ML.coherentB 2 ((ML.created (ML.init 2 1) mlWitness).map (·.2)) = true ∧
    (ML.run (ML.init 2 1) mlWitness).store 0 0 = some 9 ∧ (ML.run (ML.init 2 1) mlWitness).store 1 0 = some 9 := by
  decide

example : ∀ k, ML.Coherent 2 (fun v => (k, v) ∈ ML.created (ML.init 2 1) mlWitness) :=
  ML.coherentB_sound 2 _ (by decide)

/-- … and the schedule condition holds of it (ticks 10 ≤ 12 ≤ 20 ≤ 25 ≤ 30; leader 0 writes `9` at 25
    after having received the version stamped 12), while the incoherent run below violates it -/
example : ML.schedOK (ML.init 2 1) (fun _ => 0) mlWitness = true := by decide

/-- three leaders, the clock read backwards (10, then 5, then 7): `1` at leader 0 (t = 10), `2` at
    leader 1 (t = 5) after it has received `1`, `3` at leader 2 (t = 7) concurrently.  Dominance puts
    `1 < 2`, last-writer-wins puts `2 < 3 < 1`: a cycle. -/
def mlIncoherentWitness : List Act :=
  [.tick 10, .cw 0 0 0 1, .rs 0, .dl 0, .rs 1, .tick 5, .cw 1 1 0 2, .rs 2, .tick 7, .cw 2 2 0 3, .rs 3,
   .dl 2, .rs 4, .dl 4, .rs 5, .dl 1, .rs 6, .dl 3, .rs 7, .dl 5, .rs 8, .rs 0, .rs 2, .rs 3]

/-- the coherence hypothesis cannot be dropped: without it (timestamps that do not follow causality)
    a quiescent run leaves leaders 0 and 1 on `3` and leader 2 on `2`.  This refutes the statement
    that was carried as `ml_quiescent_convergence_full` (quiescence alone ⇒ agreement). -/
theorem ml_convergence_needs_coherence :
    ¬ (∀ (n nk : Nat), 2 ≤ n → ∀ (acts : List Act),
        ML.quiescentB (ML.run (ML.init n nk) acts) = true →
        ∀ i j k, i < n → j < n →
          (ML.run (ML.init n nk) acts).store i k = (ML.run (ML.init n nk) acts).store j k) := by
  intro h
  have h1 := h 3 1 (by decide) mlIncoherentWitness (by decide) 0 2 0 (by decide) (by decide)
  revert h1
  decide

example : (ML.run (ML.init 3 1) mlIncoherentWitness).err = none ∧
    ML.coherentB 3 ((ML.created (ML.init 3 1) mlIncoherentWitness).map (·.2)) = false ∧
    ML.schedOK (ML.init 3 1) (fun _ => 0) mlIncoherentWitness = false := by decide

/-- non-vacuity of `Coherent`: three versions of one key — a, b concurrent, c causally after a —
    satisfy it, and both merge orders give c. -/
example :
    let a : ML.Version := ⟨1, 10, 0, [1, 0]⟩
    let b : ML.Version := ⟨2, 12, 1, [0, 1]⟩
    let c : ML.Version := ⟨3, 15, 1, [1, 3]⟩
    (∀ x ∈ [a, b, c], ∀ y ∈ [a, b, c], ML.dominates 2 y.vc x.vc = true → ML.vlt x y) ∧
    ML.mergeAll 2 none [a, b, c] = some c ∧ ML.mergeAll 2 none [c, b, a, b] = some c := by decide

/-! ### can "positive latency" be weakened to what the engine guarantees?

The engine guarantees only that simulated time never goes backwards (a link latency of 0 and a store
write latency of 0 are legal), i.e. `ML.schedOK` with `≤` instead of `<`: a leader may stamp a write
at the *same* instant as a version it has just received.  That is not enough for last-writer-wins:
timestamps then tie between causally ordered versions, the tie is broken by writer id against the
causal order, and the merge order is no longer a total order. -/

/-- clock readings never decrease — all the engine promises about the timestamps of a run -/
def clockMonotone : ML.St → List Act → Bool
  | _, [] => true
  | s, a :: as => (match a with | .tick t => decide (s.now ≤ t) | _ => true) && clockMonotone (ML.step s a) as

/-- three leaders, one key, every event at the single instant `t = 10` (zero link and store latency):
    leader 2 writes 7; leader 0 receives it and then writes 8 (causally after 7, same timestamp,
    smaller writer id); leader 1 writes 9 concurrently.  Dominance puts `7 < 8`, the (timestamp, writer)
    order puts `8 < 9 < 7`.  Leader 1 receives 7 then 8 and ends on 8, leader 2 refuses 9 and takes 8,
    leader 0 (holding 8) receives 9 and takes it. -/
def mlZeroLatencyWitness : List Act :=
  [.tick 10, .cw 0 2 0 7, .rs 0, .dl 0, .rs 1, .cw 1 0 0 8, .rs 2, .cw 2 1 0 9, .rs 3,
   .dl 1, .rs 4, .dl 2, .rs 5, .dl 5, .dl 3, .rs 7, .dl 4, .rs 8, .rs 0, .rs 2, .rs 3]

/-- **Positive latency cannot be weakened to the engine's guarantee** (time never goes backwards):
    a run with a monotone clock, accepted by the model and quiescent, in which the leaders end on
    9, 8, 8.  So `ml_quiescent_convergence_positive_latency` needs the strict inequality of
    `ML.schedOK` (a `Replicate` takes at least one clock unit — 1 ns — which the harness guarantees by
    drawing every link latency from values ≥ 1 ns); with zero-latency links the real code is outside
    the theorem, and the convergence clause for last-writer-wins is claimed only for positive
    latencies. -/
theorem ml_positive_latency_needed :
    ¬ (∀ (n nk : Nat) (acts : List Act), clockMonotone (ML.init n nk) acts = true →
        ML.quiescentB (ML.run (ML.init n nk) acts) = true →
        ∀ i j k, i < n → j < n →
          (ML.run (ML.init n nk) acts).store i k = (ML.run (ML.init n nk) acts).store j k) := by
  intro h
  have h1 := h 3 1 mlZeroLatencyWitness (by decide) (by decide) 0 1 0 (by decide) (by decide)
  revert h1
  decide

example : (ML.run (ML.init 3 1) mlZeroLatencyWitness).err = none ∧
    (ML.created (ML.init 3 1) mlZeroLatencyWitness).map (fun kv => (kv.2.val, kv.2.ts, kv.2.writer, kv.2.vc)) =
      [(7, 10, 2, [0, 0, 1]), (8, 10, 0, [2, 0, 1]), (9, 10, 1, [0, 1, 0])] ∧
    ML.schedOK (ML.init 3 1) (fun _ => 0) mlZeroLatencyWitness = false ∧
    (List.range 3).map (fun i => (ML.run (ML.init 3 1) mlZeroLatencyWitness).store i 0) = [some 9, some 8, some 8] := by
  decide

/-! ## multi-leader with a merging conflict resolver (`VectorClockMerge(merge_fn)`, `CustomResolver`)

The resolver returns a *third* version for two concurrent ones: the join of the values (`|||` on item
masks = set union, or `max`), the later timestamp, the greater writer, the pointwise-max clock
(`MLM.joinVer`).  `MLM` is the `LeaderNode` transition system of `ML` with that `_pick` and with
`_install` storing the winner of `_pick`.

* `_install` stores `pick` (`mlm_install_is_pick`) — not the incoming version;
* on vector clocks `pick` is the pointwise maximum in every branch (`mlm_pick_clock_is_max`), so the
  clock a replica ends with does not depend on the order / duplication of what it merged
  (`mlm_merge_clock_order_independent`);
* concurrent versions merge to the join of all their values in any order
  (`mlm_concurrent_merge_order_independent`);
* delivering every `Replicate` is **not** enough for agreement when a version that was overwritten
  reaches a replica before its successor (`mlm_replicate_order_matters`, a recorded run of the real
  code) — hence "anti-entropy having run" in the property;
* between versions with the same clock `_install` is the pure join of the values
  (`mlm_same_clock_install_is_join`), and complete gossip of joins ends in agreement
  (`mlm_gossip_complete_converges`; `Spec.gossipComplete` evaluates its hypothesis on a delivery log). -/

/-- `_install` stores the winner of `_pick` (value and version), and only at that replica and key -/
theorem mlm_install_is_pick (s : MLM.St) (i k : Nat) (inc : ML.Version) :
    (MLM.install s i k inc).1.vers i k = MLM.mergeOpt s.n s.join (s.vers i k) inc ∧
    ((MLM.install s i k inc).2 = true →
      (MLM.install s i k inc).1.store i k = some (MLM.pick s.n s.join (s.vers i k) inc).val) ∧
    (∀ i' k', ¬ (i' = i ∧ k' = k) → (MLM.install s i k inc).1.vers i' k' = s.vers i' k' ∧
      (MLM.install s i k inc).1.store i' k' = s.store i' k') := by
  unfold MLM.install MLM.mergeOpt
  by_cases ht : MLM.takes s.n (s.vers i k) inc = true
  · rw [if_pos ht, if_pos ht]
    refine ⟨?_, fun _ => ?_, fun i' k' hne => ⟨?_, ?_⟩⟩
    · show upd2 s.vers i k _ i k = _
      rw [upd2_apply]; simp
    · show upd2 s.store i k _ i k = _
      rw [upd2_apply]; simp
    · show upd2 s.vers i k _ i' k' = _
      rw [upd2_apply, if_neg hne]
    · show upd2 s.store i k _ i' k' = _
      rw [upd2_apply, if_neg hne]
  · rw [if_neg ht, if_neg ht]
    refine ⟨rfl, ?_, fun _ _ _ => ⟨rfl, rfl⟩⟩
    intro h; exact absurd h (by simp)

/-- whichever branch `_pick` takes, the clock of its result is the pointwise maximum -/
theorem mlm_pick_clock_is_max (n : Nat) (j : MLM.Join) (e inc : ML.Version) (c : Nat) (hc : c < n) :
    ML.vcGet (MLM.pick n j (some e) inc).vc c = max (ML.vcGet e.vc c) (ML.vcGet inc.vc c) :=
  MLM.pick_clock n j e inc c hc

/-- two replicas that merged the same *set* of versions, in any orders and multiplicities, end with
    the same vector clock — no hypothesis on the versions -/
theorem mlm_merge_clock_order_independent (n : Nat) (j : MLM.Join) (l1 l2 : List ML.Version)
    (hset : ∀ v, v ∈ l1 ↔ v ∈ l2) (c : Nat) (hc : c < n) :
    MLM.clkOf (MLM.mergeAll n j none l1) c = MLM.clkOf (MLM.mergeAll n j none l2) c := by
  rw [MLM.mergeAll_clock n j l1 none c hc, MLM.mergeAll_clock n j l2 none c hc, MLM.clkMax_set_eq l1 l2 hset c]

/-- concurrent versions (each neither dominating nor dominated by what was merged before it) merge
    to the join of all their values, whatever the order -/
theorem mlm_concurrent_merge_order_independent (n : Nat) (j : MLM.Join) (l1 l2 : List ML.Version)
    (hp : l1.Perm l2) (h1 : MLM.AllConcurrent n j none l1 = true) (h2 : MLM.AllConcurrent n j none l2 = true) :
    MLM.valD (MLM.mergeAll n j none l1) = MLM.valD (MLM.mergeAll n j none l2) ∧
    MLM.valD (MLM.mergeAll n j none l1) = MLM.joinVals j 0 l1 := by
  rw [MLM.mergeAll_concurrent_val n j l1 none h1, MLM.mergeAll_concurrent_val n j l2 none h2]
  exact ⟨MLM.joinVals_perm j l1 l2 hp _, rfl⟩

/-- non-vacuity: three concurrent writes of item masks 2, 4, 8 at three leaders, merged in two
    different orders, give 14 both times -/
example :
    let a : ML.Version := ⟨2, 10, 0, [1, 0, 0]⟩
    let b : ML.Version := ⟨4, 11, 1, [0, 1, 0]⟩
    let c : ML.Version := ⟨8, 12, 2, [0, 0, 1]⟩
    MLM.AllConcurrent 3 .union none [a, b, c] = true ∧ MLM.AllConcurrent 3 .union none [c, a, b] = true ∧
    MLM.valD (MLM.mergeAll 3 .union none [a, b, c]) = 14 ∧ MLM.valD (MLM.mergeAll 3 .union none [c, a, b]) = 14 := by
  decide

/-- equal clocks: `_install` joins the values and keeps the clock -/
theorem mlm_same_clock_install_is_join (s : MLM.St) (i k : Nat) (e inc : ML.Version)
    (he : s.vers i k = some e) (hs : MLM.SameClock s.n e inc) :
    (MLM.install s i k inc).1.store i k = some (MLM.joinVal s.join e.val inc.val) ∧
    ∃ u, (MLM.install s i k inc).1.vers i k = some u ∧ u.val = MLM.joinVal s.join e.val inc.val ∧
      MLM.SameClock s.n u e := by
  obtain ⟨ht, hv, hc⟩ := MLM.pick_same_clock s.n s.join e inc hs
  have h := mlm_install_is_pick s i k inc
  have h2 : (MLM.install s i k inc).2 = true := by unfold MLM.install; rw [he, if_pos ht]
  refine ⟨?_, MLM.pick s.n s.join (some e) inc, ?_, hv, hc⟩
  · rw [h.2.1 h2, he, hv]
  · rw [h.1, he]; unfold MLM.mergeOpt; rw [if_pos ht]

/-- **complete gossip ⇒ agreement**, for both joins: if the requests (each a snapshot of its sender
    at the tick, merged by its receiver later, in any interleaving and with any extra traffic of
    values below the global join) carry every leader's value to every leader, all leaders end on
    the same value — the join of everything. -/
theorem mlm_gossip_complete_converges (j : MLM.Join) (n : Nat) (x0 : Nat → Nat) (evs : List MLM.GEv)
    (he : ∀ e, e ∈ evs → MLM.EvOK j n (MLM.bigJoin j x0 n) e)
    (hc : MLM.Complete n (MLM.grun j (MLM.ginit x0) evs)) (i i' : Nat) (hi : i < n) (hi' : i' < n) :
    (MLM.grun j (MLM.ginit x0) evs).x i = (MLM.grun j (MLM.ginit x0) evs).x i' := by
  rw [MLM.gossip_complete_converges j n x0 evs he hc i hi, MLM.gossip_complete_converges j n x0 evs he hc i' hi']

/-- non-vacuity: leaders holding 12, 12, 14; two crossing requests 0 → 1 and 2 → 1, then 1 → 0 and
    1 → 2 (the second round carries leader 2's items to leader 0): complete, all end on 14 -/
example :
    let x0 : Nat → Nat := fun i => if i = 2 then 14 else 12
    let evs : List MLM.GEv := [.tick 0 0, .tick 1 2, .recv 1 1, .recv 0 1, .tick 2 1, .tick 3 1, .recv 2 0, .recv 3 2]
    (∀ i < 3, ∀ h < 3, h ∈ (MLM.grun .union (MLM.ginit x0) evs).k i) ∧
    (MLM.grun .union (MLM.ginit x0) evs).x 0 = 14 ∧ (MLM.grun .union (MLM.ginit x0) evs).x 2 = 14 := by
  decide

/-- three leaders, key 0, union resolver — a run recorded from the real `LeaderNode`s: leader 0 writes
    item mask 2, leader 1 writes 4 concurrently, leader 0 overwrites with 8.  Leader 2 receives
    2, 4, 8 in that order and merges 2 ∪ 4 ∪ 8; at leader 1 the `Replicate` of 8 overtakes the one of 2
    (which is then dominated and dropped). -/
def mlmWitness : List Act :=
  [.tick 1, .cw 0 0 0 2, .rs 0, .rs 0, .tick 2, .cw 1 1 0 4, .rs 1, .rs 1, .tick 3, .cw 2 0 0 8, .rs 2,
   .dl 1, .rs 2, .rs 3, .dl 3, .rs 4, .dl 4, .rs 5, .dl 5, .rs 6, .dl 2, .rs 7, .dl 0]

/-- delivering every `Replicate` is not enough with a merging resolver: the run is quiescent, all
    three leaders carry the clock `[2,1,0]`, and leaders 0, 1 hold `8 ∪ 4` while leader 2 holds
    `2 ∪ 4 ∪ 8`.  (So the convergence clause is judged after anti-entropy.) -/
theorem mlm_replicate_order_matters :
    MLM.quiescentB (MLM.run (MLM.init 3 1 .union) mlmWitness) = true ∧
    (MLM.run (MLM.init 3 1 .union) mlmWitness).err = none ∧
    (MLM.run (MLM.init 3 1 .union) mlmWitness).store 0 0 = some 12 ∧
    (MLM.run (MLM.init 3 1 .union) mlmWitness).store 1 0 = some 12 ∧
    (MLM.run (MLM.init 3 1 .union) mlmWitness).store 2 0 = some 14 := by
  decide

/-- non-vacuity of `mlm_same_clock_install_is_join`: in the recorded run leaders 0 and 2 end with the
    same clock `[2,1,0]` and the values 12 and 14; installing leader 2's version at leader 0 (what an
    anti-entropy request does) joins them -/
example :
    let s := MLM.run (MLM.init 3 1 .union) mlmWitness
    (s.vers 0 0).map (·.vc) = some [2, 1, 0] ∧ (s.vers 2 0).map (·.vc) = some [2, 1, 0] ∧
    (s.vers 2 0).map (fun inc => (MLM.install s 0 0 inc).1.store 0 0) = some (some 14) := by
  decide

/-- … and one anti-entropy request 2 → 0 followed by one 0 → 1 repairs it: all leaders on 14 -/
example :
    let s := MLM.run (MLM.init 3 1 .union) (mlmWitness ++ [.ae 2 0, .rs 9, .dl 6, .rs 10, .ae 0 1, .rs 11, .dl 7, .rs 12])
    s.err = none ∧ s.store 0 0 = some 14 ∧ s.store 1 0 = some 14 ∧ s.store 2 0 = some 14 := by
  decide

/-- **Merging resolver, run level: at quiescence all leaders carry the same vector clock.**  For every
    action list of the `MLM` transition system — writes at any leaders, `Replicate` and anti-entropy
    messages delivered in any order and any number of times, handlers resumed in any order — and with
    no hypothesis on timestamps or versions: once every message is delivered and every handler has
    finished, for every key all leaders hold a version with the same clock (pointwise, on the `n`
    leaders), a leader lacks a key only if all do, and every store holds the value of its version.
    (The *values* may still differ — `mlm_replicate_order_matters` — but from here on `_install` between
    any two leaders is the pure join, `mlm_same_clock_install_is_join`.) -/
theorem mlm_quiescent_clocks_agree (n nk : Nat) (jn : MLM.Join) (acts : List Act)
    (hq : MLM.quiescentB (MLM.run (MLM.init n nk jn) acts) = true) (i j k : Nat) (hi : i < n) (hj : j < n) :
    (∀ c, c < n → MLM.clk ((MLM.run (MLM.init n nk jn) acts).vers i k) c =
      MLM.clk ((MLM.run (MLM.init n nk jn) acts).vers j k) c) ∧
    (((MLM.run (MLM.init n nk jn) acts).vers i k).isSome = ((MLM.run (MLM.init n nk jn) acts).vers j k).isSome) ∧
    (MLM.run (MLM.init n nk jn) acts).store i k = ((MLM.run (MLM.init n nk jn) acts).vers i k).map (·.val) :=
  MLM.quiescent_clocks_agree n nk jn acts hq i j k hi hj

/-- … and every leader's clock covers every written version of the key (no write is unseen) -/
theorem mlm_quiescent_covers (n nk : Nat) (jn : MLM.Join) (acts : List Act)
    (hq : MLM.quiescentB (MLM.run (MLM.init n nk jn) acts) = true) (k : Nat) (w : ML.Version)
    (hw : MLM.Written (MLM.run (MLM.init n nk jn) acts) k w) (i : Nat) (hi : i < n) :
    ∃ u, (MLM.run (MLM.init n nk jn) acts).vers i k = some u ∧ ∀ c, c < n → ML.vcGet w.vc c ≤ ML.vcGet u.vc c :=
  MLM.quiescent_covers n nk jn acts hq k w hw i hi

/-- non-vacuity: the recorded run is quiescent, the three leaders agree on the clock `[2,1,0]` -/
example :
    MLM.quiescentB (MLM.run (MLM.init 3 1 .union) mlmWitness) = true ∧
    (∀ i < 3, ∀ c < 3, MLM.clk ((MLM.run (MLM.init 3 1 .union) mlmWitness).vers i 0) c = [2, 1, 0].getD c 0) := by
  decide

/-! ### the three pieces composed: one run-level theorem -/

/-- **Merging resolver: quiescent + anti-entropy having run ⇒ all replicas agree.**  For every action
    list of the `MLM` transition system (writes at any leaders, `Replicate` and anti-entropy messages
    delivered in any order, handlers resumed in any order, crossing and overlapping exchanges, stale
    requests and responses still in flight), with no hypothesis on timestamps: if the run is quiescent
    and, after its last client-write / `Replicate` handler step, the anti-entropy *requests* carry every
    leader's knowledge to every leader (`MLM.KComplete` of `MLM.krun`: a tick snapshots the sender's
    knowledge into the request it sends, the step that finishes the request's handler adds it to the
    receiver's — the computation of `Spec.gossipComplete`, carried forward along the run), then all
    leaders hold the same value for every key.
    (The common value is the join of what the leaders held when the last `Replicate` handler finished —
    not "the join of all written values": an overwritten value survives only where it had been merged
    before its successor arrived, `mlm_replicate_order_matters`.) -/
theorem mlm_run_gossip_complete_converges (n nk : Nat) (jn : MLM.Join) (acts : List Act)
    (hq : MLM.quiescentB (MLM.run (MLM.init n nk jn) acts) = true)
    (hk : MLM.KComplete n (MLM.krun (MLM.init n nk jn) MLM.GK.reset acts).2)
    (i j k : Nat) (hi : i < n) (hj : j < n) :
    (MLM.run (MLM.init n nk jn) acts).store i k = (MLM.run (MLM.init n nk jn) acts).store j k :=
  MLM.run_gossip_complete_converges n nk jn acts hq hk i j k hi hj

/-- non-vacuity: the recorded run continued by the requests 2 → 0, 0 → 1, 1 → 2, 1 → 0 is quiescent,
    its knowledge is complete, and all three leaders end on 14; after the first two requests the values
    already agree but the knowledge is not complete yet (the criterion is sufficient, not necessary) -/
example :
    let acts := mlmWitness ++ [.ae 2 0, .rs 9, .dl 6, .rs 10, .ae 0 1, .rs 11, .dl 7, .rs 12,
      .ae 1 2, .rs 13, .dl 8, .rs 14, .ae 1 0, .rs 15, .dl 9, .rs 16]
    (MLM.run (MLM.init 3 1 .union) acts).err = none ∧
    MLM.quiescentB (MLM.run (MLM.init 3 1 .union) acts) = true ∧
    MLM.kcompleteB 3 (MLM.krun (MLM.init 3 1 .union) MLM.GK.reset acts).2 = true ∧
    (List.range 3).map (fun i => (MLM.run (MLM.init 3 1 .union) acts).store i 0) = [some 14, some 14, some 14] ∧
    MLM.kcompleteB 3 (MLM.krun (MLM.init 3 1 .union) MLM.GK.reset
      (mlmWitness ++ [.ae 2 0, .rs 9, .dl 6, .rs 10, .ae 0 1, .rs 11, .dl 7, .rs 12])).2 = false := by
  decide

/-- **The judge's convergence clause for merging resolvers is silent on the model.**  A transcript
    whose last step shows the model's stores and whose `Q` flag is the model's quiescence is accepted
    by `Spec.judgeMLn n true`, provided the judge's reading of the delivery log implies the model's
    knowledge computation (`hlog`; the two are the same computation on two representations of one run —
    printed lines vs. the action list — which is cross-checked by the harness on every run of the
    check, not proved: it would need the decimal print/parse round trip). -/
theorem mlm_judge_convergence_silent (n nk : Nat) (jn : MLM.Join) (acts : List Act) (steps : List Spec.Step)
    (hfin : Spec.finalStores steps = modelStores (MLM.run (MLM.init n nk jn) acts).store n nk)
    (hlog : Spec.gossipComplete n steps = true →
      MLM.KComplete n (MLM.krun (MLM.init n nk jn) MLM.GK.reset acts).2) :
    Spec.judgeMLn n true steps (MLM.quiescentB (MLM.run (MLM.init n nk jn) acts)) = none := by
  unfold Spec.judgeMLn
  simp only [if_true]
  cases hq : MLM.quiescentB (MLM.run (MLM.init n nk jn) acts) with
  | false => simp
  | true =>
    cases hg : Spec.gossipComplete n steps with
    | false => simp
    | true =>
      have hc := converged_of_agree (MLM.run (MLM.init n nk jn) acts).store n nk
        (fun i j k hi hj => MLM.run_gossip_complete_converges n nk jn acts hq (hlog hg) i j k hi hj)
      rw [hfin, hc]; simp

/-! ## leaders with different peer sets (star / line topologies, `MLT`)

Vector-clock snapshots then carry different id sets; dominance reads a missing component as 0 over the
union of both sets, and is a strict partial order for any supports. -/

/-- `_vc_dominates` is asymmetric: two clocks never dominate each other -/
theorem ml_dominates_asymm (n : Nat) (a b : List Nat) (h : ML.dominates n a b = true) : ML.dominates n b a = false :=
  MLT.dominates_asymm n a b h

/-- … and transitive -/
theorem ml_dominates_trans (n : Nat) (a b c : List Nat) (h1 : ML.dominates n a b = true)
    (h2 : ML.dominates n b c = true) : ML.dominates n a c = true :=
  MLT.dominates_trans n a b c h1 h2

/-- clocks with disjoint non-zero components (two spokes of a star that have not heard of each other)
    are concurrent, and then — on any topology — the resolver decides: the last-writer-wins comparison,
    or the join -/
theorem mlt_disjoint_clocks_go_to_resolver (s : MLT.St) (e inc : ML.Version)
    (ha : ∃ c, c < s.n ∧ 0 < ML.vcGet inc.vc c ∧ ML.vcGet e.vc c = 0)
    (hb : ∃ c, c < s.n ∧ 0 < ML.vcGet e.vc c ∧ ML.vcGet inc.vc c = 0) :
    (s.lww = true → MLT.takesR s (some e) inc = ML.lwwLt e inc) ∧
    (s.lww = false → MLT.takesR s (some e) inc = true ∧ MLT.pickR s (some e) inc = MLM.joinVer s.n s.join e inc) := by
  obtain ⟨h1, h2⟩ := MLT.disjoint_concurrent s.n inc.vc e.vc ha hb
  exact MLT.concurrent_decided_by_resolver s e inc h1 h2

/-- non-vacuity: star of three, the spokes 1 and 2 write key 0 concurrently (clocks `[0,1,0]` and
    `[0,0,1]`); the hub keeps the later one (8, t = 12) and refuses the earlier one that arrives after it;
    spoke 1's anti-entropy request is answered with it, and everybody ends on 8 (a recorded run) -/
example :
    let s := MLT.run (MLT.init 3 1 .union true (MLT.star 3))
      [.tick 10, .cw 0 1 0 7, .rs 0, .rs 0, .tick 12, .cw 1 2 0 8, .rs 1, .rs 1, .dl 1, .rs 2, .dl 0,
       .ae 1 0, .rs 4, .dl 2, .rs 5, .dl 3, .rs 6, .ae 2 0, .rs 7, .dl 4, .ae 1 0, .rs 9, .dl 5]
    s.err = none ∧ MLT.quiescentB s = true ∧ s.store 0 0 = some 8 ∧ s.store 1 0 = some 8 ∧ s.store 2 0 = some 8 := by
  decide

/-! ## last-writer-wins on any peer topology, run level (`MLT`) -/

/-- **Star / line / any topology, resolver that returns one of its inputs: anti-entropy having run ⇒ all
    leaders agree.**  For every peer topology `adj` (each leader's own peer list — mesh, star, line or
    anything else, symmetric or not), every action list of the `MLT` transition system (writes at any
    leaders replicated to their peers only, `Replicate` and anti-entropy messages delivered in any order,
    handlers resumed in any order, crossing exchanges, stale traffic) whose stamped versions are coherent:
    if, after the last client-write / `Replicate` handler step, the anti-entropy *requests* carry every
    leader's knowledge to every leader (`MLM.KComplete` of `MLT.krun`, the forward form of
    `Spec.gossipComplete`), all leaders hold the same version and the same value of every key.
    Quiescence is not needed for the conclusion (a `Replicate` still in flight is not part of what the
    leaders agree on); `mlt_quiescent_gossip_complete_converges` is the form the judge evaluates. -/
theorem mlt_gossip_complete_converges {P : Nat → ML.Version → Prop} (n nk : Nat) (jn : MLM.Join)
    (adj : List (List Nat)) (acts : List Act) (hc : ∀ k, ML.Coherent n (P k))
    (hP : ∀ kv, kv ∈ MLT.created (MLT.init n nk jn true adj) acts → P kv.1 kv.2)
    (hk : MLM.KComplete n (MLT.krun (MLT.init n nk jn true adj) MLM.GK.reset acts).2)
    (i j k : Nat) (hi : i < n) (hj : j < n) :
    (MLT.run (MLT.init n nk jn true adj) acts).vers i k = (MLT.run (MLT.init n nk jn true adj) acts).vers j k ∧
    (MLT.run (MLT.init n nk jn true adj) acts).store i k = (MLT.run (MLT.init n nk jn true adj) acts).store j k :=
  MLT.gossip_complete_converges n nk jn adj acts hc hP hk i j k hi hj

theorem mlt_quiescent_gossip_complete_converges (n nk : Nat) (jn : MLM.Join)
    (adj : List (List Nat)) (acts : List Act)
    (hc : ∀ k, ML.Coherent n (fun v => (k, v) ∈ MLT.created (MLT.init n nk jn true adj) acts))
    (_hq : MLT.quiescentB (MLT.run (MLT.init n nk jn true adj) acts) = true)
    (hk : MLM.KComplete n (MLT.krun (MLT.init n nk jn true adj) MLM.GK.reset acts).2)
    (i j k : Nat) (hi : i < n) (hj : j < n) :
    (MLT.run (MLT.init n nk jn true adj) acts).store i k = (MLT.run (MLT.init n nk jn true adj) acts).store j k :=
  (MLT.gossip_complete_converges (P := fun k v => (k, v) ∈ MLT.created (MLT.init n nk jn true adj) acts)
    n nk jn adj acts hc (fun _ h => h) hk i j k hi hj).2

/-- the judge's off-mesh convergence clause (`Spec.judgeMLt n false false`) is silent on the model, under
    the same two reading hypotheses as on the mesh (`hfin`, `hlog`) -/
theorem mlt_judge_convergence_silent (n nk : Nat) (jn : MLM.Join) (adj : List (List Nat)) (acts : List Act)
    (hc : ∀ k, ML.Coherent n (fun v => (k, v) ∈ MLT.created (MLT.init n nk jn true adj) acts))
    (steps : List Spec.Step)
    (hfin : Spec.finalStores steps = modelStores (MLT.run (MLT.init n nk jn true adj) acts).store n nk)
    (hlog : Spec.gossipComplete n steps = true →
      MLM.KComplete n (MLT.krun (MLT.init n nk jn true adj) MLM.GK.reset acts).2) :
    Spec.judgeMLt n false false steps (MLT.quiescentB (MLT.run (MLT.init n nk jn true adj) acts)) = none := by
  unfold Spec.judgeMLt
  simp only [Bool.false_eq_true, if_false]
  cases hq : MLT.quiescentB (MLT.run (MLT.init n nk jn true adj) acts) with
  | false => simp
  | true =>
    cases hg : Spec.gossipComplete n steps with
    | false => simp
    | true =>
      have hcv := converged_of_agree (MLT.run (MLT.init n nk jn true adj) acts).store n nk
        (fun i j k hi hj => mlt_quiescent_gossip_complete_converges n nk jn adj acts hc hq (hlog hg) i j k hi hj)
      rw [hfin, hcv]; simp

/-- non-vacuity: the recorded star run (spokes 1 and 2 write concurrently, then anti-entropy ticks
    at 1, 2 and twice at the hub): knowledge complete, versions coherent -/
example :
    let acts : List Act := [.tick 10, .cw 0 1 0 7, .rs 0, .rs 0, .tick 12, .cw 1 2 0 8, .rs 1, .rs 1, .dl 1, .rs 2, .dl 0,
       .ae 1 0, .rs 4, .dl 2, .rs 5, .dl 3, .rs 6, .ae 2 0, .rs 7, .dl 4, .ae 0 1, .rs 9, .dl 5, .ae 0 2, .rs 11, .dl 6]
    MLM.kcompleteB 3 (MLT.krun (MLT.init 3 1 .union true (MLT.star 3)) MLM.GK.reset acts).2 = true ∧
    (MLT.created (MLT.init 3 1 .union true (MLT.star 3)) acts).map (fun kv => (kv.2.val, kv.2.ts, kv.2.writer, kv.2.vc)) =
      [(7, 10, 1, [0, 1, 0]), (8, 12, 2, [0, 0, 1])] ∧
    ML.coherentB 3 ((MLT.created (MLT.init 3 1 .union true (MLT.star 3)) acts).map (·.2)) = true := by
  decide

end HappyModel.C17
