import HappyProofs.C17.PBProps
import HappyProofs.C17.ChainReach3
import HappyProofs.C17.MLMerge
/-!
# C17 — property theorems

"Primary-backup: when a write is acknowledged it has been applied on every backup in SYNC mode and
on at least one in SEMI_SYNC mode.  Chain replication: an acknowledged write is applied at every
node of the chain and a read never returns a value not yet committed at the tail.  In every scheme,
once writes stop and all in-flight messages are delivered (anti-entropy having run for
multi-leader), all replicas hold the same value for every key, under any message reordering."

All theorems quantify over *every* action list (`List Act`): every interleaving of client events,
message deliveries in any order, and handler resumptions that the model accepts (an action that is
not enabled — unknown id, a put resumed out of FIFO order, a parked handler resumed without its
acks — leaves the state unchanged apart from the error flag).
"Write `q` is applied at replica `r`" is `Reflects`: `r` holds, for the key of `q`, the value of `q`
or of a write to that key accepted later (a newer value may have replaced it, an older one may not
be there) — the same reading as `Spec.reflects` on observed transcripts.
-/
namespace HappyModel.C17
open PB

/-! ## primary-backup (repaired tree: backups apply by per-key sequence number) -/

/-- SYNC: a write handler that has replied to its client ⇒ every backup reflects the write. -/
theorem sync_ack_all_backups (nb : Nat) (acts : List Act) (pid : Nat) (p : Proc)
    (hp : (run (init true .sync nb) acts).procs pid = some p) (hk : p.kind = .write)
    (hf : p.fin = true) :
    ∀ b, b < nb → Reflects (run (init true .sync nb) acts) b p.key p.seq := by
  have hi := run_inv _ acts (init_inv .sync nb)
  have hs := run_static (init true .sync nb) acts
  intro b hb
  exact sync_reflects _ hi hs.2 pid p hp hk hf b (by rw [hs.1]; exact hb)

/-- SEMI_SYNC with at least one backup: a replied write is reflected by at least one backup. -/
theorem semisync_ack_one_backup (nb : Nat) (hnb : 0 < nb) (acts : List Act) (pid : Nat) (p : Proc)
    (hp : (run (init true .semi nb) acts).procs pid = some p) (hk : p.kind = .write)
    (hf : p.fin = true) :
    ∃ b, b < nb ∧ Reflects (run (init true .semi nb) acts) b p.key p.seq := by
  have hi := run_inv _ acts (init_inv .semi nb)
  have hs := run_static (init true .semi nb) acts
  obtain ⟨b, hb, hr⟩ := semi_reflects _ hi hs.2 (by rw [hs.1]; exact hnb) pid p hp hk hf
  exact ⟨b, by rw [hs.1] at hb; exact hb, hr⟩

/-- every mode, any reordering: at quiescence every backup's store equals the primary's. -/
theorem pb_quiescent_convergence (mode : Mode) (nb : Nat) (acts : List Act)
    (hq : quiescent (run (init true mode nb) acts)) (b : Nat) (hb : b < nb) (k : Nat) :
    (run (init true mode nb) acts).store (b + 1) k = (run (init true mode nb) acts).store 0 k := by
  have hi := run_inv _ acts (init_inv mode nb)
  have hs := run_static (init true mode nb) acts
  exact converge _ hi hq b (by rw [hs.1]; exact hb) k

/-- two writes of key 0; the second Replicate (message 1) is delivered before the first (message 0) -/
def reorderWitness : List Act :=
  [.cw 0 0 0 1, .rs 0, .cw 1 0 0 2, .rs 0, .rs 1, .rs 1, .dl 1, .rs 2, .rs 2, .dl 0, .rs 3, .rs 3,
   .dl 2, .dl 3]

/-- pinned tree (`repaired = false`, backups apply in arrival order): the run above is quiescent
    and the backup is left on the older value — convergence is false of the current code. -/
theorem backup_reorder_diverges :
    quiescentB (run (init false .async 1) reorderWitness) = true ∧
    (run (init false .async 1) reorderWitness).err = none ∧
    (run (init false .async 1) reorderWitness).store 0 0 = some 2 ∧
    (run (init false .async 1) reorderWitness).store 1 0 = some 1 := by decide

/-- non-vacuity: the same schedule on the repaired model is accepted, quiescent, and both replicas
    hold the newer value; in SYNC mode with two backups a write does get acknowledged. -/
example :
    quiescentB (run (init true .async 1) reorderWitness) = true ∧
    (run (init true .async 1) reorderWitness).err = none ∧
    (run (init true .async 1) reorderWitness).store 0 0 = some 2 ∧
    (run (init true .async 1) reorderWitness).store 1 0 = some 2 := by decide

example :
    let s := run (init true .sync 2)
      [.cw 0 0 0 7, .rs 0, .rs 0, .dl 1, .dl 0, .rs 1, .rs 2, .rs 0]
    (s.procs 0).map (fun p => (p.kind, p.fin, p.seq)) = some (.write, true, 1) ∧ s.err = none ∧
      s.store 1 0 = some 7 ∧ s.store 2 0 = some 7 := by decide

example :
    let s := run (init true .semi 2)
      [.cw 0 0 0 7, .rs 0, .rs 0, .dl 1, .rs 1, .rs 0]
    (s.procs 0).map (fun p => (p.kind, p.fin, p.seq)) = some (.write, true, 1) ∧ s.err = none ∧
      s.store 1 0 = none ∧ s.store 2 0 = some 7 := by decide

/-! ## chain replication (repaired tree: apply by per-key sequence, CRAQ dirtiness by sequence,
    dirty check at the instant of the local read) -/

/-- a write handler at the HEAD that has replied ⇒ every node of the chain reflects the write,
    for every schedule (any overtaking of Propagate / WriteAck / CommitNotify messages). -/
theorem chain_ack_all_nodes (craq : Bool) (n : Nat) (hn : 2 ≤ n) (acts : List Act) (pid : Nat)
    (p : Chain.Proc) (hp : (Chain.run (Chain.init craq n) acts).procs pid = some p)
    (hk : p.kind = .write) (hf : p.fin = true) :
    ∀ i, i < n → Chain.Reflects (Chain.run (Chain.init craq n) acts) i p.key p.seq := by
  have hi := Chain.run_inv _ acts (Chain.init_inv craq n hn)
  have hs := Chain.run_static (Chain.init craq n) acts
  intro i hlt
  exact Chain.acked_everywhere _ hi pid p hp hk hf i (by rw [hs.1]; exact hlt)

/-- whenever a node serves a read from its own store — it is the TAIL, or CRAQ is on and the key
    is clean at the instant the value is read (`resumeRead` replies `store node key` exactly under
    this condition) — that value is the TAIL's current value for the key: a read never returns a
    value that is not committed at the tail. -/
theorem chain_read_committed (craq : Bool) (n : Nat) (hn : 2 ≤ n) (acts : List Act) (i k : Nat)
    (hi : i < n)
    (hc : i = n - 1 ∨ (craq = true ∧ (Chain.run (Chain.init craq n) acts).dirty i k = false)) :
    (Chain.run (Chain.init craq n) acts).store i k = (Chain.run (Chain.init craq n) acts).store (n - 1) k := by
  have hinv := Chain.run_inv _ acts (Chain.init_inv craq n hn)
  have hs := Chain.run_static (Chain.init craq n) acts
  have := Chain.local_read_is_tail_value _ hinv i k (by rw [hs.1]; exact hi)
    (by rw [hs.1, hs.2]; exact hc)
  rw [hs.1] at this; exact this

/-- CRAQ or not, any overtaking of messages: once the head's puts have landed, every message is
    delivered and every handler has finished, every node holds the head's value for every key. -/
theorem chain_quiescent_convergence (craq : Bool) (n : Nat) (hn : 2 ≤ n) (acts : List Act)
    (hq : Chain.quiescent (Chain.run (Chain.init craq n) acts)) (i : Nat) (hi : i < n) (k : Nat) :
    (Chain.run (Chain.init craq n) acts).store i k = (Chain.run (Chain.init craq n) acts).store 0 k := by
  have hinv := Chain.run_inv _ acts (Chain.init_inv craq n hn)
  have hfr := Chain.fr_run _ acts (Chain.init_inv craq n hn) (Chain.fr_init craq n)
  have hs := Chain.run_static (Chain.init craq n) acts
  exact Chain.quiescent_agree _ hinv hfr hq i (by rw [hs.1]; exact hi) k

/-- non-vacuity: CRAQ chain of 3, two writes of key 0 in flight, the second Propagate overtakes the
    first between nodes 1 and 2; both get acknowledged, every node ends on the newer value, and
    while the second write is uncommitted the key stays dirty at the head (so a read is forwarded). -/
example :
    let s := Chain.run (Chain.init true 3)
      [.cw 0 0 0 1, .rs 0, .rs 0, .cw 1 0 0 2, .rs 1, .rs 1, .dl 0, .rs 2, .rs 2, .dl 1, .rs 3, .rs 3,
       .dl 3, .rs 4, .dl 2, .rs 5, .rs 4, .rs 5]
    s.err = none ∧ s.store 0 0 = some 2 ∧ s.store 1 0 = some 2 ∧ s.store 2 0 = some 2 ∧
      s.dirty 0 0 = true ∧ s.aseq 2 0 = 2 := by decide

/-- non-vacuity of `quiescent`: the same run continued until everything is delivered -/
example :
    Chain.quiescentB (Chain.run (Chain.init false 2)
      [.cw 0 0 0 1, .rs 0, .rs 0, .dl 0, .rs 1, .rs 1, .dl 1, .rs 0]) = true := by decide

/-! ## multi-leader (repaired tree: merge decided at the instant a version is installed) -/

/-- `_install` is `mergeOpt` on the local version of the key -/
theorem ml_install_is_merge (s : ML.St) (i k : Nat) (inc : ML.Version) :
    (ML.install s i k inc).1.vers i k = ML.mergeOpt s.n (s.vers i k) inc := by
  unfold ML.install ML.mergeOpt
  split
  · show upd2 s.vers i k (some inc) i k = some inc
    rw [upd2_apply]; simp
  · rfl

/-- merging is order-, grouping- and duplication-independent: two replicas that have merged the
    same *set* of (coherent) versions of a key, in any orders and multiplicities, hold the same
    version — the greatest one. -/
theorem ml_merge_order_independent (n : Nat) (P : ML.Version → Prop) (hc : ML.Coherent n P)
    (l1 l2 : List ML.Version) (h1 : ∀ v, v ∈ l1 → P v) (hset : ∀ v, v ∈ l1 ↔ v ∈ l2) :
    ML.mergeAll n none l1 = ML.mergeAll n none l2 := by
  have h2 : ∀ v, v ∈ l2 → P v := fun v hv => h1 v ((hset v).mpr hv)
  have m1 := ML.mergeAll_max n P hc l1 h1 [] none (fun _ h => by simp at h) rfl
  have m2 := ML.mergeAll_max n P hc l2 h2 [] none (fun _ h => by simp at h) rfl
  simp only [List.nil_append] at m1 m2
  exact ML.isMax_unique n P hc l1 l2 h1 hset _ _ m1 m2

/-- full multi-leader convergence (not proved as a run-level theorem: needs the ghost "set of
    versions seen" invariant tying every replica's version to `mergeAll` of what was delivered to it,
    and coherence derived from positive message latency) -/
def ml_quiescent_convergence_full : Prop :=
  ∀ (n nk : Nat), 2 ≤ n → ∀ (acts : List Act),
    ML.quiescentB (ML.run (ML.init n nk) acts) = true →
    ∀ i j k, i < n → j < n → (ML.run (ML.init n nk) acts).store i k = (ML.run (ML.init n nk) acts).store j k

/-- non-vacuity of `Coherent`: three versions of one key — a, b concurrent, c causally after a —
    satisfy it, and both merge orders give c. -/
example :
    let a : ML.Version := ⟨1, 10, 0, [1, 0]⟩
    let b : ML.Version := ⟨2, 12, 1, [0, 1]⟩
    let c : ML.Version := ⟨3, 15, 1, [1, 3]⟩
    (∀ x ∈ [a, b, c], ∀ y ∈ [a, b, c], ML.dominates 2 y.vc x.vc = true → ML.vlt x y) ∧
    ML.mergeAll 2 none [a, b, c] = some c ∧ ML.mergeAll 2 none [c, b, a, b] = some c := by decide

end HappyModel.C17
