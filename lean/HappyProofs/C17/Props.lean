import HappyProofs.C17.PBProps
import HappyProofs.C17.ChainReach3
import HappyProofs.C17.MLMerge
import HappyProofs.C17.MLConv
import HappyProofs.C17.MLSched
/-!
# C17 — property theorems

"Primary-backup: when a write is acknowledged it has been applied on every backup in SYNC mode and
on at least one in SEMI_SYNC mode.  Chain replication: an acknowledged write is applied at every
node of the chain and a read never returns a value not yet committed at the tail.  In every scheme,
once writes stop and all in-flight messages are delivered (anti-entropy having run for
multi-leader), all replicas hold the same value for every key, under any message reordering."

All theorems quantify over *every* action list (`List Act`): every interleaving of client events,
message deliveries in any order, and handler resumptions that the model accepts (an action that is
not enabled — unknown id, a put resumed out of FIFO order, a parked handler resumed without its
acks — leaves the state unchanged apart from the error flag).
"Write `q` is applied at replica `r`" is `Reflects`: `r` holds, for the key of `q`, the value of `q`
or of a write to that key accepted later (a newer value may have replaced it, an older one may not
be there) — the same reading as `Spec.reflects` on observed transcripts.
-/
namespace HappyModel.C17
open PB

/-! ## primary-backup (repaired tree: backups apply by per-key sequence number) -/

/-- SYNC: a write handler that has replied to its client ⇒ every backup reflects the write. -/
theorem sync_ack_all_backups (nb : Nat) (acts : List Act) (pid : Nat) (p : Proc)
    (hp : (run (init true .sync nb) acts).procs pid = some p) (hk : p.kind = .write)
    (hf : p.fin = true) :
    ∀ b, b < nb → Reflects (run (init true .sync nb) acts) b p.key p.seq := by
  have hi := run_inv _ acts (init_inv .sync nb)
  have hs := run_static (init true .sync nb) acts
  intro b hb
  exact sync_reflects _ hi hs.2 pid p hp hk hf b (by rw [hs.1]; exact hb)

/-- SEMI_SYNC with at least one backup: a replied write is reflected by at least one backup. -/
theorem semisync_ack_one_backup (nb : Nat) (hnb : 0 < nb) (acts : List Act) (pid : Nat) (p : Proc)
    (hp : (run (init true .semi nb) acts).procs pid = some p) (hk : p.kind = .write)
    (hf : p.fin = true) :
    ∃ b, b < nb ∧ Reflects (run (init true .semi nb) acts) b p.key p.seq := by
  have hi := run_inv _ acts (init_inv .semi nb)
  have hs := run_static (init true .semi nb) acts
  obtain ⟨b, hb, hr⟩ := semi_reflects _ hi hs.2 (by rw [hs.1]; exact hnb) pid p hp hk hf
  exact ⟨b, by rw [hs.1] at hb; exact hb, hr⟩

/-- every mode, any reordering: at quiescence every backup's store equals the primary's. -/
theorem pb_quiescent_convergence (mode : Mode) (nb : Nat) (acts : List Act)
    (hq : quiescent (run (init true mode nb) acts)) (b : Nat) (hb : b < nb) (k : Nat) :
    (run (init true mode nb) acts).store (b + 1) k = (run (init true mode nb) acts).store 0 k := by
  have hi := run_inv _ acts (init_inv mode nb)
  have hs := run_static (init true mode nb) acts
  exact converge _ hi hq b (by rw [hs.1]; exact hb) k

/-- two writes of key 0; the second Replicate (message 1) is delivered before the first (message 0) -/
def reorderWitness : List Act :=
  [.cw 0 0 0 1, .rs 0, .cw 1 0 0 2, .rs 0, .rs 1, .rs 1, .dl 1, .rs 2, .rs 2, .dl 0, .rs 3, .rs 3,
   .dl 2, .dl 3]

/-- pinned tree (`repaired = false`, backups apply in arrival order): the run above is quiescent
    and the backup is left on the older value — convergence is false of the current code. -/
theorem backup_reorder_diverges :
    quiescentB (run (init false .async 1) reorderWitness) = true ∧
    (run (init false .async 1) reorderWitness).err = none ∧
    (run (init false .async 1) reorderWitness).store 0 0 = some 2 ∧
    (run (init false .async 1) reorderWitness).store 1 0 = some 1 := by decide

/-- non-vacuity: the same schedule on the repaired model is accepted, quiescent, and both replicas
    hold the newer value; in SYNC mode with two backups a write does get acknowledged. -/
example :
    quiescentB (run (init true .async 1) reorderWitness) = true ∧
    (run (init true .async 1) reorderWitness).err = none ∧
    (run (init true .async 1) reorderWitness).store 0 0 = some 2 ∧
    (run (init true .async 1) reorderWitness).store 1 0 = some 2 := by decide

example :
    let s := run (init true .sync 2)
      [.cw 0 0 0 7, .rs 0, .rs 0, .dl 1, .dl 0, .rs 1, .rs 2, .rs 0]
    (s.procs 0).map (fun p => (p.kind, p.fin, p.seq)) = some (.write, true, 1) ∧ s.err = none ∧
      s.store 1 0 = some 7 ∧ s.store 2 0 = some 7 := by decide

example :
    let s := run (init true .semi 2)
      [.cw 0 0 0 7, .rs 0, .rs 0, .dl 1, .rs 1, .rs 0]
    (s.procs 0).map (fun p => (p.kind, p.fin, p.seq)) = some (.write, true, 1) ∧ s.err = none ∧
      s.store 1 0 = none ∧ s.store 2 0 = some 7 := by decide

/-! ## chain replication (repaired tree: apply by per-key sequence, CRAQ dirtiness by sequence,
    dirty check at the instant of the local read) -/

/-- a write handler at the HEAD that has replied ⇒ every node of the chain reflects the write,
    for every schedule (any overtaking of Propagate / WriteAck / CommitNotify messages). -/
theorem chain_ack_all_nodes (craq : Bool) (n : Nat) (hn : 2 ≤ n) (acts : List Act) (pid : Nat)
    (p : Chain.Proc) (hp : (Chain.run (Chain.init craq n) acts).procs pid = some p)
    (hk : p.kind = .write) (hf : p.fin = true) :
    ∀ i, i < n → Chain.Reflects (Chain.run (Chain.init craq n) acts) i p.key p.seq := by
  have hi := Chain.run_inv _ acts (Chain.init_inv craq n hn)
  have hs := Chain.run_static (Chain.init craq n) acts
  intro i hlt
  exact Chain.acked_everywhere _ hi pid p hp hk hf i (by rw [hs.1]; exact hlt)

/-- whenever a node serves a read from its own store — it is the TAIL, or CRAQ is on and the key
    is clean at the instant the value is read (`resumeRead` replies `store node key` exactly under
    this condition) — that value is the TAIL's current value for the key: a read never returns a
    value that is not committed at the tail. -/
theorem chain_read_committed (craq : Bool) (n : Nat) (hn : 2 ≤ n) (acts : List Act) (i k : Nat)
    (hi : i < n)
    (hc : i = n - 1 ∨ (craq = true ∧ (Chain.run (Chain.init craq n) acts).dirty i k = false)) :
    (Chain.run (Chain.init craq n) acts).store i k = (Chain.run (Chain.init craq n) acts).store (n - 1) k := by
  have hinv := Chain.run_inv _ acts (Chain.init_inv craq n hn)
  have hs := Chain.run_static (Chain.init craq n) acts
  have := Chain.local_read_is_tail_value _ hinv i k (by rw [hs.1]; exact hi)
    (by rw [hs.1, hs.2]; exact hc)
  rw [hs.1] at this; exact this

/-- CRAQ or not, any overtaking of messages: once the head's puts have landed, every message is
    delivered and every handler has finished, every node holds the head's value for every key. -/
theorem chain_quiescent_convergence (craq : Bool) (n : Nat) (hn : 2 ≤ n) (acts : List Act)
    (hq : Chain.quiescent (Chain.run (Chain.init craq n) acts)) (i : Nat) (hi : i < n) (k : Nat) :
    (Chain.run (Chain.init craq n) acts).store i k = (Chain.run (Chain.init craq n) acts).store 0 k := by
  have hinv := Chain.run_inv _ acts (Chain.init_inv craq n hn)
  have hfr := Chain.fr_run _ acts (Chain.init_inv craq n hn) (Chain.fr_init craq n)
  have hs := Chain.run_static (Chain.init craq n) acts
  exact Chain.quiescent_agree _ hinv hfr hq i (by rw [hs.1]; exact hi) k

/-- non-vacuity: CRAQ chain of 3, two writes of key 0 in flight, the second Propagate overtakes the
    first between nodes 1 and 2; both get acknowledged, every node ends on the newer value, and
    while the second write is uncommitted the key stays dirty at the head (so a read is forwarded). -/
example :
    let s := Chain.run (Chain.init true 3)
      [.cw 0 0 0 1, .rs 0, .rs 0, .cw 1 0 0 2, .rs 1, .rs 1, .dl 0, .rs 2, .rs 2, .dl 1, .rs 3, .rs 3,
       .dl 3, .rs 4, .dl 2, .rs 5, .rs 4, .rs 5]
    s.err = none ∧ s.store 0 0 = some 2 ∧ s.store 1 0 = some 2 ∧ s.store 2 0 = some 2 ∧
      s.dirty 0 0 = true ∧ s.aseq 2 0 = 2 := by decide

/-- non-vacuity of `quiescent`: the same run continued until everything is delivered -/
example :
    Chain.quiescentB (Chain.run (Chain.init false 2)
      [.cw 0 0 0 1, .rs 0, .rs 0, .dl 0, .rs 1, .rs 1, .dl 1, .rs 0]) = true := by decide

/-! ## multi-leader (repaired tree: merge decided at the instant a version is installed) -/

/-- `_install` is `mergeOpt` on the local version of the key -/
theorem ml_install_is_merge (s : ML.St) (i k : Nat) (inc : ML.Version) :
    (ML.install s i k inc).1.vers i k = ML.mergeOpt s.n (s.vers i k) inc := by
  unfold ML.install ML.mergeOpt
  split
  · show upd2 s.vers i k (some inc) i k = some inc
    rw [upd2_apply]; simp
  · rfl

/-- merging is order-, grouping- and duplication-independent: two replicas that have merged the
    same *set* of (coherent) versions of a key, in any orders and multiplicities, hold the same
    version — the greatest one. -/
theorem ml_merge_order_independent (n : Nat) (P : ML.Version → Prop) (hc : ML.Coherent n P)
    (l1 l2 : List ML.Version) (h1 : ∀ v, v ∈ l1 → P v) (hset : ∀ v, v ∈ l1 ↔ v ∈ l2) :
    ML.mergeAll n none l1 = ML.mergeAll n none l2 := by
  have h2 : ∀ v, v ∈ l2 → P v := fun v hv => h1 v ((hset v).mpr hv)
  have m1 := ML.mergeAll_max n P hc l1 h1 [] none (fun _ h => by simp at h) rfl
  have m2 := ML.mergeAll_max n P hc l2 h2 [] none (fun _ h => by simp at h) rfl
  simp only [List.nil_append] at m1 m2
  exact ML.isMax_unique n P hc l1 l2 h1 hset _ _ m1 m2

/-! ### run level

`ML.created s acts` is the list of `(key, version)` pairs stamped by the client writes of the run
(`cw` deliveries at an existing node; the version carries the write value, the simulated clock `now`,
the writer and the writer's ticked vector clock).  The coherence hypothesis is stated on that list, per
key: vector-clock dominance implies the `(timestamp, writer, own counter)` order, and two versions of
one writer with one timestamp are causally ordered or equal.  It is implied by "distinct
`(timestamp, writer)` pairs and causally later ⇒ strictly later timestamp"
(`ml_coherent_of_distinct_stamps`), and it is *derived* from the schedule-level condition "the clock
never goes backwards and a leader stamps a write strictly after the timestamps of the versions it has
received" — positive `Replicate` latency — (`ml_coherent_of_positive_latency`,
giving `ml_quiescent_convergence_positive_latency` with no hypothesis on the versions); it cannot be
dropped (`ml_convergence_needs_coherence`).

The invariant behind the theorems (`ML.InvC`, preserved by every action: `ML.step_inv`, `ML.run_inv`):
every version held, carried by a message (`Replicate`, anti-entropy request / response items) or by a
handler is one of the written ones; a replica's store is the value of its version; and for every write
handler past its first segment every replica `i` is *covered* — its version of the key is already
`≥` the written one in the total order, or the `Replicate` to `i` is still undelivered, or the
`_handle_replicate` process at `i` has not finished.  `_install` is `mergeOpt`, which under coherence
only moves a replica's version up (`ML.ge_merge`), so "covered" survives every other install, in any
order and with any duplication (anti-entropy re-delivers versions arbitrarily often). -/

/-- At quiescence every replica holds, for every key, the **greatest written version**: its version
    is one of the written ones and no written version of that key is above it; a replica has no
    version of a key only if no version of that key was written.  Every action list. -/
theorem ml_quiescent_holds_max (n nk : Nat) (acts : List Act)
    (hcoh : ∀ k, ML.Coherent n (fun v => (k, v) ∈ ML.created (ML.init n nk) acts))
    (hq : ML.quiescentB (ML.run (ML.init n nk) acts) = true) (i : Nat) (hi : i < n) (k : Nat) :
    (∀ v, ML.WrittenC (ML.run (ML.init n nk) acts).core k v →
      ∃ u, (ML.run (ML.init n nk) acts).vers i k = some u ∧ ¬ ML.vlt u v) ∧
    (∀ u, (ML.run (ML.init n nk) acts).vers i k = some u → ML.WrittenC (ML.run (ML.init n nk) acts).core k u) := by
  have hinv : ML.Inv (fun k v => (k, v) ∈ ML.created (ML.init n nk) acts) (ML.run (ML.init n nk) acts) :=
    ML.run_inv acts (ML.init n nk) hcoh (ML.init_inv n nk) (fun _ h => h)
  have hn : (ML.run (ML.init n nk) acts).n = n := ML.run_n _ _
  exact ⟨fun v hv => ML.quiescent_ge _ hinv hq k v hv i (by rw [hn]; exact hi), fun u hu => hinv.versW i k u hu⟩

/-- **Multi-leader quiescent convergence, run level.**  For every action list — client writes and
    reads at any leaders, clock readings, anti-entropy ticks between any pairs, `Replicate` and
    anti-entropy messages delivered in any order, handlers resumed in any order — whose written versions
    are coherent: once every message is delivered and every handler has finished, all replicas hold the
    same version and the same value for every key. -/
theorem ml_quiescent_convergence (n nk : Nat) (acts : List Act)
    (hcoh : ∀ k, ML.Coherent n (fun v => (k, v) ∈ ML.created (ML.init n nk) acts))
    (hq : ML.quiescentB (ML.run (ML.init n nk) acts) = true) (i j k : Nat) (hi : i < n) (hj : j < n) :
    (ML.run (ML.init n nk) acts).vers i k = (ML.run (ML.init n nk) acts).vers j k ∧
    (ML.run (ML.init n nk) acts).store i k = (ML.run (ML.init n nk) acts).store j k := by
  have hinv : ML.Inv (fun k v => (k, v) ∈ ML.created (ML.init n nk) acts) (ML.run (ML.init n nk) acts) :=
    ML.run_inv acts (ML.init n nk) hcoh (ML.init_inv n nk) (fun _ h => h)
  have hn : (ML.run (ML.init n nk) acts).n = n := ML.run_n _ _
  exact ML.quiescent_agree _ (by rw [hn]; exact hcoh) hinv hq i j k (by rw [hn]; exact hi) (by rw [hn]; exact hj)

/-- the coherence hypothesis in its plain reading: no two written versions of a key share a
    `(timestamp, writer)` pair, and a causally later version carries a strictly later timestamp
    (positive message latency, non-decreasing clock) -/
theorem ml_coherent_of_distinct_stamps (n : Nat) (P : ML.Version → Prop)
    (hd : ∀ a b, P a → P b → a.ts = b.ts → a.writer = b.writer → a = b)
    (hl : ∀ a b, P a → P b → ML.dominates n b.vc a.vc = true → a.ts < b.ts) : ML.Coherent n P :=
  ⟨fun a b ha hb h => Or.inl (hl a b ha hb h), fun a b ha hb e1 e2 => Or.inl (hd a b ha hb e1 e2)⟩

/-- **Coherence from positive latency.**  If the clock readings of the run never decrease and every
    client write at a leader `i` is stamped strictly after the timestamps of all versions delivered to
    `i` in `Replicate` messages before it (`ML.schedOK`, starting from "nothing heard"; this is what a
    network latency ≥ 1 ns gives: the write happens no earlier than those deliveries, each strictly
    after its version was stamped), the written versions are coherent — for every action list.
    (Anti-entropy messages are unconstrained: they do not merge vector clocks.) -/
theorem ml_coherent_of_positive_latency (n nk : Nat) (acts : List Act)
    (hs : ML.schedOK (ML.init n nk) (fun _ => 0) acts = true) (k : Nat) :
    ML.Coherent n (fun v => (k, v) ∈ ML.created (ML.init n nk) acts) := by
  obtain ⟨hb', h⟩ := (ML.run_sched acts (ML.init n nk) [] _ (ML.init_inv n nk) (ML.cinv_init n 0) hs).2
  have hn : (ML.run (ML.init n nk) acts).n = n := ML.run_n _ _
  rw [hn, List.nil_append] at h
  exact ML.coherent_of_map n _ (ML.cinv_coherent h) k

/-- **Multi-leader quiescent convergence under positive latency** — no hypothesis on the versions:
    for every action list whose clock never goes backwards and whose `Replicate` messages take
    positive time, in any delivery order and with any anti-entropy traffic, at quiescence all replicas
    hold the same version and the same value for every key. -/
theorem ml_quiescent_convergence_positive_latency (n nk : Nat) (acts : List Act)
    (hs : ML.schedOK (ML.init n nk) (fun _ => 0) acts = true)
    (hq : ML.quiescentB (ML.run (ML.init n nk) acts) = true) (i j k : Nat) (hi : i < n) (hj : j < n) :
    (ML.run (ML.init n nk) acts).vers i k = (ML.run (ML.init n nk) acts).vers j k ∧
    (ML.run (ML.init n nk) acts).store i k = (ML.run (ML.init n nk) acts).store j k :=
  ml_quiescent_convergence n nk acts (ml_coherent_of_positive_latency n nk acts hs) hq i j k hi hj

/-- two leaders, key 0: `7` written at leader 0 (t = 10) and `8` at leader 1 (t = 12) concurrently;
    leader 0 receives `8`, then writes `9` (t = 25, causally after both); leader 1 receives the
    `Replicate` of `9` *before* the one of `7`; an anti-entropy round 1 → 0 re-delivers `9`. -/
def mlWitness : List Act :=
  [.tick 10, .cw 0 0 0 7, .tick 12, .cw 1 1 0 8, .rs 0, .rs 1, .tick 20, .dl 1, .rs 2, .tick 25, .cw 2 0 0 9, .rs 3,
   .tick 30, .dl 2, .rs 4, .dl 0, .rs 0, .rs 1, .rs 3, .ae 1 0, .rs 6, .dl 3]

/-- non-vacuity: the run is accepted, quiescent, its three written versions are coherent (checked by
    the executable `coherentB`, sound by `ML.coherentB_sound`), and both replicas end on `9` -/
example :
    ML.quiescentB (ML.run (ML.init 2 1) mlWitness) = true ∧ (ML.run (ML.init 2 1) mlWitness).err = none ∧
    (ML.created (ML.init 2 1) mlWitness).map (fun kv => (kv.1, kv.2.val, kv.2.ts, kv.2.writer)) =
      [(0, 7, 10, 0), (0, 8, 12, 1), (0, 9, 25, 0)] ∧
    ML.coherentB 2 ((ML.created (ML.init 2 1) mlWitness).map (·.2)) = true ∧
    (ML.run (ML.init 2 1) mlWitness).store 0 0 = some 9 ∧ (ML.run (ML.init 2 1) mlWitness).store 1 0 = some 9 := by
  decide

example : ∀ k, ML.Coherent 2 (fun v => (k, v) ∈ ML.created (ML.init 2 1) mlWitness) :=
  ML.coherentB_sound 2 _ (by decide)

/-- … and the schedule condition holds of it (ticks 10 ≤ 12 ≤ 20 ≤ 25 ≤ 30; leader 0 writes `9` at 25
    after having received the version stamped 12), while the incoherent run below violates it -/
example : ML.schedOK (ML.init 2 1) (fun _ => 0) mlWitness = true := by decide

/-- three leaders, the clock read backwards (10, then 5, then 7): `1` at leader 0 (t = 10), `2` at
    leader 1 (t = 5) after it has received `1`, `3` at leader 2 (t = 7) concurrently.  Dominance puts
    `1 < 2`, last-writer-wins puts `2 < 3 < 1`: a cycle. -/
def mlIncoherentWitness : List Act :=
  [.tick 10, .cw 0 0 0 1, .rs 0, .dl 0, .rs 1, .tick 5, .cw 1 1 0 2, .rs 2, .tick 7, .cw 2 2 0 3, .rs 3,
   .dl 2, .rs 4, .dl 4, .rs 5, .dl 1, .rs 6, .dl 3, .rs 7, .dl 5, .rs 8, .rs 0, .rs 2, .rs 3]

/-- the coherence hypothesis cannot be dropped: without it (timestamps that do not follow causality)
    a quiescent run leaves leaders 0 and 1 on `3` and leader 2 on `2`.  This refutes the statement
    that was carried as `ml_quiescent_convergence_full` (quiescence alone ⇒ agreement). -/
theorem ml_convergence_needs_coherence :
    ¬ (∀ (n nk : Nat), 2 ≤ n → ∀ (acts : List Act),
        ML.quiescentB (ML.run (ML.init n nk) acts) = true →
        ∀ i j k, i < n → j < n →
          (ML.run (ML.init n nk) acts).store i k = (ML.run (ML.init n nk) acts).store j k) := by
  intro h
  have h1 := h 3 1 (by decide) mlIncoherentWitness (by decide) 0 2 0 (by decide) (by decide)
  revert h1
  decide

example : (ML.run (ML.init 3 1) mlIncoherentWitness).err = none ∧
    ML.coherentB 3 ((ML.created (ML.init 3 1) mlIncoherentWitness).map (·.2)) = false ∧
    ML.schedOK (ML.init 3 1) (fun _ => 0) mlIncoherentWitness = false := by decide

/-- non-vacuity of `Coherent`: three versions of one key — a, b concurrent, c causally after a —
    satisfy it, and both merge orders give c. -/
example :
    let a : ML.Version := ⟨1, 10, 0, [1, 0]⟩
    let b : ML.Version := ⟨2, 12, 1, [0, 1]⟩
    let c : ML.Version := ⟨3, 15, 1, [1, 3]⟩
    (∀ x ∈ [a, b, c], ∀ y ∈ [a, b, c], ML.dominates 2 y.vc x.vc = true → ML.vlt x y) ∧
    ML.mergeAll 2 none [a, b, c] = some c ∧ ML.mergeAll 2 none [c, b, a, b] = some c := by decide

end HappyModel.C17
