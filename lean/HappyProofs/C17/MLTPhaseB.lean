import HappyProofs.C17.MLTPhaseA
/-!
Anti-entropy phase on a topology, part B: the shape of what an anti-entropy merge loop, a delivery and
a resumption do to the state (`AeShape`, `DlShape`, `RsShape`), and which steps change versions.
-/
namespace HappyModel.C17.MLT
open HappyModel.C17.ML (Version Msg Proc MKind PKind vcGet dominates vcMerge vcTick Coherent vlt)
open HappyModel.C17.MLM (GK KComplete)

theorem takesR_lww_ph (s : St) (hl : s.lww = true) (e : Option Version) (v : Version) :
    takesR s e v = ML.takes s.n e v := by
  simp [takesR, hl]

theorem install_vers_lww (s : St) (hl : s.lww = true) (i k : Nat) (v : Version) (i' k' : Nat) :
    (install s i k v).1.vers i' k' =
      if (i' = i ∧ k' = k) ∧ ML.takes s.n (s.vers i k) v = true then some v else s.vers i' k' := by
  unfold install
  rw [takesR_lww_ph s hl]
  by_cases ht : ML.takes s.n (s.vers i k) v = true
  · rw [if_pos ht]
    show upd2 s.vers i k (some (pickR s (s.vers i k) v)) i' k' = _
    rw [upd2_apply]
    have : pickR s (s.vers i k) v = v := by simp [pickR, hl]
    rw [this]
    by_cases e : i' = i ∧ k' = k
    · rw [if_pos e, if_pos ⟨e, ht⟩]
    · rw [if_neg e, if_neg (fun c => e c.1)]
  · rw [if_neg ht, if_neg (fun c => ht c.2)]

theorem install_frame_ph (s : St) (i k : Nat) (v : Version) :
    (install s i k v).1.n = s.n ∧ (install s i k v).1.lww = s.lww ∧ (install s i k v).1.nm = s.nm ∧
    (install s i k v).1.np = s.np ∧ (install s i k v).1.msgs = s.msgs ∧ (install s i k v).1.procs = s.procs := by
  unfold install; split <;> exact ⟨rfl, rfl, rfl, rfl, rfl, rfl⟩

theorem aeLoop_fst_ph (s : St) (i : Nat) : ∀ items, (aeLoop s i items).1 = s
  | [] => rfl
  | (k, v) :: rest => by
    unfold aeLoop; split
    · rfl
    · exact aeLoop_fst_ph s i rest

theorem aeLoop_snd_sub_ph (s : St) (i : Nat) : ∀ items kv, kv ∈ (aeLoop s i items).2 → kv ∈ items
  | [], kv, h => by simp [aeLoop] at h
  | (k, v) :: rest, kv, h => by
    unfold aeLoop at h; split at h
    · exact h
    · exact List.mem_cons_of_mem _ (aeLoop_snd_sub_ph s i rest kv h)

theorem aeLoop_skipped (s : St) (i : Nat) : ∀ items kv, kv ∈ items →
    kv ∈ (aeLoop s i items).2 ∨ takesR s (s.vers i kv.1) kv.2 = false
  | [], kv, h => by cases h
  | (k, v) :: rest, kv, h => by
    unfold aeLoop; split
    · left; exact h
    · rename_i ht
      rcases List.mem_cons.mp h with e | e
      · right; subst e; simpa using ht
      · exact aeLoop_skipped s i rest kv e

/-- what `aeContinue s pid p items` does: handler `pid` becomes `p'`; nothing is installed -/
structure AeShape (s : St) (pid : Nat) (p : Proc) (items : List (Nat × Version)) (p' : Proc) (s' : St) :
    Prop where
  procs : s'.procs = upd s.procs pid (some p')
  vers : s'.vers = s.vers
  n : s'.n = s.n
  np : s'.np = s.np
  kind : p'.kind = p.kind
  node : p'.node = p.node
  src : p'.src = p.src
  op : p'.op = p.op
  sub : ∀ kv, kv ∈ p'.items → kv ∈ items
  skip : ∀ kv, kv ∈ items → kv ∈ p'.items ∨ takesR s (s.vers p.node kv.1) kv.2 = false
  keep : p'.items ≠ [] → p'.fin = p.fin ∧ p'.sent = p.sent
  msgs : (s'.msgs = s.msgs ∧ s'.nm = s.nm) ∨
    (p.kind = .aereq ∧ p'.fin = p.fin ∧ s'.nm = s.nm + 1 ∧ ∃ m', s'.msgs = upd s.msgs s.nm (some m') ∧
      m'.kind = .aeresp ∧ m'.src = p.node ∧ m'.dst = p.src ∧ m'.delivered = false)

theorem aeContinue_shape_ph (s : St) (pid : Nat) (p : Proc) (items : List (Nat × Version)) :
    ∃ p', AeShape s pid p items p' (aeContinue s pid p items) := by
  unfold aeContinue
  have e1 := aeLoop_fst_ph s p.node items
  have e2 := aeLoop_snd_sub_ph s p.node items
  have e3 := aeLoop_skipped s p.node items
  rcases hl : aeLoop s p.node items with ⟨s1, left⟩
  rw [hl] at e1 e2 e3
  simp only at e1 e2 e3 ⊢
  subst e1
  cases left with
  | cons x xs =>
    simp only
    exact ⟨{ p with items := x :: xs, waiting := true },
      { procs := rfl, vers := rfl, n := rfl, np := rfl, kind := rfl,
        node := rfl, src := rfl, op := rfl, sub := e2, skip := e3,
        keep := fun _ => ⟨rfl, rfl⟩, msgs := Or.inl ⟨rfl, rfl⟩ }⟩
  | nil =>
    simp only
    split
    · rename_i hc
      exact ⟨{ p with items := [], waiting := false, sent := true },
        { procs := rfl, vers := rfl, n := rfl, np := rfl, kind := rfl,
          node := rfl, src := rfl, op := rfl, sub := e2, skip := e3, keep := fun h => absurd rfl h,
          msgs := Or.inr ⟨hc.1, rfl, rfl, _, rfl, rfl, rfl, rfl, rfl⟩ }⟩
    · exact ⟨{ p with items := [], waiting := false, fin := true },
        { procs := rfl, vers := rfl, n := rfl, np := rfl, kind := rfl,
          node := rfl, src := rfl, op := rfl, sub := e2, skip := e3, keep := fun h => absurd rfl h, msgs := Or.inl ⟨rfl, rfl⟩ }⟩

inductive DlShape (s : St) (mid : Nat) (s' : St) : Prop
  | fail (e : String) (h : s' = s.fail e)
  | repl (m : Msg) (h0 : s.msgs mid = some m) (hk : m.kind = .repl)
  | ae (m : Msg) (p p' : Proc) (h0 : s.msgs mid = some m) (hd : m.delivered = false)
      (hk : m.kind = .aereq ∨ m.kind = .aeresp) (hpk : p.kind = .aereq ↔ m.kind = .aereq)
      (hpk2 : p.kind = .aereq ∨ p.kind = .aeresp)
      (hnode : p.node = m.dst) (hsrc : p.src = m.src) (hop : p.op = mid) (hfin : p.fin = false)
      (hsent : p.sent = false)
      (sh : AeShape (({ s with msgs := upd s.msgs mid (some { m with delivered := true }) } : St).spawn p)
        s.np p m.items p' s')

theorem deliver_shape (s : St) (mid : Nat) : DlShape s mid (deliver s mid) := by
  unfold deliver
  cases h0 : s.msgs mid with
  | none => exact .fail _ rfl
  | some m =>
    simp only
    by_cases hd : m.delivered = true
    · simp only [hd, if_true]; exact .fail _ rfl
    · have hd' : m.delivered = false := by simpa using hd
      simp only [hd', Bool.false_eq_true, if_false]
      cases hk : m.kind with
      | repl => exact .repl m h0 hk
      | aereq =>
        simp only
        obtain ⟨p', sh⟩ := aeContinue_shape_ph
          (({ s with msgs := upd s.msgs mid (some { m with kind := .aereq, delivered := true }) } : St).spawn
            { kind := .aereq, node := m.dst, src := m.src, hash := m.hash, op := mid })
          s.np { kind := .aereq, node := m.dst, src := m.src, hash := m.hash, op := mid } m.items
        have em : ({ m with kind := .aereq, delivered := true } : Msg) = { m with delivered := true } := by
          rw [← hk]
        rw [em] at sh ⊢
        exact .ae m _ p' h0 hd' (Or.inl hk) ⟨fun _ => hk, fun _ => rfl⟩ (Or.inl rfl) rfl rfl rfl rfl rfl sh
      | aeresp =>
        simp only
        obtain ⟨p', sh⟩ := aeContinue_shape_ph
          (({ s with msgs := upd s.msgs mid (some { m with kind := .aeresp, delivered := true }) } : St).spawn
            { kind := .aeresp, node := m.dst, src := m.src, op := mid })
          s.np { kind := .aeresp, node := m.dst, src := m.src, op := mid } m.items
        have em : ({ m with kind := .aeresp, delivered := true } : Msg) = { m with delivered := true } := by
          rw [← hk]
        rw [em] at sh ⊢
        exact .ae m _ p' h0 hd' (Or.inr hk) ⟨fun e => (by cases e), fun e => (by rw [hk] at e; cases e)⟩
          (Or.inr rfl) rfl rfl rfl rfl rfl sh

inductive RsShape (s : St) (pid : Nat) (s' : St) : Prop
  | fail (e : String) (h : s' = s.fail e)
  | wr (p0 : Proc) (h0 : s.procs pid = some p0) (hk : p0.kind = .write ∨ p0.kind = .repl)
  | other (p0 p' : Proc) (h0 : s.procs pid = some p0) (hf : p0.fin = false)
      (hk : p0.kind = .read ∨ p0.kind = .ae) (hk' : p'.kind = p0.kind)
      (hv : s'.vers = s.vers) (hm : s'.msgs = s.msgs) (hp : s'.procs = upd s.procs pid (some p'))
  | sent (p0 : Proc) (h0 : s.procs pid = some p0) (hf : p0.fin = false)
      (hk : p0.kind = .aereq ∨ p0.kind = .aeresp) (hs : p0.sent = true)
      (h : s' = s.setProc pid { p0 with seg := p0.seg + 1, fin := true })
  | wait (p0 p' : Proc) (k : Nat) (v : Version) (rest : List (Nat × Version))
      (h0 : s.procs pid = some p0) (hf : p0.fin = false)
      (hk : p0.kind = .aereq ∨ p0.kind = .aeresp) (hs : p0.sent = false) (hit : p0.items = (k, v) :: rest)
      (sh : AeShape (install s p0.node k v).1 pid { p0 with seg := p0.seg + 1 } rest p' s')

/-- the anti-entropy branch of `resume` -/
theorem resume_ae_shape (s : St) (pid : Nat) (p0 : Proc) (h0 : s.procs pid = some p0) (hf : p0.fin = false)
    (hk : p0.kind = .aereq ∨ p0.kind = .aeresp) :
    RsShape s pid (if ({ p0 with seg := p0.seg + 1 } : Proc).sent then
        s.setProc pid { ({ p0 with seg := p0.seg + 1 } : Proc) with fin := true }
      else match ({ p0 with seg := p0.seg + 1 } : Proc).items with
        | (k, v) :: rest =>
          if ({ p0 with seg := p0.seg + 1 } : Proc).waiting then
            aeContinue (install s ({ p0 with seg := p0.seg + 1 } : Proc).node k v).1 pid { p0 with seg := p0.seg + 1 } rest
          else s.fail "not-waiting"
        | [] => s.fail "not-waiting") := by
  split
  · rename_i hs
    exact .sent p0 h0 hf hk hs rfl
  · rename_i hs
    have hs' : p0.sent = false := by simpa using hs
    split
    · rename_i k v rest hit
      split
      · obtain ⟨p', sh⟩ := aeContinue_shape_ph (install s p0.node k v).1 pid { p0 with seg := p0.seg + 1 } rest
        exact .wait p0 p' k v rest h0 hf hk hs' hit sh
      · exact .fail _ rfl
    · exact .fail _ rfl

theorem resume_shape (s : St) (pid : Nat) : RsShape s pid (resume s pid) := by
  unfold resume
  cases h0 : s.procs pid with
  | none => exact .fail _ rfl
  | some p0 =>
    simp only
    by_cases hf : p0.fin = true
    · simp only [hf, if_true]; exact .fail _ rfl
    · have hf' : p0.fin = false := by simpa using hf
      simp only [hf', Bool.false_eq_true, if_false]
      cases hk : p0.kind with
      | write => exact .wr p0 h0 (Or.inl hk)
      | repl => exact .wr p0 h0 (Or.inr hk)
      | read =>
        simp only
        exact .other p0 _ h0 hf' (Or.inl hk) hk.symm rfl rfl rfl
      | ae =>
        simp only
        exact .other p0 _ h0 hf' (Or.inr hk) hk.symm rfl rfl rfl
      | aereq =>
        simp only
        have := resume_ae_shape s pid { p0 with kind := .aereq, fin := false } (by
          rw [h0]; congr 1; cases p0; simp_all) rfl (Or.inl rfl)
        exact this
      | aeresp =>
        simp only
        have := resume_ae_shape s pid { p0 with kind := .aeresp, fin := false } (by
          rw [h0]; congr 1; cases p0; simp_all) rfl (Or.inr rfl)
        exact this
      | other => simp only; exact .fail _ rfl

/-- a step of the phase either leaves the versions alone or is the `_install` of the head item of an
anti-entropy handler -/
def VersChange (s s' : St) : Prop :=
  s'.vers = s.vers ∨ ∃ pid p0 k v rest, s.procs pid = some p0 ∧ (p0.kind = .aereq ∨ p0.kind = .aeresp) ∧
    p0.items = (k, v) :: rest ∧ s'.vers = (install s p0.node k v).1.vers

theorem step_versChange (s : St) (a : Act) (hw : isWR s a = false) : VersChange s (step s a) := by
  cases a with
  | tick t => exact Or.inl rfl
  | cw op node k v => simp [isWR] at hw
  | cr op node k =>
    simp only [step]; split <;> exact Or.inl rfl
  | ae node peer =>
    simp only [step]; split <;> exact Or.inl rfl
  | dl mid =>
    show VersChange s (deliver s mid)
    cases deliver_shape s mid with
    | fail e h => rw [h]; exact Or.inl rfl
    | repl m h0 hk => simp [isWR, h0, hk] at hw
    | ae m p p' h0 hd hk hpk hpk2 hnode hsrc hop hfin hsent sh => exact Or.inl sh.vers
  | rs pid =>
    show VersChange s (resume s pid)
    cases resume_shape s pid with
    | fail e h => rw [h]; exact Or.inl rfl
    | wr p0 h0 hk => simp [isWR, h0, hk] at hw
    | other p0 p' h0 hf hk hk' hv hm hp => exact Or.inl hv
    | sent p0 h0 hf hk hs h => rw [h]; exact Or.inl rfl
    | wait p0 p' k v rest h0 hf hk hs hit sh =>
      exact Or.inr ⟨pid, p0, k, v, rest, h0, hk, hit, sh.vers⟩

end HappyModel.C17.MLT
