import HappyModel.C17.MLM
/-!
Multi-leader with a merging resolver: the vector-clock arithmetic behind the run-level invariant.
`pick` (what `_install` stores) has, on every component below `n`, the maximum of the two clocks, so
installing anything only moves a replica's clock up (`Ge` is stable), and a refused version is
already dominated.  No coherence hypothesis is needed: the order is the pointwise clock order.
-/
namespace HappyModel.C17.MLM
open HappyModel.C17.ML (Version Msg Proc MKind PKind vcGet dominates vcMerge vcTick)

theorem vcGet_map_range (n : Nat) (f : Nat → Nat) (c : Nat) (h : c < n) :
    vcGet ((List.range n).map f) c = f c := by
  unfold vcGet
  simp [List.getD_eq_getElem?_getD, h]

theorem vcGet_vcMerge_lt (n : Nat) (a b : List Nat) (c : Nat) (h : c < n) :
    vcGet (vcMerge n a b) c = max (vcGet a c) (vcGet b c) := by
  unfold vcMerge
  exact vcGet_map_range n _ c h

theorem dominates_le_all {n : Nat} {a b : List Nat} (h : dominates n a b = true) (c : Nat) (hc : c < n) :
    vcGet b c ≤ vcGet a c := by
  unfold dominates at h
  simp only [Bool.and_eq_true, List.all_eq_true, List.mem_range, decide_eq_true_eq] at h
  exact h.1 c hc

/-- the stored winner carries the pointwise maximum of the two clocks -/
theorem vcGet_pick (n : Nat) (jn : Join) (e inc : Version) (c : Nat) (hc : c < n) :
    vcGet (pick n jn (some e) inc).vc c = max (vcGet e.vc c) (vcGet inc.vc c) := by
  unfold pick
  simp only
  split
  · rename_i h
    have := dominates_le_all h c hc
    omega
  · split
    · rename_i h
      have := dominates_le_all h c hc
      omega
    · show vcGet (vcMerge n e.vc inc.vc) c = _
      exact vcGet_vcMerge_lt n _ _ c hc

/-- what `_install` does to the local version of a key -/
def installOpt (n : Nat) (jn : Join) (cur : Option Version) (inc : Version) : Option Version :=
  if takes n cur inc then some (pick n jn cur inc) else cur

/-- the replica's clock is pointwise at or above `v`'s -/
def Ge (n : Nat) (cur : Option Version) (v : Version) : Prop :=
  ∃ u, cur = some u ∧ ∀ c, c < n → vcGet v.vc c ≤ vcGet u.vc c

theorem ge_merge {n : Nat} {jn : Join} {cur : Option Version} {inc v : Version} (hg : Ge n cur v) :
    Ge n (installOpt n jn cur inc) v := by
  obtain ⟨u, hu, hle⟩ := hg
  subst hu
  unfold installOpt
  split
  · refine ⟨_, rfl, fun c hc => ?_⟩
    rw [vcGet_pick n jn u inc c hc]
    have := hle c hc
    omega
  · exact ⟨u, rfl, hle⟩

/-- a refused version is already covered -/
theorem ge_of_not_takes {n : Nat} {cur : Option Version} {inc : Version} (ht : takes n cur inc = false) :
    Ge n cur inc := by
  cases cur with
  | none => simp [takes] at ht
  | some u =>
    simp only [takes, Bool.or_eq_false_iff, Bool.not_eq_false'] at ht
    exact ⟨u, rfl, fun c hc => dominates_le_all ht.2 c hc⟩

theorem ge_merge_self {n : Nat} {jn : Join} {cur : Option Version} {inc : Version} :
    Ge n (installOpt n jn cur inc) inc := by
  unfold installOpt
  by_cases ht : takes n cur inc = true
  · rw [if_pos ht]
    cases cur with
    | none => exact ⟨inc, rfl, fun _ _ => Nat.le_refl _⟩
    | some u =>
      refine ⟨_, rfl, fun c hc => ?_⟩
      rw [vcGet_pick n jn u inc c hc]
      omega
  · rw [if_neg ht]
    exact ge_of_not_takes (by simpa using ht)

end HappyModel.C17.MLM
