import HappyProofs.C17.MLMPhaseB
/-!
Run-level composition, part C: `AuxInv` is preserved by every step, hence holds after every run
from the initial state.
-/
namespace HappyModel.C17.MLM
open HappyModel.C17.ML (Version Msg Proc MKind PKind vcGet dominates vcMerge vcTick)

theorem aux_aeContinue (s : St) (pid : Nat) (p : Proc) (items : List (Nat × Version)) (h : AuxInv s)
    (hn : (p.kind = .aereq ∨ p.kind = .aeresp) → p.node < s.n ∧ p.src < s.n)
    (hsrc : p.kind = .aereq → p.node < s.n ∧ p.src < s.n)
    (ho : p.kind = .aereq → p.op < s.nm) : AuxInv (aeContinue s pid p items) := by
  obtain ⟨p', sh⟩ := aeContinue_shape s pid p items
  unfold AuxInv
  rw [sh.n, sh.procs, sh.vers, sh.order]
  have hn' : (p'.kind = .aereq ∨ p'.kind = .aeresp) → p'.node < s.n ∧ p'.src < s.n := by
    rw [sh.kind, sh.node, sh.src]; exact hn
  have ho' : p'.kind = .aereq → p'.op < s.nm := by
    rw [sh.kind, sh.op]; exact ho
  rcases sh.msgs with ⟨e1, e2⟩ | ⟨hk, _, e2, m', e1, m1, m2, m3, _⟩
  · rw [e1, e2]
    exact aux_proc h pid p' hn' ho'
  · rw [e1, e2]
    refine aux_proc (aux_nm (aux_msg h s.nm m' ?_)) pid p' hn' (fun hk' => Nat.lt_succ_of_lt (ho' hk'))
    intro _
    rw [m2, m3]
    have := hsrc hk
    exact ⟨this.1, this.2⟩

theorem aux_foldl_send (mk : Nat → Msg) (hmk : ∀ j, (mk j).kind = .repl) :
    ∀ (l : List Nat) (s : St), AuxInv s → AuxInv (l.foldl (fun s j => s.send (mk j)) s)
  | [], _, h => h
  | j :: l, s, h => by
    simp only [List.foldl_cons]
    refine aux_foldl_send mk hmk l _ (aux_send h (mk j) ?_)
    intro e; rw [hmk j] at e; rcases e with e | e <;> cases e

/-- the anti-entropy branch of `resume` -/
theorem resume_ae_aux (s : St) (pid : Nat) (p0 p : Proc) (h : AuxInv s) (h0 : s.procs pid = some p0)
    (hk : p.kind = p0.kind) (hnode : p.node = p0.node) (hsrc : p.src = p0.src) (hop : p.op = p0.op)
    (hae : p.kind = .aereq ∨ p.kind = .aeresp) :
    AuxInv (if p.sent then s.setProc pid { p with fin := true }
      else match p.items with
        | (k, v) :: rest =>
          if p.waiting then aeContinue (install s p.node k v).1 pid p rest
          else s.fail "not-waiting"
        | [] => s.fail "not-waiting") := by
  have hN : p.node < s.n ∧ p.src < s.n := by
    rw [hnode, hsrc]; exact h.procN pid p0 h0 (by rw [← hk]; exact hae)
  have hO : p.kind = .aereq → p.op < s.nm := by
    intro e; rw [hop]; exact h.opLt pid p0 h0 (by rw [← hk]; exact e)
  split
  · exact aux_proc h pid _ (fun _ => hN) hO
  · split
    · rename_i k v rest hit
      split
      · obtain ⟨f1, _, f3, _, _, _, _⟩ := install_frame s p.node k v
        exact aux_aeContinue _ pid p rest (aux_install h p.node k v) (fun _ => by rw [f1]; exact hN)
          (fun _ => by rw [f1]; exact hN) (fun e => by rw [f3]; exact hO e)
      · exact h
    · exact h

theorem resume_aux (s : St) (pid : Nat) (h : AuxInv s) : AuxInv (resume s pid) := by
  unfold resume
  cases h0 : s.procs pid with
  | none => exact h
  | some p0 =>
    simp only
    by_cases hf : p0.fin = true
    · simp only [hf, if_true]; exact h
    · have hf' : p0.fin = false := by simpa using hf
      simp only [hf', Bool.false_eq_true, if_false]
      cases hk : p0.kind with
      | write =>
        simp only
        by_cases hs : p0.seg = 1
        · simp only [hs, if_true]
          have h2 := aux_foldl_send
            (fun j => ({ kind := .repl, src := p0.node, dst := j, key := p0.key, ver := p0.ver } : Msg))
            (fun _ => rfl) (peersOf s p0.node) _ (aux_install h p0.node p0.key p0.ver)
          exact aux_proc h2 pid _ (fun e => by rcases e with e | e <;> cases e) (fun e => by cases e)
        · simp only [hs, if_false]
          exact aux_proc h pid _ (fun e => by rcases e with e | e <;> cases e) (fun e => by cases e)
      | repl =>
        simp only
        exact aux_proc (aux_install h p0.node p0.key p0.ver) pid _
          (fun e => by rcases e with e | e <;> cases e) (fun e => by cases e)
      | read =>
        simp only
        exact aux_proc h pid _ (fun e => by rcases e with e | e <;> cases e) (fun e => by cases e)
      | ae =>
        simp only
        exact aux_proc h pid _ (fun e => by rcases e with e | e <;> cases e) (fun e => by cases e)
      | aereq =>
        simp only
        exact resume_ae_aux s pid p0 { p0 with kind := .aereq, seg := p0.seg + 1, fin := false } h h0
          hk.symm rfl rfl rfl (Or.inl rfl)
      | aeresp =>
        simp only
        exact resume_ae_aux s pid p0 { p0 with kind := .aeresp, seg := p0.seg + 1, fin := false } h h0
          hk.symm rfl rfl rfl (Or.inr rfl)
      | other => simp only; exact h

theorem deliver_aux (s : St) (mid : Nat) (h : AuxInv s) (hi : Inv s) : AuxInv (deliver s mid) := by
  unfold deliver
  cases h0 : s.msgs mid with
  | none => exact h
  | some m =>
    simp only
    by_cases hd : m.delivered = true
    · simp only [hd, if_true]; exact h
    · have hd' : m.delivered = false := by simpa using hd
      simp only [hd', Bool.false_eq_true, if_false]
      have hlt : mid < s.nm := by
        rcases Nat.lt_or_ge mid s.nm with x | x
        · exact x
        · have : s.msgs mid = none := hi.freshM mid x
          rw [h0] at this; cases this
      have h1 : ∀ kd, kd = m.kind →
          AuxC s.n s.nm (upd s.msgs mid (some { m with kind := kd, delivered := true })) s.procs s.vers s.order :=
        fun kd e => aux_msg h mid _ (fun hk => h.msgN mid m h0 (by rw [← e]; exact hk))
      cases hk : m.kind with
      | repl =>
        simp only
        split
        · exact aux_proc (h1 .repl hk.symm) s.np _ (fun e => by rcases e with e | e <;> cases e)
            (fun e => by cases e)
        · exact aux_proc (h1 .repl hk.symm) s.np _ (fun e => by rcases e with e | e <;> cases e)
            (fun e => by cases e)
      | aereq =>
        simp only
        have hN := h.msgN mid m h0 (Or.inl hk)
        have h2 : AuxInv (({ s with msgs := upd s.msgs mid (some { m with kind := .aereq, delivered := true }) } : St).spawn
            { kind := .aereq, node := m.dst, src := m.src, hash := m.hash, op := mid }) :=
          aux_proc (h1 .aereq hk.symm) s.np _ (fun _ => ⟨hN.2, hN.1⟩) (fun _ => hlt)
        exact aux_aeContinue _ _ _ m.items h2 (fun _ => ⟨hN.2, hN.1⟩) (fun _ => ⟨hN.2, hN.1⟩) (fun _ => hlt)
      | aeresp =>
        simp only
        have hN := h.msgN mid m h0 (Or.inr hk)
        have h2 : AuxInv (({ s with msgs := upd s.msgs mid (some { m with kind := .aeresp, delivered := true }) } : St).spawn
            { kind := .aeresp, node := m.dst, src := m.src, op := mid }) :=
          aux_proc (h1 .aeresp hk.symm) s.np _ (fun _ => ⟨hN.2, hN.1⟩) (fun e => by cases e)
        exact aux_aeContinue _ _ _ m.items h2 (fun _ => ⟨hN.2, hN.1⟩) (fun _ => ⟨hN.2, hN.1⟩) (fun e => by cases e)

theorem step_aux (s : St) (a : Act) (h : AuxInv s) (hi : Inv s) : AuxInv (step s a) := by
  cases a with
  | tick t => exact h
  | cw op node k v =>
    simp only [step]
    split
    · exact h
    · exact aux_proc h s.np _ (fun e => by rcases e with e | e <;> cases e) (fun e => by cases e)
  | cr op node k =>
    simp only [step]
    split
    · exact h
    · exact aux_proc h s.np _ (fun e => by rcases e with e | e <;> cases e) (fun e => by cases e)
  | dl mid => exact deliver_aux s mid h hi
  | rs pid => exact resume_aux s pid h
  | ae node peer =>
    simp only [step]
    split
    · exact h
    · rename_i hc
      have hc' : node < s.n ∧ peer < s.n := by
        constructor
        · rcases Nat.lt_or_ge node s.n with x | x
          · exact x
          · exact absurd (Or.inl x) hc
        · rcases Nat.lt_or_ge peer s.n with x | x
          · exact x
          · exact absurd (Or.inr (Or.inl x)) hc
      have h1 : AuxInv (s.send { kind := .aereq, src := node, dst := peer, items := versionsOf s node, hash := s.store node }) :=
        aux_send h _ (fun _ => hc')
      exact aux_proc h1 s.np _ (fun e => by rcases e with e | e <;> cases e) (fun e => by cases e)

theorem init_aux (n nk : Nat) (jn : Join) : AuxInv (init n nk jn) :=
  ⟨fun _ _ hm => (by cases hm), fun _ _ hp => (by cases hp), fun _ _ hv => (by cases hv),
   fun _ _ hp => (by cases hp)⟩

theorem run_aux_from : ∀ (acts : List Act) (s : St), AuxInv s → Inv s → AuxInv (run s acts)
  | [], _, h, _ => h
  | a :: as, s, h, hi => by
    rw [run]; exact run_aux_from as (step s a) (step_aux s a h hi) (step_inv s a hi)

/-- the auxiliary invariant holds after every run from the initial state -/
theorem run_aux (n nk : Nat) (jn : Join) (acts : List Act) : AuxInv (run (init n nk jn) acts) :=
  run_aux_from acts _ (init_aux n nk jn) (init_inv n nk jn)

end HappyModel.C17.MLM
