import HappyProofs.C17.MLMSub2
import HappyProofs.C17.MLMPhaseK
/-!
Composition: an `MLM` run that is quiescent and whose anti-entropy requests, after the last
client-write / `Replicate` handler step, carry every leader's knowledge to every leader (`KComplete`
of `krun`, the forward form of `Spec.gossipComplete`) ends with all stores equal.

The run is split at its last write/Replicate step (`krun_split`).  Before it: the run invariants
(`run_inv`, `run_aux`, `run_subInv`).  At it: final quiescence and "no write/Replicate step afterwards"
give `replQuiescent` (`replQuiescent_of_run`), hence all leaders carry one clock per key
(`replQuiescent_clocks_agree`).  After it: `phase2_converges` — every install is a pure join, a
request's items are never skipped, knowledge propagates as in `gossip_complete_converges`.
-/
namespace HappyModel.C17.MLM

theorem kcompleteB_iff (n : Nat) (g : GK) : kcompleteB n g = true ↔ KComplete n g := by
  unfold kcompleteB KComplete
  simp only [List.all_eq_true, List.mem_range, List.contains_iff_mem]

theorem run_gossip_complete_converges (n nk : Nat) (jn : Join) (acts : List Act)
    (hq : quiescentB (run (init n nk jn) acts) = true)
    (hk : KComplete n (krun (init n nk jn) GK.reset acts).2) (i j k : Nat) (hi : i < n) (hj : j < n) :
    (run (init n nk jn) acts).store i k = (run (init n nk jn) acts).store j k := by
  obtain ⟨a1, a2, he, hno, hke⟩ := krun_split acts (init n nk jn)
  have hI1 : Inv (run (init n nk jn) a1) := run_inv n nk jn a1
  have hA1 : AuxInv (run (init n nk jn) a1) := run_aux n nk jn a1
  have hS1 : SubInv (run (init n nk jn) a1) := run_subInv n nk jn a1
  have hrun : run (init n nk jn) acts = run (run (init n nk jn) a1) a2 := by rw [he, run_append]
  have hRQf : replQuiescent (run (init n nk jn) acts) :=
    replQuiescent_of_quiescentB _ (run_inv n nk jn acts) hq
  have hRQ1 : replQuiescent (run (init n nk jn) a1) :=
    replQuiescent_of_run a2 _ hno hI1 (by rw [← hrun]; exact hRQf)
  have hn1 : (run (init n nk jn) a1).n = n := run_n _ _
  rw [hrun]
  exact phase2_converges (fun s a h _ => step_subInv s a h)
    (fun s a hw hi' hq' => replQuiescent_step s a hw hi' hq')
    (fun s h hq' k v hg i hi' => replQuiescent_good_le s h hq' k v hg i hi')
    (fun s h hq' i j k hi' hj' => replQuiescent_clocks_agree s h hq' i j k hi' hj')
    _ hI1 hS1 hA1 hRQ1 a2 hno (by rw [hn1, ← hke]; exact hk) i j k (by rw [hn1]; exact hi) (by rw [hn1]; exact hj)

end HappyModel.C17.MLM
