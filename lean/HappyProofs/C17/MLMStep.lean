import HappyProofs.C17.MLMInv
/-! Multi-leader with a merging resolver: resuming a handler preserves `Inv`. -/
namespace HappyModel.C17.MLM
open HappyModel.C17.ML (Version Msg Proc MKind PKind vcGet dominates vcMerge vcTick)

theorem core_spawn (s : St) (p : Proc) : (s.spawn p).core = s.core.spawn p := rfl
theorem core_send (s : St) (m : Msg) : (s.send m).core = s.core.send m := rfl
theorem core_setProc (s : St) (pid : Nat) (p : Proc) : (s.setProc pid p).core = s.core.setProc pid p := rfl
theorem core_fail (s : St) (e : String) : (s.fail e).core = s.core := rfl
theorem core_reply (s : St) (op : Nat) (t : String) : (s.reply op t).core = s.core := rfl

theorem core_install (s : St) (i k : Nat) (inc : Version) :
    (install s i k inc).1.core = s.core.install i k inc := by
  unfold install Core.install
  show (if takes s.n (s.vers i k) inc = true then _ else _ : St × Bool).1.core =
    if takes s.n (s.vers i k) inc = true then _ else _
  split <;> rfl

theorem install_procs (c : Core) (i k : Nat) (inc : Version) : (c.install i k inc).procs = c.procs := by
  unfold Core.install; split <;> rfl
theorem install_n (c : Core) (i k : Nat) (inc : Version) : (c.install i k inc).n = c.n := by
  unfold Core.install; split <;> rfl

theorem written_install {c : Core} (i k : Nat) (inc : Version) {k' v} :
    WrittenC c k' v → WrittenC (c.install i k inc) k' v := by
  unfold WrittenC; rw [install_procs]; exact id

theorem good_install {c : Core} (i k : Nat) (inc : Version) {k' v} :
    Good c k' v → Good (c.install i k inc) k' v :=
  Good.mono (c := c) (c' := c.install i k inc) (install_n c i k inc) (fun _ _ => written_install i k inc)

theorem inv_setProc_other {c : Core} (h : InvC c) {pid : Nat} {p0 p' : Proc} (h0 : c.procs pid = some p0)
    (hk : p'.kind = p0.kind) (hkey : p'.key = p0.key) (hv : p'.ver = p0.ver) (hnode : p'.node = p0.node)
    (hnw : p'.kind ≠ .write) (hnr : p'.kind ≠ .repl) (hi : ItemsG c p'.items) : InvC (c.setProc pid p') :=
  inv_setProc h h0 hk hkey hv hnode (fun e => absurd e hnw) hi (fun e => absurd e hnw)
    (fun e => absurd (hk ▸ e) hnr)

theorem versionsOf_good (s : St) (h : Inv s) (i : Nat) : ItemsG s.core (versionsOf s i) := by
  intro kv hkv
  unfold versionsOf at hkv
  rw [List.mem_filterMap] at hkv
  obtain ⟨k, _, hk⟩ := hkv
  cases hv : s.vers i k with
  | none => rw [hv] at hk; cases hk
  | some v =>
    rw [hv] at hk; cases hk
    exact h.versG i k v hv

/-! ### anti-entropy loops -/

theorem aeLoop_fst (s : St) (i : Nat) : ∀ items, (aeLoop s i items).1 = s
  | [] => rfl
  | (k, v) :: rest => by
    unfold aeLoop; split
    · rfl
    · exact aeLoop_fst s i rest

theorem aeLoop_snd_sub (s : St) (i : Nat) : ∀ items kv, kv ∈ (aeLoop s i items).2 → kv ∈ items
  | [], kv, h => by simp [aeLoop] at h
  | (k, v) :: rest, kv, h => by
    unfold aeLoop at h; split at h
    · exact h
    · exact List.mem_cons_of_mem _ (aeLoop_snd_sub s i rest kv h)

theorem inv_aeContinue (s : St) (pid : Nat) (p q : Proc) (items : List (Nat × Version)) (h : Inv s)
    (hq : s.procs pid = some q) (hk : p.kind = q.kind) (hkey : p.key = q.key) (hv : p.ver = q.ver)
    (hnode : p.node = q.node) (hnw : p.kind ≠ .write) (hnr : p.kind ≠ .repl)
    (hi : ItemsG s.core items) : Inv (aeContinue s pid p items) := by
  unfold aeContinue
  have e1 := aeLoop_fst s p.node items
  have e2 := aeLoop_snd_sub s p.node items
  rcases hl : aeLoop s p.node items with ⟨s1, left⟩
  rw [hl] at e1 e2
  simp only at e1 e2 ⊢
  subst e1
  cases left with
  | cons x xs =>
    simp only
    exact inv_setProc_other h hq hk hkey hv hnode hnw hnr (fun kv hkv => hi kv (e2 kv hkv))
  | nil =>
    simp only
    split
    · have h1 : InvC (s1.core.send { kind := .aeresp, src := p.node, dst := p.src, items := versionsOf s1 p.node }) :=
        inv_send h _ (fun e => by cases e) (versionsOf_good s1 h p.node)
      exact inv_setProc_other h1 hq hk hkey hv hnode hnw hnr (fun kv hkv => by cases hkv)
    · exact inv_setProc_other h hq hk hkey hv hnode hnw hnr (fun kv hkv => by cases hkv)

/-! ### the fan-out of `Replicate` messages -/

theorem foldl_send_core (mk : Nat → Msg) : ∀ (l : List Nat) (s : St),
    (l.foldl (fun s j => s.send (mk j)) s).core = l.foldl (fun c j => c.send (mk j)) s.core
  | [], _ => rfl
  | j :: l, s => by
    simp only [List.foldl_cons]
    rw [foldl_send_core mk l (s.send (mk j))]; rfl

theorem inv_foldl_send (mk : Nat → Msg) (k : Nat) (v : Version)
    (hmk : ∀ j, (mk j).kind = .repl ∧ (mk j).dst = j ∧ (mk j).key = k ∧ (mk j).ver = v ∧
      (mk j).delivered = false ∧ (mk j).items = []) :
    ∀ (l : List Nat) (c : Core), InvC c → WrittenC c k v →
      InvC (l.foldl (fun c j => c.send (mk j)) c) ∧
      (l.foldl (fun c j => c.send (mk j)) c).vers = c.vers ∧
      (l.foldl (fun c j => c.send (mk j)) c).procs = c.procs ∧
      (l.foldl (fun c j => c.send (mk j)) c).n = c.n ∧
      (∀ j, j ∈ l → MsgCarrier (l.foldl (fun c j => c.send (mk j)) c) j k v) ∧
      (∀ i k' v', MsgCarrier c i k' v' → MsgCarrier (l.foldl (fun c j => c.send (mk j)) c) i k' v')
  | [], c, h, _ => by
    refine ⟨h, rfl, rfl, rfl, ?_, ?_⟩
    · intro j hj; cases hj
    · intro _ _ _ g; exact g
  | j :: l, c, h, hw => by
    obtain ⟨m1, m2, m3, m4, m5, m6⟩ := hmk j
    have h1 : InvC (c.send (mk j)) :=
      inv_send h (mk j) (fun _ => by rw [m3, m4]; exact hw) (by rw [m6]; intro kv hkv; cases hkv)
    obtain ⟨a1, a2, a3, a4, a5, a6⟩ := inv_foldl_send mk k v hmk l (c.send (mk j)) h1 hw
    simp only [List.foldl_cons]
    refine ⟨a1, a2, a3, a4, ?_, ?_⟩
    · intro j' hj'
      rcases List.mem_cons.mp hj' with e | e
      · subst e
        apply a6
        exact ⟨c.nm, mk j', by show upd _ _ _ _ = _; simp, m1, m2, m3, m4, m5⟩
      · exact a5 j' e
    · intro i k' v' g
      exact a6 i k' v' (msgCarrier_send h.freshM (mk j) g)

/-! ### resume -/

/-- the anti-entropy branch of `resume`, shared by request and response handlers -/
theorem resume_ae_inv (s : St) (pid : Nat) (p0 p : Proc) (h : Inv s) (h0 : s.procs pid = some p0)
    (hk : p.kind = p0.kind) (hkey : p.key = p0.key) (hv : p.ver = p0.ver) (hnode : p.node = p0.node)
    (hitems : p.items = p0.items) (hnw : p.kind ≠ .write) (hnr : p.kind ≠ .repl) :
    Inv (if p.sent then s.setProc pid { p with fin := true }
      else match p.items with
        | (k, v) :: rest =>
          if p.waiting then aeContinue (install s p.node k v).1 pid p rest
          else s.fail "not-waiting"
        | [] => s.fail "not-waiting") := by
  unfold Inv
  have hiw0 : ItemsG s.core p.items := by rw [hitems]; exact (h.procG pid p0 h0).2
  split
  · rw [core_setProc]
    exact inv_setProc_other h h0 hk hkey hv hnode hnw hnr hiw0
  · split
    · rename_i k v rest hit
      split
      · have hiw := hiw0
        rw [hit] at hiw
        have hg : Good s.core k v := hiw (k, v) (by simp)
        obtain ⟨i1, _, _⟩ := inv_install h p.node k v hg
        refine inv_aeContinue _ pid _ p0 rest ?_ ?_ hk hkey hv hnode hnw hnr ?_
        · show InvC (install s p.node k v).1.core
          rw [core_install]; exact i1
        · have : (install s p.node k v).1.core.procs pid = some p0 := by
            rw [core_install, install_procs]; exact h0
          exact this
        · rw [core_install]
          intro kv hkv
          exact good_install _ _ _ (hiw kv (List.mem_cons_of_mem _ hkv))
      · exact h
    · exact h

theorem resume_inv (s : St) (pid : Nat) (h : Inv s) : Inv (resume s pid) := by
  unfold resume
  cases h0 : s.procs pid with
  | none => exact h
  | some p0 =>
    simp only
    by_cases hf : p0.fin = true
    · simp only [hf, if_true]; exact h
    · have hf' : p0.fin = false := by simpa using hf
      simp only [hf', Bool.false_eq_true, if_false]
      cases hk : p0.kind with
      | write =>
        simp only
        unfold Inv
        have hwr := h.wr pid p0 h0 hk
        have hw : WrittenC s.core p0.key p0.ver := ⟨pid, p0, h0, hk, rfl, rfl⟩
        by_cases hs : p0.seg = 1
        · simp only [hs, if_true]
          rw [core_setProc, foldl_send_core, core_install]
          obtain ⟨i1, i2, _⟩ := inv_install h p0.node p0.key p0.ver (good_of_written hw)
          have hw1 : WrittenC (s.core.install p0.node p0.key p0.ver) p0.key p0.ver := written_install _ _ _ hw
          obtain ⟨a1, a2, a3, a4, a5, _⟩ := inv_foldl_send
            (fun j => ({ kind := .repl, src := p0.node, dst := j, key := p0.key, ver := p0.ver } : Msg))
            p0.key p0.ver (fun j => ⟨rfl, rfl, rfl, rfl, rfl, rfl⟩) (peersOf s p0.node) _ i1 hw1
          refine inv_setProc a1 (p0 := p0) ?_ hk.symm rfl rfl rfl ?_ ?_ ?_ ?_
          · rw [a3, install_procs]; exact h0
          · intro _; exact ⟨by simp, fun e => by simp at e⟩
          · intro kv hkv
            have := good_install p0.node p0.key p0.ver ((h.procG pid p0 h0).2 kv hkv)
            exact Good.mono (c := s.core.install p0.node p0.key p0.ver) a4
              (fun k v hwv => by unfold WrittenC; rw [a3]; exact hwv) this
          · intro _ _ i hi
            rw [a4, install_n] at hi
            by_cases e : i = p0.node
            · left; rw [a2, a4, install_n, e]; exact i2
            · right; left
              apply a5
              unfold peersOf
              simp only [List.mem_filter, List.mem_range, bne_iff_ne, ne_eq]
              exact ⟨hi, e⟩
          · intro e; simp [hk] at e
        · simp only [hs, if_false]
          rw [core_setProc, core_reply]
          refine inv_setProc h h0 hk.symm rfl rfl rfl ?_ ?_ ?_ ?_
          · intro _; exact ⟨by simp, fun _ => by simp; omega⟩
          · exact (h.procG pid p0 h0).2
          · intro _ _ i hi; exact h.cov pid p0 h0 hk (by omega) i hi
          · intro e; simp [hk] at e
      | repl =>
        simp only
        unfold Inv
        rw [core_setProc, core_install]
        have hw : WrittenC s.core p0.key p0.ver := (h.procG pid p0 h0).1 hk
        obtain ⟨i1, i2, _⟩ := inv_install h p0.node p0.key p0.ver (good_of_written hw)
        refine inv_setProc i1 (p0 := p0) (by rw [install_procs]; exact h0) hk.symm rfl rfl rfl ?_ ?_ ?_ ?_
        · intro e; simp at e
        · intro kv hkv; exact good_install _ _ _ ((h.procG pid p0 h0).2 kv hkv)
        · intro e; simp at e
        · intro _; right; rw [install_n]; exact i2
      | read =>
        simp only
        unfold Inv
        rw [core_setProc, core_reply]
        exact inv_setProc_other h h0 hk.symm rfl rfl rfl (by simp) (by simp) (h.procG pid p0 h0).2
      | ae =>
        simp only
        unfold Inv
        rw [core_setProc]
        exact inv_setProc_other h h0 hk.symm rfl rfl rfl (by simp) (by simp) (h.procG pid p0 h0).2
      | aereq =>
        simp only
        exact resume_ae_inv s pid p0 { p0 with kind := .aereq, seg := p0.seg + 1, fin := false } h h0
          hk.symm rfl rfl rfl rfl (by simp) (by simp)
      | aeresp =>
        simp only
        exact resume_ae_inv s pid p0 { p0 with kind := .aeresp, seg := p0.seg + 1, fin := false } h h0
          hk.symm rfl rfl rfl rfl (by simp) (by simp)
      | other => simp only; exact h

end HappyModel.C17.MLM
