import HappyProofs.C17.PBStep
/-! Preservation of the invariant: client write, delivery. -/
namespace HappyModel.C17.PB

theorem step_cw (s : St) (op node k v : Nat) (h : Inv s) : Inv (step s (.cw op node k v)) := by
  simp only [step]
  split
  · exact inv_fail _ _ h
  · obtain ⟨h1, h2, h3, h4, h5, h6, h7, h8, h9, h10, h11, h12⟩ := h
    let pw : Proc := { kind := .write, node := 0, key := k, val := v, seq := s.seq + 1, op := op }
    let s' : St := ({ s with seq := s.seq + 1, wk := upd s.wk (s.seq + 1) k,
                              wv := upd s.wv (s.seq + 1) v }).spawn pw
    show Inv s'
    have hwk : ∀ q, q ≤ s.seq → s'.wk q = s.wk q := by
      intro q hq; show upd s.wk (s.seq + 1) k q = s.wk q
      rw [upd_other _ _ _ _ (by omega)]
    have hwv : ∀ q, q ≤ s.seq → s'.wv q = s.wv q := by
      intro q hq; show upd s.wv (s.seq + 1) v q = s.wv q
      rw [upd_other _ _ _ _ (by omega)]
    have hme : MsgsExt s s' := msgsExt_refl s s' rfl
    have old : ∀ x q, s'.procs x = some q → x ≠ s.np → s.procs x = some q := by
      intro x q hq hx
      change upd s.procs s.np (some pw) x = some q at hq
      rw [upd_other _ _ _ _ hx] at hq; exact hq
    have new : ∀ q, s'.procs s.np = some q → q = pw := by
      intro q hq
      change upd s.procs s.np (some pw) s.np = some q at hq
      rw [upd_same] at hq; cases hq; rfl
    have keep : ∀ x q, s.procs x = some q → s'.procs x = some q := by
      intro x q hq
      have : x ≠ s.np := by intro hx; subst hx; rw [h3 _ (Nat.le_refl _)] at hq; cases hq
      show upd s.procs s.np (some pw) x = some q
      rw [upd_other _ _ _ _ this]; exact hq
    have oldW : ∀ x q, s.procs x = some q → q.kind = .write → WriteProc s' q := by
      intro x q hq hqk
      have hw := h8 x q hq hqk
      exact writeProc_transfer s s' q hw (Nat.le_succ _) (hwk _ hw.2.1) (hwv _ hw.2.1)
        (Nat.le_refl _) hw.2.2.2.2.1 rfl rfl hme
    have newW : WriteProc s' pw := by
      refine ⟨Nat.succ_le_succ (Nat.zero_le _), Nat.le_refl _, ?_, ?_, ?_, ?_, ?_⟩
      · show upd s.wk (s.seq + 1) k (s.seq + 1) = k; rw [upd_same]
      · show upd s.wv (s.seq + 1) v (s.seq + 1) = v; rw [upd_same]
      · intro _; show s.applied < s.seq + 1; omega
      · intro h; simp [pw] at h
      · refine ⟨fun h => by simp [pw] at h, by simp [pw]⟩
    refine ⟨h1, Nat.le_succ_of_le h2, ?_, h4, ?_, ?_, ?_, ?_, ?_, ?_, ?_, ?_⟩
    · intro x hx
      have hx' : s.np + 1 ≤ x := hx
      show upd s.procs s.np (some pw) x = none
      rw [upd_other _ _ _ _ (by omega)]; exact h3 x (by omega)
    · intro mid m hm hmk
      have := h5 mid m hm hmk
      have hle : m.seq ≤ s.seq := Nat.le_trans this.2.2.1 h2
      exact replMsg_transfer s s' m m this rfl rfl rfl rfl rfl (Nat.le_refl _) (hwk _ hle) (hwv _ hle) this.2.2.2.2.2
    · intro b k'
      obtain ⟨a1, a2, a3⟩ := h6 b k'
      have hle : s.kseq b k' ≤ s.seq := Nat.le_trans a1 h2
      refine ⟨a1, a2, ?_⟩
      intro hne
      show s'.wk (s.kseq b k') = k' ∧ s.store (b + 1) k' = some (s'.wv (s.kseq b k'))
      rw [hwk _ hle, hwv _ hle]; exact a3 hne
    · intro x q hq hqk
      by_cases hx : x = s.np
      · subst hx; rw [new q hq] at hqk; cases hqk
      · exact replProc_transfer s s' q (h7 x q (old x q hq hx) hqk) hme
    · intro x q hq hqk
      by_cases hx : x = s.np
      · subst hx; rw [new q hq]; exact newW
      · exact oldW x q (old x q hq hx) hqk
    · intro x q x' q' hq hq' hqk hqk' hseq
      by_cases hx : x = s.np <;> by_cases hx' : x' = s.np
      · omega
      · subst hx; rw [new q hq] at hseq
        have := (h8 x' q' (old x' q' hq' hx') hqk').2.1
        simp only [pw] at hseq; omega
      · subst hx'; rw [new q' hq'] at hseq
        have := (h8 x q (old x q hq hx) hqk).2.1
        simp only [pw] at hseq; omega
      · exact h9 _ _ _ _ (old x q hq hx) (old x' q' hq' hx') hqk hqk' hseq
    · intro q hq1 hq2
      have hq2' : q ≤ s.seq + 1 := hq2
      by_cases hq : q = s.seq + 1
      · refine ⟨s.np, pw, ?_, rfl, hq.symm⟩
        show upd s.procs s.np (some pw) s.np = some pw
        rw [upd_same]
      · obtain ⟨x, r, hx, hrk, hrs⟩ := h10 q hq1 (by omega)
        exact ⟨x, r, keep x r hx, hrk, hrs⟩
    · intro mid m hm hmk hmd
      obtain ⟨x, r, hx, hrk, hrs⟩ := h11 mid m hm hmk hmd
      exact ⟨x, r, keep x r hx, hrk, hrs⟩
    · intro k'
      show s.store 0 k' = if lastFor s'.wk s.applied k' = 0 then none
        else some (s'.wv (lastFor s'.wk s.applied k'))
      have e : lastFor s'.wk s.applied k' = lastFor s.wk s.applied k' :=
        lastFor_congr s.wk s'.wk s.applied k' (fun q hq => hwk q (by omega))
      rw [e, hwv _ (Nat.le_trans (lastFor_le _ _ _) h2)]
      exact h12 k'

theorem inv_deliver_core (s : St) (mid : Nat) (m : Msg) (p' : Proc) (h : Inv s)
    (hm : s.msgs mid = some m) (hp : p'.kind ≠ .write)
    (hcase : (m.kind = .ack ∧ p'.kind ≠ .repl) ∨
      (m.kind = .repl ∧ p'.kind = .repl ∧ p'.op = mid ∧ p'.node = m.b + 1 ∧ p'.key = m.key ∧
        p'.val = m.val ∧ p'.seq = m.seq ∧ p'.seg = 1 ∧ p'.fin = false)) :
    Inv (({ s with msgs := upd s.msgs mid (some { m with delivered := true }) }).spawn p') := by
  obtain ⟨h1, h2, h3, h4, h5, h6, h7, h8, h9, h10, h11, h12⟩ := h
  let m1 : Msg := { m with delivered := true }
  let s' : St := ({ s with msgs := upd s.msgs mid (some m1) }).spawn p'
  show Inv s'
  have hmsg : ∀ x, s'.msgs x = if x = mid then some m1 else s.msgs x := fun x => upd_apply _ _ _ _
  have hme : MsgsExt s s' := by
    intro x mx hx
    by_cases hxm : x = mid
    · subst hxm; rw [hm] at hx; cases hx
      exact ⟨m1, by rw [hmsg]; simp, rfl, rfl, rfl, rfl, rfl, id, fun _ => rfl⟩
    · exact ⟨mx, by rw [hmsg]; simp [hxm]; exact hx, rfl, rfl, rfl, rfl, rfl, id, id⟩
  have old : ∀ x q, s'.procs x = some q → x ≠ s.np → s.procs x = some q := by
    intro x q hq hx
    change upd s.procs s.np (some p') x = some q at hq
    rw [upd_other _ _ _ _ hx] at hq; exact hq
  have new : ∀ q, s'.procs s.np = some q → q = p' := by
    intro q hq
    change upd s.procs s.np (some p') s.np = some q at hq
    rw [upd_same] at hq; cases hq; rfl
  have keep : ∀ x q, s.procs x = some q → s'.procs x = some q := by
    intro x q hq
    have : x ≠ s.np := by intro hx; subst hx; rw [h3 _ (Nat.le_refl _)] at hq; cases hq
    show upd s.procs s.np (some p') x = some q
    rw [upd_other _ _ _ _ this]; exact hq
  have hnew : s'.procs s.np = some p' := by
    show upd s.procs s.np (some p') s.np = some p'
    rw [upd_same]
  refine ⟨h1, h2, ?_, ?_, ?_, h6, ?_, ?_, ?_, ?_, ?_, h12⟩
  · intro x hx
    have hx' : s.np + 1 ≤ x := hx
    show upd s.procs s.np (some p') x = none
    rw [upd_other _ _ _ _ (by omega)]; exact h3 x (by omega)
  · intro x hx
    have hx' : s.nm ≤ x := hx
    rw [hmsg]
    have : x ≠ mid := by
      intro e; subst e; rw [h4 x hx'] at hm; cases hm
    simp [this]; exact h4 x hx'
  · intro x mx hx hxk
    rw [hmsg] at hx
    by_cases hxm : x = mid
    · subst hxm; simp at hx; subst hx
      exact replMsg_transfer s s' m m1 (h5 x m hm hxk) rfl rfl rfl rfl rfl (Nat.le_refl _) rfl rfl
        (h5 x m hm hxk).2.2.2.2.2
    · simp [hxm] at hx
      exact replMsg_transfer s s' mx mx (h5 x mx hx hxk) rfl rfl rfl rfl rfl (Nat.le_refl _) rfl rfl
        (h5 x mx hx hxk).2.2.2.2.2
  · intro x q hq hqk
    by_cases hx : x = s.np
    · subst hx; rw [new q hq]
      rcases hcase with ⟨_, c2⟩ | ⟨c1, c2, c3, c4, c5, c6, c7, c8, c9⟩
      · rw [new q hq] at hqk; exact absurd hqk c2
      · refine ⟨by omega, (by intro hf; rw [c9] at hf; cases hf), m1, ?_, c1, (by rw [c4]; rfl), c5.symm,
          c6.symm, c7.symm, (by intro h2; exact absurd c8 h2)⟩
        rw [c3, hmsg]; simp
    · exact replProc_transfer s s' q (h7 x q (old x q hq hx) hqk) hme
  · intro x q hq hqk
    by_cases hx : x = s.np
    · subst hx; rw [new q hq] at hqk; exact absurd hqk hp
    · have hw := h8 x q (old x q hq hx) hqk
      exact writeProc_transfer s s' q hw (Nat.le_refl _) rfl rfl (Nat.le_refl _) hw.2.2.2.2.1 rfl rfl hme
  · intro x q x' q' hq hq' hqk hqk' hseq
    by_cases hx : x = s.np
    · subst hx; rw [new q hq] at hqk; exact absurd hqk hp
    · by_cases hx' : x' = s.np
      · subst hx'; rw [new q' hq'] at hqk'; exact absurd hqk' hp
      · exact h9 _ _ _ _ (old x q hq hx) (old x' q' hq' hx') hqk hqk' hseq
  · intro q hq1 hq2
    obtain ⟨x, r, hx, hrk, hrs⟩ := h10 q hq1 hq2
    exact ⟨x, r, keep x r hx, hrk, hrs⟩
  · intro x mx hx hxk hxd
    rw [hmsg] at hx
    by_cases hxm : x = mid
    · subst hxm; simp at hx; subst hx
      rcases hcase with ⟨c1, _⟩ | ⟨c1, c2, c3, _⟩
      · change m.kind = .repl at hxk; rw [c1] at hxk; cases hxk
      · exact ⟨s.np, p', hnew, c2, c3⟩
    · simp [hxm] at hx
      obtain ⟨y, r, hy, hrk, hrs⟩ := h11 x mx hx hxk hxd
      exact ⟨y, r, keep y r hy, hrk, hrs⟩

theorem step_dl (s : St) (mid : Nat) (h : Inv s) : Inv (step s (.dl mid)) := by
  simp only [step, deliver]
  split
  · exact inv_fail _ _ h
  · rename_i m hm
    split
    · exact inv_fail _ _ h
    · split
      · rename_i hk
        exact inv_deliver_core s mid m _ h hm (by simp) (Or.inr ⟨hk, rfl, rfl, rfl, rfl, rfl, rfl, rfl, rfl⟩)
      · rename_i hk
        exact inv_deliver_core s mid m _ h hm (by simp) (Or.inl ⟨hk, by simp⟩)

theorem step_cr (s : St) (op node k : Nat) (h : Inv s) : Inv (step s (.cr op node k)) := by
  simp only [step]
  split
  · exact inv_fail _ _ h
  · exact inv_spawn_other s _ h (by simp) (by simp)

end HappyModel.C17.PB
