import HappyProofs.C17.ChainStep2
/-! Preservation of the chain invariant: resuming a handler; all actions. -/
namespace HappyModel.C17.Chain

theorem inv_send (s : St) (m : Msg) (h : Inv s) (hm : MsgOK s m) : Inv (s.send m) := by
  apply inv_step s (s.send m) 0 h (core_of_eq s _ h.core rfl rfl rfl rfl rfl rfl rfl rfl rfl rfl rfl)
    (mono_of_eq s _ rfl rfl rfl rfl rfl rfl rfl)
  · intro x mx hx
    have hx : upd s.msgs s.nm (some m) x = some mx := hx
    by_cases hxm : x = s.nm
    · subst hxm; rw [upd_same] at hx; cases hx
      exact Or.inr (Or.inl hm)
    · rw [upd_other _ _ _ _ hxm] at hx; exact Or.inl hx
  · intro pid _; rfl
  · intro p hp; exact Or.inl hp
  · intro pid q hq _ hqk hs
    have := h.procs pid q hq; unfold ProcOK at this; rw [hqk] at this
    exact this.2.2.2.2.1 hs

theorem sendNotes_fields (s : St) (k q i : Nat) :
    (sendNotes s k q i).aseq = s.aseq ∧ (sendNotes s k q i).n = s.n ∧ (sendNotes s k q i).procs = s.procs ∧
    (sendNotes s k q i).ackd = s.ackd ∧ (sendNotes s k q i).applied = s.applied ∧
    (sendNotes s k q i).wk = s.wk ∧ (sendNotes s k q i).wv = s.wv ∧ (sendNotes s k q i).seq = s.seq := by
  induction i generalizing s with
  | zero => exact ⟨rfl, rfl, rfl, rfl, rfl, rfl, rfl, rfl⟩
  | succ i ih =>
    unfold sendNotes
    exact ih (s.send { kind := .cnote, dst := i, key := k, val := 0, seq := q })

theorem inv_sendNotes (s : St) (k q i : Nat) (h : Inv s) (hq : q ≤ s.aseq (s.n - 1) k) :
    Inv (sendNotes s k q i) := by
  induction i generalizing s with
  | zero => exact h
  | succ i ih =>
    unfold sendNotes
    exact ih _ (inv_send s _ h (by unfold MsgOK; exact hq)) hq

theorem procOK_stage (s : St) (p p' : Proc) (h : ProcOK s p) (hk : p'.kind = p.kind) (hn : p'.node = p.node)
    (hkey : p'.key = p.key) (hv : p'.val = p.val) (hs : p'.seq = p.seq)
    (hprop : p.kind = .prop → p'.seg ≠ 1 → p.seq ≤ s.aseq p.node p.key)
    (hw1 : p.kind = .write → p'.seg = 1 → s.applied < p.seq)
    (hw2 : p.kind = .write → p'.seg ≠ 1 → p.seq ≤ s.applied)
    (hw3 : p.kind = .write → p'.fin = true → s.ackd p.seq = true) : ProcOK s p' := by
  unfold ProcOK at *
  rw [hk]
  cases hkk : p.kind <;> simp only [hkk] at h ⊢
  · rw [hs, hkey, hv]
    exact ⟨h.1, h.2.1, h.2.2.1, h.2.2.2.1, hw1 hkk, hw2 hkk, hw3 hkk⟩
  · rw [hs, hkey, hv, hn]
    exact ⟨h.1, h.2.1, h.2.2.1, h.2.2.2.1, h.2.2.2.2.1, h.2.2.2.2.2.1, h.2.2.2.2.2.2.1, hprop hkk⟩

theorem step_rs_write (s : St) (pid : Nat) (p : Proc) (h : Inv s) (hp : s.procs pid = some p)
    (hk : p.kind = .write) : Inv (resumeWrite s pid p) := by
  have hpo := h.procs pid p hp
  have hpo' := hpo
  unfold ProcOK at hpo'; rw [hk] at hpo'
  obtain ⟨w1, w2, w3, w4, w5, w6, w7⟩ := hpo'
  unfold resumeWrite
  split
  · rename_i hseg
    split
    · exact inv_fail _ _ h
    · rename_i hfifo
      have hfifo : p.seq = s.applied + 1 := by simpa using hfifo
      obtain ⟨hc1, hm1⟩ := core_headApply s p.key p.val h.core (by omega) (by rw [← hfifo]; exact w3)
        (by rw [← hfifo]; exact w4)
      let s1 : St := { s with applied := s.applied + 1, store := upd2 s.store 0 p.key (some p.val),
                              aseq := upd2 s.aseq 0 p.key p.seq,
                              dirty := if s.craq then upd2 s.dirty 0 p.key true else s.dirty }
      have e1 : s1 = { s with applied := s.applied + 1, store := upd2 s.store 0 p.key (some p.val),
                              aseq := upd2 s.aseq 0 p.key (s.applied + 1),
                              dirty := if s.craq then upd2 s.dirty 0 p.key true else s.dirty } := by
        show ({ s with applied := s.applied + 1, store := upd2 s.store 0 p.key (some p.val),
                       aseq := upd2 s.aseq 0 p.key p.seq,
                       dirty := if s.craq then upd2 s.dirty 0 p.key true else s.dirty } : St) = _
        rw [hfifo]
      have hc1 : Core s1 := by rw [e1]; exact hc1
      have hm1 : Mono s s1 := by rw [e1]; exact hm1
      let m : Msg := { kind := .prop, dst := 1, key := p.key, val := p.val, seq := p.seq }
      let p' : Proc := { p with seg := 2 }
      show Inv ((s1.send m).setProc pid p')
      have ha0 : s1.aseq 0 p.key = p.seq := by
        show upd2 s.aseq 0 p.key p.seq 0 p.key = p.seq
        rw [upd2_apply]; simp
      apply inv_step s ((s1.send m).setProc pid p') pid h
        (core_of_eq s1 _ hc1 rfl rfl rfl rfl rfl rfl rfl rfl rfl rfl rfl)
        ⟨hm1.n, hm1.applied, hm1.seq, hm1.wk, hm1.wv, hm1.aseq, hm1.ackd⟩
      · intro x mx hx
        have hx : upd s.msgs s.nm (some m) x = some mx := hx
        by_cases hxm : x = s.nm
        · subst hxm; rw [upd_same] at hx; cases hx
          refine Or.inr (Or.inl ?_)
          unfold MsgOK
          refine ⟨Nat.le_refl _, ?_, w1, ?_, w3, w4, ?_⟩
          · show 1 < s.n; have := h.core.n2; omega
          · show p.seq ≤ s.applied + 1; omega
          · intro i hi
            have hi : i < 1 := hi
            have : i = 0 := by omega
            subst this
            show p.seq ≤ s1.aseq 0 p.key
            rw [ha0]; exact Nat.le_refl _
        · rw [upd_other _ _ _ _ hxm] at hx; exact Or.inl hx
      · intro x hx
        show upd s.procs pid (some p') x = s.procs x
        rw [upd_other _ _ _ _ hx]
      · intro q hq
        have hq : upd s.procs pid (some p') pid = some q := hq
        rw [upd_same] at hq; cases hq
        refine Or.inr ⟨?_, fun _ => Or.inl ⟨p, hp, hk, rfl⟩⟩
        unfold ProcOK
        show (match p.kind with
          | .prop => _ | .write => _ | .read => _ | .other => _)
        rw [hk]
        exact ⟨w1, w2, w3, w4, fun h1 => by simp [p'] at h1, fun _ => by show p.seq ≤ s.applied + 1; omega,
          fun hf => w7 hf⟩
      · intro x q h1 h2 hqk hs
        show s.applied + 1 < q.seq
        have hxp : x ≠ pid := by
          intro e; subst e
          have h2 : upd s.procs x (some p') x = some q := h2
          rw [upd_same] at h2; cases h2
          simp [p'] at hs
        have hq := h.procs x q h1; unfold ProcOK at hq; rw [hqk] at hq
        have hlt := hq.2.2.2.2.1 hs
        have hne : q.seq ≠ p.seq := fun e => hxp (h.uniq x q pid p h1 hp hqk hk e)
        omega
  · rename_i hseg
    split
    · rename_i hseg2
      exact inv_setProc s pid p _ h hp
        (procOK_stage s p _ hpo rfl rfl rfl rfl rfl (fun hh => by rw [hk] at hh; cases hh)
          (fun _ hh => by simp at hh) (fun _ _ => w6 hseg) (fun _ hf => w7 hf))
        (fun _ => ⟨hk, rfl⟩)
    · split
      · rename_i hack
        have hq : p.seq ≤ s.aseq (s.n - 1) p.key := by
          have := h.core.ackd p.seq hack; rw [w3] at this; exact this
        have h1 := inv_markCommitted s 0 p.key p.seq h hq
        have hp1 : (markCommitted s 0 p.key p.seq).procs pid = some p := by
          unfold markCommitted; dsimp only; split <;> exact hp
        have hsame : (markCommitted s 0 p.key p.seq).applied = s.applied ∧
            (markCommitted s 0 p.key p.seq).ackd = s.ackd := by
          unfold markCommitted; dsimp only; split <;> exact ⟨rfl, rfl⟩
        have h2 := inv_reply _ p.op (okTxt p.seq) h1
        refine inv_setProc _ pid p _ h2 hp1
          (procOK_stage _ p _ (h2.procs pid p hp1) rfl rfl rfl rfl rfl (fun hh => by rw [hk] at hh; cases hh)
            (fun _ hh => by simp at hh) (fun _ _ => ?_) (fun _ _ => ?_))
          (fun _ => ⟨hk, rfl⟩)
        · show p.seq ≤ (markCommitted s 0 p.key p.seq).applied
          rw [hsame.1]; exact w6 hseg
        · show (markCommitted s 0 p.key p.seq).ackd p.seq = true
          rw [hsame.2]; exact hack
      · exact inv_fail _ _ h

theorem inv_applyAt (s : St) (i k v q : Nat) (h : Inv s) (hi : i < s.n) (hq1 : 1 ≤ q)
    (hq2 : q ≤ s.applied) (hk : s.wk q = k) (hv : s.wv q = v) (hup : ∀ i', i' < i → q ≤ s.aseq i' k) :
    Inv (applyAt s i k v q) ∧ Mono s (applyAt s i k v q) ∧ q ≤ (applyAt s i k v q).aseq i k := by
  obtain ⟨hc, hm, hge⟩ := core_applyAt s i k v q h.core hi hq1 hq2 hk hv hup
  refine ⟨?_, hm, hge⟩
  apply inv_core_update s _ h hc hm <;> (unfold applyAt; split <;> rfl)

theorem step_rs_prop (s : St) (pid : Nat) (p : Proc) (h : Inv s) (hp : s.procs pid = some p)
    (hk : p.kind = .prop) : Inv (resumeProp s pid p) := by
  have hpo := h.procs pid p hp
  have hpo' := hpo
  unfold ProcOK at hpo'; rw [hk] at hpo'
  obtain ⟨a1, a2, a3, a4, a5, a6, a7, a8⟩ := hpo'
  have notw : ∀ (p' : Proc), p'.kind = p.kind → p'.kind = .write → p.kind = .write ∧ p'.seq = p.seq := by
    intro p' e hw; rw [e, hk] at hw; cases hw
  unfold resumeProp
  dsimp only
  split
  · -- apply, then ack / forward
    obtain ⟨h1, hm1, hge⟩ := inv_applyAt s p.node p.key p.val p.seq h a2 a3 a4 a5 a6 a7
    have e_n : (applyAt s p.node p.key p.val p.seq).n = s.n := hm1.n
    have hp1 : (applyAt s p.node p.key p.val p.seq).procs pid = some p := by
      unfold applyAt; split <;> exact hp
    have hc1 := h1.core
    have hpo1 := h1.procs pid p hp1
    have e_app : (applyAt s p.node p.key p.val p.seq).applied = s.applied := by
      unfold applyAt; split <;> rfl
    have e_wk : (applyAt s p.node p.key p.val p.seq).wk = s.wk := by unfold applyAt; split <;> rfl
    have e_wv : (applyAt s p.node p.key p.val p.seq).wv = s.wv := by unfold applyAt; split <;> rfl
    split
    · rename_i htail
      have htail : p.node = s.n - 1 := htail
      have h2 := inv_send _ { kind := .wack, dst := 0, key := p.key, val := 0, seq := p.seq } h1 (by
        unfold MsgOK
        refine ⟨by rw [e_app]; exact a4, by rw [e_wk]; exact a5, ?_⟩
        rw [e_n, ← htail]; exact hge)
      refine inv_setProc _ pid p _ h2 hp1
        (procOK_stage _ p _ (h2.procs pid p hp1) rfl rfl rfl rfl rfl (fun _ _ => hge)
          (fun hh => by rw [hk] at hh; cases hh) (fun hh => by rw [hk] at hh; cases hh)
          (fun hh => by rw [hk] at hh; cases hh)) (notw _ rfl)
    · rename_i htail
      have htail : p.node ≠ s.n - 1 := htail
      have h2 := inv_send _ { kind := .prop, dst := p.node + 1, key := p.key, val := p.val, seq := p.seq } h1 (by
        unfold MsgOK
        refine ⟨by show 1 ≤ p.node + 1; omega, by show p.node + 1 < _; rw [e_n]; omega, a3,
          by rw [e_app]; exact a4, by rw [e_wk]; exact a5, by rw [e_wv]; exact a6, ?_⟩
        intro i hi
        have hi : i < p.node + 1 := hi
        by_cases hip : i = p.node
        · subst hip; exact hge
        · exact Nat.le_trans (a7 i (by omega)) (hm1.aseq _ _))
      refine inv_setProc _ pid p _ h2 hp1
        (procOK_stage _ p _ (h2.procs pid p hp1) rfl rfl rfl rfl rfl (fun _ _ => hge)
          (fun hh => by rw [hk] at hh; cases hh) (fun hh => by rw [hk] at hh; cases hh)
          (fun hh => by rw [hk] at hh; cases hh)) (notw _ rfl)
  · rename_i hseg
    have hseg : p.seg ≠ 1 := hseg
    have hge := a8 hseg
    split
    · split
      · rename_i hseg2 htail
        have htail : p.node = s.n - 1 := htail
        have hq : p.seq ≤ s.aseq (s.n - 1) p.key := by rw [← htail]; exact hge
        have h1 := inv_markCommitted s p.node p.key p.seq h hq
        have hf : (markCommitted s p.node p.key p.seq).aseq = s.aseq ∧
            (markCommitted s p.node p.key p.seq).n = s.n ∧
            (markCommitted s p.node p.key p.seq).procs = s.procs := by
          unfold markCommitted; dsimp only; split <;> exact ⟨rfl, rfl, rfl⟩
        have hp1 : (markCommitted s p.node p.key p.seq).procs pid = some p := by rw [hf.2.2]; exact hp
        split
        · have h2 := inv_sendNotes _ p.key p.seq p.node h1 (by rw [hf.1, hf.2.1]; exact hq)
          obtain ⟨f1, f2, f3, _⟩ := sendNotes_fields (markCommitted s p.node p.key p.seq) p.key p.seq p.node
          have hp2 : (sendNotes (markCommitted s p.node p.key p.seq) p.key p.seq p.node).procs pid = some p := by
            rw [f3]; exact hp1
          refine inv_setProc _ pid p _ h2 hp2
            (procOK_stage _ p _ (h2.procs pid p hp2) rfl rfl rfl rfl rfl (fun _ _ => by rw [f1, hf.1]; exact hge)
              (fun hh => by rw [hk] at hh; cases hh) (fun hh => by rw [hk] at hh; cases hh)
              (fun hh => by rw [hk] at hh; cases hh)) (notw _ rfl)
        · refine inv_setProc _ pid p _ h1 hp1
            (procOK_stage _ p _ (h1.procs pid p hp1) rfl rfl rfl rfl rfl (fun _ _ => by rw [hf.1]; exact hge)
              (fun hh => by rw [hk] at hh; cases hh) (fun hh => by rw [hk] at hh; cases hh)
              (fun hh => by rw [hk] at hh; cases hh)) (notw _ rfl)
      · exact inv_setProc s pid p _ h hp
          (procOK_stage s p _ hpo rfl rfl rfl rfl rfl (fun _ _ => hge)
            (fun hh => by rw [hk] at hh; cases hh) (fun hh => by rw [hk] at hh; cases hh)
            (fun hh => by rw [hk] at hh; cases hh)) (notw _ rfl)
    · exact inv_setProc s pid p _ h hp
        (procOK_stage s p _ hpo rfl rfl rfl rfl rfl (fun _ _ => hge)
          (fun hh => by rw [hk] at hh; cases hh) (fun hh => by rw [hk] at hh; cases hh)
          (fun hh => by rw [hk] at hh; cases hh)) (notw _ rfl)

theorem step_rs_read (s : St) (pid : Nat) (p : Proc) (h : Inv s) (hp : s.procs pid = some p)
    (hk : p.kind = .read) : Inv (resumeRead s pid p) := by
  have ok : ∀ (s' : St) (p' : Proc), p'.kind = p.kind → ProcOK s' p' := by
    intro s' p' e; unfold ProcOK; rw [e, hk]; trivial
  have notw : ∀ (p' : Proc), p'.kind = p.kind → p'.kind = .write → p.kind = .write ∧ p'.seq = p.seq := by
    intro p' e hw; rw [e, hk] at hw; cases hw
  unfold resumeRead
  split
  · split
    · exact inv_setProc _ pid p _ (inv_send s _ h (by unfold MsgOK; trivial)) hp (ok _ _ rfl) (notw _ rfl)
    · exact inv_setProc _ pid p _ (inv_reply s _ _ h) hp (ok _ _ rfl) (notw _ rfl)
  · exact inv_setProc s pid p _ h hp (ok _ _ rfl) (notw _ rfl)

theorem step_inv (s : St) (a : Act) (h : Inv s) : Inv (step s a) := by
  cases a with
  | cw op node k v => exact step_cw s op node k v h
  | cr op node k => exact step_cr s op node k h
  | dl mid => exact step_dl s mid h
  | ae n p => exact inv_fail _ _ h
  | tick t => exact inv_fail _ _ h
  | rs pid =>
    simp only [step, resume]
    split
    · exact inv_fail _ _ h
    · rename_i p hp
      split
      · exact inv_fail _ _ h
      · split
        · exact step_rs_write s pid p h hp ‹_›
        · exact step_rs_prop s pid p h hp ‹_›
        · exact step_rs_read s pid p h hp ‹_›
        · exact inv_fail _ _ h

theorem run_inv (s : St) (acts : List Act) (h : Inv s) : Inv (run s acts) := by
  induction acts generalizing s with
  | nil => exact h
  | cons a as ih => exact ih _ (step_inv s a h)

theorem init_inv (craq : Bool) (n : Nat) (hn : 2 ≤ n) : Inv (init craq n) := by
  refine ⟨⟨hn, Nat.le_refl _, fun _ _ _ _ _ => Nat.le_refl _, fun _ _ => ⟨Nat.le_refl _, fun _ => rfl, fun h => absurd rfl h⟩,
    fun _ _ => Nat.le_refl _, fun _ _ _ _ => Nat.le_refl _, fun q hq => by simp [init] at hq⟩, ?_, ?_, ?_⟩
  · intro mid m hm; simp [init] at hm
  · intro pid p hp; simp [init] at hp
  · intro pid p pid' p' hp; simp [init] at hp

end HappyModel.C17.Chain
