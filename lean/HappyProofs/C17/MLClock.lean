import HappyProofs.C17.MLRun
/-!
Multi-leader: coherence of the written versions from a schedule-level condition.

`CInv n now clock hb L` relates the simulated clock `now`, every leader's vector clock, the list `L` of
versions written so far and, per leader `i`, a bound `hb i` strictly above the timestamps of all
versions delivered to `i` in `Replicate` messages (0 if none).  It is preserved by clock readings that
do not go backwards, by the delivery of any `Replicate`, and by a client write at leader `i` stamped
`now ≥ hb i` (every version `i` has heard of was stamped strictly earlier: positive message latency);
it implies `Coherent n (· ∈ L)`.
-/
namespace HappyModel.C17.ML

theorem vcGet_map_range (n : Nat) (f : Nat → Nat) (j : Nat) :
    vcGet ((List.range n).map f) j = if j < n then f j else 0 := by
  unfold vcGet
  by_cases h : j < n
  · simp [h, List.getD_eq_getElem?_getD]
  · simp [h, List.getD_eq_getElem?_getD]

theorem vcGet_tick (n : Nat) (a : List Nat) (i j : Nat) (hj : j < n) :
    vcGet (vcTick n a i) j = if j = i then vcGet a j + 1 else vcGet a j := by
  unfold vcTick; rw [vcGet_map_range, if_pos hj]

theorem vcGet_merge (n : Nat) (a b : List Nat) (j : Nat) (hj : j < n) :
    vcGet (vcMerge n a b) j = max (vcGet a j) (vcGet b j) := by
  unfold vcMerge; rw [vcGet_map_range, if_pos hj]

theorem dominates_iff (n : Nat) (a b : List Nat) : dominates n a b = true ↔
    (∀ i, i < n → vcGet b i ≤ vcGet a i) ∧ (∃ i, i < n ∧ vcGet b i < vcGet a i) := by
  unfold dominates
  simp [List.all_eq_true, List.any_eq_true]

structure CInv (n now : Nat) (clock : Nat → List Nat) (hb : Nat → Nat) (L : List Version) : Prop where
  /-- written by an existing leader, not in the future -/
  i1 : ∀ v, v ∈ L → v.writer < n ∧ v.ts ≤ now
  /-- a leader that has heard of another leader's version: its timestamp is below the leader's bound -/
  i3 : ∀ i, i < n → ∀ v, v ∈ L → v.writer ≠ i → own v ≤ vcGet (clock i) v.writer → v.ts < hb i
  /-- a version that knows of another one was stamped later (strictly, across leaders) -/
  i4 : ∀ u, u ∈ L → ∀ v, v ∈ L →
    (v.writer ≠ u.writer → own v ≤ vcGet u.vc v.writer → v.ts < u.ts) ∧
    (v.writer = u.writer → own v ≤ own u → v.ts ≤ u.ts)
  /-- nobody knows more about leader `i` than `i` itself -/
  i6a : ∀ i j, i < n → vcGet (clock j) i ≤ vcGet (clock i) i
  i6b : ∀ u, u ∈ L → ∀ i, i < n → vcGet u.vc i ≤ vcGet (clock i) i
  /-- a leader's own counter identifies its versions -/
  i7 : ∀ u, u ∈ L → ∀ v, v ∈ L → u.writer = v.writer → own u = own v → u = v
  /-- a leader's later versions dominate its earlier ones -/
  i8 : ∀ u, u ∈ L → ∀ v, v ∈ L → u.writer = v.writer → own v < own u →
    ∀ j, j < n → vcGet v.vc j ≤ vcGet u.vc j
  /-- a leader's clock is above all its versions -/
  i9 : ∀ v, v ∈ L → ∀ j, j < n → vcGet v.vc j ≤ vcGet (clock v.writer) j

theorem cinv_init (n now : Nat) : CInv n now (fun _ => []) (fun _ => 0) [] := by
  refine ⟨?_, ?_, ?_, ?_, ?_, ?_, ?_, ?_⟩
  · intro v hv; cases hv
  · intro i _ v hv; cases hv
  · intro u hu; cases hu
  · intro i j _; simp [vcGet]
  · intro u hu; cases hu
  · intro u hu; cases hu
  · intro u hu; cases hu
  · intro v hv; cases hv

theorem cinv_tick {n now : Nat} {clock : Nat → List Nat} {hb : Nat → Nat} {L : List Version}
    (h : CInv n now clock hb L) (t : Nat) (ht : now ≤ t) : CInv n t clock hb L :=
  ⟨fun v hv => ⟨(h.i1 v hv).1, Nat.le_trans (h.i1 v hv).2 ht⟩, h.i3, h.i4, h.i6a, h.i6b, h.i7, h.i8, h.i9⟩

/-- the coherence hypothesis of the convergence theorem -/
theorem cinv_coherent {n now : Nat} {clock : Nat → List Nat} {hb : Nat → Nat} {L : List Version}
    (h : CInv n now clock hb L) :
    Coherent n (fun v => v ∈ L) := by
  constructor
  · intro a b ha hb hd
    rw [dominates_iff] at hd
    obtain ⟨hall, j, hj, hlt⟩ := hd
    have hwa := (h.i1 a ha).1
    have hown : own a ≤ vcGet b.vc a.writer := hall a.writer hwa
    by_cases hw : a.writer = b.writer
    · have hle : own a ≤ own b := by unfold own at hown ⊢; rw [← hw]; exact hown
      have hts := (h.i4 b hb a ha).2 hw hle
      have hne : own a ≠ own b := by
        intro e
        have := h.i7 a ha b hb hw e
        subst this
        omega
      unfold vlt; omega
    · have hts := (h.i4 b hb a ha).1 hw hown
      unfold vlt; omega
  · intro a b ha hb _ hw
    have hwa := (h.i1 a ha).1
    have hwb := (h.i1 b hb).1
    rcases Nat.lt_trichotomy (own a) (own b) with x | x | x
    · right; right
      rw [dominates_iff]
      exact ⟨h.i8 b hb a ha hw.symm x, a.writer, hwa, by unfold own at x; rw [← hw] at x; exact x⟩
    · left; exact h.i7 a ha b hb hw x
    · right; left
      rw [dominates_iff]
      exact ⟨h.i8 a ha b hb hw x, b.writer, hwb, by unfold own at x; rw [hw] at x; exact x⟩

/-- a client write at leader `i` -/
theorem cinv_cw {n now : Nat} {clock : Nat → List Nat} {hb : Nat → Nat} {L : List Version}
    (h : CInv n now clock hb L) (i : Nat) (hi : i < n) (hhb : hb i ≤ now) (val : Nat) :
    CInv n now (upd clock i (vcTick n (clock i) i)) hb (L ++ [⟨val, now, i, vcTick n (clock i) i⟩]) := by
  generalize hc' : vcTick n (clock i) i = c'
  have hcj : ∀ j, j < n → vcGet c' j = if j = i then vcGet (clock i) j + 1 else vcGet (clock i) j := by
    intro j hj; rw [← hc']; exact vcGet_tick n _ i j hj
  have hclk : ∀ j, upd clock i c' j = if j = i then c' else clock j := fun j => upd_apply _ _ _ _
  generalize hu : (⟨val, now, i, c'⟩ : Version) = u
  have huw : u.writer = i := by rw [← hu]
  have huts : u.ts = now := by rw [← hu]
  have huvc : u.vc = c' := by rw [← hu]
  have hownu : own u = vcGet (clock i) i + 1 := by
    unfold own; rw [huw, huvc, hcj i hi, if_pos rfl]
  have hmem : ∀ v, v ∈ L ++ [u] → v ∈ L ∨ v = u := by
    intro v hv; simpa using hv
  have hold : ∀ v, v ∈ L → v.writer = i → own v ≤ vcGet (clock i) i := by
    intro v hvo hw
    have := h.i9 v hvo i hi
    unfold own; rw [hw] at this ⊢; exact this
  refine ⟨?_, ?_, ?_, ?_, ?_, ?_, ?_, ?_⟩
  · intro v hv
    rcases hmem v hv with hvo | rfl
    · exact h.i1 v hvo
    · exact ⟨by rw [huw]; exact hi, by rw [huts]; exact Nat.le_refl _⟩
  · intro i0 hi0 v hv hne hle
    rw [hclk] at hle
    rcases hmem v hv with hvo | rfl
    · by_cases e : i0 = i
      · subst e
        rw [if_pos rfl, hcj _ (h.i1 v hvo).1, if_neg hne] at hle
        exact h.i3 i0 hi0 v hvo hne hle
      · rw [if_neg e] at hle
        exact h.i3 i0 hi0 v hvo hne hle
    · have e : ¬ i0 = i := by rw [huw] at hne; exact fun x => hne x.symm
      rw [if_neg e, huw] at hle
      have := h.i6a i i0 hi
      omega
  · intro u1 hu1 v1 hv1
    rcases hmem u1 hu1 with hu1o | rfl
    · rcases hmem v1 hv1 with hv1o | rfl
      · exact h.i4 u1 hu1o v1 hv1o
      · constructor
        · intro hne hle
          rw [huw] at hne hle
          have := h.i6b u1 hu1o i hi
          omega
        · intro hw hle
          rw [huw] at hw
          have := hold u1 hu1o hw.symm
          omega
    · rcases hmem v1 hv1 with hv1o | rfl
      · constructor
        · intro hne hle
          rw [huw] at hne
          rw [huvc, hcj _ (h.i1 v1 hv1o).1, if_neg hne] at hle
          have := h.i3 i hi v1 hv1o hne hle
          rw [huts]; omega
        · intro _ _; rw [huts]; exact (h.i1 v1 hv1o).2
      · exact ⟨fun hne => absurd rfl hne, fun _ _ => Nat.le_refl _⟩
  · intro i' j hi'
    rw [hclk, hclk]
    by_cases e1 : i' = i
    · subst e1
      rw [if_pos rfl, hcj i' hi', if_pos rfl]
      by_cases e2 : j = i'
      · subst e2; rw [if_pos rfl, hcj j hi', if_pos rfl]; exact Nat.le_refl _
      · rw [if_neg e2]; have := h.i6a i' j hi'; omega
    · rw [if_neg e1]
      by_cases e2 : j = i
      · subst e2; rw [if_pos rfl, hcj i' hi', if_neg e1]; exact h.i6a i' j hi'
      · rw [if_neg e2]; exact h.i6a i' j hi'
  · intro u1 hu1 i' hi'
    rw [hclk]
    rcases hmem u1 hu1 with hu1o | rfl
    · have := h.i6b u1 hu1o i' hi'
      by_cases e1 : i' = i
      · subst e1; rw [if_pos rfl, hcj i' hi', if_pos rfl]; omega
      · rw [if_neg e1]; exact this
    · rw [huvc]
      by_cases e1 : i' = i
      · subst e1; rw [if_pos rfl]; exact Nat.le_refl _
      · rw [if_neg e1, hcj i' hi', if_neg e1]; exact h.i6a i' i hi'
  · intro u1 hu1 v1 hv1 hw ho
    rcases hmem u1 hu1 with hu1o | rfl
    · rcases hmem v1 hv1 with hv1o | rfl
      · exact h.i7 u1 hu1o v1 hv1o hw ho
      · rw [huw] at hw
        have := hold u1 hu1o hw
        omega
    · rcases hmem v1 hv1 with hv1o | rfl
      · rw [huw] at hw
        have := hold v1 hv1o hw.symm
        omega
      · rfl
  · intro u1 hu1 v1 hv1 hw hlt j hj
    rcases hmem u1 hu1 with hu1o | rfl
    · rcases hmem v1 hv1 with hv1o | rfl
      · exact h.i8 u1 hu1o v1 hv1o hw hlt j hj
      · rw [huw] at hw
        have := hold u1 hu1o hw
        omega
    · rcases hmem v1 hv1 with hv1o | rfl
      · rw [huw] at hw
        have := h.i9 v1 hv1o j hj
        rw [← hw] at this
        rw [huvc, hcj j hj]
        split <;> omega
      · omega
  · intro v hv j hj
    rw [hclk]
    rcases hmem v hv with hvo | rfl
    · have := h.i9 v hvo j hj
      by_cases e : v.writer = i
      · rw [if_pos e, hcj j hj]; rw [e] at this; split <;> omega
      · rw [if_neg e]; exact this
    · rw [huw, if_pos rfl, huvc]; exact Nat.le_refl _

/-- the delivery of a `Replicate` carrying `u` to leader `i` -/
theorem cinv_recv {n now : Nat} {clock : Nat → List Nat} {hb : Nat → Nat} {L : List Version}
    (h : CInv n now clock hb L) (u : Version) (hu : u ∈ L) (i : Nat) :
    CInv n now (upd clock i (vcTick n (vcMerge n (clock i) u.vc) i)) (upd hb i (max (hb i) (u.ts + 1))) L := by
  generalize hc' : vcTick n (vcMerge n (clock i) u.vc) i = c'
  have hcj : ∀ j, j < n → vcGet c' j =
      if j = i then max (vcGet (clock i) j) (vcGet u.vc j) + 1 else max (vcGet (clock i) j) (vcGet u.vc j) := by
    intro j hj; rw [← hc', vcGet_tick n _ i j hj, vcGet_merge n _ _ j hj]
  have hclk : ∀ j, upd clock i c' j = if j = i then c' else clock j := fun j => upd_apply _ _ _ _
  have hhb : ∀ j, upd hb i (max (hb i) (u.ts + 1)) j = if j = i then max (hb i) (u.ts + 1) else hb j :=
    fun j => upd_apply _ _ _ _
  refine ⟨h.i1, ?_, h.i4, ?_, ?_, h.i7, h.i8, ?_⟩
  · intro i0 hi0 v hv hne hle
    rw [hclk] at hle
    rw [hhb]
    by_cases e : i0 = i
    · subst e
      rw [if_pos rfl, hcj _ (h.i1 v hv).1, if_neg hne] at hle
      rw [if_pos rfl]
      by_cases h1 : own v ≤ vcGet (clock i0) v.writer
      · have := h.i3 i0 hi0 v hv hne h1
        omega
      · have h2 : own v ≤ vcGet u.vc v.writer := by omega
        by_cases hw : v.writer = u.writer
        · have : own v ≤ own u := by unfold own at h2 ⊢; rw [← hw]; exact h2
          have := (h.i4 u hu v hv).2 hw this
          omega
        · have := (h.i4 u hu v hv).1 hw h2
          omega
    · rw [if_neg e] at hle
      rw [if_neg e]
      exact h.i3 i0 hi0 v hv hne hle
  · intro i' j hi'
    rw [hclk, hclk]
    by_cases e1 : i' = i
    · subst e1
      rw [if_pos rfl, hcj i' hi', if_pos rfl]
      by_cases e2 : j = i'
      · subst e2; rw [if_pos rfl, hcj j hi', if_pos rfl]; exact Nat.le_refl _
      · rw [if_neg e2]; have := h.i6a i' j hi'; omega
    · rw [if_neg e1]
      by_cases e2 : j = i
      · subst e2
        rw [if_pos rfl, hcj i' hi', if_neg e1]
        have := h.i6a i' j hi'
        have := h.i6b u hu i' hi'
        omega
      · rw [if_neg e2]; exact h.i6a i' j hi'
  · intro u1 hu1 i' hi'
    rw [hclk]
    have := h.i6b u1 hu1 i' hi'
    by_cases e1 : i' = i
    · subst e1; rw [if_pos rfl, hcj i' hi', if_pos rfl]; omega
    · rw [if_neg e1]; exact this
  · intro v hv j hj
    rw [hclk]
    have := h.i9 v hv j hj
    by_cases e : v.writer = i
    · rw [if_pos e, hcj j hj]; rw [e] at this; split <;> omega
    · rw [if_neg e]; exact this

end HappyModel.C17.ML
