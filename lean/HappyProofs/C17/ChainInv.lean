import HappyModel.C17.Chain
/-! Safety invariant of the (repaired) chain-replication model. -/
namespace HappyModel.C17.Chain

/-- the per-node / per-key part -/
structure Core (s : St) : Prop where
  n2 : 2 ≤ s.n
  app_le : s.applied ≤ s.seq
  /-- downstream nodes never run ahead of upstream nodes -/
  order : ∀ i j k, i ≤ j → j < s.n → s.aseq j k ≤ s.aseq i k
  /-- a node's store holds the value of the newest sequence it applied for the key -/
  store : ∀ i k, s.aseq i k ≤ s.applied ∧ (s.aseq i k = 0 → s.store i k = none) ∧
      (s.aseq i k ≠ 0 → s.wk (s.aseq i k) = k ∧ s.store i k = some (s.wv (s.aseq i k)))
  /-- what a node believes committed has been applied at the tail -/
  commit : ∀ i k, s.cseq i k ≤ s.aseq (s.n - 1) k
  /-- CRAQ: a clean key's newest local version is committed -/
  clean : ∀ i k, s.craq = true → s.dirty i k = false → s.aseq i k ≤ s.cseq i k
  /-- a resolved ack future: the tail has processed that write -/
  ackd : ∀ q, s.ackd q = true → q ≤ s.aseq (s.n - 1) (s.wk q)

/-- state evolution that keeps message / process facts true -/
structure Mono (s s' : St) : Prop where
  n : s'.n = s.n
  applied : s.applied ≤ s'.applied
  seq : s.seq ≤ s'.seq
  wk : ∀ q, q ≤ s.seq → s'.wk q = s.wk q
  wv : ∀ q, q ≤ s.seq → s'.wv q = s.wv q
  aseq : ∀ i k, s.aseq i k ≤ s'.aseq i k
  ackd : ∀ q, s.ackd q = true → s'.ackd q = true

theorem Mono.refl (s : St) : Mono s s :=
  ⟨rfl, Nat.le_refl _, Nat.le_refl _, fun _ _ => rfl, fun _ _ => rfl, fun _ _ => Nat.le_refl _, fun _ h => h⟩

def MsgOK (s : St) (m : Msg) : Prop :=
  match m.kind with
  | .prop => 1 ≤ m.dst ∧ m.dst < s.n ∧ 1 ≤ m.seq ∧ m.seq ≤ s.applied ∧ s.wk m.seq = m.key ∧
      s.wv m.seq = m.val ∧ ∀ i, i < m.dst → m.seq ≤ s.aseq i m.key
  | .wack => m.seq ≤ s.applied ∧ s.wk m.seq = m.key ∧ m.seq ≤ s.aseq (s.n - 1) m.key
  | .cnote => m.seq ≤ s.aseq (s.n - 1) m.key
  | .rfwd => True

def ProcOK (s : St) (p : Proc) : Prop :=
  match p.kind with
  | .prop => 1 ≤ p.node ∧ p.node < s.n ∧ 1 ≤ p.seq ∧ p.seq ≤ s.applied ∧ s.wk p.seq = p.key ∧
      s.wv p.seq = p.val ∧ (∀ i, i < p.node → p.seq ≤ s.aseq i p.key) ∧
      (p.seg ≠ 1 → p.seq ≤ s.aseq p.node p.key)
  | .write => 1 ≤ p.seq ∧ p.seq ≤ s.seq ∧ s.wk p.seq = p.key ∧ s.wv p.seq = p.val ∧
      (p.seg = 1 → s.applied < p.seq) ∧ (p.seg ≠ 1 → p.seq ≤ s.applied) ∧
      (p.fin = true → s.ackd p.seq = true)
  | .read => True
  | .other => True

structure Inv (s : St) : Prop where
  core : Core s
  msgs : ∀ mid m, s.msgs mid = some m → MsgOK s m
  procs : ∀ pid p, s.procs pid = some p → ProcOK s p
  uniq : ∀ pid p pid' p', s.procs pid = some p → s.procs pid' = some p' → p.kind = .write →
      p'.kind = .write → p.seq = p'.seq → pid = pid'

theorem msgOK_mono (s s' : St) (m : Msg) (hc : Core s) (hm : Mono s s') (h : MsgOK s m) : MsgOK s' m := by
  unfold MsgOK at *
  cases hk : m.kind <;> simp only [hk] at h ⊢
  · obtain ⟨a1, a2, a3, a4, a5, a6, a7⟩ := h
    have : m.seq ≤ s.seq := Nat.le_trans a4 hc.app_le
    exact ⟨a1, by rw [hm.n]; exact a2, a3, Nat.le_trans a4 hm.applied, by rw [hm.wk _ this]; exact a5,
      by rw [hm.wv _ this]; exact a6, fun i hi => Nat.le_trans (a7 i hi) (hm.aseq _ _)⟩
  · obtain ⟨a1, a2, a3⟩ := h
    have : m.seq ≤ s.seq := Nat.le_trans a1 hc.app_le
    exact ⟨Nat.le_trans a1 hm.applied, by rw [hm.wk _ this]; exact a2,
      by rw [hm.n]; exact Nat.le_trans a3 (hm.aseq _ _)⟩
  · rw [hm.n]; exact Nat.le_trans h (hm.aseq _ _)

/-- process facts survive, except the head's "put not landed yet" clause which is supplied -/
theorem procOK_mono (s s' : St) (p : Proc) (hc : Core s) (hm : Mono s s') (h : ProcOK s p)
    (hw : p.kind = .write → p.seg = 1 → s'.applied < p.seq) : ProcOK s' p := by
  unfold ProcOK at *
  cases hk : p.kind <;> simp only [hk] at h ⊢
  · obtain ⟨a1, a2, a3, a4, a5, a6, a7⟩ := h
    exact ⟨a1, Nat.le_trans a2 hm.seq, by rw [hm.wk _ a2]; exact a3, by rw [hm.wv _ a2]; exact a4,
      hw hk, fun h1 => Nat.le_trans (a6 h1) hm.applied, fun hf => hm.ackd _ (a7 hf)⟩
  · obtain ⟨a1, a2, a3, a4, a5, a6, a7, a8⟩ := h
    have : p.seq ≤ s.seq := Nat.le_trans a4 hc.app_le
    exact ⟨a1, by rw [hm.n]; exact a2, a3, Nat.le_trans a4 hm.applied, by rw [hm.wk _ this]; exact a5,
      by rw [hm.wv _ this]; exact a6, fun i hi => Nat.le_trans (a7 i hi) (hm.aseq _ _),
      fun h1 => Nat.le_trans (a8 h1) (hm.aseq _ _)⟩

/-! ### primitives on the per-node part -/

theorem core_applyAt (s : St) (i k v q : Nat) (hc : Core s) (hi : i < s.n) (hq1 : 1 ≤ q)
    (hq2 : q ≤ s.applied) (hk : s.wk q = k) (hv : s.wv q = v) (hup : ∀ i', i' < i → q ≤ s.aseq i' k) :
    Core (applyAt s i k v q) ∧ Mono s (applyAt s i k v q) ∧ q ≤ (applyAt s i k v q).aseq i k := by
  unfold applyAt
  by_cases hlt : s.aseq i k < q
  · rw [if_pos hlt]
    have ha : ∀ i' k', (upd2 s.aseq i k q) i' k' = if i' = i ∧ k' = k then q else s.aseq i' k' :=
      fun i' k' => upd2_apply _ _ _ _ _ _
    refine ⟨⟨hc.n2, hc.app_le, ?_, ?_, ?_, ?_, ?_⟩, ⟨rfl, Nat.le_refl _, Nat.le_refl _, fun _ _ => rfl,
      fun _ _ => rfl, ?_, fun _ h => h⟩, ?_⟩
    · intro a b k' hab hb
      show upd2 s.aseq i k q b k' ≤ upd2 s.aseq i k q a k'
      rw [ha, ha]
      have ho := hc.order a b k' hab hb
      by_cases hk' : k' = k
      · subst hk'
        by_cases h1 : b = i <;> by_cases h2 : a = i
        · simp [h1, h2]
        · have := hup a (by omega)
          simp [h1, h2]; exact this
        · simp [h1, h2]; subst h2; omega
        · simp [h1, h2]; exact ho
      · simp [hk']; exact ho
    · intro a k'
      show upd2 s.aseq i k q a k' ≤ s.applied ∧ (upd2 s.aseq i k q a k' = 0 → upd2 s.store i k (some v) a k' = none) ∧
        (upd2 s.aseq i k q a k' ≠ 0 → s.wk (upd2 s.aseq i k q a k') = k' ∧
          upd2 s.store i k (some v) a k' = some (s.wv (upd2 s.aseq i k q a k')))
      rw [ha, upd2_apply]
      by_cases h1 : a = i ∧ k' = k
      · obtain ⟨h1a, h1b⟩ := h1
        subst h1a; subst h1b
        simp only [and_self, if_true]
        refine ⟨hq2, fun h0 => by omega, fun _ => ⟨hk, by rw [hv]⟩⟩
      · simp only [h1, if_false]; exact hc.store a k'
    · intro a k'
      show s.cseq a k' ≤ upd2 s.aseq i k q (s.n - 1) k'
      rw [ha]
      have := hc.commit a k'
      split
      · rename_i h1; obtain ⟨h1a, h1b⟩ := h1; subst h1b; rw [h1a] at this; omega
      · exact this
    · intro a k' hcr hd
      show upd2 s.aseq i k q a k' ≤ s.cseq a k'
      have hd : (if s.craq = true then upd2 s.dirty i k true else s.dirty) a k' = false := hd
      rw [if_pos hcr, upd2_apply] at hd
      rw [ha]
      by_cases h1 : a = i ∧ k' = k
      · simp [h1] at hd
      · simp only [h1, if_false] at hd ⊢; exact hc.clean a k' hcr hd
    · intro x hx
      show x ≤ upd2 s.aseq i k q (s.n - 1) (s.wk x)
      rw [ha]
      have := hc.ackd x hx
      split
      · rename_i h1; obtain ⟨h1a, h1b⟩ := h1; rw [h1b, h1a] at this; omega
      · exact this
    · intro a k'
      show s.aseq a k' ≤ upd2 s.aseq i k q a k'
      rw [ha]; split
      · rename_i h1; obtain ⟨h1a, h1b⟩ := h1; subst h1a; subst h1b; omega
      · exact Nat.le_refl _
    · show q ≤ upd2 s.aseq i k q i k
      rw [ha]; simp
  · rw [if_neg hlt]
    exact ⟨hc, Mono.refl s, by omega⟩

theorem core_markCommitted (s : St) (i k q : Nat) (hc : Core s) (hq : q ≤ s.aseq (s.n - 1) k) :
    Core (markCommitted s i k q) ∧ Mono s (markCommitted s i k q) := by
  unfold markCommitted
  have hcs : ∀ a k', (upd2 s.cseq i k (max (s.cseq i k) q)) a k' =
      if a = i ∧ k' = k then max (s.cseq i k) q else s.cseq a k' := fun a k' => upd2_apply _ _ _ _ _ _
  have hcommit : ∀ a k', (upd2 s.cseq i k (max (s.cseq i k) q)) a k' ≤ s.aseq (s.n - 1) k' := by
    intro a k'; rw [hcs]; split
    · rename_i h1; obtain ⟨_, h1b⟩ := h1; subst h1b
      exact Nat.max_le.mpr ⟨hc.commit i k', hq⟩
    · exact hc.commit a k'
  have hmono : ∀ a k', s.cseq a k' ≤ (upd2 s.cseq i k (max (s.cseq i k) q)) a k' := by
    intro a k'; rw [hcs]; split
    · rename_i h1; obtain ⟨h1a, h1b⟩ := h1; subst h1a; subst h1b; exact Nat.le_max_left _ _
    · exact Nat.le_refl _
  dsimp only
  by_cases hle : s.aseq i k ≤ max (s.cseq i k) q
  · rw [if_pos hle]
    refine ⟨⟨hc.n2, hc.app_le, hc.order, hc.store, hcommit, ?_, hc.ackd⟩, ⟨rfl, Nat.le_refl _, Nat.le_refl _,
      fun _ _ => rfl, fun _ _ => rfl, fun _ _ => Nat.le_refl _, fun _ h => h⟩⟩
    intro a k' hcr hd
    have hd : upd2 s.dirty i k false a k' = false := hd
    show s.aseq a k' ≤ upd2 s.cseq i k (max (s.cseq i k) q) a k'
    rw [upd2_apply] at hd
    by_cases h1 : a = i ∧ k' = k
    · obtain ⟨h1a, h1b⟩ := h1; subst h1a; subst h1b
      rw [hcs]; simp; omega
    · simp only [h1, if_false] at hd
      exact Nat.le_trans (hc.clean a k' hcr hd) (hmono a k')
  · rw [if_neg hle]
    refine ⟨⟨hc.n2, hc.app_le, hc.order, hc.store, hcommit, ?_, hc.ackd⟩, ⟨rfl, Nat.le_refl _, Nat.le_refl _,
      fun _ _ => rfl, fun _ _ => rfl, fun _ _ => Nat.le_refl _, fun _ h => h⟩⟩
    intro a k' hcr hd
    exact Nat.le_trans (hc.clean a k' hcr hd) (hmono a k')

end HappyModel.C17.Chain
