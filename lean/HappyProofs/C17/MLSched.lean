import HappyProofs.C17.MLClock
/-!
Multi-leader: a schedule with a non-decreasing clock in which every client write is stamped strictly
after the timestamps of all versions its leader has received in `Replicate` messages (positive network
latency) writes coherent versions — `CInv` and `Inv` are carried together along the run
(`run_sched`), the set of written versions growing with every client write.
-/
namespace HappyModel.C17.ML

/-- the part of the state `CInv` reads -/
def St.tm (s : St) : Nat × Nat × (Nat → List Nat) := (s.n, s.now, s.clock)

theorem tm_eq {s s' : St} (h : s'.tm = s.tm) : s'.n = s.n ∧ s'.now = s.now ∧ s'.clock = s.clock := by
  simp only [St.tm, Prod.mk.injEq] at h; exact h

theorem aeContinue_tm (s : St) (pid : Nat) (p : Proc) (items : List (Nat × Version)) :
    (aeContinue s pid p items).tm = s.tm := by
  unfold aeContinue
  have e1 := aeLoop_fst s p.node items
  rcases hl : aeLoop s p.node items with ⟨s1, left⟩
  rw [hl] at e1
  simp only at e1 ⊢
  subst e1
  cases left with
  | cons x xs => rfl
  | nil => simp only; split <;> rfl

theorem install_tm (s : St) (i k : Nat) (v : Version) : (install s i k v).1.tm = s.tm := by
  unfold install; split <;> rfl

theorem foldl_send_tm (mk : Nat → Msg) : ∀ (l : List Nat) (s : St), (l.foldl (fun s j => s.send (mk j)) s).tm = s.tm
  | [], _ => rfl
  | j :: l, s => by simp only [List.foldl_cons]; rw [foldl_send_tm mk l]; rfl

theorem resume_tm (s : St) (pid : Nat) : (resume s pid).tm = s.tm := by
  unfold resume
  cases h0 : s.procs pid with
  | none => rfl
  | some p0 =>
    simp only
    by_cases hf : p0.fin = true
    · simp only [hf, if_true]; rfl
    · have hf' : p0.fin = false := by simpa using hf
      simp only [hf', Bool.false_eq_true, if_false]
      cases hk : p0.kind with
      | write =>
        simp only
        by_cases hs : p0.seg = 1
        · simp only [hs, if_true]
          show St.tm (List.foldl _ _ _) = _
          rw [foldl_send_tm, install_tm]
        · simp only [hs, if_false]; rfl
      | repl =>
        simp only
        show St.tm (install _ _ _ _).1 = _
        rw [install_tm]
      | read => rfl
      | ae => rfl
      | aereq =>
        simp only
        split
        · rfl
        · split
          · split
            · rw [aeContinue_tm, install_tm]
            · rfl
          · rfl
      | aeresp =>
        simp only
        split
        · rfl
        · split
          · split
            · rw [aeContinue_tm, install_tm]
            · rfl
          · rfl
      | other => rfl

/-- `hb i` = a bound strictly above the timestamps of all versions delivered to leader `i` in
    `Replicate` messages so far (0 if none); this is how one action moves it -/
def hbStep (s : St) (hb : Nat → Nat) : Act → Nat → Nat
  | .dl mid =>
    (match s.msgs mid with
     | some m =>
       if m.kind = .repl ∧ m.delivered = false then upd hb m.dst (max (hb m.dst) (m.ver.ts + 1)) else hb
     | none => hb)
  | _ => hb

theorem deliver_tm (s : St) (mid : Nat) (hb : Nat → Nat) :
    ((deliver s mid).tm = s.tm ∧ hbStep s hb (.dl mid) = hb) ∨
    ∃ m, s.msgs mid = some m ∧ m.kind = .repl ∧ m.delivered = false ∧
      (deliver s mid).tm = (s.n, s.now, upd s.clock m.dst (vcTick s.n (vcMerge s.n (s.clock m.dst) m.ver.vc) m.dst)) ∧
      hbStep s hb (.dl mid) = upd hb m.dst (max (hb m.dst) (m.ver.ts + 1)) := by
  unfold deliver
  cases h0 : s.msgs mid with
  | none => left; exact ⟨rfl, by simp [hbStep, h0]⟩
  | some m =>
    simp only
    by_cases hd : m.delivered = true
    · simp only [hd, if_true]; left; exact ⟨rfl, by simp [hbStep, h0, hd]⟩
    · have hd' : m.delivered = false := by simpa using hd
      simp only [hd', Bool.false_eq_true, if_false]
      cases hk : m.kind with
      | repl =>
        right
        refine ⟨m, rfl, hk, hd', ?_, by simp [hbStep, h0, hk, hd']⟩
        simp only; split <;> rfl
      | aereq => left; simp only; rw [aeContinue_tm]; exact ⟨rfl, by simp [hbStep, h0, hk]⟩
      | aeresp => left; simp only; rw [aeContinue_tm]; exact ⟨rfl, by simp [hbStep, h0, hk]⟩

/-- schedule condition: clock readings never decrease, and a client write at leader `i` is stamped
    strictly after the timestamps of all versions delivered to `i` in `Replicate` messages before it
    (what positive network latency gives: the write happens no earlier than those deliveries, each of
    which happened strictly after its version was stamped) -/
def schedOK : St → (Nat → Nat) → List Act → Bool
  | _, _, [] => true
  | s, hb, a :: as =>
    (match a with
     | .tick t => decide (s.now ≤ t)
     | .cw _ node _ _ => decide (node < s.n → hb node ≤ s.now)
     | _ => true) && schedOK (step s a) (hbStep s hb a) as

theorem inv_mono {P P' : Nat → Version → Prop} {s : St} (h : Inv P s) (hPP : ∀ k v, P k v → P' k v) : Inv P' s :=
  ⟨h.freshP, h.freshM, fun pid p hp hk => ⟨hPP _ _ (h.wr pid p hp hk).1, (h.wr pid p hp hk).2⟩,
    h.versW, h.store, h.msgW, h.procW, h.cov⟩

theorem coherent_of_map (n : Nat) (C : List (Nat × Version)) (h : Coherent n (fun v => v ∈ C.map (·.2))) (k : Nat) :
    Coherent n (fun v => (k, v) ∈ C) :=
  ⟨fun a b ha hb hd => h.causal a b (List.mem_map.mpr ⟨(k, a), ha, rfl⟩) (List.mem_map.mpr ⟨(k, b), hb, rfl⟩) hd,
   fun a b ha hb e1 e2 => h.sameWriter a b (List.mem_map.mpr ⟨(k, a), ha, rfl⟩) (List.mem_map.mpr ⟨(k, b), hb, rfl⟩) e1 e2⟩

theorem step_cinv (s : St) (a : Act) (C : List (Nat × Version)) (hb : Nat → Nat)
    (hI : Inv (fun k v => (k, v) ∈ C) s)
    (hC : CInv s.n s.now s.clock hb (C.map (·.2))) (hs : schedOK s hb [a] = true) :
    CInv (step s a).n (step s a).now (step s a).clock (hbStep s hb a) ((C ++ newOf s a).map (·.2)) := by
  have same : ∀ s' : St, s'.tm = s.tm → newOf s a = [] → hbStep s hb a = hb →
      CInv s'.n s'.now s'.clock (hbStep s hb a) ((C ++ newOf s a).map (·.2)) := by
    intro s' h hn hh
    obtain ⟨e1, e2, e3⟩ := tm_eq h
    rw [e1, e2, e3, hn, hh, List.append_nil]; exact hC
  cases a with
  | tick t =>
    simp only [schedOK, Bool.and_true, decide_eq_true_eq] at hs
    simp only [newOf, List.append_nil, hbStep]
    exact cinv_tick hC t hs
  | cw op node k v =>
    by_cases hn : node < s.n
    · have e : step s (.cw op node k v) =
          ({ s with clock := upd s.clock node (vcTick s.n (s.clock node) node) }).spawn
            { kind := .write, node := node, key := k, ver := stamp s node v, op := op } := by
        simp only [step]; rw [if_neg (by omega)]; rfl
      simp only [schedOK, Bool.and_true, decide_eq_true_eq] at hs
      rw [e]
      simp only [newOf, hn, if_true, List.map_append, List.map_cons, List.map_nil, hbStep]
      exact cinv_cw hC node hn (hs hn) v
    · refine same _ ?_ (by simp [newOf, hn]) rfl
      simp only [step]; rw [if_pos (by omega)]; rfl
  | cr op node k =>
    refine same _ ?_ rfl rfl
    simp only [step]; split <;> rfl
  | dl mid =>
    rcases deliver_tm s mid hb with ⟨h, hh⟩ | ⟨m, hm, hk, hd, h, hh⟩
    · exact same _ h rfl hh
    · have hw := hI.written_P ((hI.msgW mid m hm).1 hk)
      have hmem : m.ver ∈ C.map (·.2) := List.mem_map.mpr ⟨(m.key, m.ver), hw, rfl⟩
      have h' : (step s (.dl mid)).tm = _ := h
      simp only [St.tm, Prod.mk.injEq] at h'
      obtain ⟨e1, e2, e3⟩ := h'
      rw [e1, e2, e3, hh]
      simp only [newOf, List.append_nil]
      exact cinv_recv hC m.ver hmem m.dst
  | rs pid => exact same _ (resume_tm s pid) rfl rfl
  | ae node peer =>
    refine same _ ?_ rfl rfl
    simp only [step]; split <;> rfl

theorem schedOK_cons (s : St) (hb : Nat → Nat) (a : Act) (as : List Act) (h : schedOK s hb (a :: as) = true) :
    schedOK s hb [a] = true ∧ schedOK (step s a) (hbStep s hb a) as = true := by
  simp only [schedOK, Bool.and_eq_true, Bool.and_true] at h ⊢
  exact h

theorem run_sched : ∀ (acts : List Act) (s : St) (C : List (Nat × Version)) (hb : Nat → Nat),
    Inv (fun k v => (k, v) ∈ C) s → CInv s.n s.now s.clock hb (C.map (·.2)) → schedOK s hb acts = true →
    Inv (fun k v => (k, v) ∈ C ++ created s acts) (run s acts) ∧
    ∃ hb', CInv (run s acts).n (run s acts).now (run s acts).clock hb' ((C ++ created s acts).map (·.2))
  | [], s, C, hb, hI, hC, _ => by
    refine ⟨by simpa [created, run] using hI, hb, by simpa [created, run] using hC⟩
  | a :: as, s, C, hb, hI, hC, hs => by
    obtain ⟨hs1, hs2⟩ := schedOK_cons s hb a as hs
    have hC1 := step_cinv s a C hb hI hC hs1
    have hn := step_n s a
    have hcoh : ∀ k, Coherent s.n (fun v => (k, v) ∈ C ++ newOf s a) := by
      intro k
      have := cinv_coherent hC1
      rw [hn] at this
      exact coherent_of_map s.n _ this k
    have hI1 : Inv (fun k v => (k, v) ∈ C ++ newOf s a) (step s a) := by
      refine step_inv s a hcoh (inv_mono hI (fun k v h => List.mem_append_left _ h)) ?_
      intro op node k v ha hlt
      subst ha
      simp [newOf, hlt]
    have := run_sched as (step s a) (C ++ newOf s a) _ hI1 hC1 hs2
    rw [List.append_assoc] at this
    exact this

end HappyModel.C17.ML
