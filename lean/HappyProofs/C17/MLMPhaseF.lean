import HappyProofs.C17.MLMPhaseE
/-!
Run-level composition, part F: the state part `SI` of the phase invariant is preserved by every
step that is not a write / `Replicate` handler step, and values only go up.
-/
namespace HappyModel.C17.MLM
open HappyModel.C17.ML (Version Msg Proc MKind PKind vcGet dominates vcMerge vcTick)

/-- hypothesis taken from the companion development: with every `Replicate` done, every leader's
clock for a key is at or above every bounded version's -/
def F3Stmt : Prop := ∀ s, Inv s → replQuiescent s → ∀ k v, Good s.core k v → ∀ i, i < s.n →
  ∃ u, s.vers i k = some u ∧ ∀ c, c < s.n → vcGet v.vc c ≤ vcGet u.vc c

theorem clk_some (u : Version) (c : Nat) : clk (some u) c = vcGet u.vc c := rfl
theorem valD_some (u : Version) : valD (some u) = u.val := rfl

/-- in the phase, two leaders hold the same clock -/
theorem si_same_clock {sp s : St} (A : Agree sp) (h : SI sp s) (i j k : Nat) (hi : i < sp.n) (hj : j < sp.n)
    (c : Nat) (hc : c < sp.n) : clk (s.vers i k) c = clk (s.vers j k) c := by
  rw [(h.cl i hi k).1 c hc, (h.cl j hj k).1 c hc]
  exact (A i j k hi hj).1 c hc

theorem si_same_some {sp s : St} (A : Agree sp) (h : SI sp s) (i j k : Nat) (hi : i < sp.n) (hj : j < sp.n) :
    (s.vers i k).isSome = (s.vers j k).isSome := by
  rw [(h.cl i hi k).2, (h.cl j hj k).2]
  exact (A i j k hi hj).2

/-- the `_install` of the head item of an anti-entropy handler, in the phase -/
theorem install_ok (F3 : F3Stmt) (sp s : St) (A : Agree sp) (h : SI sp s) (pid : Nat) (p0 : Proc) (k : Nat)
    (v : Version) (rest : List (Nat × Version)) (h0 : s.procs pid = some p0)
    (hk : p0.kind = .aereq ∨ p0.kind = .aeresp) (hit : p0.items = (k, v) :: rest) :
    ∃ u w, s.vers p0.node k = some u ∧ p0.node < sp.n ∧
      (∀ i' k', (install s p0.node k v).1.vers i' k' = if i' = p0.node ∧ k' = k then some w else s.vers i' k') ∧
      (∀ c, c < sp.n → vcGet w.vc c = vcGet u.vc c) ∧
      ((w.val = u.val ∧ ¬ SameClock sp.n u v) ∨ (w.val = joinVal sp.join u.val v.val ∧ SameClock sp.n u v)) ∧
      Le sp.join w.val (top sp k) := by
  obtain ⟨hN1, hN2⟩ := h.aux.procN pid p0 h0 hk
  have hmem : (k, v) ∈ p0.items := by rw [hit]; simp
  have hg : Good s.core k v := (h.inv.procG pid p0 h0).2 (k, v) hmem
  obtain ⟨u, hu, hle⟩ := F3 s h.inv h.rq k v hg p0.node hN1
  obtain ⟨w, hw, hwc, hcase⟩ := installOpt_cases s.n s.join u v hle
  obtain ⟨us, hus, _, heq⟩ := h.sub.procS pid p0 h0 hk (k, v) hmem
  rw [h.n] at hN1 hN2 hle hwc hcase heq
  rw [h.join] at hcase heq
  have hU := h.u p0.node hN1 k
  rw [hu, valD_some] at hU
  refine ⟨u, w, hu, hN1, ?_, hwc, hcase, ?_⟩
  · intro i' k'
    rw [install_vers_p2, hu, hw]
  · rcases hcase with ⟨e, _⟩ | ⟨e, hs⟩
    · rw [e]; exact hU
    · rw [e]
      refine join_le hU ?_
      have hUs := h.u p0.src hN2 k
      rw [hus, valD_some] at hUs
      refine le_trans (heq ?_) hUs
      intro c hc
      have h1 := si_same_clock A h p0.node p0.src k hN1 hN2 c hc
      rw [hu, hus, clk_some, clk_some] at h1
      have h2 := hs c hc
      show vcGet v.vc c = vcGet us.vc c
      omega

theorem SI_step
    (F1 : ∀ s a, SubInv s → Inv s → SubInv (step s a))
    (F2 : ∀ s a, isWR s a = false → Inv s → replQuiescent s → replQuiescent (step s a))
    (F3 : F3Stmt) (sp s : St) (a : Act) (A : Agree sp) (h : SI sp s) (hw : isWR s a = false) :
    SI sp (step s a) ∧ Mono sp s (step s a) := by
  have base : (∀ i, i < sp.n → ClAt sp (step s a).vers i) ∧
      (∀ b, b < sp.n → ∀ k, Le sp.join (valD ((step s a).vers b k)) (top sp k)) ∧ Mono sp s (step s a) := by
    rcases step_versChange s a hw with hv | ⟨pid, p0, k, v, rest, h0, hk, hit, hv⟩
    · rw [hv]
      exact ⟨h.cl, h.u, fun b _ k => by rw [hv]; exact le_refl _ _⟩
    · obtain ⟨u, w, hu, hN, hvers, hwc, hcase, htop⟩ := install_ok F3 sp s A h pid p0 k v rest h0 hk hit
      refine ⟨?_, ?_, ?_⟩
      · intro i hi k'
        rw [hv, hvers]
        by_cases e : i = p0.node ∧ k' = k
        · rw [if_pos e]
          obtain ⟨e1, e2⟩ := e
          subst e1; subst e2
          have hcl := h.cl p0.node hi k'
          rw [hu] at hcl
          refine ⟨fun c hc => ?_, hcl.2⟩
          rw [clk_some, hwc c hc, ← clk_some]
          exact hcl.1 c hc
        · rw [if_neg e]; exact h.cl i hi k'
      · intro b hb k'
        rw [hv, hvers]
        by_cases e : b = p0.node ∧ k' = k
        · rw [if_pos e, valD_some, e.2]; exact htop
        · rw [if_neg e]; exact h.u b hb k'
      · intro b hb k'
        rw [hv, hvers]
        by_cases e : b = p0.node ∧ k' = k
        · rw [if_pos e, valD_some, e.1, e.2, hu, valD_some]
          rcases hcase with ⟨e', _⟩ | ⟨e', _⟩
          · rw [e']; exact le_refl _ _
          · rw [e']; exact le_join_left _ _ _
        · rw [if_neg e]; exact le_refl _ _
  exact ⟨⟨step_inv s a h.inv, F1 s a h.sub h.inv, step_aux s a h.aux h.inv, F2 s a hw h.inv h.rq,
    by rw [step_n]; exact h.n, by rw [step_join]; exact h.join, base.1, base.2.1⟩, base.2.2⟩

end HappyModel.C17.MLM
