import HappyProofs.C17.ChainReach
/-! Delivery completeness is preserved by every action; convergence at quiescence. -/
namespace HappyModel.C17.Chain

structure FR (s : St) : Prop where
  fresh : Fresh s
  reach : Reach s

theorem reach_keeps (s s' : St) (hr : Reach s) (hk : Keeps s s') (happ : s'.applied = s.applied)
    (hn : s'.n = s.n) (hle : s.applied ≤ s.seq) : Reach s' := by
  intro q h1 h2 j h3 h4
  rw [happ] at h2; rw [hn] at h4
  exact hk q j (Nat.le_trans h2 hle) (hr q h1 h2 j h3 h4)

theorem fr_fail (s : St) (e : String) (h : FR s) : FR (s.fail e) :=
  ⟨⟨h.fresh.procs_none, h.fresh.msgs_none⟩, h.reach⟩

theorem fr_reply (s : St) (op : Nat) (t : String) (h : FR s) : FR (s.reply op t) :=
  ⟨⟨h.fresh.procs_none, h.fresh.msgs_none⟩, h.reach⟩

theorem fr_spawn (s : St) (p : Proc) (h : FR s) (hle : s.applied ≤ s.seq) : FR (s.spawn p) :=
  ⟨(fresh_spawn s p h.fresh).1, reach_keeps s _ h.reach (fresh_spawn s p h.fresh).2 rfl rfl hle⟩

theorem fr_send (s : St) (m : Msg) (h : FR s) (hle : s.applied ≤ s.seq) : FR (s.send m) :=
  ⟨(fresh_send s m h.fresh).1, reach_keeps s _ h.reach (fresh_send s m h.fresh).2 rfl rfl hle⟩

theorem fr_setProc (s : St) (pid : Nat) (p p' : Proc) (h : FR s) (hle : s.applied ≤ s.seq)
    (hp : s.procs pid = some p) (hnc : ¬ (p.kind = .prop ∧ p.seg = 1 ∧ p.fin = false)) :
    FR (s.setProc pid p') :=
  ⟨(fresh_setProc s pid p p' h.fresh hp hnc).1,
    reach_keeps s _ h.reach (fresh_setProc s pid p p' h.fresh hp hnc).2 rfl rfl hle⟩

theorem fr_markCommitted (s : St) (i k q : Nat) (h : FR s) (hle : s.applied ≤ s.seq) :
    FR (markCommitted s i k q) := by
  obtain ⟨f1, f2, f3, _⟩ := fresh_markCommitted s i k q h.fresh
  exact ⟨f1, reach_keeps s _ h.reach f2 f3 (markCommitted_n s i k q) hle⟩

theorem fr_sendNotes (s : St) (k q i : Nat) (h : FR s) (hle : s.applied ≤ s.seq) :
    FR (sendNotes s k q i) := by
  induction i generalizing s with
  | zero => exact h
  | succ i ih => unfold sendNotes; exact ih _ (fr_send s _ h hle) hle

/-- flagging a non-Propagate message delivered loses no carrier -/
theorem fr_flag_other (s : St) (mid : Nat) (m : Msg) (h : FR s) (hle : s.applied ≤ s.seq)
    (hm : s.msgs mid = some m) (hk : m.kind ≠ .prop) :
    FR { s with msgs := upd s.msgs mid (some { m with delivered := true }) } := by
  have hlt : mid < s.nm := by
    by_cases hh : mid < s.nm
    · exact hh
    · rw [h.fresh.msgs_none mid (by omega)] at hm; cases hm
  refine ⟨⟨h.fresh.procs_none, ?_⟩, reach_keeps s _ h.reach (keeps_of s _ (fun _ _ => rfl) (fun _ _ => Nat.le_refl _) ?_
    (fun _ _ hq _ _ _ => hq)) rfl rfl hle⟩
  · intro x hx
    have hx : s.nm ≤ x := hx
    show upd s.msgs mid (some { m with delivered := true }) x = none
    rw [upd_other _ _ _ _ (by omega)]; exact h.fresh.msgs_none x hx
  · intro x mx hx hxk _
    have : x ≠ mid := by intro e; subst e; rw [hm] at hx; cases hx; exact hk hxk
    show upd s.msgs mid (some { m with delivered := true }) x = some mx
    rw [upd_other _ _ _ _ this]; exact hx

/-- delivering a Propagate: the message's load passes to the new handler -/
theorem fr_deliver_prop (s : St) (mid : Nat) (m : Msg) (h : FR s) (hle : s.applied ≤ s.seq)
    (hm : s.msgs mid = some m) :
    FR (({ s with msgs := upd s.msgs mid (some { m with delivered := true }) } : St).spawn
      { kind := .prop, node := m.dst, key := m.key, val := m.val, seq := m.seq, op := mid }) := by
  have hlt : mid < s.nm := by
    by_cases hh : mid < s.nm
    · exact hh
    · rw [h.fresh.msgs_none mid (by omega)] at hm; cases hm
  let pn : Proc := { kind := .prop, node := m.dst, key := m.key, val := m.val, seq := m.seq, op := mid }
  refine ⟨⟨?_, ?_⟩, ?_⟩
  · intro x hx
    have hx : s.np + 1 ≤ x := hx
    show upd s.procs s.np (some pn) x = none
    rw [upd_other _ _ _ _ (by omega)]; exact h.fresh.procs_none x (by omega)
  · intro x hx
    have hx : s.nm ≤ x := hx
    show upd s.msgs mid (some { m with delivered := true }) x = none
    rw [upd_other _ _ _ _ (by omega)]; exact h.fresh.msgs_none x hx
  · intro q h1 h2 j h3 h4
    have h2 : q ≤ s.applied := h2
    have h4 : j < s.n := h4
    rcases h.reach q h1 h2 j h3 h4 with c | ⟨x, mx, c1, c2, c3, c4, c5⟩ | ⟨x, r, c1, c2, c3, c4, c5, c6⟩
    · exact Or.inl c
    · by_cases hxm : x = mid
      · subst hxm; rw [hm] at c1; cases c1
        refine Or.inr (Or.inr ⟨s.np, pn, ?_, rfl, c3, c4, rfl, rfl⟩)
        show upd s.procs s.np (some pn) s.np = some pn
        rw [upd_same]
      · refine Or.inr (Or.inl ⟨x, mx, ?_, c2, c3, c4, c5⟩)
        show upd s.msgs mid (some { m with delivered := true }) x = some mx
        rw [upd_other _ _ _ _ hxm]; exact c1
    · refine Or.inr (Or.inr ⟨x, r, ?_, c2, c3, c4, c5, c6⟩)
      have : x ≠ s.np := by intro e; subst e; rw [h.fresh.procs_none _ (Nat.le_refl _)] at c1; cases c1
      show upd s.procs s.np (some pn) x = some r
      rw [upd_other _ _ _ _ this]; exact c1

end HappyModel.C17.Chain
