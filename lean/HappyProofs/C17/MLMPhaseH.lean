import HappyProofs.C17.MLMPhaseG
/-!
Run-level composition, part H: the three ways a step of the phase acts on the ghost invariant —
it touches no request (`GI_quiet`), it advances / finishes a request handler (`GI_handler`), or it is
a valid anti-entropy tick (`GI_tick`).
-/
namespace HappyModel.C17.MLM
open HappyModel.C17.ML (Version Msg Proc MKind PKind vcGet dominates vcMerge vcTick)

theorem GI_quiet {sp s s' : St} {g : GK} (h : GI sp s g) (haux : AuxInv s) (hn : s.n = sp.n)
    (mono : Mono sp s s')
    (hM : ∀ mid m, s'.msgs mid = some m → m.kind = .aereq → m.delivered = false → s.msgs mid = some m)
    (hP : ∀ pid p, s'.procs pid = some p → p.kind = .aereq → p.fin = false → s.procs pid = some p) :
    GI sp s' g :=
  GI_frame h haux hn mono (fun _ _ => Or.inl rfl)
    (fun mid m hm hk hd => Or.inl ⟨hM mid m hm hk hd, rfl⟩)
    (fun pid p hp hk hf => Or.inl ⟨hP pid p hp hk hf, rfl⟩)

/-- a step that leaves request handler `PID` as `p'` (delivery of the request, a resumption) -/
theorem GI_handler {sp s s' : St} {g g' : GK} (hg : GI sp s g) (haux : AuxInv s) (hn : s.n = sp.n)
    (mono : Mono sp s s') (PID : Nat) (p' : Proc)
    (hprocs : s'.procs = upd s.procs PID (some p'))
    (hmsgs : ∀ mid m, s'.msgs mid = some m → m.kind = .aereq → m.delivered = false → s.msgs mid = some m)
    (post : ∀ h, h ∈ g.sk p'.op → ∀ k, Le sp.join (x0 sp h k) (valD (s'.vers p'.node k)) ∨
      (p'.fin = false ∧ p'.sent = false ∧ ∃ v, (k, v) ∈ p'.items ∧ Wit sp h k v))
    (hg' : g' = if p'.fin = true then { g with k := upd g.k p'.node (g.k p'.node ++ g.sk p'.op) } else g) :
    GI sp s' g' := by
  subst hg'
  by_cases hf : p'.fin = true
  · rw [if_pos hf]
    refine GI_frame hg haux hn mono ?_ (fun mid m hm hk hd => Or.inl ⟨hmsgs mid m hm hk hd, rfl⟩) ?_
    · intro b hb
      by_cases e : b = p'.node
      · right
        subst e
        intro x hx k
        have hx' : x ∈ upd g.k p'.node (g.k p'.node ++ g.sk p'.op) p'.node := hx
        rw [upd_same] at hx'
        rcases List.mem_append.mp hx' with m | m
        · exact le_trans (hg.l p'.node hb x m k) (mono p'.node hb k)
        · rcases post x m k with r | ⟨r, _⟩
          · exact r
          · rw [hf] at r; cases r
      · left
        show upd g.k p'.node _ b = g.k b
        rw [upd_other _ _ _ _ e]
    · intro pid p hp hk hfp
      rw [hprocs, upd_apply] at hp
      split at hp
      · cases hp; rw [hf] at hfp; cases hfp
      · exact Or.inl ⟨hp, rfl⟩
  · rw [if_neg hf]
    refine GI_frame hg haux hn mono (fun _ _ => Or.inl rfl)
      (fun mid m hm hk hd => Or.inl ⟨hmsgs mid m hm hk hd, rfl⟩) ?_
    intro pid p hp hk hfp
    rw [hprocs, upd_apply] at hp
    split at hp
    · cases hp
      right
      intro x hx k
      rcases post x hx k with r | ⟨_, r2, r3⟩
      · exact Or.inl r
      · exact Or.inr ⟨r2, r3⟩
    · exact Or.inl ⟨hp, rfl⟩

theorem kstep_handler (s : St) (g : GK) (a : Act) (hw : isWR s a = false)
    (hne : ∀ node peer, a ≠ .ae node peer) (C : Prop) [Decidable C] (b mid : Nat)
    (hf : finishedReq s a = if C then some (b, mid) else none) :
    kstep s g a = if C then { g with k := upd g.k b (g.k b ++ g.sk mid) } else g := by
  by_cases hc : C
  · rw [if_pos hc] at hf ⊢; exact kstep_some s g a hw hne b mid hf
  · rw [if_neg hc] at hf ⊢; exact kstep_none s g a hw hne hf

/-- a merge loop sends at most an `AntiEntropyResponse` -/
theorem ae_msgs_frame {s1 : St} {pid : Nat} {p : Proc} {items : List (Nat × Version)} {p' : Proc} {s' : St}
    (sh : AeShape s1 pid p items p' s') (mid : Nat) (q : Msg) (hq : s'.msgs mid = some q)
    (hk : q.kind = .aereq) : s1.msgs mid = some q := by
  rcases sh.msgs with ⟨e, _⟩ | ⟨_, _, _, m', e, mk, _⟩
  · rw [e] at hq; exact hq
  · rw [e, upd_apply] at hq
    split at hq
    · cases hq; rw [mk] at hk; cases hk
    · exact hq

/-- a valid anti-entropy tick: the request carries the sender's versions, the snapshot its knowledge -/
theorem GI_tick {sp s s' : St} {g : GK} (A : Agree sp) (hs : SI sp s) (hg : GI sp s g) (node peer : Nat)
    (hnode : node < sp.n) (hv : s'.vers = s.vers)
    (hm : s'.msgs = upd s.msgs s.nm
      (some { kind := .aereq, src := node, dst := peer, items := versionsOf s node, hash := s.store node }))
    (hP : ∀ pid p, s'.procs pid = some p → p.kind = .aereq → p.fin = false → s.procs pid = some p) :
    GI sp s' { g with sk := upd g.sk s.nm (g.k node) } := by
  refine GI_frame hg hs.aux hs.n (mono_refl sp s s' hv) (fun _ _ => Or.inl rfl) ?_ ?_
  · intro mid m hmm hk hd
    rw [hm, upd_apply] at hmm
    split at hmm
    · rename_i e
      subst e
      cases hmm
      right
      intro x hx k
      have hx' : x ∈ upd g.sk s.nm (g.k node) s.nm := hx
      rw [upd_same] at hx'
      have hl := hg.l node hnode x hx' k
      cases hvk : s.vers node k with
      | none =>
        left
        rw [hvk] at hl
        exact le_zero_eq hl
      | some u =>
        right
        rw [hvk, valD_some] at hl
        refine ⟨u, ?_, ?_, hl⟩
        · show (k, u) ∈ versionsOf s node
          unfold versionsOf
          rw [List.mem_filterMap]
          refine ⟨k, hs.aux.ord node k (by rw [hvk]; rfl), ?_⟩
          rw [hvk]; rfl
        · intro i hi
          obtain ⟨c1, c2⟩ := hs.cl node hnode k
          rw [hvk] at c1 c2
          obtain ⟨a1, a2⟩ := A node i k (by rw [← hs.n] at hnode ⊢; exact hnode) (by rw [← hs.n] at hi ⊢; exact hi)
          cases hvi : sp.vers i k with
          | none =>
            rw [hvi] at a2
            rw [← c2] at a2
            cases a2
          | some ui =>
            refine ⟨ui, rfl, fun c hc => ?_⟩
            have h1 := c1 c hc
            have h2 := a1 c hc
            rw [hvi] at h2
            rw [clk_some] at h1 h2
            rw [← h2, ← h1]
    · rename_i e
      left
      exact ⟨hmm, by show upd g.sk s.nm _ mid = _; rw [upd_other _ _ _ _ e]⟩
  · intro pid p hp hk hf
    left
    have h0 := hP pid p hp hk hf
    refine ⟨h0, ?_⟩
    have := hs.aux.opLt pid p h0 hk
    show upd g.sk s.nm _ p.op = _
    rw [upd_other _ _ _ _ (by omega)]

end HappyModel.C17.MLM
