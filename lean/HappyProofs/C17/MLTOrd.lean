import HappyProofs.C17.MLMAlg
import HappyModel.C17.MLT
/-!
Vector-clock dominance (`_vc_dominates`: all components ≥ and one >, a missing component read as 0,
over the union of both id sets — in the model: over all `n` leaders) is a strict partial order, whatever
the supports of the two clocks are.  In particular two clocks with disjoint non-zero components never
dominate each other: they are concurrent, and the resolver decides.  (Leaders on a star or a line carry
snapshots with different id sets; a `_vc_dominates` that walks only one clock's entries makes each of two
such clocks dominate the other.)
-/
namespace HappyModel.C17.MLT
open HappyModel.C17.ML (Version vcGet dominates)
open HappyModel.C17.MLM (dominates_le dominates_strict)

theorem dominates_of (n : Nat) (a b : List Nat) (hle : ∀ c, c < n → vcGet b c ≤ vcGet a c)
    (hlt : ∃ c, c < n ∧ vcGet b c < vcGet a c) : dominates n a b = true := by
  unfold dominates
  rw [Bool.and_eq_true]
  constructor
  · rw [List.all_eq_true]
    intro c hc
    simpa using hle c (List.mem_range.mp hc)
  · rw [List.any_eq_true]
    obtain ⟨c, hc, h⟩ := hlt
    exact ⟨c, List.mem_range.mpr hc, by simpa using h⟩

theorem dominates_irrefl (n : Nat) (a : List Nat) : dominates n a a = false := by
  cases h : dominates n a a with
  | false => rfl
  | true => obtain ⟨c, _, hlt⟩ := dominates_strict h; omega

theorem dominates_asymm (n : Nat) (a b : List Nat) (h : dominates n a b = true) : dominates n b a = false := by
  cases h2 : dominates n b a with
  | false => rfl
  | true =>
    obtain ⟨c, hc, hlt⟩ := dominates_strict h
    have := dominates_le h2 c hc
    omega

theorem dominates_trans (n : Nat) (a b c : List Nat) (h1 : dominates n a b = true) (h2 : dominates n b c = true) :
    dominates n a c = true := by
  apply dominates_of
  · intro x hx
    have := dominates_le h1 x hx
    have := dominates_le h2 x hx
    omega
  · obtain ⟨x, hx, hlt⟩ := dominates_strict h1
    have := dominates_le h2 x hx
    exact ⟨x, hx, by omega⟩

/-- clocks with disjoint supports are concurrent: neither dominates -/
theorem disjoint_concurrent (n : Nat) (a b : List Nat) (ha : ∃ c, c < n ∧ 0 < vcGet a c ∧ vcGet b c = 0)
    (hb : ∃ c, c < n ∧ 0 < vcGet b c ∧ vcGet a c = 0) : dominates n a b = false ∧ dominates n b a = false := by
  constructor
  · cases h : dominates n a b with
    | false => rfl
    | true =>
      obtain ⟨c, hc, h1, h2⟩ := hb
      have := dominates_le h c hc
      omega
  · cases h : dominates n b a with
    | false => rfl
    | true =>
      obtain ⟨c, hc, h1, h2⟩ := ha
      have := dominates_le h c hc
      omega

/-- on any topology and with either kind of resolver, concurrent versions are decided by the resolver:
    `takesR` / `pickR` reduce to the last-writer-wins comparison resp. the join -/
theorem concurrent_decided_by_resolver (s : St) (e inc : Version)
    (h1 : dominates s.n inc.vc e.vc = false) (h2 : dominates s.n e.vc inc.vc = false) :
    (s.lww = true → takesR s (some e) inc = ML.lwwLt e inc) ∧
    (s.lww = false → takesR s (some e) inc = true ∧ pickR s (some e) inc = MLM.joinVer s.n s.join e inc) := by
  constructor
  · intro hl
    simp [takesR, hl, ML.takes, h1, h2]
  · intro hl
    simp [takesR, pickR, hl, MLM.takes, MLM.pick, h1, h2]

end HappyModel.C17.MLT
