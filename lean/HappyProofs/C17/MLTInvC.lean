import HappyProofs.C17.MLTInvB
/-!
`MLT` run level, part C: every action preserves `SubInv` — an anti-entropy copy is never above the
current version of its sender (last-writer-wins resolver on a coherent family: `_install` only moves a
replica's version up in the total order `vlt`).
-/
namespace HappyModel.C17.MLT
open HappyModel.C17.ML (Version Msg Proc MKind PKind vcGet dominates vcMerge vcTick Coherent vlt)
open HappyModel.C17.MLM (Join)

theorem sub_frame {s s' : St} (h : SubInv s) (e1 : s'.msgs = s.msgs) (e2 : s'.procs = s.procs)
    (e3 : s'.vers = s.vers) : SubInv s' :=
  ⟨by rw [e1, e3]; exact h.msgS, by rw [e2, e3]; exact h.procS⟩

theorem sub_spawn {s : St} (h : SubInv s) (p : Proc)
    (hs : (p.kind = .aereq ∨ p.kind = .aeresp) → ∀ kv, kv ∈ p.items → OGe (s.vers p.src kv.1) kv.2) :
    SubInv (s.spawn p) := by
  refine ⟨h.msgS, ?_⟩
  intro pid q hq hk
  have hq' : (if pid = s.np then some p else s.procs pid) = some q := hq
  split at hq'
  · cases hq'; exact hs hk
  · exact h.procS pid q hq' hk

theorem sub_setProc {s : St} (h : SubInv s) (pid : Nat) (p : Proc)
    (hs : (p.kind = .aereq ∨ p.kind = .aeresp) → ∀ kv, kv ∈ p.items → OGe (s.vers p.src kv.1) kv.2) :
    SubInv (s.setProc pid p) := by
  refine ⟨h.msgS, ?_⟩
  intro pid1 q hq hk
  have hq' : (if pid1 = pid then some p else s.procs pid1) = some q := hq
  split at hq'
  · cases hq'; exact hs hk
  · exact h.procS pid1 q hq' hk

theorem sub_send {s : St} (h : SubInv s) (m : Msg)
    (hs : (m.kind = .aereq ∨ m.kind = .aeresp) → ∀ kv, kv ∈ m.items → OGe (s.vers m.src kv.1) kv.2) :
    SubInv (s.send m) := by
  refine ⟨?_, h.procS⟩
  intro mid q hq hk
  have hq' : (if mid = s.nm then some m else s.msgs mid) = some q := hq
  split at hq'
  · cases hq'; exact hs hk
  · exact h.msgS mid q hq' hk

theorem sub_setMsg {s : St} (h : SubInv s) (mid : Nat) (m : Msg)
    (hs : (m.kind = .aereq ∨ m.kind = .aeresp) → ∀ kv, kv ∈ m.items → OGe (s.vers m.src kv.1) kv.2) :
    SubInv (setMsg s mid m) := by
  refine ⟨?_, h.procS⟩
  intro mid1 q hq hk
  have hq' : (if mid1 = mid then some m else s.msgs mid1) = some q := hq
  split at hq'
  · cases hq'; exact hs hk
  · exact h.msgS mid1 q hq' hk

/-- installing a version that `takes` keeps every `OGe` -/
theorem oge_setVer {P} {s : St} (hc : ∀ k, Coherent s.n (P k)) (hT : TInv P s) (i k : Nat) (inc : Version)
    (hinc : P k inc) (ht : ML.takes s.n (s.vers i k) inc = true) {src k' : Nat} {v : Version}
    (hg : OGe (s.vers src k') v) : OGe ((setVer s i k inc).vers src k') v := by
  show OGe (upd2 s.vers i k (some inc) src k') v
  rw [upd2_apply]
  split
  · rename_i e
    obtain ⟨e1, e2⟩ := e
    subst e1; subst e2
    obtain ⟨u, hu, hnv⟩ := hg
    rw [hu] at ht
    have hlt := (ML.takes_iff_lt s.n (P k') (hc k') u inc (hT.versP src k' u hu) hinc).mp ht
    exact ⟨inc, rfl, fun h => hnv (ML.vlt_trans u inc v hlt h)⟩
  · exact hg

theorem sub_setVer {P} {s : St} (hc : ∀ k, Coherent s.n (P k)) (hT : TInv P s) (h : SubInv s) (i k : Nat)
    (inc : Version) (hinc : P k inc) (ht : ML.takes s.n (s.vers i k) inc = true) : SubInv (setVer s i k inc) :=
  ⟨fun mid m hm hk kv hkv => oge_setVer hc hT i k inc hinc ht (h.msgS mid m hm hk kv hkv),
   fun pid p hp hk kv hkv => oge_setVer hc hT i k inc hinc ht (h.procS pid p hp hk kv hkv)⟩

theorem sub_install {P} {s : St} (hl : s.lww = true) (hc : ∀ k, Coherent s.n (P k)) (hT : TInv P s)
    (h : SubInv s) (i k : Nat) (inc : Version) (hinc : P k inc) : SubInv (install s i k inc).1 := by
  rcases install_shape s i k inc with e | ⟨ht, e⟩
  · rw [e]; exact h
  · rw [e, pickR_lww hl]
    rw [takesR_lww hl] at ht
    exact sub_setVer hc hT h i k inc hinc ht

theorem versionsOf_oge (s : St) (i : Nat) : ∀ kv, kv ∈ versionsOf s i → OGe (s.vers i kv.1) kv.2 := by
  intro kv hkv
  unfold versionsOf at hkv
  rw [List.mem_filterMap] at hkv
  obtain ⟨k, _, hk⟩ := hkv
  cases hv : s.vers i k with
  | none => rw [hv] at hk; cases hk
  | some v =>
    rw [hv] at hk; cases hk
    exact ⟨v, hv, ML.vlt_irrefl v⟩

theorem sub_aeContinue {s : St} {pid : Nat} {p : Proc} {items : List (Nat × Version)} (h : SubInv s)
    (hs : ∀ kv, kv ∈ items → OGe (s.vers p.src kv.1) kv.2) : SubInv (aeContinue s pid p items) := by
  obtain ⟨p', _, _, k3, _, _, _, sub, e | ⟨_, e⟩⟩ := aeContinue_shape s pid p items
  · rw [e]
    refine sub_setProc h pid p' ?_
    intro _ kv hkv; rw [k3]; exact hs kv (sub kv hkv)
  · rw [e]
    refine sub_setProc (sub_send h _ ?_) pid p' ?_
    · intro _ kv hkv; exact versionsOf_oge s p.node kv hkv
    · intro _ kv hkv; rw [k3]; exact hs kv (sub kv hkv)

theorem deliver_sub (s : St) (mid : Nat) (h : SubInv s) : SubInv (deliver s mid) := by
  unfold deliver
  cases h0 : s.msgs mid with
  | none => exact sub_frame h rfl rfl rfl
  | some m =>
    simp only
    by_cases hd : m.delivered = true
    · simp only [hd, if_true]; exact sub_frame h rfl rfl rfl
    · have hd' : m.delivered = false := by simpa using hd
      simp only [hd', Bool.false_eq_true, if_false]
      cases hk : m.kind with
      | repl =>
        simp only
        have h1 : SubInv (setMsg s mid { m with kind := .repl, delivered := true }) :=
          sub_setMsg h mid _ (fun e => by simp at e)
        split
        · refine sub_spawn ?_ _ ?_
          · exact sub_frame h1 rfl rfl rfl
          · intro e; simp at e
        · refine sub_spawn ?_ _ ?_
          · exact sub_frame h1 rfl rfl rfl
          · intro e; simp at e
      | aereq =>
        simp only
        have hm := h.msgS mid m h0 (Or.inl hk)
        have h1 : SubInv (setMsg s mid { m with kind := .aereq, delivered := true }) :=
          sub_setMsg h mid _ (fun _ => hm)
        refine sub_aeContinue (sub_spawn h1 _ ?_) ?_
        · intro _ kv hkv; simp at hkv
        · exact hm
      | aeresp =>
        simp only
        have hm := h.msgS mid m h0 (Or.inr hk)
        have h1 : SubInv (setMsg s mid { m with kind := .aeresp, delivered := true }) :=
          sub_setMsg h mid _ (fun _ => hm)
        refine sub_aeContinue (sub_spawn h1 _ ?_) ?_
        · intro _ kv hkv; simp at hkv
        · exact hm

theorem resume_sub {P} (s : St) (pid : Nat) (hl : s.lww = true) (hc : ∀ k, Coherent s.n (P k)) (hT : TInv P s)
    (h : SubInv s) : SubInv (resume s pid) := by
  unfold resume
  cases h0 : s.procs pid with
  | none => exact sub_frame h rfl rfl rfl
  | some p0 =>
    simp only
    by_cases hf : p0.fin = true
    · simp only [hf, if_true]; exact sub_frame h rfl rfl rfl
    · have hf' : p0.fin = false := by simpa using hf
      simp only [hf', Bool.false_eq_true, if_false]
      have hpw := hT.procP pid p0 h0
      cases hk : p0.kind with
      | write =>
        simp only
        have hv : P p0.key p0.ver := hpw.1 (Or.inl hk)
        by_cases hs : p0.seg = 1
        · simp only [hs, if_true]
          have i1 := sub_install hl hc hT h p0.node p0.key p0.ver hv
          have f2 := foldl_send_ind (fun s' => SubInv s')
            (fun j => ({ kind := .repl, src := p0.node, dst := j, key := p0.key, ver := p0.ver } : Msg))
            (fun s' j hs' => sub_send hs' _ (fun e => by simp at e))
            (peersOf s p0.node) (install s p0.node p0.key p0.ver).1 i1
          refine sub_setProc f2 pid _ ?_
          intro e; simp at e
        · simp only [hs, if_false]
          refine sub_setProc ?_ pid _ ?_
          · exact sub_frame h rfl rfl rfl
          · intro e; simp at e
      | repl =>
        simp only
        have hv : P p0.key p0.ver := hpw.1 (Or.inr hk)
        refine sub_setProc (sub_install hl hc hT h p0.node p0.key p0.ver hv) pid _ ?_
        intro e; simp at e
      | read =>
        simp only
        refine sub_setProc ?_ pid _ ?_
        · exact sub_frame h rfl rfl rfl
        · intro e; simp at e
      | ae =>
        simp only
        refine sub_setProc h pid _ ?_
        intro e; simp at e
      | aereq =>
        simp only
        have hps := h.procS pid p0 h0 (Or.inl hk)
        split
        · refine sub_setProc h pid _ ?_
          intro _; exact hps
        · split
          · rename_i k v rest hit
            split
            · have hit' : p0.items = (k, v) :: rest := hit
              have hkv : P k v := hpw.2 (k, v) (by rw [hit']; simp)
              have i1 := sub_install hl hc hT h p0.node k v hkv
              have fr := install_frame s p0.node k v
              have hps' := i1.procS pid p0 (by rw [fr.2.2.2.1]; exact h0) (Or.inl hk)
              refine sub_aeContinue i1 ?_
              intro kv hkv'
              exact hps' kv (by rw [hit']; exact List.mem_cons_of_mem _ hkv')
            · exact sub_frame h rfl rfl rfl
          · exact sub_frame h rfl rfl rfl
      | aeresp =>
        simp only
        have hps := h.procS pid p0 h0 (Or.inr hk)
        split
        · refine sub_setProc h pid _ ?_
          intro _; exact hps
        · split
          · rename_i k v rest hit
            split
            · have hit' : p0.items = (k, v) :: rest := hit
              have hkv : P k v := hpw.2 (k, v) (by rw [hit']; simp)
              have i1 := sub_install hl hc hT h p0.node k v hkv
              have fr := install_frame s p0.node k v
              have hps' := i1.procS pid p0 (by rw [fr.2.2.2.1]; exact h0) (Or.inr hk)
              refine sub_aeContinue i1 ?_
              intro kv hkv'
              exact hps' kv (by rw [hit']; exact List.mem_cons_of_mem _ hkv')
            · exact sub_frame h rfl rfl rfl
          · exact sub_frame h rfl rfl rfl
      | other => simp only; exact sub_frame h rfl rfl rfl

theorem step_sub {P} (s : St) (a : Act) (hl : s.lww = true) (hc : ∀ k, Coherent s.n (P k)) (hT : TInv P s)
    (h : SubInv s) : SubInv (step s a) := by
  cases a with
  | tick t => exact sub_frame h rfl rfl rfl
  | cw op node k v =>
    simp only [step]
    by_cases hn : node ≥ s.n
    · simp only [hn, if_true]; exact sub_frame h rfl rfl rfl
    · simp only [hn, if_false]
      refine sub_spawn ?_ _ ?_
      · exact sub_frame h rfl rfl rfl
      · intro e; simp at e
  | cr op node k =>
    simp only [step]
    by_cases hn : node ≥ s.n
    · simp only [hn, if_true]; exact sub_frame h rfl rfl rfl
    · simp only [hn, if_false]
      refine sub_spawn h _ ?_
      intro e; simp at e
  | dl mid => exact deliver_sub s mid h
  | rs pid => exact resume_sub s pid hl hc hT h
  | ae node peer =>
    simp only [step]
    split
    · exact sub_frame h rfl rfl rfl
    · refine sub_spawn (sub_send h _ ?_) _ ?_
      · intro _; exact versionsOf_oge s node
      · intro e; simp at e

theorem init_sub (n nk : Nat) (jn : Join) (lww : Bool) (adj : List (List Nat)) :
    SubInv (init n nk jn lww adj) := by
  refine ⟨?_, ?_⟩
  · intro mid m hm; cases hm
  · intro pid p hp; cases hp

end HappyModel.C17.MLT
