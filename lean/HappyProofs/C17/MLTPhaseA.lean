import HappyProofs.C17.MLTGhost
/-!
Run-level composition, part A: splitting a run at its last client-write / `Replicate` handler step.
`krun` resets the knowledge ghost at every such step, so what it holds at the end is what the
anti-entropy phase after the last such step computed from `GK.reset`.
-/
namespace HappyModel.C17.MLT
open HappyModel.C17.ML (Version Msg Proc MKind PKind vcGet dominates vcMerge vcTick)
open HappyModel.C17.MLM (GK KComplete)

theorem run_append : ∀ (a b : List Act) (s : St), run s (a ++ b) = run (run s a) b
  | [], _, _ => rfl
  | x :: a, b, s => by
    show run (step s x) (a ++ b) = run (run (step s x) a) b
    exact run_append a b (step s x)

theorem krun_fst : ∀ (acts : List Act) (s : St) (g : GK), (krun s g acts).1 = run s acts
  | [], _, _ => rfl
  | a :: as, s, g => by
    show (krun (step s a) (kstep s g a) as).1 = run (step s a) as
    exact krun_fst as _ _

theorem kstep_wr (s : St) (g : GK) (a : Act) (h : isWR s a = true) : kstep s g a = GK.reset := by
  unfold kstep; rw [if_pos h]

theorem krun_split_gen : ∀ (acts : List Act) (s : St) (g : GK),
    ∃ acts1 acts2 g', acts = acts1 ++ acts2 ∧ noWR (run s acts1) acts2 = true ∧
      (krun s g acts).2 = (krun (run s acts1) g' acts2).2 ∧
      (acts1 = [] → g' = g) ∧ (acts1 ≠ [] → g' = GK.reset)
  | [], s, g => ⟨[], [], g, rfl, rfl, rfl, fun _ => rfl, fun h => absurd rfl h⟩
  | a :: as, s, g => by
    obtain ⟨a1, a2, g', e, hno, hk, h1, h2⟩ := krun_split_gen as (step s a) (kstep s g a)
    cases a1 with
    | nil =>
      have eg : g' = kstep s g a := h1 rfl
      subst eg
      simp only [List.nil_append] at e
      subst e
      by_cases hw : isWR s a = true
      · refine ⟨[a], as, GK.reset, rfl, hno, ?_, (fun h => by cases h), fun _ => rfl⟩
        show (krun (step s a) (kstep s g a) as).2 = _
        rw [kstep_wr s g a hw]; rfl
      · refine ⟨[], a :: as, g, rfl, ?_, rfl, fun _ => rfl, fun h => absurd rfl h⟩
        show (!isWR s a && noWR (step s a) as) = true
        have hw' : isWR s a = false := by simpa using hw
        rw [hw']
        exact hno
    | cons b bs =>
      have eg : g' = GK.reset := h2 (by simp)
      refine ⟨a :: b :: bs, a2, g', by rw [e]; rfl, hno, hk, (fun h => by cases h), fun _ => eg⟩

/-- a run splits at its last write / `Replicate` handler step: the knowledge computed along the whole
run is the knowledge computed from scratch along the remaining, write-free, suffix -/
theorem krun_split (acts : List Act) (s : St) :
    ∃ acts1 acts2, acts = acts1 ++ acts2 ∧ noWR (run s acts1) acts2 = true ∧
      (krun s GK.reset acts).2 = (krun (run s acts1) GK.reset acts2).2 := by
  obtain ⟨a1, a2, g', e, hno, hk, h1, h2⟩ := krun_split_gen acts s GK.reset
  refine ⟨a1, a2, e, hno, ?_⟩
  have : g' = GK.reset := by
    cases a1 with
    | nil => exact h1 rfl
    | cons b bs => exact h2 (by simp)
  rw [this] at hk
  exact hk

end HappyModel.C17.MLT
