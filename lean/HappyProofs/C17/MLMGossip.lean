import HappyProofs.C17.MLMAlg
/-!
"Anti-entropy having run", abstractly.  Once every leader holds the same vector clock for a key
(`MLM.quiescent_clocks_agree`), an anti-entropy exchange only *joins values* (`pick_same_clock`).
This file proves the counting argument that `Spec.gossipComplete` evaluates on a delivery log:

* a tick `tick t a` snapshots leader `a`'s value (and what is known to be included in it) into
  request `t`; `recv t b`: leader `b` has merged request `t`; `noise b v`: leader `b` merges any other
  value that is below the join of the initial values (an `AntiEntropyResponse`, a request ticked
  earlier — all copies of values some leader held);
* `k b` lists the leaders whose *initial* value is known to be included in `b`'s value.

If in the end every leader knows every leader, all leaders hold the same value: the join of all
initial values (`gossip_complete_converges`).  Any interleaving, any overlap of exchanges (requests
that cross), any amount of extra traffic.
-/
namespace HappyModel.C17.MLM

/-- the semilattice order of the join -/
def Le (j : Join) (a b : Nat) : Prop := joinVal j a b = b

theorem le_refl (j : Join) (a : Nat) : Le j a a := joinVal_idem j a

theorem le_trans {j : Join} {a b c : Nat} (h1 : Le j a b) (h2 : Le j b c) : Le j a c := by
  unfold Le at *
  rw [← h2, ← joinVal_assoc, h1]

theorem le_antisymm {j : Join} {a b : Nat} (h1 : Le j a b) (h2 : Le j b a) : a = b := by
  unfold Le at *
  rw [← h2, joinVal_comm, h1]

theorem le_join_left (j : Join) (a b : Nat) : Le j a (joinVal j a b) := by
  unfold Le
  rw [← joinVal_assoc, joinVal_idem]

theorem le_join_right (j : Join) (a b : Nat) : Le j b (joinVal j a b) := by
  unfold Le
  rw [joinVal_comm j a b, ← joinVal_assoc, joinVal_idem]

theorem join_le {j : Join} {a b c : Nat} (h1 : Le j a c) (h2 : Le j b c) : Le j (joinVal j a b) c := by
  unfold Le at *
  rw [joinVal_assoc, h2, h1]

theorem zero_le (j : Join) (a : Nat) : Le j 0 a := joinVal_zero j a

/-- join of `x 0 … x (m-1)` -/
def bigJoin (j : Join) (x : Nat → Nat) : Nat → Nat
  | 0 => 0
  | m + 1 => joinVal j (bigJoin j x m) (x m)

theorem le_bigJoin (j : Join) (x : Nat → Nat) (m h : Nat) (hh : h < m) : Le j (x h) (bigJoin j x m) := by
  induction m with
  | zero => omega
  | succ m ih =>
    show Le j (x h) (joinVal j (bigJoin j x m) (x m))
    by_cases e : h = m
    · subst e; exact le_join_right j _ _
    · exact le_trans (ih (by omega)) (le_join_left j _ _)

theorem bigJoin_le (j : Join) (x : Nat → Nat) (m c : Nat) (h : ∀ h, h < m → Le j (x h) c) :
    Le j (bigJoin j x m) c := by
  induction m with
  | zero => exact zero_le j c
  | succ m ih =>
    show Le j (joinVal j (bigJoin j x m) (x m)) c
    exact join_le (ih (fun h' hh => h h' (by omega))) (h m (by omega))

inductive GEv
  | tick (t a : Nat)
  | recv (t b : Nat)
  | noise (b v : Nat)

structure GSt where
  x : Nat → Nat
  k : Nat → List Nat
  sx : Nat → Nat
  sk : Nat → List Nat

def gstep (j : Join) (s : GSt) : GEv → GSt
  | .tick t a => { s with sx := upd s.sx t (s.x a), sk := upd s.sk t (s.k a) }
  | .recv t b => { s with x := upd s.x b (joinVal j (s.x b) (s.sx t)), k := upd s.k b (s.k b ++ s.sk t) }
  | .noise b v => { s with x := upd s.x b (joinVal j (s.x b) v) }

def grun (j : Join) (s : GSt) (evs : List GEv) : GSt := evs.foldl (gstep j) s

def ginit (x0 : Nat → Nat) : GSt := ⟨x0, fun i => [i], fun _ => 0, fun _ => []⟩

/-- ticks come from leaders; stray values are below the join of everything -/
def EvOK (j : Join) (n g : Nat) : GEv → Prop
  | .tick _ a => a < n
  | .recv _ _ => True
  | .noise _ v => Le j v g

structure GInv (j : Join) (n : Nat) (x0 : Nat → Nat) (s : GSt) : Prop where
  xle : ∀ b, b < n → Le j (s.x b) (bigJoin j x0 n)
  sle : ∀ t, Le j (s.sx t) (bigJoin j x0 n)
  kx : ∀ b h, h ∈ s.k b → Le j (x0 h) (s.x b)
  ks : ∀ t h, h ∈ s.sk t → Le j (x0 h) (s.sx t)

theorem ginit_inv (j : Join) (n : Nat) (x0 : Nat → Nat) : GInv j n x0 (ginit x0) :=
  ⟨fun b hb => le_bigJoin j x0 n b hb, fun _ => zero_le j _,
   fun b h hh => by
     have : h = b := by simpa [ginit] using hh
     subst this; exact le_refl j _,
   fun t h hh => by simp [ginit] at hh⟩

theorem gstep_inv (j : Join) (n : Nat) (x0 : Nat → Nat) (s : GSt) (e : GEv)
    (h : GInv j n x0 s) (he : EvOK j n (bigJoin j x0 n) e) : GInv j n x0 (gstep j s e) := by
  cases e with
  | tick t a =>
    refine ⟨h.xle, ?_, h.kx, ?_⟩
    · intro t'
      show Le j (upd s.sx t (s.x a) t') _
      rw [upd_apply]; split
      · exact h.xle a he
      · exact h.sle t'
    · intro t' h'
      show h' ∈ upd s.sk t (s.k a) t' → Le j (x0 h') (upd s.sx t (s.x a) t')
      rw [upd_apply, upd_apply]; split
      · exact h.kx a h'
      · exact h.ks t' h'
  | recv t b =>
    refine ⟨?_, h.sle, ?_, h.ks⟩
    · intro b' hb'
      show Le j (upd s.x b (joinVal j (s.x b) (s.sx t)) b') _
      rw [upd_apply]; split
      · rename_i e; subst e; exact join_le (h.xle b' hb') (h.sle t)
      · exact h.xle b' hb'
    · intro b' h'
      show h' ∈ upd s.k b (s.k b ++ s.sk t) b' → Le j (x0 h') (upd s.x b (joinVal j (s.x b) (s.sx t)) b')
      rw [upd_apply, upd_apply]; split
      · intro hm
        rcases List.mem_append.mp hm with hm | hm
        · exact le_trans (h.kx b h' hm) (le_join_left j _ _)
        · exact le_trans (h.ks t h' hm) (le_join_right j _ _)
      · exact h.kx b' h'
  | noise b v =>
    refine ⟨?_, h.sle, ?_, h.ks⟩
    · intro b' hb'
      show Le j (upd s.x b (joinVal j (s.x b) v) b') _
      rw [upd_apply]; split
      · rename_i e; subst e; exact join_le (h.xle b' hb') he
      · exact h.xle b' hb'
    · intro b' h'
      show h' ∈ s.k b' → Le j (x0 h') (upd s.x b (joinVal j (s.x b) v) b')
      rw [upd_apply]; split
      · rename_i e; subst e
        intro hm; exact le_trans (h.kx b' h' hm) (le_join_left j _ _)
      · exact h.kx b' h'

theorem grun_inv (j : Join) (n : Nat) (x0 : Nat → Nat) (evs : List GEv) (s : GSt)
    (h : GInv j n x0 s) (he : ∀ e, e ∈ evs → EvOK j n (bigJoin j x0 n) e) : GInv j n x0 (grun j s evs) := by
  induction evs generalizing s with
  | nil => exact h
  | cons e es ih =>
    show GInv j n x0 (grun j (gstep j s e) es)
    exact ih _ (gstep_inv j n x0 s e h (he e (by simp))) (fun e' he' => he e' (by simp [he']))

/-- every leader knows every leader -/
def Complete (n : Nat) (s : GSt) : Prop := ∀ i, i < n → ∀ h, h < n → h ∈ s.k i

/-- **complete gossip ⇒ agreement**: every leader ends on the join of all initial values -/
theorem gossip_complete_converges (j : Join) (n : Nat) (x0 : Nat → Nat) (evs : List GEv)
    (he : ∀ e, e ∈ evs → EvOK j n (bigJoin j x0 n) e) (hc : Complete n (grun j (ginit x0) evs))
    (i : Nat) (hi : i < n) : (grun j (ginit x0) evs).x i = bigJoin j x0 n := by
  have h := grun_inv j n x0 evs (ginit x0) (ginit_inv j n x0) he
  exact le_antisymm (h.xle i hi) (bigJoin_le j x0 n _ (fun h' hh => h.kx i h' (hc i hi h' hh)))

end HappyModel.C17.MLM
