import HappyProofs.C17.ChainProps
/-!
Delivery completeness for the chain: every write the head has applied is, for every downstream
node `j`, either applied/superseded at `j` or still carried towards it by an undelivered
`Propagate` message or by a Propagate handler that has not run its apply segment yet.
-/
namespace HappyModel.C17.Chain

def MsgCarries (s : St) (q j : Nat) : Prop :=
  ∃ mid m, s.msgs mid = some m ∧ m.kind = .prop ∧ m.seq = q ∧ m.dst ≤ j ∧ m.delivered = false

def ProcCarries (s : St) (q j : Nat) : Prop :=
  ∃ pid p, s.procs pid = some p ∧ p.kind = .prop ∧ p.seq = q ∧ p.node ≤ j ∧ p.seg = 1 ∧ p.fin = false

def Carried (s : St) (q j : Nat) : Prop :=
  q ≤ s.aseq j (s.wk q) ∨ MsgCarries s q j ∨ ProcCarries s q j

structure Fresh (s : St) : Prop where
  procs_none : ∀ pid, s.np ≤ pid → s.procs pid = none
  msgs_none : ∀ mid, s.nm ≤ mid → s.msgs mid = none

def Reach (s : St) : Prop :=
  ∀ q, 1 ≤ q → q ≤ s.applied → ∀ j, 1 ≤ j → j < s.n → Carried s q j

/-- `s'` keeps everything `s` carries (for writes whose key is already fixed) -/
def Keeps (s s' : St) : Prop := ∀ q j, q ≤ s.seq → Carried s q j → Carried s' q j

theorem Keeps.trans {a b c : St} (h1 : Keeps a b) (h2 : Keeps b c) (hs : a.seq ≤ b.seq) : Keeps a c :=
  fun q j hq hc => h2 q j (Nat.le_trans hq hs) (h1 q j hq hc)

/-- generic: messages and prop-processes that carry something are kept, `aseq` grows, keys fixed -/
theorem keeps_of (s s' : St) (hwk : ∀ q, q ≤ s.seq → s'.wk q = s.wk q)
    (ha : ∀ i k, s.aseq i k ≤ s'.aseq i k)
    (hm : ∀ mid m, s.msgs mid = some m → m.kind = .prop → m.delivered = false → s'.msgs mid = some m)
    (hp : ∀ pid p, s.procs pid = some p → p.kind = .prop → p.seg = 1 → p.fin = false →
      s'.procs pid = some p) : Keeps s s' := by
  intro q j hq hc
  rcases hc with h | ⟨mid, m, h1, h2, h3, h4, h5⟩ | ⟨pid, p, h1, h2, h3, h4, h5, h6⟩
  · left; rw [hwk q hq]; exact Nat.le_trans h (ha _ _)
  · right; left; exact ⟨mid, m, hm mid m h1 h2 h5, h2, h3, h4, h5⟩
  · right; right; exact ⟨pid, p, hp pid p h1 h2 h5 h6, h2, h3, h4, h5, h6⟩

theorem fresh_spawn (s : St) (p : Proc) (hf : Fresh s) : Fresh (s.spawn p) ∧ Keeps s (s.spawn p) := by
  refine ⟨⟨?_, hf.msgs_none⟩, keeps_of s _ (fun _ _ => rfl) (fun _ _ => Nat.le_refl _) (fun _ _ h _ _ => h) ?_⟩
  · intro pid hpid
    have hpid : s.np + 1 ≤ pid := hpid
    show upd s.procs s.np (some p) pid = none
    rw [upd_other _ _ _ _ (by omega)]; exact hf.procs_none pid (by omega)
  · intro pid q hq _ _ _
    have : pid ≠ s.np := by intro e; subst e; rw [hf.procs_none _ (Nat.le_refl _)] at hq; cases hq
    show upd s.procs s.np (some p) pid = some q
    rw [upd_other _ _ _ _ this]; exact hq

theorem fresh_send (s : St) (m : Msg) (hf : Fresh s) : Fresh (s.send m) ∧ Keeps s (s.send m) := by
  refine ⟨⟨hf.procs_none, ?_⟩, keeps_of s _ (fun _ _ => rfl) (fun _ _ => Nat.le_refl _) ?_ (fun _ _ h _ _ _ => h)⟩
  · intro mid hmid
    have hmid : s.nm + 1 ≤ mid := hmid
    show upd s.msgs s.nm (some m) mid = none
    rw [upd_other _ _ _ _ (by omega)]; exact hf.msgs_none mid (by omega)
  · intro mid q hq _ _
    have : mid ≠ s.nm := by intro e; subst e; rw [hf.msgs_none _ (Nat.le_refl _)] at hq; cases hq
    show upd s.msgs s.nm (some m) mid = some q
    rw [upd_other _ _ _ _ this]; exact hq

/-- replacing a process that is not (any more) a carrier -/
theorem fresh_setProc (s : St) (pid : Nat) (p p' : Proc) (hf : Fresh s) (hp : s.procs pid = some p)
    (hnc : ¬ (p.kind = .prop ∧ p.seg = 1 ∧ p.fin = false)) :
    Fresh (s.setProc pid p') ∧ Keeps s (s.setProc pid p') := by
  have hlt : pid < s.np := by
    by_cases hh : pid < s.np
    · exact hh
    · rw [hf.procs_none pid (by omega)] at hp; cases hp
  refine ⟨⟨?_, hf.msgs_none⟩, keeps_of s _ (fun _ _ => rfl) (fun _ _ => Nat.le_refl _) (fun _ _ h _ _ => h) ?_⟩
  · intro x hx
    have hx : s.np ≤ x := hx
    show upd s.procs pid (some p') x = none
    rw [upd_other _ _ _ _ (by omega)]; exact hf.procs_none x hx
  · intro x q hq h1 h2 h3
    have : x ≠ pid := by
      intro e; subst e; rw [hp] at hq; cases hq; exact hnc ⟨h1, h2, h3⟩
    show upd s.procs pid (some p') x = some q
    rw [upd_other _ _ _ _ this]; exact hq

theorem fresh_reply (s : St) (op : Nat) (t : String) (hf : Fresh s) :
    Fresh (s.reply op t) ∧ Keeps s (s.reply op t) :=
  ⟨⟨hf.procs_none, hf.msgs_none⟩, fun _ _ _ h => h⟩

theorem fresh_markCommitted (s : St) (i k q : Nat) (hf : Fresh s) :
    Fresh (markCommitted s i k q) ∧ Keeps s (markCommitted s i k q) ∧
    (markCommitted s i k q).applied = s.applied ∧ (markCommitted s i k q).seq = s.seq := by
  unfold markCommitted; dsimp only
  split <;> exact ⟨⟨hf.procs_none, hf.msgs_none⟩, fun _ _ _ h => h, rfl, rfl⟩

theorem fresh_applyAt (s : St) (i k v q : Nat) (hf : Fresh s) (hm : Mono s (applyAt s i k v q)) :
    Fresh (applyAt s i k v q) ∧ Keeps s (applyAt s i k v q) ∧
    (applyAt s i k v q).applied = s.applied ∧ (applyAt s i k v q).seq = s.seq ∧
    (applyAt s i k v q).procs = s.procs ∧ (applyAt s i k v q).msgs = s.msgs ∧
    (applyAt s i k v q).nm = s.nm := by
  have e1 : (applyAt s i k v q).procs = s.procs := by unfold applyAt; split <;> rfl
  have e2 : (applyAt s i k v q).msgs = s.msgs := by unfold applyAt; split <;> rfl
  have e3 : (applyAt s i k v q).np = s.np := by unfold applyAt; split <;> rfl
  have e4 : (applyAt s i k v q).nm = s.nm := by unfold applyAt; split <;> rfl
  have e5 : (applyAt s i k v q).applied = s.applied := by unfold applyAt; split <;> rfl
  have e6 : (applyAt s i k v q).seq = s.seq := by unfold applyAt; split <;> rfl
  refine ⟨⟨by rw [e1, e3]; exact hf.procs_none, by rw [e2, e4]; exact hf.msgs_none⟩,
    keeps_of s _ hm.wk hm.aseq (fun _ _ h _ _ => by rw [e2]; exact h) (fun _ _ h _ _ _ => by rw [e1]; exact h),
    e5, e6, e1, e2, e4⟩

end HappyModel.C17.Chain
