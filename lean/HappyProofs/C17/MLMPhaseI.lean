import HappyProofs.C17.MLMPhaseH
/-!
Run-level composition, part I: a delivery in the phase preserves the ghost invariant.
-/
namespace HappyModel.C17.MLM
open HappyModel.C17.ML (Version Msg Proc MKind PKind vcGet dominates vcMerge vcTick)

theorem upd_upd {β} (f : Nat → β) (i : Nat) (x y : β) : upd (upd f i x) i y = upd f i y := by
  funext j
  simp only [upd_apply]
  split <;> rfl

theorem if_fin_eq {α} (p' : Proc) (hk : p'.kind = .aereq) (a b : α) :
    (if p'.kind = .aereq ∧ p'.fin = true then a else b) = if p'.fin = true then a else b := by
  by_cases hf : p'.fin = true
  · rw [if_pos ⟨hk, hf⟩, if_pos hf]
  · rw [if_neg (fun c => hf c.2), if_neg hf]

theorem GI_dl (sp s : St) (g : GK) (mid : Nat) (hs : SI sp s) (hg : GI sp s g)
    (hw : isWR s (.dl mid) = false) (mono : Mono sp s (step s (.dl mid))) :
    GI sp (step s (.dl mid)) (kstep s g (.dl mid)) := by
  have hne : ∀ node peer, Act.dl mid ≠ .ae node peer := fun _ _ e => by cases e
  have hst : step s (.dl mid) = deliver s mid := rfl
  cases deliver_shape s mid with
  | fail e h =>
    have hp : (step s (.dl mid)).procs s.np = none := by
      rw [hst, h]; exact hs.inv.freshP s.np (Nat.le_refl _)
    rw [kstep_none s g _ hw hne (finishedReq_dl_none s mid hp)]
    exact GI_quiet hg hs.aux hs.n mono (fun _ _ hm _ _ => by rw [hst, h] at hm; exact hm)
      (fun _ _ hp _ _ => by rw [hst, h] at hp; exact hp)
  | repl m h0 hk => simp [isWR, h0, hk] at hw
  | ae m p p' h0 hd hk hpk hpk2 hnode hsrc hop hfin hsent sh =>
    have hprocs : (step s (.dl mid)).procs = upd s.procs s.np (some p') := by
      rw [hst, sh.procs]
      exact upd_upd s.procs s.np (some p) (some p')
    have hnp : (step s (.dl mid)).procs s.np = some p' := by rw [hprocs, upd_same]
    have hfr := finishedReq_dl s mid p' hnp
    have hvers : (step s (.dl mid)).vers = s.vers := sh.vers
    have hmsgs : ∀ mid' q, (step s (.dl mid)).msgs mid' = some q → q.kind = .aereq → q.delivered = false →
        s.msgs mid' = some q := by
      intro mid' q hq hk' hd'
      have h2 : upd s.msgs mid (some { m with delivered := true }) mid' = some q := ae_msgs_frame sh mid' q hq hk'
      rw [upd_apply] at h2
      split at h2
      · cases h2; cases hd'
      · exact h2
    by_cases hkq : m.kind = .aereq
    · have hp'k : p'.kind = .aereq := by rw [sh.kind]; exact hpk.mpr hkq
      have hN : m.dst < sp.n := by rw [← hs.n]; exact (hs.aux.msgN mid m h0 (Or.inl hkq)).2
      have hnode' : p'.node = m.dst := sh.node.trans hnode
      have hop' : p'.op = mid := sh.op.trans hop
      have hsm := hg.sm mid m h0 hkq hd
      have skip' : ∀ kv, kv ∈ m.items → kv ∈ p'.items ∨ takes sp.n (s.vers m.dst kv.1) kv.2 = false := by
        intro kv hkv
        have := sh.skip kv hkv
        rw [hnode] at this
        rw [← hs.n]
        exact this
      refine GI_handler hg hs.aux hs.n mono s.np p' hprocs hmsgs ?_ ?_
      · intro x hx k
        rw [hop'] at hx
        rw [hvers, hnode']
        have pre : Le sp.join (x0 sp x k) (valD (s.vers m.dst k)) ∨ x0 sp x k = 0 ∨
            ∃ v, (k, v) ∈ m.items ∧ Wit sp x k v := by
          rcases hsm x hx k with z | w
          · exact Or.inr (Or.inl z)
          · exact Or.inr (Or.inr w)
        rcases after_loop sp s.vers m.dst hN (hs.cl m.dst hN) m.items p'.items skip' x k pre with r | ⟨v, hv, wit⟩
        · exact Or.inl r
        · right
          obtain ⟨k1, k2⟩ := sh.keep (fun e => by rw [e] at hv; cases hv)
          exact ⟨k1.trans hfin, k2.trans hsent, v, hv, wit⟩
      · rw [kstep_handler s g (.dl mid) hw hne (p'.kind = .aereq ∧ p'.fin = true) p'.node p'.op hfr]
        exact if_fin_eq p' hp'k _ _
    · have hp'k : p'.kind ≠ .aereq := by rw [sh.kind]; exact fun e => hkq (hpk.mp e)
      have hfr' : finishedReq s (.dl mid) = none := by
        rw [hfr, if_neg (fun c => hp'k c.1)]
      rw [kstep_none s g _ hw hne hfr']
      refine GI_quiet hg hs.aux hs.n mono hmsgs ?_
      intro pid q hq hk' _
      rw [hprocs, upd_apply] at hq
      split at hq
      · cases hq; exact absurd hk' hp'k
      · exact hq

end HappyModel.C17.MLM
