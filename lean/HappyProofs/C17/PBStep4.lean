import HappyProofs.C17.PBStep3
/-! Preservation of the invariant: the backup's apply segment; all actions together. -/
namespace HappyModel.C17.PB

structure ApplySpec (s s1 : St) (b k v q : Nat) : Prop where
  kseq : ∀ b' k', s1.kseq b' k' = if b' = b ∧ k' = k ∧ s.kseq b k < q then q else s.kseq b' k'
  store : ∀ n k', s1.store n k' = if n = b + 1 ∧ k' = k ∧ s.kseq b k < q then some v else s.store n k'
  rest : s1 = { s with kseq := s1.kseq, store := s1.store, last := s1.last }

theorem applyRepl_spec (s : St) (b k v q : Nat) (hr : s.repaired = true) :
    ApplySpec s (applyRepl s b k v q) b k v q := by
  unfold applyRepl
  rw [if_pos hr]
  by_cases hq : q > s.kseq b k
  · rw [if_pos hq]
    have hq' : s.kseq b k < q := hq
    refine ⟨?_, ?_, rfl⟩
    · intro b' k'; show upd2 s.kseq b k q b' k' = _; rw [upd2_apply]; simp [hq']
    · intro n k'; show upd2 s.store (b + 1) k (some v) n k' = _; rw [upd2_apply]; simp [hq']
  · rw [if_neg hq]
    have hq' : ¬ s.kseq b k < q := hq
    refine ⟨?_, ?_, rfl⟩
    · intro b' k'; show s.kseq b' k' = _; simp [hq']
    · intro n k'; show s.store n k' = _; simp [hq']

theorem ackSend_eq (s1 : St) (mid : Nat) (m am : Msg) (hm : s1.msgs mid = some m) :
    (ackMsg s1 mid).send am =
      { s1 with nm := s1.nm + 1,
                msgs := upd (upd s1.msgs mid (some { m with acked := true })) s1.nm (some am) } := by
  unfold ackMsg; rw [hm]; rfl

theorem resumeRepl_apply_aux (s s1 : St) (pid : Nat) (p : Proc) (b : Nat) (h : Inv s)
    (hp : s.procs pid = some p) (hk : p.kind = .repl) (hb : b = p.node - 1)
    (spec : ApplySpec s s1 b p.key p.val p.seq) :
    Inv (((ackMsg s1 p.op).send
      { kind := .ack, b := b, key := p.key, val := 0, seq := p.seq, fut := false }).setProc pid
      { p with seg := 2 }) := by
  obtain ⟨r1, r2, m, c1, c2, c3, c4, c5, c6, c7⟩ := h.repl_ok pid p hp hk
  rw [← hb] at c3
  have hmlt : p.op < s.nm := by
    by_cases hh : p.op < s.nm
    · exact hh
    · rw [h.msgs_none p.op (by omega)] at c1; cases c1
  obtain ⟨g1, g2, g3, g4, g5, g6⟩ := h.msg_ok p.op m c1 c2
  obtain ⟨ak, ast, arest⟩ := spec
  have e1msgs : s1.msgs = s.msgs := by rw [arest]
  have e1nm : s1.nm = s.nm := by rw [arest]
  have hm1 : s1.msgs p.op = some m := by rw [e1msgs]; exact c1
  let m' : Msg := { m with acked := true }
  let am : Msg := { kind := .ack, b := b, key := p.key, val := 0, seq := p.seq, fut := false }
  let p' : Proc := { p with seg := 2 }
  have e3 : (ackMsg s1 p.op).send am =
      { s1 with nm := s1.nm + 1, msgs := upd (upd s1.msgs p.op (some m')) s1.nm (some am) } :=
    ackSend_eq s1 p.op m am hm1
  show Inv (((ackMsg s1 p.op).send am).setProc pid p')
  rw [e3]
  generalize hs3 : ({ s1 with nm := s1.nm + 1, msgs := upd (upd s1.msgs p.op (some m')) s1.nm (some am) } : St) = s3
  have e_msgs : ∀ x, s3.msgs x = if x = s.nm then some am else if x = p.op then some m' else s.msgs x := by
    intro x; rw [← hs3]
    show upd (upd s1.msgs p.op (some m')) s1.nm (some am) x = _
    rw [e1nm, e1msgs]; simp only [upd_apply]
  have e_nm : s3.nm = s.nm + 1 := by rw [← hs3]; show s1.nm + 1 = _; rw [e1nm]
  have e_app : s3.applied = s.applied := by rw [← hs3]; show s1.applied = _; rw [arest]
  have e_seq : s3.seq = s.seq := by rw [← hs3]; show s1.seq = _; rw [arest]
  have e_nb : s3.nb = s.nb := by rw [← hs3]; show s1.nb = _; rw [arest]
  have e_mode : s3.mode = s.mode := by rw [← hs3]; show s1.mode = _; rw [arest]
  have e_wk : s3.wk = s.wk := by rw [← hs3]; show s1.wk = _; rw [arest]
  have e_wv : s3.wv = s.wv := by rw [← hs3]; show s1.wv = _; rw [arest]
  have e_kseq : s3.kseq = s1.kseq := by rw [← hs3]
  have e_store : s3.store = s1.store := by rw [← hs3]
  have e_procs : s3.procs = s.procs := by rw [← hs3]; show s1.procs = _; rw [arest]
  have e_np : s3.np = s.np := by rw [← hs3]; show s1.np = _; rw [arest]
  have e_rep : s3.repaired = s.repaired := by rw [← hs3]; show s1.repaired = _; rw [arest]
  have kmono : ∀ b' k', s.kseq b' k' ≤ s3.kseq b' k' := by
    intro b' k'; rw [e_kseq, ak]; split
    · rename_i hc; obtain ⟨hb, hk', hlt⟩ := hc; subst hb; subst hk'; omega
    · exact Nat.le_refl _
  have kself : p.seq ≤ s3.kseq b p.key := by
    rw [e_kseq, ak]; split
    · exact Nat.le_refl _
    · rename_i hc; simp at hc; exact hc
  have hme : MsgsExt s (s3.setProc pid p') := by
    intro x mx hx
    have hxlt : x < s.nm := by
      by_cases hh : x < s.nm
      · exact hh
      · rw [h.msgs_none x (by omega)] at hx; cases hx
    by_cases hxo : x = p.op
    · subst hxo; rw [c1] at hx; cases hx
      refine ⟨m', ?_, rfl, rfl, rfl, rfl, rfl, fun _ => rfl, id⟩
      show s3.msgs p.op = some m'
      rw [e_msgs]; simp [Nat.ne_of_lt hxlt]
    · refine ⟨mx, ?_, rfl, rfl, rfl, rfl, rfl, id, id⟩
      show s3.msgs x = some mx
      rw [e_msgs]; simp [Nat.ne_of_lt hxlt, hxo]; exact hx
  apply inv_assemble s (s3.setProc pid p') pid p p' h hp
  · show upd s3.procs pid (some p') = upd s.procs pid (some p'); rw [e_procs]
  · exact e_np
  · rfl
  · rfl
  · rfl
  · exact e_seq
  · show s3.repaired = true; rw [e_rep]; exact h.rep
  · show s3.applied ≤ s3.seq; rw [e_app, e_seq]; exact h.app_le
  · intro mid hmid
    have hmid : s3.nm ≤ mid := hmid
    show s3.msgs mid = none
    rw [e_msgs]
    have a1 : mid ≠ s.nm := by omega
    have a2 : mid ≠ p.op := by omega
    simp [a1, a2]; exact h.msgs_none mid (by omega)
  · intro mid mx hmx hmk
    have hmx : s3.msgs mid = some mx := hmx
    show ReplMsg s3 mx
    rw [e_msgs] at hmx
    by_cases a1 : mid = s.nm
    · simp [a1] at hmx; subst hmx; cases hmk
    · by_cases a2 : mid = p.op
      · subst a2; simp [a1] at hmx; subst hmx
        refine replMsg_transfer s s3 m m' ⟨g1, g2, g3, g4, g5, g6⟩ rfl rfl rfl rfl e_nb
          (by rw [e_app]; exact Nat.le_refl _) (by rw [e_wk]) (by rw [e_wv]) ?_
        intro _; rw [c3, c6, c4]; exact kself
      · simp [a1, a2] at hmx
        have r := h.msg_ok mid mx hmx hmk
        refine replMsg_transfer s s3 mx mx r rfl rfl rfl rfl e_nb
          (by rw [e_app]; exact Nat.le_refl _) (by rw [e_wk]) (by rw [e_wv]) ?_
        intro ha; exact Nat.le_trans (r.2.2.2.2.2 ha) (kmono _ _)
  · intro b' k'
    show s3.kseq b' k' ≤ s3.applied ∧ (s3.kseq b' k' = 0 → s3.store (b' + 1) k' = none) ∧
      (s3.kseq b' k' ≠ 0 → s3.wk (s3.kseq b' k') = k' ∧ s3.store (b' + 1) k' = some (s3.wv (s3.kseq b' k')))
    rw [e_kseq, e_store, e_app, e_wk, e_wv]
    rw [ak, ast]
    obtain ⟨a1, a2, a3⟩ := h.bk_ok b' k'
    by_cases hc : b' = b ∧ k' = p.key ∧ s.kseq b p.key < p.seq
    · have hc' : b' + 1 = b + 1 ∧ k' = p.key ∧ s.kseq b p.key < p.seq := ⟨by omega, hc.2.1, hc.2.2⟩
      simp only [hc, hc', and_self, if_true]
      obtain ⟨hb, hk', hlt⟩ := hc
      subst hk'
      refine ⟨by rw [← c6]; exact g3, by intro h0; omega, fun _ => ⟨by rw [← c6, ← c4]; exact g4, ?_⟩⟩
      rw [← c6, g5, c5]
    · have hc' : ¬ (b' + 1 = b + 1 ∧ k' = p.key ∧ s.kseq b p.key < p.seq) := by
        intro hh; exact hc ⟨by omega, hh.2.1, hh.2.2⟩
      simp only [hc, hc', if_false]
      exact ⟨a1, a2, a3⟩
  · intro k
    show s3.store 0 k = if lastFor s3.wk s3.applied k = 0 then none
      else some (s3.wv (lastFor s3.wk s3.applied k))
    rw [e_store, e_wk, e_wv, e_app]
    rw [ast]
    have : ¬ (0 = b + 1 ∧ k = p.key ∧ s.kseq b p.key < p.seq) := by intro hh; omega
    simp only [this, if_false]
    exact h.prim_ok k
  · intro x q hx hq hqk
    exact replProc_transfer s _ q (h.repl_ok x q hq hqk) hme
  · intro x q hx hq hqk
    have hwq := h.write_ok x q hq hqk
    exact writeProc_transfer s _ q hwq (by show s.seq ≤ s3.seq; rw [e_seq]; exact Nat.le_refl _)
      (by show s3.wk q.seq = s.wk q.seq; rw [e_wk]) (by show s3.wv q.seq = s.wv q.seq; rw [e_wv])
      (by show s.applied ≤ s3.applied; rw [e_app]; exact Nat.le_refl _)
      (by intro hs1; show s3.applied < q.seq; rw [e_app]; exact hwq.2.2.2.2.1 hs1) e_nb e_mode hme
  · intro hkw; rw [hk] at hkw; cases hkw
  · intro _
    refine ⟨r1, fun hf => by simp [p'], m', ?_, c2, by rw [← hb]; exact c3, c4, c5, c6, fun _ => rfl⟩
    show s3.msgs p.op = some m'
    rw [e_msgs]; simp [Nat.ne_of_lt hmlt]
  · intro mid mx hmx hmd
    have hmx : s3.msgs mid = some mx := hmx
    rw [e_msgs] at hmx
    by_cases a1 : mid = s.nm
    · simp [a1] at hmx; subst hmx; cases hmd
    · by_cases a2 : mid = p.op
      · subst a2; simp [a1] at hmx; subst hmx
        exact ⟨m, c1, hmd, rfl⟩
      · simp [a1, a2] at hmx
        exact ⟨mx, hmx, hmd, rfl⟩

theorem resumeRepl_apply (s : St) (pid : Nat) (p : Proc) (h : Inv s) (hp : s.procs pid = some p)
    (hk : p.kind = .repl) :
    Inv (((ackMsg (applyRepl s (p.node - 1) p.key p.val p.seq) p.op).send
      { kind := .ack, b := p.node - 1, key := p.key, val := 0, seq := p.seq, fut := false }).setProc pid
      { p with seg := 2 }) :=
  resumeRepl_apply_aux s _ pid p (p.node - 1) h hp hk rfl (applyRepl_spec s _ _ _ _ h.rep)

theorem inv_setProc_reply (s : St) (op : Nat) (t : String) (pid : Nat) (p' : Proc)
    (h : Inv (s.setProc pid p')) : Inv ((s.reply op t).setProc pid p') :=
  ⟨h.rep, h.app_le, h.procs_none, h.msgs_none, h.msg_ok, h.bk_ok, h.repl_ok, h.write_ok, h.write_uniq,
    h.write_all, h.deliv_ok, h.prim_ok⟩

theorem ackCond_proc (s : St) (p q : Proc) (h : q.mid0 = p.mid0) : ackCond s q = ackCond s p := by
  unfold ackCond; rw [h]

theorem step_rs (s : St) (pid : Nat) (h : Inv s) : Inv (step s (.rs pid)) := by
  simp only [step, resume]
  split
  · exact inv_fail _ _ h
  · rename_i p hp
    split
    · exact inv_fail _ _ h
    · rename_i hfin
      split
      · -- write
        rename_i hk
        have hw := h.write_ok pid p hp hk
        obtain ⟨w1, w2, w3, w4, w5, w6, w7, w8⟩ := hw
        unfold resumeWrite
        split
        · rename_i hseg
          split
          · exact inv_fail _ _ h
          · rename_i hfifo
            have hfifo : p.seq = s.applied + 1 := by simpa using hfifo
            split
            · rename_i hc
              have := resumeWrite_apply s pid p h hp hk hseg hfifo true (fun _ => hc.2)
              exact inv_setProc_reply _ _ _ _ _ this
            · exact resumeWrite_apply s pid p h hp hk hseg hfifo p.fin (fun hf => absurd hf hfin)
        · rename_i hseg
          have h2 : 2 ≤ p.seg := by omega
          split
          · rename_i hseg2
            split
            · rename_i hc
              apply inv_setProc_reply
              refine inv_setProc s pid p _ h hp rfl (fun _ => ⟨⟨w1, w2, w3, w4, fun hh => by simp at hh, fun _ => w6 h2,
                fun _ => ⟨by simp, ?_⟩, by simp⟩, rfl⟩) (fun hr => by rw [hk] at hr; cases hr)
              rcases hc with hc | hc
              · right; unfold ackCond; rw [hc]
              · left; exact hc
            · refine inv_setProc s pid p _ h hp rfl (fun _ => ⟨⟨w1, w2, w3, w4, fun hh => by simp at hh, fun _ => w6 h2,
                fun hf => by simp [hfin] at hf, by simp⟩, rfl⟩) (fun hr => by rw [hk] at hr; cases hr)
          · split
            · rename_i hc
              apply inv_setProc_reply
              refine inv_setProc s pid p _ h hp rfl (fun _ => ⟨⟨w1, w2, w3, w4, fun hh => by simp at hh, fun _ => w6 h2,
                fun _ => ⟨by simp, Or.inr ?_⟩, by simp⟩, rfl⟩) (fun hr => by rw [hk] at hr; cases hr)
              exact (ackCond_proc s p _ rfl).trans hc
            · exact inv_fail _ _ h
      · -- repl
        rename_i hk
        unfold resumeRepl
        split
        · exact resumeRepl_apply s pid p h hp hk
        · obtain ⟨r1, r2, m, c1, c2, c3, c4, c5, c6, c7⟩ := h.repl_ok pid p hp hk
          rename_i hseg
          refine inv_setProc s pid p _ h hp rfl (fun hw => by rw [hk] at hw; cases hw)
            (fun _ => ⟨⟨r1, fun _ => by simp, m, c1, c2, c3, c4, c5, c6, fun _ => c7 hseg⟩, rfl⟩)
      · -- read
        rename_i hk
        apply inv_setProc_reply
        exact inv_setProc s pid p _ h hp rfl (fun hw => by rw [hk] at hw; cases hw) (fun hr => by rw [hk] at hr; cases hr)
      · exact inv_fail _ _ h

theorem step_inv (s : St) (a : Act) (h : Inv s) : Inv (step s a) := by
  cases a with
  | cw op node k v => exact step_cw s op node k v h
  | cr op node k => exact step_cr s op node k h
  | dl mid => exact step_dl s mid h
  | rs pid => exact step_rs s pid h
  | ae n p => exact inv_fail _ _ h
  | tick t => exact inv_fail _ _ h

theorem run_inv (s : St) (acts : List Act) (h : Inv s) : Inv (run s acts) := by
  induction acts generalizing s with
  | nil => exact h
  | cons a as ih => exact ih _ (step_inv s a h)

end HappyModel.C17.PB
