import HappyProofs.C17.MLTPhaseB
/-!
Anti-entropy phase on a topology, part C: the state part `SI` of the phase invariant (versions only
go up in the total order of coherent versions — `Mono` — and every version held is at most one held by
some leader at the start of the phase), the ghost part `GI`, and its frame lemmas.
-/
namespace HappyModel.C17.MLT
open HappyModel.C17.ML (Version Msg Proc MKind PKind vcGet dominates vcMerge vcTick Coherent vlt takes_iff_lt
  vlt_trans vlt_total)
open HappyModel.C17.MLM (GK KComplete)

theorem nlt_trans (n : Nat) (Q : Version → Prop) (hc : Coherent n Q) (c u v : Version) (hu : Q u) (hv : Q v)
    (h1 : ¬ vlt c u) (h2 : ¬ vlt u v) : ¬ vlt c v := by
  intro h
  rcases vlt_total n Q hc u v hu hv with t | t | t
  · exact h2 t
  · subst t; exact h1 h
  · exact h1 (vlt_trans c v u h t)

theorem oge_trans (n : Nat) (Q : Version → Prop) (hc : Coherent n Q) (cur : Option Version) (u v : Version)
    (hu : Q u) (hv : Q v) (h1 : OGe cur u) (h2 : ¬ vlt u v) : OGe cur v := by
  obtain ⟨c, e, h⟩ := h1
  exact ⟨c, e, nlt_trans n Q hc c u v hu hv h h2⟩

def Mono (s s' : St) : Prop := ∀ b k v, OGe (s.vers b k) v → OGe (s'.vers b k) v

theorem mono_refl (s s' : St) (h : s'.vers = s.vers) : Mono s s' := by
  intro b k v; rw [h]; exact id

structure SI (P : Nat → Version → Prop) (sp s : St) : Prop where
  tinv : TInv P s
  aux : AuxInv s
  sub : SubInv s
  n : s.n = sp.n
  lww : s.lww = true
  u : ∀ b, b < sp.n → ∀ k u, s.vers b k = some u → ∃ h, h < sp.n ∧ OGe (sp.vers h k) u

/-- the `_install` of the head item of an anti-entropy handler, in the phase -/
theorem install_ok {P : Nat → Version → Prop} (sp s : St) (hc : ∀ k, Coherent sp.n (P k)) (h : SI P sp s)
    (pid : Nat) (p0 : Proc) (k : Nat)
    (v : Version) (rest : List (Nat × Version)) (h0 : s.procs pid = some p0)
    (hk : p0.kind = .aereq ∨ p0.kind = .aeresp) (hit : p0.items = (k, v) :: rest) :
    p0.node < sp.n ∧ P k v ∧
      (∀ b k' x, OGe (s.vers b k') x → OGe ((install s p0.node k v).1.vers b k') x) ∧
      ((install s p0.node k v).1.vers p0.node k = some v ∨
        ∃ e, (install s p0.node k v).1.vers p0.node k = some e ∧ s.vers p0.node k = some e ∧ ¬ vlt e v) ∧
      (∀ b, b < sp.n → ∀ k' u, (install s p0.node k v).1.vers b k' = some u →
        ∃ h, h < sp.n ∧ OGe (sp.vers h k') u) := by
  obtain ⟨hN1, hN2⟩ := h.aux.procN pid p0 h0 hk
  have hmem : (k, v) ∈ p0.items := by rw [hit]; simp
  have hPv : P k v := (h.tinv.procP pid p0 h0).2 (k, v) hmem
  have hsub := h.sub.procS pid p0 h0 hk (k, v) hmem
  rw [h.n] at hN1 hN2
  have hvers := install_vers_lww s h.lww p0.node k v
  rw [h.n] at hvers
  refine ⟨hN1, hPv, ?_, ?_, ?_⟩
  · intro b k' x hx
    rw [hvers]
    by_cases e : (b = p0.node ∧ k' = k) ∧ ML.takes sp.n (s.vers p0.node k) v = true
    · rw [if_pos e]
      obtain ⟨⟨e1, e2⟩, ht⟩ := e
      subst e1; subst e2
      obtain ⟨c, ec, hcx⟩ := hx
      rw [ec] at ht
      have hlt : vlt c v := (takes_iff_lt sp.n (P k') (hc k') c v (h.tinv.versP _ _ _ ec) hPv).mp ht
      exact ⟨v, rfl, fun hvx => hcx (vlt_trans c v x hlt hvx)⟩
    · rw [if_neg e]; exact hx
  · rw [hvers]
    by_cases ht : ML.takes sp.n (s.vers p0.node k) v = true
    · left; rw [if_pos ⟨⟨rfl, rfl⟩, ht⟩]
    · right
      rw [if_neg (fun c => ht c.2)]
      cases hv : s.vers p0.node k with
      | none => rw [hv] at ht; exact absurd rfl ht
      | some e =>
        refine ⟨e, rfl, rfl, fun hlt => ?_⟩
        rw [hv] at ht
        exact ht ((takes_iff_lt sp.n (P k) (hc k) e v (h.tinv.versP _ _ _ hv) hPv).mpr hlt)
  · intro b hb k' u hu
    rw [hvers] at hu
    by_cases e : (b = p0.node ∧ k' = k) ∧ ML.takes sp.n (s.vers p0.node k) v = true
    · rw [if_pos e] at hu
      cases hu
      obtain ⟨⟨e1, e2⟩, _⟩ := e
      subst e2
      obtain ⟨us, hus, hnlt⟩ := hsub
      obtain ⟨x, hx, hox⟩ := h.u p0.src hN2 k' us hus
      exact ⟨x, hx, oge_trans sp.n (P k') (hc k') _ us v (h.tinv.versP _ _ _ hus) hPv hox hnlt⟩
    · rw [if_neg e] at hu
      exact h.u b hb k' u hu

theorem SI_step {P : Nat → Version → Prop}
    (FT : ∀ s a, s.lww = true → isWR s a = false → TInv P s → TInv P (step s a))
    (FA : ∀ s a, AuxInv s → TInv P s → AuxInv (step s a))
    (FS : ∀ s a, s.lww = true → (∀ k, Coherent s.n (P k)) → TInv P s → SubInv s → SubInv (step s a))
    (Fn : ∀ s a, (step s a).n = s.n) (Fl : ∀ s a, (step s a).lww = s.lww)
    (sp s : St) (hc : ∀ k, Coherent sp.n (P k)) (a : Act) (h : SI P sp s) (hw : isWR s a = false) :
    SI P sp (step s a) ∧ Mono s (step s a) := by
  have base : (∀ b, b < sp.n → ∀ k u, (step s a).vers b k = some u → ∃ h, h < sp.n ∧ OGe (sp.vers h k) u) ∧
      Mono s (step s a) := by
    rcases step_versChange s a hw with hv | ⟨pid, p0, k, v, rest, h0, hk, hit, hv⟩
    · rw [hv]
      exact ⟨h.u, fun b k v hx => by rw [hv]; exact hx⟩
    · obtain ⟨_, _, hm, _, hu⟩ := install_ok sp s hc h pid p0 k v rest h0 hk hit
      refine ⟨?_, ?_⟩
      · rw [hv]; exact hu
      · intro b k' x hx; rw [hv]; exact hm b k' x hx
  exact ⟨⟨FT s a h.lww hw h.tinv, FA s a h.aux h.tinv,
    FS s a h.lww (by rw [h.n]; exact hc) h.tinv h.sub,
    by rw [Fn]; exact h.n, by rw [Fl]; exact h.lww, base.1⟩, base.2⟩

/-! ### the ghost part -/

def Lc (sp s : St) (g : GK) (b : Nat) : Prop :=
  ∀ h, h ∈ g.k b → ∀ k v, sp.vers h k = some v → OGe (s.vers b k) v

def SMc (sp : St) (g : GK) (mid : Nat) (m : Msg) : Prop :=
  ∀ h, h ∈ g.sk mid → ∀ k v, sp.vers h k = some v → ∃ w, (k, w) ∈ m.items ∧ ¬ vlt w v

def SPc (sp s : St) (g : GK) (p : Proc) : Prop :=
  ∀ h, h ∈ g.sk p.op → ∀ k v, sp.vers h k = some v → OGe (s.vers p.node k) v ∨
    (p.sent = false ∧ ∃ w, (k, w) ∈ p.items ∧ ¬ vlt w v)

structure GI (sp s : St) (g : GK) : Prop where
  l : ∀ b, b < sp.n → Lc sp s g b
  sm : ∀ mid m, s.msgs mid = some m → m.kind = .aereq → m.delivered = false → SMc sp g mid m
  spr : ∀ pid p, s.procs pid = some p → p.kind = .aereq → p.fin = false → SPc sp s g p

/-- after a merge loop: a witness item is still in the list, or the holder is already at or above it -/
theorem after_loop {P : Nat → Version → Prop} (sp : St) (hc : ∀ k, Coherent sp.n (P k))
    (V : Nat → Nat → Option Version) (node : Nat) (hV : ∀ k e, V node k = some e → P k e)
    (items left : List (Nat × Version)) (hI : ∀ kv, kv ∈ items → P kv.1 kv.2)
    (skip : ∀ kv, kv ∈ items → kv ∈ left ∨ ML.takes sp.n (V node kv.1) kv.2 = false) (k : Nat) (v : Version)
    (hv : P k v)
    (pre : OGe (V node k) v ∨ ∃ w, (k, w) ∈ items ∧ ¬ vlt w v) :
    OGe (V node k) v ∨ ∃ w, (k, w) ∈ left ∧ ¬ vlt w v := by
  rcases pre with p | ⟨w, hw, hwv⟩
  · exact Or.inl p
  · rcases skip (k, w) hw with m | m
    · exact Or.inr ⟨w, m, hwv⟩
    · left
      cases hV' : V node k with
      | none => rw [hV'] at m; cases m
      | some e =>
        rw [hV'] at m
        have hPw : P k w := hI (k, w) hw
        have hne : ¬ vlt e w := fun hlt => by
          have := (takes_iff_lt sp.n (P k) (hc k) e w (hV k e hV') hPw).mpr hlt
          rw [this] at m; cases m
        exact ⟨e, rfl, nlt_trans sp.n (P k) (hc k) e w v hPw hv hne hwv⟩

theorem GI_frame {sp s s' : St} {g g' : GK} (h : GI sp s g) (mono : Mono s s')
    (hL : ∀ b, b < sp.n → g'.k b = g.k b ∨ Lc sp s' g' b)
    (hM : ∀ mid m, s'.msgs mid = some m → m.kind = .aereq → m.delivered = false →
      (s.msgs mid = some m ∧ g'.sk mid = g.sk mid) ∨ SMc sp g' mid m)
    (hP : ∀ pid p, s'.procs pid = some p → p.kind = .aereq → p.fin = false →
      (s.procs pid = some p ∧ g'.sk p.op = g.sk p.op) ∨ SPc sp s' g' p) : GI sp s' g' := by
  refine ⟨?_, ?_, ?_⟩
  · intro b hb
    rcases hL b hb with e | e
    · intro x hx k v hv
      rw [e] at hx
      exact mono b k v (h.l b hb x hx k v hv)
    · exact e
  · intro mid m hm hk hd
    rcases hM mid m hm hk hd with ⟨e1, e2⟩ | e
    · intro x hx k
      rw [e2] at hx
      exact h.sm mid m e1 hk hd x hx k
    · exact e
  · intro pid p hp hk hf
    rcases hP pid p hp hk hf with ⟨e1, e2⟩ | e
    · intro x hx k v hv
      rw [e2] at hx
      rcases h.spr pid p e1 hk hf x hx k v hv with r | r
      · exact Or.inl (mono p.node k v r)
      · exact Or.inr r
    · exact e

theorem GI_quiet {sp s s' : St} {g : GK} (h : GI sp s g) (mono : Mono s s')
    (hM : ∀ mid m, s'.msgs mid = some m → m.kind = .aereq → m.delivered = false → s.msgs mid = some m)
    (hP : ∀ pid p, s'.procs pid = some p → p.kind = .aereq → p.fin = false → s.procs pid = some p) :
    GI sp s' g :=
  GI_frame h mono (fun _ _ => Or.inl rfl)
    (fun mid m hm hk hd => Or.inl ⟨hM mid m hm hk hd, rfl⟩)
    (fun pid p hp hk hf => Or.inl ⟨hP pid p hp hk hf, rfl⟩)

/-- a step that leaves request handler `PID` as `p'` (delivery of the request, a resumption) -/
theorem GI_handler {sp s s' : St} {g g' : GK} (hg : GI sp s g)
    (mono : Mono s s') (PID : Nat) (p' : Proc)
    (hprocs : s'.procs = upd s.procs PID (some p'))
    (hmsgs : ∀ mid m, s'.msgs mid = some m → m.kind = .aereq → m.delivered = false → s.msgs mid = some m)
    (post : ∀ h, h ∈ g.sk p'.op → ∀ k v, sp.vers h k = some v → OGe (s'.vers p'.node k) v ∨
      (p'.fin = false ∧ p'.sent = false ∧ ∃ w, (k, w) ∈ p'.items ∧ ¬ vlt w v))
    (hg' : g' = if p'.fin = true then { g with k := upd g.k p'.node (g.k p'.node ++ g.sk p'.op) } else g) :
    GI sp s' g' := by
  subst hg'
  by_cases hf : p'.fin = true
  · rw [if_pos hf]
    refine GI_frame hg mono ?_ (fun mid m hm hk hd => Or.inl ⟨hmsgs mid m hm hk hd, rfl⟩) ?_
    · intro b hb
      by_cases e : b = p'.node
      · right
        subst e
        intro x hx k v hv
        have hx' : x ∈ upd g.k p'.node (g.k p'.node ++ g.sk p'.op) p'.node := hx
        rw [upd_same] at hx'
        rcases List.mem_append.mp hx' with m | m
        · exact mono p'.node k v (hg.l p'.node hb x m k v hv)
        · rcases post x m k v hv with r | ⟨r, _⟩
          · exact r
          · rw [hf] at r; cases r
      · left
        show upd g.k p'.node _ b = g.k b
        rw [upd_other _ _ _ _ e]
    · intro pid p hp hk hfp
      rw [hprocs, upd_apply] at hp
      split at hp
      · cases hp; rw [hf] at hfp; cases hfp
      · exact Or.inl ⟨hp, rfl⟩
  · rw [if_neg hf]
    refine GI_frame hg mono (fun _ _ => Or.inl rfl)
      (fun mid m hm hk hd => Or.inl ⟨hmsgs mid m hm hk hd, rfl⟩) ?_
    intro pid p hp hk hfp
    rw [hprocs, upd_apply] at hp
    split at hp
    · cases hp
      right
      intro x hx k v hv
      rcases post x hx k v hv with r | ⟨_, r2, r3⟩
      · exact Or.inl r
      · exact Or.inr ⟨r2, r3⟩
    · exact Or.inl ⟨hp, rfl⟩

/-- a merge loop sends at most an `AntiEntropyResponse` -/
theorem ae_msgs_frame {s1 : St} {pid : Nat} {p : Proc} {items : List (Nat × Version)} {p' : Proc} {s' : St}
    (sh : AeShape s1 pid p items p' s') (mid : Nat) (q : Msg) (hq : s'.msgs mid = some q)
    (hk : q.kind = .aereq) : s1.msgs mid = some q := by
  rcases sh.msgs with ⟨e, _⟩ | ⟨_, _, _, m', e, mk, _⟩
  · rw [e] at hq; exact hq
  · rw [e, upd_apply] at hq
    split at hq
    · cases hq; rw [mk] at hk; cases hk
    · exact hq

/-- a valid anti-entropy tick: the request carries the sender's versions, the snapshot its knowledge -/
theorem GI_tick {sp s s' : St} {g : GK} (haux : AuxInv s) (hg : GI sp s g) (node peer : Nat)
    (hnode : node < sp.n) (hv : s'.vers = s.vers)
    (hm : s'.msgs = upd s.msgs s.nm
      (some { kind := .aereq, src := node, dst := peer, items := versionsOf s node, hash := s.store node }))
    (hP : ∀ pid p, s'.procs pid = some p → p.kind = .aereq → p.fin = false → s.procs pid = some p) :
    GI sp s' { g with sk := upd g.sk s.nm (g.k node) } := by
  refine GI_frame hg (mono_refl s s' hv) (fun _ _ => Or.inl rfl) ?_ ?_
  · intro mid m hmm hk hd
    rw [hm, upd_apply] at hmm
    split at hmm
    · rename_i e
      subst e
      cases hmm
      right
      intro x hx k v hxv
      have hx' : x ∈ upd g.sk s.nm (g.k node) s.nm := hx
      rw [upd_same] at hx'
      obtain ⟨u, hu, hnlt⟩ := hg.l node hnode x hx' k v hxv
      refine ⟨u, ?_, hnlt⟩
      show (k, u) ∈ versionsOf s node
      unfold versionsOf
      rw [List.mem_filterMap]
      refine ⟨k, haux.ord node k (by rw [hu]; rfl), ?_⟩
      rw [hu]; rfl
    · rename_i e
      left
      exact ⟨hmm, by show upd g.sk s.nm _ mid = _; rw [upd_other _ _ _ _ e]⟩
  · intro pid p hp hk hf
    left
    have h0 := hP pid p hp hk hf
    refine ⟨h0, ?_⟩
    have := haux.opLt pid p h0 hk
    show upd g.sk s.nm _ p.op = _
    rw [upd_other _ _ _ _ (by omega)]

end HappyModel.C17.MLT
