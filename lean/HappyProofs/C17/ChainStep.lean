import HappyProofs.C17.ChainInv
/-! Preservation of the chain invariant: generic assembly, primitive updates. -/
namespace HappyModel.C17.Chain

theorem inv_fail (s : St) (e : String) (h : Inv s) : Inv (s.fail e) :=
  ⟨⟨h.core.n2, h.core.app_le, h.core.order, h.core.store, h.core.commit, h.core.clean, h.core.ackd⟩,
    h.msgs, h.procs, h.uniq⟩

theorem inv_reply (s : St) (op : Nat) (t : String) (h : Inv s) : Inv (s.reply op t) :=
  ⟨⟨h.core.n2, h.core.app_le, h.core.order, h.core.store, h.core.commit, h.core.clean, h.core.ackd⟩,
    h.msgs, h.procs, h.uniq⟩

theorem msgOK_delivered (s : St) (m : Msg) (h : MsgOK s m) : MsgOK s { m with delivered := true } := h

/-- one process slot `x` changes; messages are kept, flagged delivered, or new and well-formed -/
theorem inv_step (s s' : St) (x : Nat) (hI : Inv s) (hc : Core s') (hm : Mono s s')
    (hmsgs : ∀ mid m, s'.msgs mid = some m →
      s.msgs mid = some m ∨ MsgOK s' m ∨ ∃ m0, s.msgs mid = some m0 ∧ m = { m0 with delivered := true })
    (hoth : ∀ pid, pid ≠ x → s'.procs pid = s.procs pid)
    (hx : ∀ p, s'.procs x = some p → s.procs x = some p ∨ (ProcOK s' p ∧ (p.kind = .write →
      (∃ p0, s.procs x = some p0 ∧ p0.kind = .write ∧ p0.seq = p.seq) ∨ s.seq < p.seq)))
    (hw : ∀ pid p, s.procs pid = some p → s'.procs pid = some p → p.kind = .write → p.seg = 1 →
      s'.applied < p.seq) : Inv s' := by
  have hold : ∀ pid p, s.procs pid = some p → s'.procs pid = some p → ProcOK s' p := by
    intro pid p h1 h2
    exact procOK_mono s s' p hI.core hm (hI.procs pid p h1) (fun hk hs => hw pid p h1 h2 hk hs)
  have hany : ∀ pid p, s'.procs pid = some p → ProcOK s' p := by
    intro pid p hp
    by_cases hpx : pid = x
    · subst hpx
      rcases hx p hp with h1 | h1
      · exact hold _ p h1 hp
      · exact h1.1
    · have := hoth pid hpx; rw [this] at hp
      exact hold pid p hp (by rw [this]; exact hp)
  refine ⟨hc, ?_, hany, ?_⟩
  · intro mid m hmid
    rcases hmsgs mid m hmid with h1 | h1 | ⟨m0, h1, h2⟩
    · exact msgOK_mono s s' m hI.core hm (hI.msgs mid m h1)
    · exact h1
    · rw [h2]; exact msgOK_delivered s' m0 (msgOK_mono s s' m0 hI.core hm (hI.msgs mid m0 h1))
  · intro pid p pid' p' hp hp' hk hk' hseq
    -- origin of a write process of s': an old write process with the same seq, or a fresh seq
    have origin : ∀ y r, s'.procs y = some r → r.kind = .write →
        (∃ r0, s.procs y = some r0 ∧ r0.kind = .write ∧ r0.seq = r.seq) ∨ (y = x ∧ s.seq < r.seq) := by
      intro y r hr hrk
      by_cases hyx : y = x
      · subst hyx
        rcases hx r hr with h1 | h1
        · exact Or.inl ⟨r, h1, hrk, rfl⟩
        · rcases h1.2 hrk with h2 | h2
          · exact Or.inl h2
          · exact Or.inr ⟨rfl, h2⟩
      · rw [hoth y hyx] at hr; exact Or.inl ⟨r, hr, hrk, rfl⟩
    rcases origin pid p hp hk with ⟨r0, a1, a2, a3⟩ | ⟨a1, a2⟩ <;>
      rcases origin pid' p' hp' hk' with ⟨r0', b1, b2, b3⟩ | ⟨b1, b2⟩
    · exact hI.uniq pid r0 pid' r0' a1 b1 a2 b2 (by omega)
    · have := hI.procs pid r0 a1; unfold ProcOK at this; rw [a2] at this
      have := this.2.1; omega
    · have := hI.procs pid' r0' b1; unfold ProcOK at this; rw [b2] at this
      have := this.2.1; omega
    · omega

/-- the head's put lands: `_applied_seq[key] = seq`, key dirty under CRAQ -/
theorem core_headApply (s : St) (k v : Nat) (hc : Core s) (hq : s.applied + 1 ≤ s.seq)
    (hk : s.wk (s.applied + 1) = k) (hv : s.wv (s.applied + 1) = v) :
    let s1 : St := { s with applied := s.applied + 1, store := upd2 s.store 0 k (some v),
                            aseq := upd2 s.aseq 0 k (s.applied + 1),
                            dirty := if s.craq then upd2 s.dirty 0 k true else s.dirty }
    Core s1 ∧ Mono s s1 := by
  intro s1
  have ha : ∀ i' k', s1.aseq i' k' = if i' = 0 ∧ k' = k then s.applied + 1 else s.aseq i' k' :=
    fun i' k' => upd2_apply _ _ _ _ _ _
  have hn : s1.n = s.n := rfl
  have hgt : ∀ i' k', s.aseq i' k' ≤ s.applied := fun i' k' => (hc.store i' k').1
  have hmono : ∀ i' k', s.aseq i' k' ≤ s1.aseq i' k' := by
    intro i' k'; rw [ha]; split
    · have := hgt i' k'; omega
    · exact Nat.le_refl _
  have htail : ∀ k', s1.aseq (s.n - 1) k' = s.aseq (s.n - 1) k' := by
    intro k'; rw [ha]
    have : ¬ (s.n - 1 = 0 ∧ k' = k) := by have := hc.n2; omega
    simp [this]
  refine ⟨⟨hc.n2, hq, ?_, ?_, ?_, ?_, ?_⟩, ⟨rfl, Nat.le_succ _, Nat.le_refl _, fun _ _ => rfl, fun _ _ => rfl,
    hmono, fun _ h => h⟩⟩
  · intro a b k' hab hb
    rw [ha, ha]
    have ho := hc.order a b k' hab hb
    by_cases hk' : k' = k
    · subst hk'
      by_cases h1 : b = 0 <;> by_cases h2 : a = 0
      · simp [h1, h2]
      · omega
      · have := hgt b k'; simp [h1, h2]; omega
      · simp [h1, h2]; exact ho
    · simp [hk']; exact ho
  · intro a k'
    show s1.aseq a k' ≤ s.applied + 1 ∧ (s1.aseq a k' = 0 → upd2 s.store 0 k (some v) a k' = none) ∧
      (s1.aseq a k' ≠ 0 → s.wk (s1.aseq a k') = k' ∧ upd2 s.store 0 k (some v) a k' = some (s.wv (s1.aseq a k')))
    rw [ha, upd2_apply]
    by_cases h1 : a = 0 ∧ k' = k
    · obtain ⟨h1a, h1b⟩ := h1; subst h1a; subst h1b
      simp only [and_self, if_true]
      exact ⟨Nat.le_refl _, fun h0 => by omega, fun _ => ⟨hk, by rw [hv]⟩⟩
    · simp only [h1, if_false]
      obtain ⟨b1, b2, b3⟩ := hc.store a k'
      exact ⟨by omega, b2, b3⟩
  · intro a k'
    show s.cseq a k' ≤ s1.aseq (s.n - 1) k'
    rw [htail]; exact hc.commit a k'
  · intro a k' hcr hd
    show s1.aseq a k' ≤ s.cseq a k'
    have hd : (if s.craq = true then upd2 s.dirty 0 k true else s.dirty) a k' = false := hd
    rw [if_pos hcr, upd2_apply] at hd
    rw [ha]
    by_cases h1 : a = 0 ∧ k' = k
    · simp [h1] at hd
    · simp only [h1, if_false] at hd ⊢; exact hc.clean a k' hcr hd
  · intro q hq'
    show q ≤ s1.aseq (s.n - 1) (s.wk q)
    rw [htail]; exact hc.ackd q hq'

end HappyModel.C17.Chain
