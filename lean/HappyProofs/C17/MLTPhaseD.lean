import HappyProofs.C17.MLTPhaseC
/-!
Anti-entropy phase on a topology, part D: what `kstep` computes, and a delivery / a resumption in the
phase preserve the ghost invariant.
-/
namespace HappyModel.C17.MLT
open HappyModel.C17.ML (Version Msg Proc MKind PKind vcGet dominates vcMerge vcTick Coherent vlt takes_iff_lt
  vlt_trans vlt_total)
open HappyModel.C17.MLM (GK KComplete)

theorem kstep_none (s : St) (g : GK) (a : Act) (hw : isWR s a = false) (hne : ∀ node peer, a ≠ .ae node peer)
    (hf : finishedReq s a = none) : kstep s g a = g := by
  unfold kstep
  rw [hw]
  cases a with
  | ae node peer => exact absurd rfl (hne node peer)
  | tick t => simp only [Bool.false_eq_true, if_false, hf]
  | cw op node k v => simp only [Bool.false_eq_true, if_false, hf]
  | cr op node k => simp only [Bool.false_eq_true, if_false, hf]
  | dl mid => simp only [Bool.false_eq_true, if_false, hf]
  | rs pid => simp only [Bool.false_eq_true, if_false, hf]

theorem kstep_some (s : St) (g : GK) (a : Act) (hw : isWR s a = false) (hne : ∀ node peer, a ≠ .ae node peer)
    (b mid : Nat) (hf : finishedReq s a = some (b, mid)) :
    kstep s g a = { g with k := upd g.k b (g.k b ++ g.sk mid) } := by
  unfold kstep
  rw [hw]
  cases a with
  | ae node peer => exact absurd rfl (hne node peer)
  | tick t => simp only [Bool.false_eq_true, if_false, hf]
  | cw op node k v => simp only [Bool.false_eq_true, if_false, hf]
  | cr op node k => simp only [Bool.false_eq_true, if_false, hf]
  | dl mid => simp only [Bool.false_eq_true, if_false, hf]
  | rs pid => simp only [Bool.false_eq_true, if_false, hf]

theorem kstep_handler (s : St) (g : GK) (a : Act) (hw : isWR s a = false)
    (hne : ∀ node peer, a ≠ .ae node peer) (C : Prop) [Decidable C] (b mid : Nat)
    (hf : finishedReq s a = if C then some (b, mid) else none) :
    kstep s g a = if C then { g with k := upd g.k b (g.k b ++ g.sk mid) } else g := by
  by_cases hc : C
  · rw [if_pos hc] at hf ⊢; exact kstep_some s g a hw hne b mid hf
  · rw [if_neg hc] at hf ⊢; exact kstep_none s g a hw hne hf

theorem finishedReq_dl (s : St) (mid : Nat) (p' : Proc) (hp : (step s (.dl mid)).procs s.np = some p') :
    finishedReq s (.dl mid) = if p'.kind = .aereq ∧ p'.fin = true then some (p'.node, p'.op) else none := by
  simp only [finishedReq, hp]

theorem finishedReq_dl_none (s : St) (mid : Nat) (hp : (step s (.dl mid)).procs s.np = none) :
    finishedReq s (.dl mid) = none := by
  simp only [finishedReq, hp]

theorem finishedReq_rs (s : St) (pid : Nat) (p0 p' : Proc) (h0 : s.procs pid = some p0)
    (hp : (step s (.rs pid)).procs pid = some p') :
    finishedReq s (.rs pid) =
      if p0.fin = false ∧ p'.kind = .aereq ∧ p'.fin = true then some (p'.node, p'.op) else none := by
  simp only [finishedReq, h0, hp]

theorem finishedReq_rs_same (s : St) (pid : Nat) (hp : (step s (.rs pid)).procs pid = s.procs pid) :
    finishedReq s (.rs pid) = none := by
  cases h0 : s.procs pid with
  | none => simp only [finishedReq, h0]
  | some p0 =>
    rw [h0] at hp
    rw [finishedReq_rs s pid p0 p0 h0 hp]
    cases hf : p0.fin <;> simp

theorem upd_upd {β} (f : Nat → β) (i : Nat) (x y : β) : upd (upd f i x) i y = upd f i y := by
  funext j
  simp only [upd_apply]
  split <;> rfl

theorem if_fin_eq {α} (p' : Proc) (hk : p'.kind = .aereq) (a b : α) :
    (if p'.kind = .aereq ∧ p'.fin = true then a else b) = if p'.fin = true then a else b := by
  by_cases hf : p'.fin = true
  · rw [if_pos ⟨hk, hf⟩, if_pos hf]
  · rw [if_neg (fun c => hf c.2), if_neg hf]

theorem if_fin_eq3 {α} (p0 p' : Proc) (h0 : p0.fin = false) (hk : p'.kind = .aereq) (a b : α) :
    (if p0.fin = false ∧ p'.kind = .aereq ∧ p'.fin = true then a else b) = if p'.fin = true then a else b := by
  by_cases hf : p'.fin = true
  · rw [if_pos ⟨h0, hk, hf⟩, if_pos hf]
  · rw [if_neg (fun c => hf c.2.2), if_neg hf]

theorem GI_dl {P : Nat → Version → Prop} (sp s : St) (hc : ∀ k, Coherent sp.n (P k))
    (hP0 : ∀ h k v, sp.vers h k = some v → P k v) (g : GK) (mid : Nat) (hs : SI P sp s) (hg : GI sp s g)
    (hw : isWR s (.dl mid) = false) (mono : Mono s (step s (.dl mid))) :
    GI sp (step s (.dl mid)) (kstep s g (.dl mid)) := by
  have hne : ∀ node peer, Act.dl mid ≠ .ae node peer := fun _ _ e => by cases e
  have hst : step s (.dl mid) = deliver s mid := rfl
  cases deliver_shape s mid with
  | fail e h =>
    have hp : (step s (.dl mid)).procs s.np = none := by
      rw [hst, h]; exact hs.tinv.freshP s.np (Nat.le_refl _)
    rw [kstep_none s g _ hw hne (finishedReq_dl_none s mid hp)]
    exact GI_quiet hg mono (fun _ _ hm _ _ => by rw [hst, h] at hm; exact hm)
      (fun _ _ hp _ _ => by rw [hst, h] at hp; exact hp)
  | repl m h0 hk => simp [isWR, h0, hk] at hw
  | ae m p p' h0 hd hk hpk hpk2 hnode hsrc hop hfin hsent sh =>
    have hprocs : (step s (.dl mid)).procs = upd s.procs s.np (some p') := by
      rw [hst, sh.procs]
      exact upd_upd s.procs s.np (some p) (some p')
    have hnp : (step s (.dl mid)).procs s.np = some p' := by rw [hprocs, upd_same]
    have hfr := finishedReq_dl s mid p' hnp
    have hvers : (step s (.dl mid)).vers = s.vers := sh.vers
    have hmsgs : ∀ mid' q, (step s (.dl mid)).msgs mid' = some q → q.kind = .aereq → q.delivered = false →
        s.msgs mid' = some q := by
      intro mid' q hq hk' hd'
      have h2 : upd s.msgs mid (some { m with delivered := true }) mid' = some q := ae_msgs_frame sh mid' q hq hk'
      rw [upd_apply] at h2
      split at h2
      · cases h2; cases hd'
      · exact h2
    by_cases hkq : m.kind = .aereq
    · have hp'k : p'.kind = .aereq := by rw [sh.kind]; exact hpk.mpr hkq
      have hnode' : p'.node = m.dst := sh.node.trans hnode
      have hop' : p'.op = mid := sh.op.trans hop
      have hsm := hg.sm mid m h0 hkq hd
      have hl1 : (({ s with msgs := upd s.msgs mid (some { m with delivered := true }) } : St).spawn p).lww = true :=
        hs.lww
      have skip' : ∀ kv, kv ∈ m.items → kv ∈ p'.items ∨ ML.takes sp.n (s.vers m.dst kv.1) kv.2 = false := by
        intro kv hkv
        have := sh.skip kv hkv
        rw [takesR_lww_ph _ hl1, hnode] at this
        rw [← hs.n]
        exact this
      refine GI_handler hg mono s.np p' hprocs hmsgs ?_ ?_
      · intro x hx k v hxv
        rw [hop'] at hx
        rw [hvers, hnode']
        have pre : OGe (s.vers m.dst k) v ∨ ∃ w, (k, w) ∈ m.items ∧ ¬ vlt w v := Or.inr (hsm x hx k v hxv)
        rcases after_loop sp hc s.vers m.dst (fun k e he => hs.tinv.versP _ _ _ he) m.items p'.items
          (hs.tinv.msgP mid m h0).2 skip' k v (hP0 x k v hxv) pre with r | ⟨w, hw', hwv⟩
        · exact Or.inl r
        · right
          obtain ⟨k1, k2⟩ := sh.keep (fun e => by rw [e] at hw'; cases hw')
          exact ⟨k1.trans hfin, k2.trans hsent, w, hw', hwv⟩
      · rw [kstep_handler s g (.dl mid) hw hne (p'.kind = .aereq ∧ p'.fin = true) p'.node p'.op hfr]
        exact if_fin_eq p' hp'k _ _
    · have hp'k : p'.kind ≠ .aereq := by rw [sh.kind]; exact fun e => hkq (hpk.mp e)
      have hfr' : finishedReq s (.dl mid) = none := by
        rw [hfr, if_neg (fun c => hp'k c.1)]
      rw [kstep_none s g _ hw hne hfr']
      refine GI_quiet hg mono hmsgs ?_
      intro pid q hq hk' _
      rw [hprocs, upd_apply] at hq
      split at hq
      · cases hq; exact absurd hk' hp'k
      · exact hq

theorem GI_rs {P : Nat → Version → Prop} (sp s : St) (hc : ∀ k, Coherent sp.n (P k))
    (hP0 : ∀ h k v, sp.vers h k = some v → P k v) (g : GK) (pid : Nat) (hs : SI P sp s) (hg : GI sp s g)
    (hw : isWR s (.rs pid) = false) (hs' : SI P sp (step s (.rs pid))) (mono : Mono s (step s (.rs pid))) :
    GI sp (step s (.rs pid)) (kstep s g (.rs pid)) := by
  have hne : ∀ node peer, Act.rs pid ≠ .ae node peer := fun _ _ e => by cases e
  have hst : step s (.rs pid) = resume s pid := rfl
  cases resume_shape s pid with
  | fail e h =>
    rw [kstep_none s g _ hw hne (finishedReq_rs_same s pid (by rw [hst, h]; rfl))]
    exact GI_quiet hg mono (fun _ _ hm _ _ => by rw [hst, h] at hm; exact hm)
      (fun _ _ hp _ _ => by rw [hst, h] at hp; exact hp)
  | wr p0 h0 hk => rcases hk with hk | hk <;> simp [isWR, h0, hk] at hw
  | other p0 p' h0 hf hk hk' hv hm hp =>
    have hpp : (step s (.rs pid)).procs pid = some p' := by rw [hst, hp, upd_same]
    have hnk : p'.kind ≠ .aereq := by
      rw [hk']; rcases hk with hk | hk <;> rw [hk] <;> exact fun e => by cases e
    have hfr : finishedReq s (.rs pid) = none := by
      rw [finishedReq_rs s pid p0 p' h0 hpp, if_neg (fun c => hnk c.2.1)]
    rw [kstep_none s g _ hw hne hfr]
    refine GI_quiet hg mono (fun _ _ hmm _ _ => by rw [hst, hm] at hmm; exact hmm) ?_
    intro pid' q hq hkq _
    rw [hst, hp, upd_apply] at hq
    split at hq
    · cases hq; exact absurd hkq hnk
    · exact hq
  | sent p0 h0 hf hk hsent h =>
    have hprocs : (step s (.rs pid)).procs = upd s.procs pid (some { p0 with seg := p0.seg + 1, fin := true }) := by
      rw [hst, h]; rfl
    have hpp : (step s (.rs pid)).procs pid = some { p0 with seg := p0.seg + 1, fin := true } := by
      rw [hprocs, upd_same]
    have hvers : (step s (.rs pid)).vers = s.vers := by rw [hst, h]; rfl
    have hmsgs : ∀ mid' q, (step s (.rs pid)).msgs mid' = some q → q.kind = .aereq → q.delivered = false →
        s.msgs mid' = some q := fun _ _ hm _ _ => by rw [hst, h] at hm; exact hm
    have hfr := finishedReq_rs s pid p0 _ h0 hpp
    by_cases hkq : p0.kind = .aereq
    · refine GI_handler hg mono pid _ hprocs hmsgs ?_ ?_
      · intro x hx k v hxv
        rw [hvers]
        rcases hg.spr pid p0 h0 hkq hf x hx k v hxv with r | ⟨r, _⟩
        · exact Or.inl r
        · rw [hsent] at r; cases r
      · rw [kstep_handler s g (.rs pid) hw hne _ _ _ hfr]
        rw [if_pos ⟨hf, hkq, rfl⟩, if_pos rfl]
    · have hfr' : finishedReq s (.rs pid) = none := by
        rw [hfr, if_neg (fun c => hkq c.2.1)]
      rw [kstep_none s g _ hw hne hfr']
      refine GI_quiet hg mono hmsgs ?_
      intro pid' q hq hk' _
      rw [hprocs, upd_apply] at hq
      split at hq
      · cases hq; exact absurd hk' hkq
      · exact hq
  | wait p0 p' k v rest h0 hf hk hsent hit sh =>
    obtain ⟨f1, f2, _, _, f5, f6⟩ := install_frame_ph s p0.node k v
    have hprocs : (step s (.rs pid)).procs = upd s.procs pid (some p') := by
      rw [hst, sh.procs, f6]
    have hpp : (step s (.rs pid)).procs pid = some p' := by rw [hprocs, upd_same]
    have hvers : (step s (.rs pid)).vers = (install s p0.node k v).1.vers := sh.vers
    have hmsgs : ∀ mid' q, (step s (.rs pid)).msgs mid' = some q → q.kind = .aereq → q.delivered = false →
        s.msgs mid' = some q := by
      intro mid' q hq hk' _
      have := ae_msgs_frame sh mid' q hq hk'
      rw [f5] at this
      exact this
    have hfr := finishedReq_rs s pid p0 p' h0 hpp
    have hpk : p'.kind = p0.kind := sh.kind
    have hnode' : p'.node = p0.node := sh.node
    have hop' : p'.op = p0.op := sh.op
    by_cases hkq : p0.kind = .aereq
    · have hp'k : p'.kind = .aereq := hpk.trans hkq
      obtain ⟨hN, hPv, _, hcase, _⟩ := install_ok sp s hc hs pid p0 k v rest h0 hk hit
      have hl1 : (install s p0.node k v).1.lww = true := by rw [f2]; exact hs.lww
      have skip' : ∀ kv, kv ∈ rest → kv ∈ p'.items ∨
          ML.takes sp.n ((step s (.rs pid)).vers p0.node kv.1) kv.2 = false := by
        intro kv hkv
        have := sh.skip kv hkv
        rw [takesR_lww_ph _ hl1, f1, hs.n] at this
        rw [hvers]
        exact this
      have hIr : ∀ kv, kv ∈ rest → P kv.1 kv.2 := fun kv hkv =>
        (hs.tinv.procP pid p0 h0).2 kv (by rw [hit]; exact List.mem_cons_of_mem _ hkv)
      refine GI_handler hg mono pid p' hprocs hmsgs ?_ ?_
      · intro x hx k' v' hxv
        rw [hop'] at hx
        rw [hnode']
        have hPv' : P k' v' := hP0 x k' v' hxv
        have pre : OGe ((step s (.rs pid)).vers p0.node k') v' ∨ ∃ w, (k', w) ∈ rest ∧ ¬ vlt w v' := by
          rcases hg.spr pid p0 h0 hkq hf x hx k' v' hxv with r | ⟨_, w, hw', hwv⟩
          · exact Or.inl (mono p0.node k' v' r)
          · rw [hit] at hw'
            rcases List.mem_cons.mp hw' with e | e
            · left
              have e1 : k' = k := congrArg Prod.fst e
              have e2 : w = v := congrArg Prod.snd e
              subst e1; subst e2
              rw [hvers]
              rcases hcase with c | ⟨e', c1, _, c3⟩
              · exact ⟨w, c, hwv⟩
              · exact ⟨e', c1, nlt_trans sp.n (P k') (hc k') e' w v' hPv hPv' c3 hwv⟩
            · exact Or.inr ⟨w, e, hwv⟩
        rcases after_loop sp hc (step s (.rs pid)).vers p0.node (fun k e he => hs'.tinv.versP _ _ _ he)
          rest p'.items hIr skip' k' v' hPv' pre with r | ⟨w, hw', hwv⟩
        · exact Or.inl r
        · right
          obtain ⟨k1, k2⟩ := sh.keep (fun e => by rw [e] at hw'; cases hw')
          exact ⟨k1.trans hf, k2.trans hsent, w, hw', hwv⟩
      · rw [kstep_handler s g (.rs pid) hw hne _ p'.node p'.op hfr]
        exact if_fin_eq3 p0 p' hf hp'k _ _
    · have hp'k : p'.kind ≠ .aereq := by rw [hpk]; exact hkq
      have hfr' : finishedReq s (.rs pid) = none := by
        rw [hfr, if_neg (fun c => hp'k c.2.1)]
      rw [kstep_none s g _ hw hne hfr']
      refine GI_quiet hg mono hmsgs ?_
      intro pid' q hq hk' _
      rw [hprocs, upd_apply] at hq
      split at hq
      · cases hq; exact absurd hk' hp'k
      · exact hq

end HappyModel.C17.MLT
