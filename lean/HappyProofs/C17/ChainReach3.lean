import HappyProofs.C17.ChainReach2
/-! Delivery completeness: all actions; convergence at quiescence. -/
namespace HappyModel.C17.Chain

theorem fr_cw (s : St) (op node k v : Nat) (hi : Inv s) (h : FR s) : FR (step s (.cw op node k v)) := by
  have hle := hi.core.app_le
  simp only [step]
  split
  · exact fr_fail _ _ h
  · split
    · exact fr_spawn _ _ (fr_reply _ _ _ h) hle
    · let s1 : St := { s with seq := s.seq + 1, wk := upd s.wk (s.seq + 1) k, wv := upd s.wv (s.seq + 1) v }
      have h1 : FR s1 := by
        refine ⟨⟨h.fresh.procs_none, h.fresh.msgs_none⟩, reach_keeps s s1 h.reach
          (keeps_of s s1 ?_ (fun _ _ => Nat.le_refl _) (fun _ _ hq _ _ => hq) (fun _ _ hq _ _ _ => hq)) rfl rfl hle⟩
        intro q hq
        show upd s.wk (s.seq + 1) k q = s.wk q
        rw [upd_other _ _ _ _ (by omega)]
      exact fr_spawn s1 _ h1 (Nat.le_succ_of_le hle)

theorem fr_cr (s : St) (op node k : Nat) (hi : Inv s) (h : FR s) : FR (step s (.cr op node k)) := by
  simp only [step]
  split
  · exact fr_fail _ _ h
  · exact fr_spawn _ _ h hi.core.app_le

theorem fr_dl (s : St) (mid : Nat) (hi : Inv s) (h : FR s) : FR (step s (.dl mid)) := by
  have hle := hi.core.app_le
  simp only [step, deliver]
  split
  · exact fr_fail _ _ h
  · rename_i m hm
    split
    · exact fr_fail _ _ h
    · split
      · exact fr_deliver_prop s mid m h hle hm
      · rename_i hk
        have h1 := fr_flag_other s mid m h hle hm (by rw [hk]; simp)
        refine fr_spawn _ _ ⟨⟨h1.fresh.procs_none, h1.fresh.msgs_none⟩, h1.reach⟩ hle
      · rename_i hk
        have h1 := fr_flag_other s mid m h hle hm (by rw [hk]; simp)
        refine fr_spawn _ _ ?_ (by split <;> simp [markCommitted] <;> (try split) <;> exact hle)
        split
        · exact fr_markCommitted _ _ _ _ h1 hle
        · exact h1
      · rename_i hk
        have h1 := fr_flag_other s mid m h hle hm (by rw [hk]; simp)
        exact fr_spawn _ _ h1 hle

theorem fr_rs_write (s : St) (pid : Nat) (p : Proc) (hi : Inv s) (h : FR s) (hp : s.procs pid = some p)
    (hk : p.kind = .write) : FR (resumeWrite s pid p) := by
  have hle := hi.core.app_le
  have hnc : ¬ (p.kind = .prop ∧ p.seg = 1 ∧ p.fin = false) := by rw [hk]; simp
  have hpo := hi.procs pid p hp
  unfold ProcOK at hpo; rw [hk] at hpo
  obtain ⟨w1, w2, w3, w4, w5, w6, w7⟩ := hpo
  have hlt : pid < s.np := by
    by_cases hh : pid < s.np
    · exact hh
    · rw [h.fresh.procs_none pid (by omega)] at hp; cases hp
  unfold resumeWrite
  split
  · split
    · exact fr_fail _ _ h
    · rename_i hfifo
      have hfifo : p.seq = s.applied + 1 := by simpa using hfifo
      let s1 : St := { s with applied := s.applied + 1, store := upd2 s.store 0 p.key (some p.val),
                              aseq := upd2 s.aseq 0 p.key p.seq,
                              dirty := if s.craq then upd2 s.dirty 0 p.key true else s.dirty }
      let m : Msg := { kind := .prop, dst := 1, key := p.key, val := p.val, seq := p.seq }
      let p' : Proc := { p with seg := 2 }
      show FR ((s1.send m).setProc pid p')
      have hmono : ∀ i k, s.aseq i k ≤ s1.aseq i k := by
        intro i k
        show s.aseq i k ≤ upd2 s.aseq 0 p.key p.seq i k
        rw [upd2_apply]; split
        · rename_i hc; obtain ⟨hc1, hc2⟩ := hc; subst hc1; subst hc2
          have := (hi.core.store 0 p.key).1; omega
        · exact Nat.le_refl _
      have hmsg_old : ∀ x mx, s.msgs x = some mx → ((s1.send m).setProc pid p').msgs x = some mx := by
        intro x mx hx
        have : x ≠ s.nm := by intro e; subst e; rw [h.fresh.msgs_none _ (Nat.le_refl _)] at hx; cases hx
        show upd s.msgs s.nm (some m) x = some mx
        rw [upd_other _ _ _ _ this]; exact hx
      have hk1 : Keeps s ((s1.send m).setProc pid p') := by
        refine keeps_of s _ (fun _ _ => rfl) hmono (fun x mx hx _ _ => hmsg_old x mx hx) ?_
        intro x q hq h1 _ _
        have : x ≠ pid := by intro e; subst e; rw [hp] at hq; cases hq; rw [hk] at h1; cases h1
        show upd s.procs pid (some p') x = some q
        rw [upd_other _ _ _ _ this]; exact hq
      refine ⟨⟨?_, ?_⟩, ?_⟩
      · intro x hx
        have hx : s.np ≤ x := hx
        show upd s.procs pid (some p') x = none
        rw [upd_other _ _ _ _ (by omega)]; exact h.fresh.procs_none x hx
      · intro x hx
        have hx : s.nm + 1 ≤ x := hx
        show upd s.msgs s.nm (some m) x = none
        rw [upd_other _ _ _ _ (by omega)]; exact h.fresh.msgs_none x (by omega)
      · intro q h1 h2 j h3 h4
        have h2 : q ≤ s.applied + 1 := h2
        have h4 : j < s.n := h4
        by_cases hq : q = s.applied + 1
        · refine Or.inr (Or.inl ⟨s.nm, m, ?_, rfl, by rw [hq, ← hfifo], h3, rfl⟩)
          show upd s.msgs s.nm (some m) s.nm = some m
          rw [upd_same]
        · exact hk1 q j (by omega) (h.reach q h1 (by omega) j h3 h4)
  · split
    · exact fr_setProc s pid p _ h hle hp hnc
    · split
      · have h1 := fr_markCommitted s 0 p.key p.seq h hle
        obtain ⟨_, _, f3, f4⟩ := fresh_markCommitted s 0 p.key p.seq h.fresh
        have hp1 : (markCommitted s 0 p.key p.seq).procs pid = some p := by
          unfold markCommitted; dsimp only; split <;> exact hp
        exact fr_setProc _ pid p _ (fr_reply _ _ _ h1) (by show (markCommitted s 0 p.key p.seq).applied ≤ (markCommitted s 0 p.key p.seq).seq; rw [f3, f4]; exact hle) hp1 hnc
      · exact fr_fail _ _ h

theorem fr_rs_prop (s : St) (pid : Nat) (p : Proc) (hi : Inv s) (h : FR s) (hp : s.procs pid = some p)
    (hk : p.kind = .prop) (hfin : p.fin = false) : FR (resumeProp s pid p) := by
  have hle := hi.core.app_le
  have hpo := hi.procs pid p hp
  unfold ProcOK at hpo; rw [hk] at hpo
  obtain ⟨a1, a2, a3, a4, a5, a6, a7, a8⟩ := hpo
  have hlt : pid < s.np := by
    by_cases hh : pid < s.np
    · exact hh
    · rw [h.fresh.procs_none pid (by omega)] at hp; cases hp
  unfold resumeProp
  dsimp only
  split
  · -- the apply segment: the handler's load is applied here and handed to the next message
    rename_i hseg
    obtain ⟨hI1, hm1, hge⟩ := inv_applyAt s p.node p.key p.val p.seq hi a2 a3 a4 a5 a6 a7
    obtain ⟨f1, f2, f3, f4, f5, f6, f7⟩ := fresh_applyAt s p.node p.key p.val p.seq h.fresh hm1
    generalize hs1 : applyAt s p.node p.key p.val p.seq = s1 at *
    have hn1 : s1.n = s.n := hm1.n
    have hwk1 : s1.wk p.seq = p.key := by rw [hm1.wk _ (Nat.le_trans a4 hle)]; exact a5
    -- common tail of both branches
    have key : ∀ (msg : Msg), (p.node ≠ s.n - 1 → msg.kind = .prop ∧ msg.seq = p.seq ∧ msg.dst = p.node + 1 ∧
        msg.delivered = false) → FR ((s1.send msg).setProc pid { p with seg := 2 }) := by
      intro msg hmsg
      refine ⟨⟨?_, ?_⟩, ?_⟩
      · intro x hx
        have hx : s1.np ≤ x := hx
        show upd s1.procs pid (some { p with seg := 2 }) x = none
        have e : s1.np = s.np := by
          rw [← hs1]; unfold applyAt; split <;> rfl
        rw [upd_other _ _ _ _ (by omega)]; exact f1.procs_none x hx
      · intro x hx
        have hx : s1.nm + 1 ≤ x := hx
        show upd s1.msgs s1.nm (some msg) x = none
        rw [upd_other _ _ _ _ (by omega)]; exact f1.msgs_none x (by omega)
      · intro q h1 h2 j h3 h4
        have h2 : q ≤ s1.applied := h2
        have h4 : j < s1.n := h4
        rw [f3] at h2; rw [hn1] at h4
        have hc := f2 q j (Nat.le_trans h2 hle) (h.reach q h1 h2 j h3 h4)
        rcases hc with c | ⟨x, mx, c1, c2, c3, c4, c5⟩ | ⟨x, r, c1, c2, c3, c4, c5, c6⟩
        · exact Or.inl c
        · refine Or.inr (Or.inl ⟨x, mx, ?_, c2, c3, c4, c5⟩)
          have : x ≠ s1.nm := by intro e; subst e; rw [f1.msgs_none _ (Nat.le_refl _)] at c1; cases c1
          show upd s1.msgs s1.nm (some msg) x = some mx
          rw [upd_other _ _ _ _ this]; exact c1
        · by_cases hx : x = pid
          · subst hx
            rw [f5, hp] at c1; cases c1
            -- the resumed handler itself was the carrier
            by_cases hj : j = p.node
            · left; subst hj
              show q ≤ s1.aseq p.node (s1.wk q)
              rw [← c3, hwk1]; exact hge
            · have hnt : p.node ≠ s.n - 1 := by omega
              obtain ⟨m1, m2, m3, m4⟩ := hmsg hnt
              refine Or.inr (Or.inl ⟨s1.nm, msg, ?_, m1, by rw [m2]; exact c3, by rw [m3]; omega, m4⟩)
              show upd s1.msgs s1.nm (some msg) s1.nm = some msg
              rw [upd_same]
          · refine Or.inr (Or.inr ⟨x, r, ?_, c2, c3, c4, c5, c6⟩)
            show upd s1.procs pid (some { p with seg := 2 }) x = some r
            rw [upd_other _ _ _ _ hx]; exact c1
    split
    · exact key _ (fun hnt => absurd ‹p.node = s.tail› hnt)
    · exact key _ (fun _ => ⟨rfl, rfl, rfl, rfl⟩)
  · rename_i hseg
    have hnc : ¬ (p.kind = .prop ∧ p.seg = 1 ∧ p.fin = false) := fun hh => hseg hh.2.1
    split
    · split
      · have h1 := fr_markCommitted s p.node p.key p.seq h hle
        obtain ⟨_, _, f3, f4⟩ := fresh_markCommitted s p.node p.key p.seq h.fresh
        have hle1 : (markCommitted s p.node p.key p.seq).applied ≤ (markCommitted s p.node p.key p.seq).seq := by
          rw [f3, f4]; exact hle
        have hp1 : (markCommitted s p.node p.key p.seq).procs pid = some p := by
          unfold markCommitted; dsimp only; split <;> exact hp
        split
        · have h2 := fr_sendNotes _ p.key p.seq p.node h1 hle1
          obtain ⟨_, _, g3, _, g5, _, _, g8⟩ := sendNotes_fields (markCommitted s p.node p.key p.seq) p.key p.seq p.node
          exact fr_setProc _ pid p _ h2 (by rw [g5, g8]; exact hle1) (by rw [g3]; exact hp1) hnc
        · exact fr_setProc _ pid p _ h1 hle1 hp1 hnc
      · exact fr_setProc s pid p _ h hle hp hnc
    · exact fr_setProc s pid p _ h hle hp hnc

theorem fr_rs_read (s : St) (pid : Nat) (p : Proc) (hi : Inv s) (h : FR s) (hp : s.procs pid = some p)
    (hk : p.kind = .read) : FR (resumeRead s pid p) := by
  have hle := hi.core.app_le
  have hnc : ¬ (p.kind = .prop ∧ p.seg = 1 ∧ p.fin = false) := by rw [hk]; simp
  unfold resumeRead
  split
  · split
    · exact fr_setProc _ pid p _ (fr_send s _ h hle) hle hp hnc
    · exact fr_setProc _ pid p _ (fr_reply s _ _ h) hle hp hnc
  · exact fr_setProc s pid p _ h hle hp hnc

theorem fr_step (s : St) (a : Act) (hi : Inv s) (h : FR s) : FR (step s a) := by
  cases a with
  | cw op node k v => exact fr_cw s op node k v hi h
  | cr op node k => exact fr_cr s op node k hi h
  | dl mid => exact fr_dl s mid hi h
  | ae n p => exact fr_fail _ _ h
  | tick t => exact fr_fail _ _ h
  | rs pid =>
    simp only [step, resume]
    split
    · exact fr_fail _ _ h
    · rename_i p hp
      split
      · exact fr_fail _ _ h
      · rename_i hfin
        split
        · exact fr_rs_write s pid p hi h hp ‹_›
        · exact fr_rs_prop s pid p hi h hp ‹_› (by simpa using hfin)
        · exact fr_rs_read s pid p hi h hp ‹_›
        · exact fr_fail _ _ h

theorem fr_run (s : St) (acts : List Act) (hi : Inv s) (h : FR s) : FR (run s acts) := by
  induction acts generalizing s with
  | nil => exact h
  | cons a as ih => exact ih _ (step_inv s a hi) (fr_step s a hi h)

theorem fr_init (craq : Bool) (n : Nat) : FR (init craq n) :=
  ⟨⟨fun _ _ => rfl, fun _ _ => rfl⟩, fun q h1 h2 => by simp [init] at h2; omega⟩

/-- at quiescence nothing carries anything, so every applied write has reached every node -/
theorem quiescent_agree (s : St) (hi : Inv s) (h : FR s) (hq : quiescent s) (i : Nat) (hlt : i < s.n) (k : Nat) :
    s.store i k = s.store 0 k := by
  obtain ⟨q1, q2, q3⟩ := hq
  apply caught_up_agree s hi k ?_ i hlt
  have hn2 := hi.core.n2
  have hle := hi.core.order 0 (s.n - 1) k (Nat.zero_le _) (by omega)
  have hge : s.aseq 0 k ≤ s.aseq (s.n - 1) k := by
    by_cases hz : s.aseq 0 k = 0
    · omega
    · obtain ⟨b1, b2, b3⟩ := hi.core.store 0 k
      have hk0 := (b3 hz).1
      rcases h.reach (s.aseq 0 k) (by omega) b1 (s.n - 1) (by omega) (by omega) with c | ⟨x, mx, c1, c2, c3, c4, c5⟩ | ⟨x, r, c1, c2, c3, c4, c5, c6⟩
      · rw [hk0] at c; exact c
      · have hx : x < s.nm := by
          by_cases hh : x < s.nm
          · exact hh
          · rw [h.fresh.msgs_none x (by omega)] at c1; cases c1
        have := q2 x hx mx c1
        rw [this] at c5; cases c5
      · have hx : x < s.np := by
          by_cases hh : x < s.np
          · exact hh
          · rw [h.fresh.procs_none x (by omega)] at c1; cases c1
        have := q3 x hx r c1
        rw [this] at c6; cases c6
  omega

end HappyModel.C17.Chain
