import HappyProofs.C17.MLMStep
/-!
Multi-leader with a merging resolver: deliveries, client events and whole runs preserve `Inv`;
at quiescence all leaders hold, for every key, versions whose vector clocks agree on every leader
component (`quiescent_clocks_agree`) — for every action list, with no hypothesis on the run.  The
*values* need not agree (the example at the end: union of bit masks, 12 | 12 | 14 under one clock).
-/
namespace HappyModel.C17.MLM
open HappyModel.C17.ML (Version Msg Proc MKind PKind vcGet dominates vcMerge vcTick)

theorem deliver_inv (s : St) (mid : Nat) (h : Inv s) : Inv (deliver s mid) := by
  unfold deliver
  unfold Inv
  cases h0 : s.msgs mid with
  | none => exact h
  | some m =>
    simp only
    by_cases hd : m.delivered = true
    · simp only [hd, if_true]; exact h
    · have hd' : m.delivered = false := by simpa using hd
      simp only [hd', Bool.false_eq_true, if_false]
      have hmw := h.msgG mid m h0
      cases hk : m.kind with
      | repl =>
        simp only
        have hw : WrittenC s.core m.key m.ver := hmw.1 hk
        split
        · have hs := inv_spawn h ({ kind := .repl, node := m.dst, key := m.key, ver := m.ver, op := mid } : Proc)
            (fun e => by simp at e) (fun _ => hw) (fun kv hkv => by simp at hkv)
          exact inv_setMsg hs (m0 := m) (m' := { m with kind := .repl, delivered := true }) h0 hk.symm rfl rfl rfl
            (fun _ _ => Or.inr ⟨s.core.np, { kind := .repl, node := m.dst, key := m.key, ver := m.ver, op := mid },
              by show upd _ _ _ _ = _; simp, rfl, rfl, rfl, rfl, rfl⟩)
        · rename_i ht
          have ht' : takes s.n (s.vers m.dst m.key) m.ver = false := by simpa using ht
          have hs := inv_spawn h
            ({ kind := .repl, node := m.dst, key := m.key, ver := m.ver, op := mid, fin := true } : Proc)
            (fun e => by simp at e) (fun _ => hw) (fun kv hkv => by simp at hkv)
          exact inv_setMsg hs (m0 := m) (m' := { m with kind := .repl, delivered := true }) h0 hk.symm rfl rfl rfl
            (fun _ _ => Or.inl (ge_of_not_takes ht'))
      | aereq =>
        simp only
        have h1 : InvC (s.core.setMsg mid { m with kind := .aereq, delivered := true }) :=
          inv_setMsg h h0 hk.symm rfl rfl rfl (fun e => by rw [hk] at e; cases e)
        have h2 := inv_spawn h1 ({ kind := .aereq, node := m.dst, src := m.src, hash := m.hash, op := mid } : Proc)
          (fun e => by simp at e) (fun e => by simp at e) (fun kv hkv => by simp at hkv)
        refine inv_aeContinue _ _ _ _ m.items h2 (by show upd _ _ _ _ = _; simp) rfl rfl rfl rfl
          (by simp) (by simp) ?_
        exact (h2.msgG mid { m with kind := .aereq, delivered := true } (by show upd _ _ _ _ = _; simp)).2
      | aeresp =>
        simp only
        have h1 : InvC (s.core.setMsg mid { m with kind := .aeresp, delivered := true }) :=
          inv_setMsg h h0 hk.symm rfl rfl rfl (fun e => by rw [hk] at e; cases e)
        have h2 := inv_spawn h1 ({ kind := .aeresp, node := m.dst, src := m.src, op := mid } : Proc)
          (fun e => by simp at e) (fun e => by simp at e) (fun kv hkv => by simp at hkv)
        refine inv_aeContinue _ _ _ _ m.items h2 (by show upd _ _ _ _ = _; simp) rfl rfl rfl rfl
          (by simp) (by simp) ?_
        exact (h2.msgG mid { m with kind := .aeresp, delivered := true } (by show upd _ _ _ _ = _; simp)).2

theorem step_inv (s : St) (a : Act) (h : Inv s) : Inv (step s a) := by
  cases a with
  | tick t => exact h
  | cw op node k v =>
    simp only [step]
    by_cases hn : node ≥ s.n
    · simp only [hn, if_true]; exact h
    · simp only [hn, if_false]
      exact inv_spawn h _ (fun _ => ⟨rfl, rfl⟩) (fun e => by simp at e) (fun kv hkv => by simp at hkv)
  | cr op node k =>
    simp only [step]
    by_cases hn : node ≥ s.n
    · simp only [hn, if_true]; exact h
    · simp only [hn, if_false]
      exact inv_spawn h _ (fun e => by simp at e) (fun e => by simp at e) (fun kv hkv => by simp at hkv)
  | dl mid => exact deliver_inv s mid h
  | rs pid => exact resume_inv s pid h
  | ae node peer =>
    simp only [step]
    split
    · exact h
    · have h1 := inv_send h ({ kind := .aereq, src := node, dst := peer, items := versionsOf s node, hash := s.store node } : Msg)
        (fun e => by simp at e) (versionsOf_good s h node)
      exact inv_spawn h1 _ (fun e => by simp at e) (fun e => by simp at e) (fun kv hkv => by simp at hkv)

theorem step_n (s : St) (a : Act) : (step s a).n = s.n := by
  have aeC : ∀ (s : St) pid p items, (aeContinue s pid p items).n = s.n := by
    intro s pid p items
    unfold aeContinue
    have e1 := aeLoop_fst s p.node items
    rcases hl : aeLoop s p.node items with ⟨s1, left⟩
    rw [hl] at e1
    simp only at e1 ⊢
    subst e1
    cases left with
    | cons x xs => rfl
    | nil => simp only; split <;> rfl
  have inst : ∀ (s : St) i k v, (install s i k v).1.n = s.n := by
    intro s i k v; unfold install; split <;> rfl
  have fold : ∀ (mk : Nat → Msg) (l : List Nat) (s : St), (l.foldl (fun s j => s.send (mk j)) s).n = s.n := by
    intro mk l
    induction l with
    | nil => intro s; rfl
    | cons j l ih => intro s; simp only [List.foldl_cons]; rw [ih]; rfl
  cases a with
  | tick t => rfl
  | cw op node k v => simp only [step]; split <;> rfl
  | cr op node k => simp only [step]; split <;> rfl
  | ae node peer => simp only [step]; split <;> rfl
  | dl mid =>
    show (deliver s mid).n = s.n
    unfold deliver
    cases h0 : s.msgs mid with
    | none => rfl
    | some m =>
      simp only
      by_cases hd : m.delivered = true
      · simp only [hd, if_true]; rfl
      · have hd' : m.delivered = false := by simpa using hd
        simp only [hd', Bool.false_eq_true, if_false]
        cases hk : m.kind with
        | repl => simp only; split <;> rfl
        | aereq => simp only; rw [aeC]; rfl
        | aeresp => simp only; rw [aeC]; rfl
  | rs pid =>
    show (resume s pid).n = s.n
    unfold resume
    cases h0 : s.procs pid with
    | none => rfl
    | some p0 =>
      simp only
      by_cases hf : p0.fin = true
      · simp only [hf, if_true]; rfl
      · have hf' : p0.fin = false := by simpa using hf
        simp only [hf', Bool.false_eq_true, if_false]
        cases hk : p0.kind with
        | write =>
          simp only
          by_cases hs : p0.seg = 1
          · simp only [hs, if_true]
            show St.n (List.foldl _ _ _) = _
            rw [fold, inst]
          · simp only [hs, if_false]; rfl
        | repl =>
          simp only
          show St.n (install _ _ _ _).1 = _
          rw [inst]
        | read => rfl
        | ae => rfl
        | aereq =>
          simp only
          split
          · rfl
          · split
            · split
              · rw [aeC, inst]
              · rfl
            · rfl
        | aeresp =>
          simp only
          split
          · rfl
          · split
            · split
              · rw [aeC, inst]
              · rfl
            · rfl
        | other => rfl

theorem run_n (s : St) : ∀ acts, (run s acts).n = s.n
  | [] => rfl
  | a :: as => by rw [run, run_n (step s a) as, step_n]

theorem run_inv_from : ∀ (acts : List Act) (s : St), Inv s → Inv (run s acts)
  | [], _, h => h
  | a :: as, s, h => by rw [run]; exact run_inv_from as (step s a) (step_inv s a h)

theorem init_inv (n nk : Nat) (jn : Join) : Inv (init n nk jn) := by
  refine ⟨fun _ _ => rfl, fun _ _ => rfl, ?_, ?_, fun _ _ => rfl, ?_, ?_, ?_⟩
  · intro pid p hp; cases hp
  · intro i k v hv; cases hv
  · intro mid m hm; cases hm
  · intro pid p hp; cases hp
  · intro pid p hp; cases hp

/-- the invariant holds after every run from the initial state -/
theorem run_inv (n nk : Nat) (jn : Join) (acts : List Act) : Inv (run (init n nk jn) acts) :=
  run_inv_from acts _ (init_inv n nk jn)

/-! ### quiescence -/

theorem quiescent_spec (s : St) (hq : quiescentB s = true) :
    (∀ mid m, mid < s.nm → s.msgs mid = some m → m.delivered = true) ∧
    (∀ pid p, pid < s.np → s.procs pid = some p → p.fin = true) := by
  unfold quiescentB at hq
  simp only [Bool.and_eq_true, List.all_eq_true, List.mem_range] at hq
  constructor
  · intro mid m hlt hm
    have := hq.1 mid hlt
    rw [hm] at this; exact this
  · intro pid p hlt hp
    have := hq.2 pid hlt
    rw [hp] at this; exact this

/-- at quiescence every replica's clock is at or above every written version's -/
theorem quiescent_ge (s : St) (h : Inv s) (hq : quiescentB s = true) (k : Nat) (v : Version)
    (hw : WrittenC s.core k v) (i : Nat) (hi : i < s.n) : Ge s.n (s.vers i k) v := by
  obtain ⟨qm, qp⟩ := quiescent_spec s hq
  obtain ⟨pid, p, hp, hk, rfl, rfl⟩ := hw
  have hlt : pid < s.np := by
    rcases Nat.lt_or_ge pid s.np with x | x
    · exact x
    · have := h.freshP pid x
      rw [hp] at this; cases this
  have hfin := qp pid p hlt hp
  have hseg := (h.wr pid p hp hk).2 hfin
  rcases h.cov pid p hp hk hseg i hi with g | ⟨mid, m, g1, _, _, _, _, g6⟩ | ⟨pid', p', g1, _, _, _, _, g6⟩
  · exact g
  · have hlt' : mid < s.nm := by
      rcases Nat.lt_or_ge mid s.nm with x | x
      · exact x
      · have := h.freshM mid x
        rw [g1] at this; cases this
    have := qm mid m hlt' g1
    rw [g6] at this; cases this
  · have hlt' : pid' < s.np := by
      rcases Nat.lt_or_ge pid' s.np with x | x
      · exact x
      · have := h.freshP pid' x
        rw [g1] at this; cases this
    have := qp pid' p' hlt' g1
    rw [g6] at this; cases this

/-- a write handler of the state carries `(k, w)` -/
def Written (s : St) (k : Nat) (w : Version) : Prop :=
  ∃ pid p, s.procs pid = some p ∧ p.kind = .write ∧ p.key = k ∧ p.ver = w

/-- at quiescence every leader holds, for every written version, a version whose clock is
pointwise at or above it -/
theorem quiescent_covers (n nk : Nat) (jn : Join) (acts : List Act)
    (hq : quiescentB (run (init n nk jn) acts) = true) (k : Nat) (w : Version)
    (hw : Written (run (init n nk jn) acts) k w) (i : Nat) (hi : i < n) :
    ∃ u, (run (init n nk jn) acts).vers i k = some u ∧ ∀ c, c < n → vcGet w.vc c ≤ vcGet u.vc c := by
  have hn : (run (init n nk jn) acts).n = n := run_n _ _
  have := quiescent_ge _ (run_inv n nk jn acts) hq k w hw i (by rw [hn]; exact hi)
  rw [hn] at this
  exact this

/-- one direction of the agreement, on a state satisfying the invariant -/
theorem quiescent_le (s : St) (h : Inv s) (hq : quiescentB s = true) (i j k : Nat) (hj : j < s.n)
    (u : Version) (hu : s.vers i k = some u) :
    ∃ u', s.vers j k = some u' ∧ ∀ c, c < s.n → vcGet u.vc c ≤ vcGet u'.vc c := by
  obtain ⟨⟨w, hw⟩, hb⟩ := h.versG i k u hu
  obtain ⟨u', hu', _⟩ := quiescent_ge s h hq k w hw j hj
  refine ⟨u', hu', fun c hc => ?_⟩
  rcases hb c hc with h0 | ⟨w', hw', hle⟩
  · rw [h0]; exact Nat.zero_le _
  · obtain ⟨u'', hu'', hge⟩ := quiescent_ge s h hq k w' hw' j hj
    rw [hu'] at hu''; cases hu''
    exact Nat.le_trans hle (hge c hc)

/-- vector clock component of an optional version (0 when there is none) -/
def clk (o : Option Version) (c : Nat) : Nat := match o with | none => 0 | some u => vcGet u.vc c

theorem quiescent_clocks_agree (n nk : Nat) (jn : Join) (acts : List Act)
    (hq : quiescentB (run (init n nk jn) acts) = true) (i j k : Nat) (hi : i < n) (hj : j < n) :
    (∀ c, c < n → clk ((run (init n nk jn) acts).vers i k) c = clk ((run (init n nk jn) acts).vers j k) c) ∧
    (((run (init n nk jn) acts).vers i k).isSome = ((run (init n nk jn) acts).vers j k).isSome) ∧
    (run (init n nk jn) acts).store i k = ((run (init n nk jn) acts).vers i k).map (·.val) := by
  have hn : (run (init n nk jn) acts).n = n := run_n _ _
  have h := run_inv n nk jn acts
  generalize run (init n nk jn) acts = s at hq hn h
  subst hn
  refine ⟨?_, ?_, h.store i k⟩
  · intro c hc
    cases hvi : s.vers i k with
    | none =>
      cases hvj : s.vers j k with
      | none => rfl
      | some u' =>
        obtain ⟨u, hu, _⟩ := quiescent_le s h hq j i k hi u' hvj
        rw [hvi] at hu; cases hu
    | some u =>
      obtain ⟨u', hu', hle⟩ := quiescent_le s h hq i j k hj u hvi
      obtain ⟨u2, hu2, hle'⟩ := quiescent_le s h hq j i k hi u' hu'
      rw [hvi] at hu2; cases hu2
      rw [hu']
      exact Nat.le_antisymm (hle c hc) (hle' c hc)
  · cases hvi : s.vers i k with
    | none =>
      cases hvj : s.vers j k with
      | none => rfl
      | some u' =>
        obtain ⟨u, hu, _⟩ := quiescent_le s h hq j i k hi u' hvj
        rw [hvi] at hu; cases hu
    | some u =>
      obtain ⟨u', hu', _⟩ := quiescent_le s h hq i j k hj u hvi
      rw [hu']; rfl

/-- non-vacuity, and why only the clocks are claimed: a recorded run of three leaders on one key
(union of bit masks) that is quiescent, has no model error, ends with one clock everywhere and
with different values -/
example :
    let s := run (init 3 1 .union)
      [.tick 1, .cw 0 0 0 2, .rs 0, .rs 0, .tick 2, .cw 1 1 0 4, .rs 1, .rs 1, .tick 3, .cw 2 0 0 8,
       .rs 2, .dl 1, .rs 2, .rs 3, .dl 3, .rs 4, .dl 4, .rs 5, .dl 5, .rs 6, .dl 2, .rs 7, .dl 0]
    quiescentB s = true ∧ s.err = none ∧
    (s.vers 0 0).map (·.vc) = some [2, 1, 0] ∧ (s.vers 1 0).map (·.vc) = some [2, 1, 0] ∧
    (s.vers 2 0).map (·.vc) = some [2, 1, 0] ∧
    s.store 0 0 = some 12 ∧ s.store 1 0 = some 12 ∧ s.store 2 0 = some 14 := by
  decide

end HappyModel.C17.MLM
