import HappyProofs.C17.MLMPhaseJ
/-!
Run-level composition, part K: the phase invariant along `krun`, and the result — in a run segment
without write / `Replicate` handler steps that starts with every `Replicate` done, complete knowledge
(`KComplete`, what `Spec.gossipComplete` evaluates) implies that all leaders hold the same store.
-/
namespace HappyModel.C17.MLM
open HappyModel.C17.ML (Version Msg Proc MKind PKind vcGet dominates vcMerge vcTick)

theorem GI_step (F3 : F3Stmt) (sp s : St) (A : Agree sp) (g : GK) (a : Act) (hs : SI sp s) (hg : GI sp s g)
    (hw : isWR s a = false) (hs' : SI sp (step s a)) (mono : Mono sp s (step s a)) :
    GI sp (step s a) (kstep s g a) := by
  cases a with
  | tick t =>
    rw [kstep_none s g _ hw (fun _ _ e => by cases e) rfl]
    exact GI_quiet hg hs.aux hs.n mono (fun _ _ hm _ _ => hm) (fun _ _ hp _ _ => hp)
  | cw op node k v => simp [isWR] at hw
  | cr op node k =>
    rw [kstep_none s g _ hw (fun _ _ e => by cases e) rfl]
    by_cases hn : node ≥ s.n
    · have e : step s (.cr op node k) = s.fail "no-such-node" := by simp only [step, hn, if_true]
      refine GI_quiet hg hs.aux hs.n mono (fun _ _ hm _ _ => by rw [e] at hm; exact hm)
        (fun _ _ hp _ _ => by rw [e] at hp; exact hp)
    · have e : step s (.cr op node k) = s.spawn { kind := .read, node := node, key := k, op := op } := by
        simp only [step, hn, if_false]
      refine GI_quiet hg hs.aux hs.n mono (fun _ _ hm _ _ => by rw [e] at hm; exact hm) ?_
      intro pid q hq hk _
      rw [e] at hq
      have hq' : upd s.procs s.np (some { kind := .read, node := node, key := k, op := op }) pid = some q := hq
      rw [upd_apply] at hq'
      split at hq'
      · cases hq'; cases hk
      · exact hq'
  | dl mid => exact GI_dl sp s g mid hs hg hw mono
  | rs pid => exact GI_rs F3 sp s A g pid hs hg hw hs' mono
  | ae node peer =>
    by_cases hc : node ≥ s.n ∨ peer ≥ s.n ∨ peer = node
    · have hc' : ¬(node < s.n ∧ peer < s.n ∧ peer ≠ node) := by omega
      have e : step s (.ae node peer) = s.fail "bad-anti-entropy" := by simp only [step, hc, if_true]
      have ek : kstep s g (.ae node peer) = g := by
        simp only [kstep, isWR, Bool.false_eq_true, if_false, if_neg hc']
      rw [ek]
      exact GI_quiet hg hs.aux hs.n mono (fun _ _ hm _ _ => by rw [e] at hm; exact hm)
        (fun _ _ hp _ _ => by rw [e] at hp; exact hp)
    · have hc' : node < s.n ∧ peer < s.n ∧ peer ≠ node := by omega
      have e : step s (.ae node peer) =
          (s.send { kind := .aereq, src := node, dst := peer, items := versionsOf s node, hash := s.store node }).spawn
            { kind := .ae, node := node } := by simp only [step, hc, if_false]
      have ek : kstep s g (.ae node peer) = { g with sk := upd g.sk s.nm (g.k node) } := by
        simp only [kstep, isWR, Bool.false_eq_true, if_false, if_pos hc']
      rw [ek]
      refine GI_tick A hs hg node peer (by rw [← hs.n]; exact hc'.1) (by rw [e]; rfl) (by rw [e]; rfl) ?_
      intro pid q hq hk _
      rw [e] at hq
      have hq' : upd s.procs s.np (some { kind := .ae, node := node }) pid = some q := hq
      rw [upd_apply] at hq'
      split at hq'
      · cases hq'; cases hk
      · exact hq'

theorem SI_init (sp : St) (hInv : Inv sp) (hSub : SubInv sp) (hAux : AuxInv sp) (hRQ : replQuiescent sp) :
    SI sp sp :=
  ⟨hInv, hSub, hAux, hRQ, rfl, rfl, fun _ _ _ => ⟨fun _ _ => rfl, rfl⟩,
   fun b hb k => le_bigJoin sp.join (fun h => x0 sp h k) sp.n b hb⟩

theorem GI_init (sp : St) : GI sp sp GK.reset := by
  refine ⟨?_, ?_, ?_⟩
  · intro b _ x hx k
    have : x = b := by simpa [GK.reset] using hx
    subst this
    exact le_refl _ _
  · intro mid m _ _ _ x hx
    simp [GK.reset] at hx
  · intro pid p _ _ _ x hx
    simp [GK.reset] at hx

theorem krun_P2
    (F1 : ∀ s a, SubInv s → Inv s → SubInv (step s a))
    (F2 : ∀ s a, isWR s a = false → Inv s → replQuiescent s → replQuiescent (step s a))
    (F3 : F3Stmt) (sp : St) (A : Agree sp) :
    ∀ (acts : List Act) (s : St) (g : GK), SI sp s → GI sp s g → noWR s acts = true →
      SI sp (krun s g acts).1 ∧ GI sp (krun s g acts).1 (krun s g acts).2
  | [], _, _, hs, hg, _ => ⟨hs, hg⟩
  | a :: as, s, g, hs, hg, hno => by
    have hno' : (!isWR s a && noWR (step s a) as) = true := hno
    rw [Bool.and_eq_true] at hno'
    have hw : isWR s a = false := by simpa using hno'.1
    obtain ⟨hs', mono⟩ := SI_step F1 F2 F3 sp s a A hs hw
    have hg' := GI_step F3 sp s A g a hs hg hw hs' mono
    exact krun_P2 F1 F2 F3 sp A as (step s a) (kstep s g a) hs' hg' hno'.2

/-- **anti-entropy phase: complete knowledge ⇒ the stores agree** -/
theorem phase2_converges
    (F1 : ∀ s a, SubInv s → Inv s → SubInv (step s a))
    (F2 : ∀ s a, isWR s a = false → Inv s → replQuiescent s → replQuiescent (step s a))
    (F3 : ∀ s, Inv s → replQuiescent s → ∀ k v, Good s.core k v → ∀ i, i < s.n →
        ∃ u, s.vers i k = some u ∧ ∀ c, c < s.n → vcGet v.vc c ≤ vcGet u.vc c)
    (F4 : ∀ s, Inv s → replQuiescent s → ∀ i j k, i < s.n → j < s.n →
        (∀ c, c < s.n → clk (s.vers i k) c = clk (s.vers j k) c) ∧ ((s.vers i k).isSome = (s.vers j k).isSome))
    (sp : St) (hInv : Inv sp) (hSub : SubInv sp) (hAux : AuxInv sp)
    (hRQ : replQuiescent sp) (acts : List Act) (hno : noWR sp acts = true)
    (hk : KComplete sp.n (krun sp GK.reset acts).2) (i j k : Nat) (hi : i < sp.n) (hj : j < sp.n) :
    (run sp acts).store i k = (run sp acts).store j k := by
  have A : Agree sp := fun i j k hi hj => F4 sp hInv hRQ i j k hi hj
  obtain ⟨hs, hg⟩ := krun_P2 F1 F2 F3 sp A acts sp GK.reset (SI_init sp hInv hSub hAux hRQ) (GI_init sp) hno
  rw [krun_fst] at hs hg
  generalize run sp acts = s at hs hg
  generalize (krun sp GK.reset acts).2 = g at hk hg
  have val : ∀ b, b < sp.n → valD (s.vers b k) = top sp k := by
    intro b hb
    refine le_antisymm (hs.u b hb k) ?_
    exact bigJoin_le sp.join (fun h => x0 sp h k) sp.n _ (fun h hh => hg.l b hb h (hk b hb h hh) k)
  have e1 := val i hi
  have e2 := val j hj
  have e3 := si_same_some A hs i j k hi hj
  have s1 : s.store i k = (s.vers i k).map (·.val) := hs.inv.store i k
  have s2 : s.store j k = (s.vers j k).map (·.val) := hs.inv.store j k
  rw [s1, s2]
  cases hvi : s.vers i k with
  | none =>
    cases hvj : s.vers j k with
    | none => rfl
    | some b => rw [hvi, hvj] at e3; cases e3
  | some a =>
    cases hvj : s.vers j k with
    | none => rw [hvi, hvj] at e3; cases e3
    | some b =>
      rw [hvi, valD_some] at e1
      rw [hvj, valD_some] at e2
      show some a.val = some b.val
      rw [e1, e2]

end HappyModel.C17.MLM
