import HappyProofs.C17.PBInv
/-! Preservation of the primary-backup invariant by every action. -/
namespace HappyModel.C17.PB

def ReplMsg (s : St) (m : Msg) : Prop :=
  m.b < s.nb ∧ 1 ≤ m.seq ∧ m.seq ≤ s.applied ∧ s.wk m.seq = m.key ∧ s.wv m.seq = m.val ∧
    (m.acked = true → m.seq ≤ s.kseq m.b m.key)

def ReplProc (s : St) (p : Proc) : Prop :=
  1 ≤ p.node ∧ (p.fin = true → 2 ≤ p.seg) ∧
    ∃ m, s.msgs p.op = some m ∧ m.kind = .repl ∧ m.b = p.node - 1 ∧ m.key = p.key ∧ m.val = p.val ∧
      m.seq = p.seq ∧ (p.seg ≠ 1 → m.acked = true)

def WriteProc (s : St) (p : Proc) : Prop :=
  1 ≤ p.seq ∧ p.seq ≤ s.seq ∧ s.wk p.seq = p.key ∧ s.wv p.seq = p.val ∧
    (p.seg ≤ 1 → s.applied < p.seq) ∧
    (2 ≤ p.seg → p.seq ≤ s.applied ∧ ∀ b, b < s.nb → ∃ m, s.msgs (p.mid0 + b) = some m ∧
        m.kind = .repl ∧ m.b = b ∧ m.seq = p.seq ∧ m.key = p.key) ∧
    (p.fin = true → 2 ≤ p.seg ∧ (s.nb = 0 ∨ ackCond s p = true)) ∧ 1 ≤ p.seg

structure Inv (s : St) : Prop where
  rep : s.repaired = true
  app_le : s.applied ≤ s.seq
  procs_none : ∀ pid, s.np ≤ pid → s.procs pid = none
  msgs_none : ∀ mid, s.nm ≤ mid → s.msgs mid = none
  msg_ok : ∀ mid m, s.msgs mid = some m → m.kind = .repl → ReplMsg s m
  bk_ok : ∀ b k, s.kseq b k ≤ s.applied ∧ (s.kseq b k = 0 → s.store (b + 1) k = none) ∧
      (s.kseq b k ≠ 0 → s.wk (s.kseq b k) = k ∧ s.store (b + 1) k = some (s.wv (s.kseq b k)))
  repl_ok : ∀ pid p, s.procs pid = some p → p.kind = .repl → ReplProc s p
  write_ok : ∀ pid p, s.procs pid = some p → p.kind = .write → WriteProc s p
  write_uniq : ∀ pid p pid' p', s.procs pid = some p → s.procs pid' = some p' → p.kind = .write →
      p'.kind = .write → p.seq = p'.seq → pid = pid'
  write_all : ∀ q, 1 ≤ q → q ≤ s.seq → ∃ pid p, s.procs pid = some p ∧ p.kind = .write ∧ p.seq = q
  deliv_ok : ∀ mid m, s.msgs mid = some m → m.kind = .repl → m.delivered = true →
      ∃ pid p, s.procs pid = some p ∧ p.kind = .repl ∧ p.op = mid
  prim_ok : ∀ k, s.store 0 k =
      (if lastFor s.wk s.applied k = 0 then none else some (s.wv (lastFor s.wk s.applied k)))

theorem init_inv (mode : Mode) (nb : Nat) : Inv (init true mode nb) := by
  refine ⟨rfl, Nat.le_refl _, fun _ _ => rfl, fun _ _ => rfl, ?_, ?_, ?_, ?_, ?_, ?_, ?_, ?_⟩
  · intro mid m h; simp [init] at h
  · intro b k; simp [init]
  · intro pid p h; simp [init] at h
  · intro pid p h; simp [init] at h
  · intro pid p pid' p' h; simp [init] at h
  · intro q h1 h2; simp [init] at h2; omega
  · intro mid m h; simp [init] at h
  · intro k; simp [init, lastFor]

/-- `ackCond` only looks at `acked` flags, which are never cleared -/
theorem ackCond_mono (s s' : St) (p : Proc) (hm : s'.mode = s.mode) (hn : s'.nb = s.nb)
    (h : ∀ mid, ackedAt s mid = true → ackedAt s' mid = true) (hc : ackCond s p = true) :
    ackCond s' p = true := by
  unfold ackCond at *
  rw [hm, hn]
  cases hmode : s.mode <;> simp only [hmode] at hc ⊢
  · simp only [List.any_eq_true] at hc ⊢
    obtain ⟨b, hb, hb2⟩ := hc
    exact ⟨b, hb, h _ hb2⟩
  · simp only [List.all_eq_true] at hc ⊢
    intro b hb; exact h _ (hc b hb)

theorem inv_fail (s : St) (e : String) (h : Inv s) : Inv (s.fail e) :=
  ⟨h.rep, h.app_le, h.procs_none, h.msgs_none, h.msg_ok, h.bk_ok, h.repl_ok, h.write_ok, h.write_uniq,
    h.write_all, h.deliv_ok, h.prim_ok⟩

theorem inv_reply (s : St) (op : Nat) (t : String) (h : Inv s) : Inv (s.reply op t) :=
  ⟨h.rep, h.app_le, h.procs_none, h.msgs_none, h.msg_ok, h.bk_ok, h.repl_ok, h.write_ok, h.write_uniq,
    h.write_all, h.deliv_ok, h.prim_ok⟩

/-- a process record is replaced by a later stage of the same process -/
theorem inv_setProc (s : St) (pid : Nat) (p p' : Proc) (h : Inv s) (hp : s.procs pid = some p)
    (hk : p'.kind = p.kind)
    (hw : p.kind = .write → WriteProc s p' ∧ p'.seq = p.seq)
    (hr : p.kind = .repl → ReplProc s p' ∧ p'.op = p.op) : Inv (s.setProc pid p') := by
  obtain ⟨h1, h2, h3, h4, h5, h6, h7, h8, h9, h10, h11, h12⟩ := h
  have hlt : pid < s.np := by
    by_cases hh : pid < s.np
    · exact hh
    · rw [h3 pid (by omega)] at hp; cases hp
  refine ⟨h1, h2, ?_, h4, h5, h6, ?_, ?_, ?_, ?_, ?_, h12⟩
  · intro x hx
    have hx' : s.np ≤ x := hx
    show upd s.procs pid (some p') x = none
    rw [upd_other _ _ _ _ (by omega)]; exact h3 x hx'
  · intro x q hq hqk
    change upd s.procs pid (some p') x = some q at hq
    show ReplProc s q
    by_cases hx : x = pid
    · subst hx; rw [upd_same] at hq; cases hq
      exact (hr (by rw [← hk]; exact hqk)).1
    · rw [upd_other _ _ _ _ hx] at hq; exact h7 x q hq hqk
  · intro x q hq hqk
    change upd s.procs pid (some p') x = some q at hq
    show WriteProc s q
    by_cases hx : x = pid
    · subst hx; rw [upd_same] at hq; cases hq
      exact (hw (by rw [← hk]; exact hqk)).1
    · rw [upd_other _ _ _ _ hx] at hq; exact h8 x q hq hqk
  · intro x q x' q' hq hq' hqk hqk' hseq
    change upd s.procs pid (some p') x = some q at hq
    change upd s.procs pid (some p') x' = some q' at hq'
    by_cases hx : x = pid <;> by_cases hx' : x' = pid
    · omega
    · subst hx; rw [upd_same] at hq; cases hq
      rw [upd_other _ _ _ _ hx'] at hq'
      have := hw (by rw [← hk]; exact hqk)
      exact h9 _ p _ q' hp hq' (by rw [← hk]; exact hqk) hqk' (by omega)
    · subst hx'; rw [upd_same] at hq'; cases hq'
      rw [upd_other _ _ _ _ hx] at hq
      have := hw (by rw [← hk]; exact hqk')
      exact h9 _ q _ p hq hp hqk (by rw [← hk]; exact hqk') (by omega)
    · rw [upd_other _ _ _ _ hx] at hq; rw [upd_other _ _ _ _ hx'] at hq'
      exact h9 _ _ _ _ hq hq' hqk hqk' hseq
  · intro q hq1 hq2
    obtain ⟨x, r, hx, hrk, hrs⟩ := h10 q hq1 hq2
    by_cases hxp : x = pid
    · subst hxp; rw [hp] at hx; cases hx
      refine ⟨x, p', ?_, by rw [hk]; exact hrk, by rw [(hw hrk).2]; exact hrs⟩
      show upd s.procs x (some p') x = some p'
      rw [upd_same]
    · refine ⟨x, r, ?_, hrk, hrs⟩
      show upd s.procs pid (some p') x = some r
      rw [upd_other _ _ _ _ hxp]; exact hx
  · intro mid m hm hmk hmd
    obtain ⟨x, r, hx, hrk, hrs⟩ := h11 mid m hm hmk hmd
    by_cases hxp : x = pid
    · subst hxp; rw [hp] at hx; cases hx
      refine ⟨x, p', ?_, by rw [hk]; exact hrk, by rw [(hr hrk).2]; exact hrs⟩
      show upd s.procs x (some p') x = some p'
      rw [upd_same]
    · refine ⟨x, r, ?_, hrk, hrs⟩
      show upd s.procs pid (some p') x = some r
      rw [upd_other _ _ _ _ hxp]; exact hx

/-- a new handler whose kind carries no invariant (read, ack) -/
theorem inv_spawn_other (s : St) (p' : Proc) (h : Inv s) (hk1 : p'.kind ≠ .write) (hk2 : p'.kind ≠ .repl) :
    Inv (s.spawn p') := by
  obtain ⟨h1, h2, h3, h4, h5, h6, h7, h8, h9, h10, h11, h12⟩ := h
  have old : ∀ x q, upd s.procs s.np (some p') x = some q → q.kind = .write ∨ q.kind = .repl →
      s.procs x = some q := by
    intro x q hq hqk
    by_cases hx : x = s.np
    · subst hx; rw [upd_same] at hq; cases hq; rcases hqk with h | h <;> contradiction
    · rw [upd_other _ _ _ _ hx] at hq; exact hq
  have keep : ∀ x q, s.procs x = some q → upd s.procs s.np (some p') x = some q := by
    intro x q hq
    have : x ≠ s.np := by intro hx; subst hx; rw [h3 _ (Nat.le_refl _)] at hq; cases hq
    rw [upd_other _ _ _ _ this]; exact hq
  refine ⟨h1, h2, ?_, h4, h5, h6, ?_, ?_, ?_, ?_, ?_, h12⟩
  · intro x hx
    show upd s.procs s.np (some p') x = none
    have hx' : s.np + 1 ≤ x := hx
    rw [upd_other _ _ _ _ (by omega)]; exact h3 x (by omega)
  · intro x q hq hqk; exact h7 x q (old x q hq (Or.inr hqk)) hqk
  · intro x q hq hqk; exact h8 x q (old x q hq (Or.inl hqk)) hqk
  · intro x q x' q' hq hq' hqk hqk' hseq
    exact h9 _ _ _ _ (old x q hq (Or.inl hqk)) (old x' q' hq' (Or.inl hqk')) hqk hqk' hseq
  · intro q hq1 hq2
    obtain ⟨x, r, hx, hrk, hrs⟩ := h10 q hq1 hq2
    exact ⟨x, r, keep x r hx, hrk, hrs⟩
  · intro mid m hm hmk hmd
    obtain ⟨x, r, hx, hrk, hrs⟩ := h11 mid m hm hmk hmd
    exact ⟨x, r, keep x r hx, hrk, hrs⟩

/-- messages are only added, and only their `delivered` / `acked` flags are ever set -/
def MsgsExt (s s' : St) : Prop :=
  ∀ mid m, s.msgs mid = some m → ∃ m', s'.msgs mid = some m' ∧ m'.kind = m.kind ∧ m'.b = m.b ∧
    m'.seq = m.seq ∧ m'.key = m.key ∧ m'.val = m.val ∧ (m.acked = true → m'.acked = true) ∧
    (m.delivered = true → m'.delivered = true)

theorem msgsExt_refl (s s' : St) (h : s'.msgs = s.msgs) : MsgsExt s s' := by
  intro mid m hm; exact ⟨m, by rw [h]; exact hm, rfl, rfl, rfl, rfl, rfl, id, id⟩

theorem ackedAt_ext (s s' : St) (h : MsgsExt s s') (mid : Nat) (ha : ackedAt s mid = true) :
    ackedAt s' mid = true := by
  unfold ackedAt at *
  cases hm : s.msgs mid with
  | none => rw [hm] at ha; cases ha
  | some m =>
    rw [hm] at ha
    obtain ⟨m', h1, _, _, _, _, _, h7, _⟩ := h mid m hm
    rw [h1]; exact h7 ha

theorem writeProc_transfer (s s' : St) (p : Proc) (h : WriteProc s p)
    (hseq : s.seq ≤ s'.seq) (hwk : s'.wk p.seq = s.wk p.seq) (hwv : s'.wv p.seq = s.wv p.seq)
    (happ : s.applied ≤ s'.applied) (happ1 : p.seg ≤ 1 → s'.applied < p.seq)
    (hnb : s'.nb = s.nb) (hmode : s'.mode = s.mode) (hm : MsgsExt s s') : WriteProc s' p := by
  obtain ⟨a1, a2, a3, a4, a5, a6, a7, a8⟩ := h
  refine ⟨a1, by omega, by rw [hwk]; exact a3, by rw [hwv]; exact a4, happ1, ?_, ?_, a8⟩
  · intro h2
    obtain ⟨b1, b2⟩ := a6 h2
    refine ⟨by omega, ?_⟩
    intro b hb
    rw [hnb] at hb
    obtain ⟨m, c1, c2, c3, c4, c5⟩ := b2 b hb
    obtain ⟨m', d1, d2, d3, d4, d5, _, _, _⟩ := hm _ m c1
    exact ⟨m', d1, by rw [d2]; exact c2, by rw [d3]; exact c3, by rw [d4]; exact c4, by rw [d5]; exact c5⟩
  · intro hf
    obtain ⟨b1, b2⟩ := a7 hf
    refine ⟨b1, ?_⟩
    rcases b2 with b2 | b2
    · left; omega
    · right; exact ackCond_mono s s' p hmode hnb (ackedAt_ext s s' hm) b2

theorem replProc_transfer (s s' : St) (p : Proc) (h : ReplProc s p) (hm : MsgsExt s s') :
    ReplProc s' p := by
  obtain ⟨a1, a2, m, c1, c2, c3, c4, c5, c6, c7⟩ := h
  obtain ⟨m', d1, d2, d3, d4, d5, d6, d7, _⟩ := hm _ m c1
  exact ⟨a1, a2, m', d1, by rw [d2]; exact c2, by rw [d3]; exact c3, by rw [d5]; exact c4,
    by rw [d6]; exact c5, by rw [d4]; exact c6, fun h2 => d7 (c7 h2)⟩

theorem replMsg_transfer (s s' : St) (m m' : Msg) (h : ReplMsg s m)
    (e1 : m'.b = m.b) (e2 : m'.seq = m.seq) (e3 : m'.key = m.key) (e4 : m'.val = m.val)
    (hnb : s'.nb = s.nb) (happ : s.applied ≤ s'.applied)
    (hwk : s'.wk m.seq = s.wk m.seq) (hwv : s'.wv m.seq = s.wv m.seq)
    (hk : m'.acked = true → m.seq ≤ s'.kseq m.b m.key) : ReplMsg s' m' := by
  obtain ⟨a1, a2, a3, a4, a5, a6⟩ := h
  unfold ReplMsg
  rw [e1, e2, e3, e4, hnb, hwk, hwv]
  exact ⟨a1, a2, by omega, a4, a5, hk⟩

end HappyModel.C17.PB
