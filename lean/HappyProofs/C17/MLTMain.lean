import HappyProofs.C17.MLTInvD
import HappyProofs.C17.MLTPhaseE
/-!
Composition for last-writer-wins on an arbitrary peer topology: an `MLT` run whose anti-entropy
requests, after the last client-write / `Replicate` handler step, carry every leader's knowledge to
every leader ends with all leaders on the same version and value — for every action list, every peer
topology `adj` (mesh, star, line, anything), provided the stamped versions are coherent.
Quiescence is not even needed: `Replicate`s still in flight at the end are simply not part of the state
the leaders agree on.
-/
namespace HappyModel.C17.MLT
open HappyModel.C17.ML (Version Coherent)
open HappyModel.C17.MLM (GK KComplete)

theorem created_append : ∀ (a b : List Act) (s : St), created s (a ++ b) = created s a ++ created (run s a) b
  | [], _, _ => rfl
  | x :: xs, b, s => by
    show newOf s x ++ created (step s x) (xs ++ b) = (newOf s x ++ created (step s x) xs) ++ created (run (step s x) xs) b
    rw [created_append xs b (step s x), List.append_assoc]

theorem isWR_cw_false {s : St} {a : Act} (h : isWR s a = false) : ∀ op node k v, a ≠ .cw op node k v := by
  intro op node k v e
  subst e
  simp [isWR] at h

theorem gossip_complete_converges {P : Nat → Version → Prop} (n nk : Nat) (jn : MLM.Join) (adj : List (List Nat))
    (acts : List Act) (hc : ∀ k, Coherent n (P k))
    (hP : ∀ kv, kv ∈ created (init n nk jn true adj) acts → P kv.1 kv.2)
    (hk : KComplete n (krun (init n nk jn true adj) GK.reset acts).2) (i j k : Nat) (hi : i < n) (hj : j < n) :
    (run (init n nk jn true adj) acts).vers i k = (run (init n nk jn true adj) acts).vers j k ∧
    (run (init n nk jn true adj) acts).store i k = (run (init n nk jn true adj) acts).store j k := by
  obtain ⟨a1, a2, he, hno, hke⟩ := krun_split acts (init n nk jn true adj)
  have hP1 : ∀ kv, kv ∈ created (init n nk jn true adj) a1 → P kv.1 kv.2 := by
    intro kv hkv
    apply hP
    rw [he, created_append]
    exact List.mem_append_left _ hkv
  obtain ⟨hT, hA, hS⟩ := run_all (P := P) n nk jn adj a1 hc hP1
  have hn1 : (run (init n nk jn true adj) a1).n = n := run_n _ _
  have hl1 : (run (init n nk jn true adj) a1).lww = true := by rw [run_lww]; rfl
  have hrun : run (init n nk jn true adj) acts = run (run (init n nk jn true adj) a1) a2 := by rw [he, run_append]
  rw [hrun]
  exact phase2_converges (P := P)
    (fun s a hl hw h => step_tinv s a hl h (fun op node k v e _ => absurd e (isWR_cw_false hw op node k v)))
    (fun s a h hT' => step_aux s a h hT')
    (fun s a hl hc' hT' h => step_sub s a hl hc' hT' h)
    step_n step_lww _ hl1 (by rw [hn1]; exact hc) hT hA hS a2 hno (by rw [hn1, ← hke]; exact hk)
    i j k (by rw [hn1]; exact hi) (by rw [hn1]; exact hj)

end HappyModel.C17.MLT
