import HappyModel.C17.MLT
import HappyModel.C17.MLMK
import HappyProofs.C17.MLMerge
/-!
Shared definitions for `mlt_gossip_complete_converges` (multi-leader on an arbitrary peer topology,
resolver that returns one of its inputs).

* `stamp`, `newOf`, `created` — the versions stamped by the client writes of a run (as in `MLRun.lean`);
* `isWR`, `noWR`, `finishedReq`, `kstep`, `krun` — the knowledge computation of `Spec.gossipComplete`
  carried forward along an `MLT` run (the ghost state `MLM.GK` and `MLM.KComplete` are re-used);
* `TInv P` — every version held, carried by a message or by a handler satisfies `P` (a coherent family),
  and a store holds the value of its version;
* `AuxInv` — anti-entropy messages / handlers name real leaders, `order` lists the keys held, a request
  handler's `op` is a message id;
* `SubInv` — every anti-entropy copy is at most the current version of its sender (`OGe`).
-/
namespace HappyModel.C17.MLT
open HappyModel.C17.ML (Version Msg Proc MKind PKind vcGet dominates vcMerge vcTick Coherent vlt)
open HappyModel.C17.MLM (GK KComplete)

/-- the version a client write of `v` at `node` is stamped with -/
def stamp (s : St) (node v : Nat) : Version := ⟨v, s.now, node, vcTick s.n (s.clock node) node⟩

def newOf (s : St) : Act → List (Nat × Version)
  | .cw _ node k v => if node < s.n then [(k, stamp s node v)] else []
  | _ => []

/-- the (key, version) pairs stamped by the client writes of a run, in order -/
def created (s : St) : List Act → List (Nat × Version)
  | [] => []
  | a :: as => newOf s a ++ created (step s a) as

/-- does `a` run a client-write or `Replicate` handler in `s`? -/
def isWR (s : St) : Act → Bool
  | .cw _ _ _ _ => true
  | .dl mid =>
    (match s.msgs mid with
     | some m => decide (m.kind = .repl)
     | none => false)
  | .rs pid =>
    (match s.procs pid with
     | some p => decide (p.kind = .write ∨ p.kind = .repl)
     | none => false)
  | _ => false

def noWR : St → List Act → Bool
  | _, [] => true
  | s, a :: as => !isWR s a && noWR (step s a) as

/-- the `AntiEntropyRequest` handler that action `a` finishes, if any: `(receiver, message id)` -/
def finishedReq (s : St) (a : Act) : Option (Nat × Nat) :=
  match a with
  | .dl _ =>
    (match (step s a).procs s.np with
     | some p => if p.kind = .aereq ∧ p.fin = true then some (p.node, p.op) else none
     | none => none)
  | .rs pid =>
    (match s.procs pid, (step s a).procs pid with
     | some p0, some p => if p0.fin = false ∧ p.kind = .aereq ∧ p.fin = true then some (p.node, p.op) else none
     | _, _ => none)
  | _ => none

def kstep (s : St) (g : GK) (a : Act) : GK :=
  if isWR s a then GK.reset else
  match a with
  | .ae node peer =>
    if node < s.n ∧ peer < s.n ∧ (peersOf s node).contains peer = true then { g with sk := upd g.sk s.nm (g.k node) } else g
  | _ =>
    (match finishedReq s a with
     | some (b, mid) => { g with k := upd g.k b (g.k b ++ g.sk mid) }
     | none => g)

def krun (s : St) (g : GK) : List Act → St × GK
  | [] => (s, g)
  | a :: as => krun (step s a) (kstep s g a) as

/-- `cur ≥ v` in the total order of coherent versions -/
def OGe (cur : Option Version) (v : Version) : Prop := ∃ u, cur = some u ∧ ¬ vlt u v

structure TInv (P : Nat → Version → Prop) (s : St) : Prop where
  freshP : ∀ pid, s.np ≤ pid → s.procs pid = none
  freshM : ∀ mid, s.nm ≤ mid → s.msgs mid = none
  versP : ∀ i k v, s.vers i k = some v → P k v
  store : ∀ i k, s.store i k = (s.vers i k).map (·.val)
  msgP : ∀ mid m, s.msgs mid = some m → (m.kind = .repl → P m.key m.ver) ∧ ∀ kv, kv ∈ m.items → P kv.1 kv.2
  procP : ∀ pid p, s.procs pid = some p →
    ((p.kind = .write ∨ p.kind = .repl) → P p.key p.ver) ∧ ∀ kv, kv ∈ p.items → P kv.1 kv.2

structure AuxInv (s : St) : Prop where
  msgN : ∀ mid m, s.msgs mid = some m → (m.kind = .aereq ∨ m.kind = .aeresp) → m.src < s.n ∧ m.dst < s.n
  procN : ∀ pid p, s.procs pid = some p → (p.kind = .aereq ∨ p.kind = .aeresp) → p.node < s.n ∧ p.src < s.n
  ord : ∀ i k, (s.vers i k).isSome = true → k ∈ s.order i
  opLt : ∀ pid p, s.procs pid = some p → p.kind = .aereq → p.op < s.nm

structure SubInv (s : St) : Prop where
  msgS : ∀ mid m, s.msgs mid = some m → (m.kind = .aereq ∨ m.kind = .aeresp) →
    ∀ kv, kv ∈ m.items → OGe (s.vers m.src kv.1) kv.2
  procS : ∀ pid p, s.procs pid = some p → (p.kind = .aereq ∨ p.kind = .aeresp) →
    ∀ kv, kv ∈ p.items → OGe (s.vers p.src kv.1) kv.2

end HappyModel.C17.MLT
