import HappyProofs.C17.MLMerge
/-!
Multi-leader, run level: the invariant behind quiescent convergence.

Only seven fields of the state matter (`Core`).  A version is *written* when a write handler carries
it (handlers are never removed).  For a write handler that has passed its first segment (installed
locally, `Replicate` sent to every peer) every replica `i` is `Covered`: either its version of the key
is already at least the written one (`Ge`, in the total order `vlt`), or the `Replicate` is still in
flight to `i`, or the `_handle_replicate` process for it at `i` has not finished.  Installing any
other (written, coherent) version only moves a replica's version up, so `Ge` is stable.
-/
namespace HappyModel.C17.ML

structure Core where
  n : Nat
  np : Nat
  procs : Nat → Option Proc
  nm : Nat
  msgs : Nat → Option Msg
  vers : Nat → Nat → Option Version
  store : Nat → Nat → Option Val

def St.core (s : St) : Core := ⟨s.n, s.np, s.procs, s.nm, s.msgs, s.vers, s.store⟩

def Core.spawn (c : Core) (p : Proc) : Core := { c with np := c.np + 1, procs := upd c.procs c.np (some p) }
def Core.send (c : Core) (m : Msg) : Core := { c with nm := c.nm + 1, msgs := upd c.msgs c.nm (some m) }
def Core.setProc (c : Core) (pid : Nat) (p : Proc) : Core := { c with procs := upd c.procs pid (some p) }
def Core.setMsg (c : Core) (mid : Nat) (m : Msg) : Core := { c with msgs := upd c.msgs mid (some m) }
def Core.setVer (c : Core) (i k : Nat) (v : Version) : Core :=
  { c with store := upd2 c.store i k (some v.val), vers := upd2 c.vers i k (some v) }
/-- `_install` on the core -/
def Core.install (c : Core) (i k : Nat) (inc : Version) : Core :=
  if takes c.n (c.vers i k) inc then c.setVer i k inc else c

/-- some write handler carries `(k, v)` -/
def WrittenC (c : Core) (k : Nat) (v : Version) : Prop :=
  ∃ pid p, c.procs pid = some p ∧ p.kind = .write ∧ p.key = k ∧ p.ver = v

def ItemsW (c : Core) (items : List (Nat × Version)) : Prop := ∀ kv, kv ∈ items → WrittenC c kv.1 kv.2

/-- the replica's version is not below `v` -/
def Ge (cur : Option Version) (v : Version) : Prop := ∃ u, cur = some u ∧ ¬ vlt u v

def MsgCarrier (c : Core) (i k : Nat) (v : Version) : Prop :=
  ∃ mid m, c.msgs mid = some m ∧ m.kind = .repl ∧ m.dst = i ∧ m.key = k ∧ m.ver = v ∧ m.delivered = false

def ProcCarrier (c : Core) (i k : Nat) (v : Version) : Prop :=
  ∃ pid p, c.procs pid = some p ∧ p.kind = .repl ∧ p.node = i ∧ p.key = k ∧ p.ver = v ∧ p.fin = false

def Covered (c : Core) (i k : Nat) (v : Version) : Prop :=
  Ge (c.vers i k) v ∨ MsgCarrier c i k v ∨ ProcCarrier c i k v

structure InvC (P : Nat → Version → Prop) (c : Core) : Prop where
  freshP : ∀ pid, c.np ≤ pid → c.procs pid = none
  freshM : ∀ mid, c.nm ≤ mid → c.msgs mid = none
  wr : ∀ pid p, c.procs pid = some p → p.kind = .write →
    P p.key p.ver ∧ 1 ≤ p.seg ∧ (p.fin = true → 2 ≤ p.seg)
  versW : ∀ i k v, c.vers i k = some v → WrittenC c k v
  store : ∀ i k, c.store i k = (c.vers i k).map (·.val)
  msgW : ∀ mid m, c.msgs mid = some m → (m.kind = .repl → WrittenC c m.key m.ver) ∧ ItemsW c m.items
  procW : ∀ pid p, c.procs pid = some p → (p.kind = .repl → WrittenC c p.key p.ver) ∧ ItemsW c p.items
  cov : ∀ pid p, c.procs pid = some p → p.kind = .write → 2 ≤ p.seg →
    ∀ i, i < c.n → Covered c i p.key p.ver

def Inv (P : Nat → Version → Prop) (s : St) : Prop := InvC P s.core

theorem InvC.written_P {P} {c : Core} (h : InvC P c) {k v} (hw : WrittenC c k v) : P k v := by
  obtain ⟨pid, p, h1, h2, h3, h4⟩ := hw
  have := (h.wr pid p h1 h2).1
  rw [h3, h4] at this; exact this

/-! ### the order facts used -/

theorem ge_merge {n : Nat} {Pk : Version → Prop} (hc : Coherent n Pk) {cur : Option Version} {inc v : Version}
    (hcur : ∀ u, cur = some u → Pk u) (hinc : Pk inc) (hg : Ge cur v) : Ge (mergeOpt n cur inc) v := by
  obtain ⟨u, hu, hnv⟩ := hg
  subst hu
  unfold mergeOpt
  by_cases ht : takes n (some u) inc = true
  · rw [if_pos ht]
    have hlt := (takes_iff_lt n Pk hc u inc (hcur u rfl) hinc).mp ht
    exact ⟨inc, rfl, fun h => hnv (vlt_trans u inc v hlt h)⟩
  · rw [if_neg ht]; exact ⟨u, rfl, hnv⟩

theorem ge_merge_self {n : Nat} {Pk : Version → Prop} (hc : Coherent n Pk) {cur : Option Version} {inc : Version}
    (hcur : ∀ u, cur = some u → Pk u) (hinc : Pk inc) : Ge (mergeOpt n cur inc) inc := by
  unfold mergeOpt
  cases cur with
  | none => simp only [takes, if_true]; exact ⟨inc, rfl, vlt_irrefl _⟩
  | some u =>
    by_cases ht : takes n (some u) inc = true
    · rw [if_pos ht]; exact ⟨inc, rfl, vlt_irrefl _⟩
    · rw [if_neg ht]
      exact ⟨u, rfl, fun h => ht ((takes_iff_lt n Pk hc u inc (hcur u rfl) hinc).mpr h)⟩

/-- a refused version is already covered -/
theorem ge_of_not_takes {n : Nat} {Pk : Version → Prop} (hc : Coherent n Pk) {cur : Option Version} {inc : Version}
    (hcur : ∀ u, cur = some u → Pk u) (hinc : Pk inc) (ht : takes n cur inc = false) : Ge cur inc := by
  have := ge_merge_self hc hcur hinc
  unfold mergeOpt at this
  rw [ht] at this
  simpa using this

/-! ### elementary state changes -/

theorem written_spawn {c : Core} (hf : ∀ pid, c.np ≤ pid → c.procs pid = none) (p : Proc) {k v} :
    WrittenC c k v → WrittenC (c.spawn p) k v := by
  rintro ⟨pid, q, h1, h2⟩
  refine ⟨pid, q, ?_, h2⟩
  have : pid ≠ c.np := by intro e; rw [e, hf _ (Nat.le_refl _)] at h1; cases h1
  show upd c.procs c.np (some p) pid = some q
  rw [upd_other _ _ _ _ this]; exact h1

theorem procCarrier_spawn {c : Core} (hf : ∀ pid, c.np ≤ pid → c.procs pid = none) (p : Proc) {i k v} :
    ProcCarrier c i k v → ProcCarrier (c.spawn p) i k v := by
  rintro ⟨pid, q, h1, h2⟩
  refine ⟨pid, q, ?_, h2⟩
  have : pid ≠ c.np := by intro e; rw [e, hf _ (Nat.le_refl _)] at h1; cases h1
  show upd c.procs c.np (some p) pid = some q
  rw [upd_other _ _ _ _ this]; exact h1

theorem msgCarrier_send {c : Core} (hf : ∀ mid, c.nm ≤ mid → c.msgs mid = none) (m : Msg) {i k v} :
    MsgCarrier c i k v → MsgCarrier (c.send m) i k v := by
  rintro ⟨mid, q, h1, h2⟩
  refine ⟨mid, q, ?_, h2⟩
  have : mid ≠ c.nm := by intro e; rw [e, hf _ (Nat.le_refl _)] at h1; cases h1
  show upd c.msgs c.nm (some m) mid = some q
  rw [upd_other _ _ _ _ this]; exact h1

theorem inv_spawn {P} {c : Core} (h : InvC P c) (p : Proc)
    (hw : p.kind = .write → P p.key p.ver ∧ p.seg = 1 ∧ p.fin = false)
    (hr : p.kind = .repl → WrittenC c p.key p.ver) (hi : ItemsW c p.items) : InvC P (c.spawn p) := by
  have W : ∀ {k v}, WrittenC c k v → WrittenC (c.spawn p) k v := written_spawn h.freshP p
  have cases_ : ∀ pid q, (c.spawn p).procs pid = some q → (pid = c.np ∧ q = p) ∨ c.procs pid = some q := by
    intro pid q hq
    have hq' : (if pid = c.np then some p else c.procs pid) = some q := hq
    split at hq'
    · cases hq'; exact Or.inl ⟨‹_›, rfl⟩
    · exact Or.inr hq'
  refine ⟨?_, h.freshM, ?_, ?_, h.store, ?_, ?_, ?_⟩
  · intro pid hp
    show upd c.procs c.np (some p) pid = none
    have hp' : c.np + 1 ≤ pid := hp
    rw [upd_other _ _ _ _ (by omega)]; exact h.freshP pid (by omega)
  · intro pid q hq hk
    rcases cases_ pid q hq with ⟨_, rfl⟩ | hq
    · obtain ⟨a, b, d⟩ := hw hk
      exact ⟨a, by omega, fun hf => by rw [d] at hf; cases hf⟩
    · exact h.wr pid q hq hk
  · intro i k v hv; exact W (h.versW i k v hv)
  · intro mid m hm
    obtain ⟨a, b⟩ := h.msgW mid m hm
    exact ⟨fun hk => W (a hk), fun kv hkv => W (b kv hkv)⟩
  · intro pid q hq
    rcases cases_ pid q hq with ⟨_, rfl⟩ | hq
    · exact ⟨fun hk => W (hr hk), fun kv hkv => W (hi kv hkv)⟩
    · obtain ⟨a, b⟩ := h.procW pid q hq
      exact ⟨fun hk => W (a hk), fun kv hkv => W (b kv hkv)⟩
  · intro pid q hq hk hseg i hi'
    rcases cases_ pid q hq with ⟨_, rfl⟩ | hq
    · have := (hw hk).2.1; omega
    · rcases h.cov pid q hq hk hseg i hi' with g | g | g
      · exact Or.inl g
      · exact Or.inr (Or.inl g)
      · exact Or.inr (Or.inr (procCarrier_spawn h.freshP p g))

theorem inv_send {P} {c : Core} (h : InvC P c) (m : Msg)
    (hr : m.kind = .repl → WrittenC c m.key m.ver) (hi : ItemsW c m.items) : InvC P (c.send m) := by
  refine ⟨h.freshP, ?_, h.wr, h.versW, h.store, ?_, h.procW, ?_⟩
  · intro mid hp
    show upd c.msgs c.nm (some m) mid = none
    have hp' : c.nm + 1 ≤ mid := hp
    rw [upd_other _ _ _ _ (by omega)]; exact h.freshM mid (by omega)
  · intro mid q hq
    have hq' : (if mid = c.nm then some m else c.msgs mid) = some q := hq
    split at hq'
    · cases hq'; exact ⟨hr, hi⟩
    · exact h.msgW mid q hq'
  · intro pid q hq hk hseg i hi'
    rcases h.cov pid q hq hk hseg i hi' with g | g | g
    · exact Or.inl g
    · exact Or.inr (Or.inl (msgCarrier_send h.freshM m g))
    · exact Or.inr (Or.inr g)

theorem written_setProc {c : Core} {pid : Nat} {p0 p' : Proc} (h0 : c.procs pid = some p0)
    (hk : p'.kind = p0.kind) (hkey : p'.key = p0.key) (hv : p'.ver = p0.ver) {k v} :
    WrittenC c k v → WrittenC (c.setProc pid p') k v := by
  rintro ⟨pid1, q, h1, h2, h3, h4⟩
  by_cases e : pid1 = pid
  · subst e; rw [h0] at h1; cases h1
    exact ⟨pid1, p', by show upd _ _ _ _ = _; simp, by rw [hk]; exact h2, by rw [hkey]; exact h3,
      by rw [hv]; exact h4⟩
  · exact ⟨pid1, q, by show upd _ _ _ _ = _; rw [upd_other _ _ _ _ e]; exact h1, h2, h3, h4⟩

theorem inv_setProc {P} {c : Core} (h : InvC P c) {pid : Nat} {p0 p' : Proc} (h0 : c.procs pid = some p0)
    (hk : p'.kind = p0.kind) (hkey : p'.key = p0.key) (hv : p'.ver = p0.ver) (hnode : p'.node = p0.node)
    (hseg : p'.kind = .write → 1 ≤ p'.seg ∧ (p'.fin = true → 2 ≤ p'.seg))
    (hi : ItemsW c p'.items)
    (hcov : p'.kind = .write → 2 ≤ p'.seg → ∀ i, i < c.n → Covered c i p'.key p'.ver)
    (hcar : p0.kind = .repl → p'.fin = false ∨ Ge (c.vers p0.node p0.key) p0.ver) :
    InvC P (c.setProc pid p') := by
  have W : ∀ {k v}, WrittenC c k v → WrittenC (c.setProc pid p') k v := written_setProc h0 hk hkey hv
  have cases_ : ∀ pid1 q, (c.setProc pid p').procs pid1 = some q →
      (pid1 = pid ∧ q = p') ∨ (pid1 ≠ pid ∧ c.procs pid1 = some q) := by
    intro pid1 q hq
    have hq' : (if pid1 = pid then some p' else c.procs pid1) = some q := hq
    split at hq'
    · cases hq'; exact Or.inl ⟨‹_›, rfl⟩
    · exact Or.inr ⟨‹_›, hq'⟩
  have C : ∀ {i k v}, Covered c i k v → Covered (c.setProc pid p') i k v := by
    intro i k v hc
    rcases hc with g | g | ⟨pid1, q, g1, g2, g3, g4, g5, g6⟩
    · exact Or.inl g
    · exact Or.inr (Or.inl g)
    · by_cases e : pid1 = pid
      · subst e; rw [h0] at g1; cases g1
        rcases hcar g2 with hf | hg
        · exact Or.inr (Or.inr ⟨pid1, p', by show upd _ _ _ _ = _; simp, by rw [hk]; exact g2,
            by rw [hnode]; exact g3, by rw [hkey]; exact g4, by rw [hv]; exact g5, hf⟩)
        · rw [g3, g4, g5] at hg; exact Or.inl hg
      · exact Or.inr (Or.inr ⟨pid1, q, by show upd _ _ _ _ = _; rw [upd_other _ _ _ _ e]; exact g1,
          g2, g3, g4, g5, g6⟩)
  refine ⟨?_, h.freshM, ?_, ?_, h.store, ?_, ?_, ?_⟩
  · intro pid1 hp
    show upd c.procs pid (some p') pid1 = none
    have : pid1 ≠ pid := by
      intro e; subst e; rw [h.freshP _ hp] at h0; cases h0
    rw [upd_other _ _ _ _ this]; exact h.freshP pid1 hp
  · intro pid1 q hq hkq
    rcases cases_ pid1 q hq with ⟨rfl, rfl⟩ | ⟨_, hq⟩
    · have := (h.wr pid1 p0 h0 (by rw [← hk]; exact hkq)).1
      rw [← hkey, ← hv] at this
      exact ⟨this, hseg hkq⟩
    · exact h.wr pid1 q hq hkq
  · intro i k v hv'; exact W (h.versW i k v hv')
  · intro mid m hm
    obtain ⟨a, b⟩ := h.msgW mid m hm
    exact ⟨fun hk' => W (a hk'), fun kv hkv => W (b kv hkv)⟩
  · intro pid1 q hq
    rcases cases_ pid1 q hq with ⟨rfl, rfl⟩ | ⟨_, hq⟩
    · obtain ⟨a, _⟩ := h.procW pid1 p0 h0
      refine ⟨fun hk' => ?_, fun kv hkv => W (hi kv hkv)⟩
      have := W (a (by rw [← hk]; exact hk'))
      rw [← hkey, ← hv] at this; exact this
    · obtain ⟨a, b⟩ := h.procW pid1 q hq
      exact ⟨fun hk' => W (a hk'), fun kv hkv => W (b kv hkv)⟩
  · intro pid1 q hq hkq hs i hi'
    rcases cases_ pid1 q hq with ⟨rfl, rfl⟩ | ⟨_, hq⟩
    · exact C (hcov hkq hs i hi')
    · exact C (h.cov pid1 q hq hkq hs i hi')

theorem inv_setMsg {P} {c : Core} (h : InvC P c) {mid : Nat} {m0 m' : Msg} (h0 : c.msgs mid = some m0)
    (hk : m'.kind = m0.kind) (hkey : m'.key = m0.key) (hv : m'.ver = m0.ver) (hitems : m'.items = m0.items)
    (hcar : m0.kind = .repl → m0.delivered = false →
      Ge (c.vers m0.dst m0.key) m0.ver ∨ ProcCarrier c m0.dst m0.key m0.ver) :
    InvC P (c.setMsg mid m') := by
  refine ⟨h.freshP, ?_, h.wr, h.versW, h.store, ?_, h.procW, ?_⟩
  · intro mid1 hp
    show upd c.msgs mid (some m') mid1 = none
    have : mid1 ≠ mid := by
      intro e; subst e; rw [h.freshM _ hp] at h0; cases h0
    rw [upd_other _ _ _ _ this]; exact h.freshM mid1 hp
  · intro mid1 q hq
    have hq' : (if mid1 = mid then some m' else c.msgs mid1) = some q := hq
    split at hq'
    · cases hq'
      obtain ⟨a, b⟩ := h.msgW mid m0 h0
      rw [hk, hkey, hv, hitems]; exact ⟨a, b⟩
    · exact h.msgW mid1 q hq'
  · intro pid q hq hkq hs i hi'
    rcases h.cov pid q hq hkq hs i hi' with g | ⟨mid1, m, g1, g2, g3, g4, g5, g6⟩ | g
    · exact Or.inl g
    · by_cases e : mid1 = mid
      · subst e; rw [h0] at g1; cases g1
        rcases hcar g2 g6 with hg | hg
        · rw [g3, g4, g5] at hg; exact Or.inl hg
        · rw [g3, g4, g5] at hg; exact Or.inr (Or.inr hg)
      · exact Or.inr (Or.inl ⟨mid1, m, by show upd _ _ _ _ = _; rw [upd_other _ _ _ _ e]; exact g1,
          g2, g3, g4, g5, g6⟩)
    · exact Or.inr (Or.inr g)

/-- `_install` of a written version: the invariant is kept and the replica now covers that version -/
theorem inv_install {P} {c : Core} (hc : ∀ k, Coherent c.n (P k)) (h : InvC P c) (i k : Nat) (inc : Version)
    (hw : WrittenC c k inc) :
    InvC P (c.install i k inc) ∧ Ge ((c.install i k inc).vers i k) inc ∧
      (∀ i' k' v, Ge (c.vers i' k') v → WrittenC c k' v → Ge ((c.install i k inc).vers i' k') v) := by
  have hcur : ∀ u, c.vers i k = some u → P k u := fun u hu => h.written_P (h.versW i k u hu)
  have hinc : P k inc := h.written_P hw
  have hvers : ∀ i' k', (c.install i k inc).vers i' k' =
      if i' = i ∧ k' = k then mergeOpt c.n (c.vers i k) inc else c.vers i' k' := by
    intro i' k'
    unfold Core.install mergeOpt
    by_cases ht : takes c.n (c.vers i k) inc = true
    · rw [if_pos ht, if_pos ht]
      show upd2 c.vers i k (some inc) i' k' = _
      rw [upd2_apply]
    · rw [if_neg ht, if_neg ht]
      split
      · rename_i e; rw [e.1, e.2]
      · rfl
  have hge : ∀ i' k' v, Ge (c.vers i' k') v → WrittenC c k' v → Ge ((c.install i k inc).vers i' k') v := by
    intro i' k' v hg hwv
    rw [hvers]
    split
    · rename_i e
      obtain ⟨e1, e2⟩ := e
      subst e1; subst e2
      exact ge_merge (hc k') hcur hinc hg
    · exact hg
  refine ⟨?_, ?_, hge⟩
  · by_cases ht : takes c.n (c.vers i k) inc = true
    · have e : c.install i k inc = c.setVer i k inc := by unfold Core.install; rw [if_pos ht]
      have hge' := hge
      rw [e] at hge' ⊢
      refine ⟨h.freshP, h.freshM, h.wr, ?_, ?_, h.msgW, h.procW, ?_⟩
      · intro i' k' v hv
        have hv' : upd2 c.vers i k (some inc) i' k' = some v := hv
        rw [upd2_apply] at hv'
        split at hv'
        · rename_i e'; cases hv'; rw [e'.2]; exact hw
        · exact h.versW i' k' v hv'
      · intro i' k'
        show upd2 c.store i k (some inc.val) i' k' = (upd2 c.vers i k (some inc) i' k').map (·.val)
        rw [upd2_apply, upd2_apply]
        split
        · rfl
        · exact h.store i' k'
      · intro pid q hq hkq hs i' hi'
        have hwq : WrittenC c q.key q.ver := ⟨pid, q, hq, hkq, rfl, rfl⟩
        rcases h.cov pid q hq hkq hs i' hi' with g | g | g
        · exact Or.inl (hge' i' q.key q.ver g hwq)
        · exact Or.inr (Or.inl g)
        · exact Or.inr (Or.inr g)
    · have e : c.install i k inc = c := by unfold Core.install; rw [if_neg ht]
      rw [e]; exact h
  · rw [hvers, if_pos ⟨rfl, rfl⟩]
    exact ge_merge_self (hc k) hcur hinc

end HappyModel.C17.ML
