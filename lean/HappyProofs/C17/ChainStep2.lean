import HappyProofs.C17.ChainStep
/-! Preservation of the chain invariant by every action. -/
namespace HappyModel.C17.Chain

theorem core_of_eq (s s' : St) (h : Core s) (h1 : s'.n = s.n) (h2 : s'.applied = s.applied)
    (h3 : s'.seq = s.seq) (h4 : s'.aseq = s.aseq) (h5 : s'.store = s.store) (h6 : s'.cseq = s.cseq)
    (h7 : s'.dirty = s.dirty) (h8 : s'.ackd = s.ackd) (h9 : s'.wk = s.wk) (h10 : s'.wv = s.wv)
    (h11 : s'.craq = s.craq) : Core s' := by
  obtain ⟨a1, a2, a3, a4, a5, a6, a7⟩ := h
  refine ⟨by rw [h1]; exact a1, by rw [h2, h3]; exact a2, ?_, ?_, ?_, ?_, ?_⟩
  · rw [h1, h4]; exact a3
  · rw [h2, h4, h5, h9, h10]; exact a4
  · rw [h1, h4, h6]; exact a5
  · rw [h4, h6, h7, h11]; exact a6
  · rw [h1, h4, h8, h9]; exact a7

theorem mono_of_eq (s s' : St) (h1 : s'.n = s.n) (h2 : s'.applied = s.applied)
    (h3 : s'.seq = s.seq) (h4 : s'.aseq = s.aseq) (h8 : s'.ackd = s.ackd) (h9 : s'.wk = s.wk)
    (h10 : s'.wv = s.wv) : Mono s s' :=
  ⟨h1, by rw [h2]; exact Nat.le_refl _, by rw [h3]; exact Nat.le_refl _, fun _ _ => by rw [h9], fun _ _ => by rw [h10],
    fun _ _ => by rw [h4]; exact Nat.le_refl _, fun _ h => by rw [h8]; exact h⟩

/-- spawn a process whose kind carries no obligations, or an obligation-carrying one that is OK -/
theorem inv_spawn (s : St) (p : Proc) (h : Inv s) (hp : ProcOK s p) (hk : p.kind ≠ .write) :
    Inv (s.spawn p) := by
  apply inv_step s (s.spawn p) s.np h
    (core_of_eq s _ h.core rfl rfl rfl rfl rfl rfl rfl rfl rfl rfl rfl)
    (mono_of_eq s _ rfl rfl rfl rfl rfl rfl rfl)
  · intro mid m hm; exact Or.inl hm
  · intro pid hpid
    show upd s.procs s.np (some p) pid = s.procs pid
    rw [upd_other _ _ _ _ hpid]
  · intro q hq
    have hq : upd s.procs s.np (some p) s.np = some q := hq
    rw [upd_same] at hq; cases hq
    exact Or.inr ⟨hp, fun hw => absurd hw hk⟩
  · intro pid q h1 _ hqk hs
    have := h.procs pid q h1; unfold ProcOK at this; rw [hqk] at this
    exact this.2.2.2.2.1 hs

/-- replace process `pid` by a later stage that is OK (same seq for a write) -/
theorem inv_setProc (s : St) (pid : Nat) (p p' : Proc) (h : Inv s) (hp : s.procs pid = some p)
    (hok : ProcOK s p') (hk : p'.kind = .write → p.kind = .write ∧ p'.seq = p.seq) :
    Inv (s.setProc pid p') := by
  apply inv_step s (s.setProc pid p') pid h
    (core_of_eq s _ h.core rfl rfl rfl rfl rfl rfl rfl rfl rfl rfl rfl)
    (mono_of_eq s _ rfl rfl rfl rfl rfl rfl rfl)
  · intro mid m hm; exact Or.inl hm
  · intro x hx
    show upd s.procs pid (some p') x = s.procs x
    rw [upd_other _ _ _ _ hx]
  · intro q hq
    have hq : upd s.procs pid (some p') pid = some q := hq
    rw [upd_same] at hq; cases hq
    exact Or.inr ⟨hok, fun hw => Or.inl ⟨p, hp, (hk hw).1, (hk hw).2.symm⟩⟩
  · intro x q h1 _ hqk hs
    have := h.procs x q h1; unfold ProcOK at this; rw [hqk] at this
    exact this.2.2.2.2.1 hs

theorem step_cw (s : St) (op node k v : Nat) (h : Inv s) : Inv (step s (.cw op node k v)) := by
  simp only [step]
  split
  · exact inv_fail _ _ h
  · split
    · exact inv_spawn _ _ (inv_reply _ _ _ h) (by unfold ProcOK; simp) (by simp)
    · let pw : Proc := { kind := .write, node := 0, key := k, val := v, seq := s.seq + 1, op := op }
      let s1 : St := { s with seq := s.seq + 1, wk := upd s.wk (s.seq + 1) k, wv := upd s.wv (s.seq + 1) v }
      show Inv (s1.spawn pw)
      have hwk : ∀ q, q ≤ s.seq → s1.wk q = s.wk q := by
        intro q hq; show upd s.wk (s.seq + 1) k q = s.wk q
        rw [upd_other _ _ _ _ (by omega)]
      have hwv : ∀ q, q ≤ s.seq → s1.wv q = s.wv q := by
        intro q hq; show upd s.wv (s.seq + 1) v q = s.wv q
        rw [upd_other _ _ _ _ (by omega)]
      have hc := h.core
      have hle : ∀ i k', s.aseq i k' ≤ s.seq := fun i k' => Nat.le_trans (hc.store i k').1 hc.app_le
      have hcore : Core (s1.spawn pw) := by
        refine ⟨hc.n2, Nat.le_succ_of_le hc.app_le, hc.order, ?_, hc.commit, hc.clean, ?_⟩
        · intro i k'
          obtain ⟨a1, a2, a3⟩ := hc.store i k'
          refine ⟨a1, a2, fun hne => ?_⟩
          show s1.wk (s.aseq i k') = k' ∧ s.store i k' = some (s1.wv (s.aseq i k'))
          rw [hwk _ (hle i k'), hwv _ (hle i k')]; exact a3 hne
        · intro q hq
          have := hc.ackd q hq
          show q ≤ s.aseq (s.n - 1) (s1.wk q)
          rw [hwk q (Nat.le_trans this (hle _ _))]; exact this
      have hmono : Mono s (s1.spawn pw) :=
        ⟨rfl, Nat.le_refl _, Nat.le_succ _, hwk, hwv, fun _ _ => Nat.le_refl _, fun _ h => h⟩
      apply inv_step s (s1.spawn pw) s.np h hcore hmono
      · intro mid m hm; exact Or.inl hm
      · intro pid hpid
        show upd s.procs s.np (some pw) pid = s.procs pid
        rw [upd_other _ _ _ _ hpid]
      · intro q hq
        have hq : upd s.procs s.np (some pw) s.np = some q := hq
        rw [upd_same] at hq; cases hq
        refine Or.inr ⟨?_, fun _ => Or.inr (Nat.lt_succ_self _)⟩
        unfold ProcOK
        refine ⟨Nat.succ_le_succ (Nat.zero_le _), Nat.le_refl _, ?_, ?_, fun _ => ?_, fun h1 => by simp [pw] at h1,
          fun h1 => by simp [pw] at h1⟩
        · show upd s.wk (s.seq + 1) k (s.seq + 1) = k; rw [upd_same]
        · show upd s.wv (s.seq + 1) v (s.seq + 1) = v; rw [upd_same]
        · show s.applied < s.seq + 1; have := hc.app_le; omega
      · intro pid q h1 _ hqk hs
        have := h.procs pid q h1; unfold ProcOK at this; rw [hqk] at this
        exact this.2.2.2.2.1 hs

theorem step_cr (s : St) (op node k : Nat) (h : Inv s) : Inv (step s (.cr op node k)) := by
  simp only [step]
  split
  · exact inv_fail _ _ h
  · exact inv_spawn _ _ h (by unfold ProcOK; simp) (by simp)

/-- only the per-node part changes -/
theorem inv_core_update (s s' : St) (h : Inv s) (hc : Core s') (hm : Mono s s')
    (h1 : s'.msgs = s.msgs) (h2 : s'.procs = s.procs) (h3 : s'.applied = s.applied) : Inv s' := by
  apply inv_step s s' 0 h hc hm
  · intro mid m hmid; rw [h1] at hmid; exact Or.inl hmid
  · intro pid _; rw [h2]
  · intro p hp; rw [h2] at hp; exact Or.inl hp
  · intro pid q hq _ hqk hs
    have := h.procs pid q hq; unfold ProcOK at this; rw [hqk] at this
    rw [h3]; exact this.2.2.2.2.1 hs

theorem inv_flag (s : St) (mid : Nat) (m : Msg) (h : Inv s) (hm : s.msgs mid = some m) :
    Inv { s with msgs := upd s.msgs mid (some { m with delivered := true }) } := by
  apply inv_step s { s with msgs := upd s.msgs mid (some { m with delivered := true }) } 0 h
    (core_of_eq s _ h.core rfl rfl rfl rfl rfl rfl rfl rfl rfl rfl rfl)
    (mono_of_eq s _ rfl rfl rfl rfl rfl rfl rfl)
  · intro x mx hx
    have hx : upd s.msgs mid (some { m with delivered := true }) x = some mx := hx
    by_cases hxm : x = mid
    · subst hxm; rw [upd_same] at hx; cases hx
      exact Or.inr (Or.inr ⟨m, hm, rfl⟩)
    · rw [upd_other _ _ _ _ hxm] at hx; exact Or.inl hx
  · intro pid _; rfl
  · intro p hp; exact Or.inl hp
  · intro pid q hq _ hqk hs
    have := h.procs pid q hq; unfold ProcOK at this; rw [hqk] at this
    exact this.2.2.2.2.1 hs

theorem inv_markCommitted (s : St) (i k q : Nat) (h : Inv s) (hq : q ≤ s.aseq (s.n - 1) k) :
    Inv (markCommitted s i k q) := by
  obtain ⟨hc, hm⟩ := core_markCommitted s i k q h.core hq
  apply inv_core_update s _ h hc hm <;> (unfold markCommitted; dsimp only; split <;> rfl)

theorem step_dl (s : St) (mid : Nat) (h : Inv s) : Inv (step s (.dl mid)) := by
  simp only [step, deliver]
  split
  · exact inv_fail _ _ h
  · rename_i m hm
    split
    · exact inv_fail _ _ h
    · have hmok := h.msgs mid m hm
      have h1 := inv_flag s mid m h hm
      split
      · rename_i hk
        unfold MsgOK at hmok; rw [hk] at hmok
        obtain ⟨a1, a2, a3, a4, a5, a6, a7⟩ := hmok
        refine inv_spawn _ _ h1 ?_ (by simp)
        unfold ProcOK
        exact ⟨a1, a2, a3, a4, a5, a6, a7, fun hne => absurd rfl hne⟩
      · rename_i hk
        unfold MsgOK at hmok; rw [hk] at hmok
        obtain ⟨a1, a2, a3⟩ := hmok
        refine inv_spawn _ _ ?_ (by unfold ProcOK; simp) (by simp)
        let s1 : St := { s with msgs := upd s.msgs mid (some { m with delivered := true }) }
        have hc1 := h1.core
        apply inv_core_update s1 { s1 with ackd := upd s1.ackd m.seq true } h1
        · refine ⟨hc1.n2, hc1.app_le, hc1.order, hc1.store, hc1.commit, hc1.clean, ?_⟩
          intro q hq
          have hq : upd s.ackd m.seq true q = true := hq
          show q ≤ s.aseq (s.n - 1) (s.wk q)
          by_cases hqm : q = m.seq
          · subst hqm; rw [a2]; exact a3
          · rw [upd_other _ _ _ _ hqm] at hq; exact h.core.ackd q hq
        · refine ⟨rfl, Nat.le_refl _, Nat.le_refl _, fun _ _ => rfl, fun _ _ => rfl, fun _ _ => Nat.le_refl _, ?_⟩
          intro q hq
          show upd s.ackd m.seq true q = true
          by_cases hqm : q = m.seq
          · subst hqm; rw [upd_same]
          · rw [upd_other _ _ _ _ hqm]; exact hq
        · rfl
        · rfl
        · rfl
      · rename_i hk
        unfold MsgOK at hmok; rw [hk] at hmok
        refine inv_spawn _ _ ?_ (by unfold ProcOK; simp) (by simp)
        split
        · exact inv_markCommitted _ _ _ _ h1 hmok
        · exact h1
      · exact inv_spawn _ _ h1 (by unfold ProcOK; simp) (by simp)

end HappyModel.C17.Chain
