import HappyProofs.C17.MLMPhaseC
/-!
Run-level composition, part D: what a delivery / a resumption does to the state, as data
(`DlShape`, `RsShape`), and what `kstep` computes from it.
-/
namespace HappyModel.C17.MLM
open HappyModel.C17.ML (Version Msg Proc MKind PKind vcGet dominates vcMerge vcTick)

inductive DlShape (s : St) (mid : Nat) (s' : St) : Prop
  | fail (e : String) (h : s' = s.fail e)
  | repl (m : Msg) (h0 : s.msgs mid = some m) (hk : m.kind = .repl)
  | ae (m : Msg) (p p' : Proc) (h0 : s.msgs mid = some m) (hd : m.delivered = false)
      (hk : m.kind = .aereq ∨ m.kind = .aeresp) (hpk : p.kind = .aereq ↔ m.kind = .aereq)
      (hpk2 : p.kind = .aereq ∨ p.kind = .aeresp)
      (hnode : p.node = m.dst) (hsrc : p.src = m.src) (hop : p.op = mid) (hfin : p.fin = false)
      (hsent : p.sent = false)
      (sh : AeShape (({ s with msgs := upd s.msgs mid (some { m with delivered := true }) } : St).spawn p)
        s.np p m.items p' s')

theorem deliver_shape (s : St) (mid : Nat) : DlShape s mid (deliver s mid) := by
  unfold deliver
  cases h0 : s.msgs mid with
  | none => exact .fail _ rfl
  | some m =>
    simp only
    by_cases hd : m.delivered = true
    · simp only [hd, if_true]; exact .fail _ rfl
    · have hd' : m.delivered = false := by simpa using hd
      simp only [hd', Bool.false_eq_true, if_false]
      cases hk : m.kind with
      | repl => exact .repl m h0 hk
      | aereq =>
        simp only
        obtain ⟨p', sh⟩ := aeContinue_shape
          (({ s with msgs := upd s.msgs mid (some { m with kind := .aereq, delivered := true }) } : St).spawn
            { kind := .aereq, node := m.dst, src := m.src, hash := m.hash, op := mid })
          s.np { kind := .aereq, node := m.dst, src := m.src, hash := m.hash, op := mid } m.items
        have em : ({ m with kind := .aereq, delivered := true } : Msg) = { m with delivered := true } := by
          rw [← hk]
        rw [em] at sh ⊢
        exact .ae m _ p' h0 hd' (Or.inl hk) ⟨fun _ => hk, fun _ => rfl⟩ (Or.inl rfl) rfl rfl rfl rfl rfl sh
      | aeresp =>
        simp only
        obtain ⟨p', sh⟩ := aeContinue_shape
          (({ s with msgs := upd s.msgs mid (some { m with kind := .aeresp, delivered := true }) } : St).spawn
            { kind := .aeresp, node := m.dst, src := m.src, op := mid })
          s.np { kind := .aeresp, node := m.dst, src := m.src, op := mid } m.items
        have em : ({ m with kind := .aeresp, delivered := true } : Msg) = { m with delivered := true } := by
          rw [← hk]
        rw [em] at sh ⊢
        exact .ae m _ p' h0 hd' (Or.inr hk) ⟨fun e => (by cases e), fun e => (by rw [hk] at e; cases e)⟩
          (Or.inr rfl) rfl rfl rfl rfl rfl sh

inductive RsShape (s : St) (pid : Nat) (s' : St) : Prop
  | fail (e : String) (h : s' = s.fail e)
  | wr (p0 : Proc) (h0 : s.procs pid = some p0) (hk : p0.kind = .write ∨ p0.kind = .repl)
  | other (p0 p' : Proc) (h0 : s.procs pid = some p0) (hf : p0.fin = false)
      (hk : p0.kind = .read ∨ p0.kind = .ae) (hk' : p'.kind = p0.kind)
      (hv : s'.vers = s.vers) (hm : s'.msgs = s.msgs) (hp : s'.procs = upd s.procs pid (some p'))
  | sent (p0 : Proc) (h0 : s.procs pid = some p0) (hf : p0.fin = false)
      (hk : p0.kind = .aereq ∨ p0.kind = .aeresp) (hs : p0.sent = true)
      (h : s' = s.setProc pid { p0 with seg := p0.seg + 1, fin := true })
  | wait (p0 p' : Proc) (k : Nat) (v : Version) (rest : List (Nat × Version))
      (h0 : s.procs pid = some p0) (hf : p0.fin = false)
      (hk : p0.kind = .aereq ∨ p0.kind = .aeresp) (hs : p0.sent = false) (hit : p0.items = (k, v) :: rest)
      (sh : AeShape (install s p0.node k v).1 pid { p0 with seg := p0.seg + 1 } rest p' s')

/-- the anti-entropy branch of `resume` -/
theorem resume_ae_shape (s : St) (pid : Nat) (p0 : Proc) (h0 : s.procs pid = some p0) (hf : p0.fin = false)
    (hk : p0.kind = .aereq ∨ p0.kind = .aeresp) :
    RsShape s pid (if ({ p0 with seg := p0.seg + 1 } : Proc).sent then
        s.setProc pid { ({ p0 with seg := p0.seg + 1 } : Proc) with fin := true }
      else match ({ p0 with seg := p0.seg + 1 } : Proc).items with
        | (k, v) :: rest =>
          if ({ p0 with seg := p0.seg + 1 } : Proc).waiting then
            aeContinue (install s ({ p0 with seg := p0.seg + 1 } : Proc).node k v).1 pid { p0 with seg := p0.seg + 1 } rest
          else s.fail "not-waiting"
        | [] => s.fail "not-waiting") := by
  split
  · rename_i hs
    exact .sent p0 h0 hf hk hs rfl
  · rename_i hs
    have hs' : p0.sent = false := by simpa using hs
    split
    · rename_i k v rest hit
      split
      · obtain ⟨p', sh⟩ := aeContinue_shape (install s p0.node k v).1 pid { p0 with seg := p0.seg + 1 } rest
        exact .wait p0 p' k v rest h0 hf hk hs' hit sh
      · exact .fail _ rfl
    · exact .fail _ rfl

theorem resume_shape (s : St) (pid : Nat) : RsShape s pid (resume s pid) := by
  unfold resume
  cases h0 : s.procs pid with
  | none => exact .fail _ rfl
  | some p0 =>
    simp only
    by_cases hf : p0.fin = true
    · simp only [hf, if_true]; exact .fail _ rfl
    · have hf' : p0.fin = false := by simpa using hf
      simp only [hf', Bool.false_eq_true, if_false]
      cases hk : p0.kind with
      | write => exact .wr p0 h0 (Or.inl hk)
      | repl => exact .wr p0 h0 (Or.inr hk)
      | read =>
        simp only
        exact .other p0 _ h0 hf' (Or.inl hk) hk.symm rfl rfl rfl
      | ae =>
        simp only
        exact .other p0 _ h0 hf' (Or.inr hk) hk.symm rfl rfl rfl
      | aereq =>
        simp only
        have := resume_ae_shape s pid { p0 with kind := .aereq, fin := false } (by
          rw [h0]; congr 1; cases p0; simp_all) rfl (Or.inl rfl)
        exact this
      | aeresp =>
        simp only
        have := resume_ae_shape s pid { p0 with kind := .aeresp, fin := false } (by
          rw [h0]; congr 1; cases p0; simp_all) rfl (Or.inr rfl)
        exact this
      | other => simp only; exact .fail _ rfl

end HappyModel.C17.MLM
