import HappyProofs.C17.MLMOrd
/-!
Multi-leader with a merging resolver, run level: the invariant behind quiescent clock agreement.

A version is *written* when a write handler carries it (handlers are never removed).  For a write
handler that has passed its first segment every replica `i` is `Covered`: its clock for the key is
already pointwise at or above the written one (`Ge`), or the `Replicate` is still in flight to `i`,
or the `_handle_replicate` process for it at `i` has not finished.  Installing anything only moves
clocks up, so `Ge` is stable.  Upper bound (`Good`): every version held, or copied into an
anti-entropy message / handler, has on each component either 0 or at most that component of some
written version of the same key, and some version of that key has been written.
-/
namespace HappyModel.C17.MLM
open HappyModel.C17.ML (Version Msg Proc MKind PKind vcGet dominates vcMerge vcTick)

structure Core where
  n : Nat
  join : Join
  np : Nat
  procs : Nat → Option Proc
  nm : Nat
  msgs : Nat → Option Msg
  vers : Nat → Nat → Option Version
  store : Nat → Nat → Option Val

def St.core (s : St) : Core := ⟨s.n, s.join, s.np, s.procs, s.nm, s.msgs, s.vers, s.store⟩

def Core.spawn (c : Core) (p : Proc) : Core := { c with np := c.np + 1, procs := upd c.procs c.np (some p) }
def Core.send (c : Core) (m : Msg) : Core := { c with nm := c.nm + 1, msgs := upd c.msgs c.nm (some m) }
def Core.setProc (c : Core) (pid : Nat) (p : Proc) : Core := { c with procs := upd c.procs pid (some p) }
def Core.setMsg (c : Core) (mid : Nat) (m : Msg) : Core := { c with msgs := upd c.msgs mid (some m) }
def Core.setVer (c : Core) (i k : Nat) (v : Version) : Core :=
  { c with store := upd2 c.store i k (some v.val), vers := upd2 c.vers i k (some v) }
/-- `_install` on the core -/
def Core.install (c : Core) (i k : Nat) (inc : Version) : Core :=
  if takes c.n (c.vers i k) inc then c.setVer i k (pick c.n c.join (c.vers i k) inc) else c

/-- some write handler carries `(k, v)` -/
def WrittenC (c : Core) (k : Nat) (v : Version) : Prop :=
  ∃ pid p, c.procs pid = some p ∧ p.kind = .write ∧ p.key = k ∧ p.ver = v

/-- some version of `k` has been written, and every clock component of `u` is 0 or bounded by that
component of a written version of `k` -/
def Good (c : Core) (k : Nat) (u : Version) : Prop :=
  (∃ w, WrittenC c k w) ∧
  ∀ x, x < c.n → vcGet u.vc x = 0 ∨ ∃ w, WrittenC c k w ∧ vcGet u.vc x ≤ vcGet w.vc x

def ItemsG (c : Core) (items : List (Nat × Version)) : Prop := ∀ kv, kv ∈ items → Good c kv.1 kv.2

def MsgCarrier (c : Core) (i k : Nat) (v : Version) : Prop :=
  ∃ mid m, c.msgs mid = some m ∧ m.kind = .repl ∧ m.dst = i ∧ m.key = k ∧ m.ver = v ∧ m.delivered = false

def ProcCarrier (c : Core) (i k : Nat) (v : Version) : Prop :=
  ∃ pid p, c.procs pid = some p ∧ p.kind = .repl ∧ p.node = i ∧ p.key = k ∧ p.ver = v ∧ p.fin = false

def Covered (c : Core) (i k : Nat) (v : Version) : Prop :=
  Ge c.n (c.vers i k) v ∨ MsgCarrier c i k v ∨ ProcCarrier c i k v

structure InvC (c : Core) : Prop where
  freshP : ∀ pid, c.np ≤ pid → c.procs pid = none
  freshM : ∀ mid, c.nm ≤ mid → c.msgs mid = none
  wr : ∀ pid p, c.procs pid = some p → p.kind = .write → 1 ≤ p.seg ∧ (p.fin = true → 2 ≤ p.seg)
  versG : ∀ i k v, c.vers i k = some v → Good c k v
  store : ∀ i k, c.store i k = (c.vers i k).map (·.val)
  msgG : ∀ mid m, c.msgs mid = some m → (m.kind = .repl → WrittenC c m.key m.ver) ∧ ItemsG c m.items
  procG : ∀ pid p, c.procs pid = some p → (p.kind = .repl → WrittenC c p.key p.ver) ∧ ItemsG c p.items
  cov : ∀ pid p, c.procs pid = some p → p.kind = .write → 2 ≤ p.seg →
    ∀ i, i < c.n → Covered c i p.key p.ver

def Inv (s : St) : Prop := InvC s.core

/-! ### the bound -/

theorem good_of_written {c : Core} {k : Nat} {w : Version} (hw : WrittenC c k w) : Good c k w :=
  ⟨⟨w, hw⟩, fun _ _ => Or.inr ⟨w, hw, Nat.le_refl _⟩⟩

theorem Good.mono {c c' : Core} (hn : c'.n = c.n) (W : ∀ k v, WrittenC c k v → WrittenC c' k v) {k u}
    (h : Good c k u) : Good c' k u := by
  obtain ⟨⟨w, hw⟩, hb⟩ := h
  refine ⟨⟨w, W k w hw⟩, fun x hx => ?_⟩
  rw [hn] at hx
  rcases hb x hx with h0 | ⟨w', hw', hle⟩
  · exact Or.inl h0
  · exact Or.inr ⟨w', W k w' hw', hle⟩

/-- the winner of `_pick` between two bounded versions is bounded -/
theorem good_pick {c : Core} {k : Nat} {cur : Option Version} {inc : Version}
    (hcur : ∀ u, cur = some u → Good c k u) (hinc : Good c k inc) :
    Good c k (pick c.n c.join cur inc) := by
  cases cur with
  | none => exact hinc
  | some e =>
    have he := hcur e rfl
    refine ⟨he.1, fun x hx => ?_⟩
    rw [vcGet_pick c.n c.join e inc x hx]
    by_cases hle : vcGet inc.vc x ≤ vcGet e.vc x
    · rw [Nat.max_eq_left hle]; exact he.2 x hx
    · rw [Nat.max_eq_right (by omega)]; exact hinc.2 x hx

/-! ### elementary state changes -/

theorem written_spawn {c : Core} (hf : ∀ pid, c.np ≤ pid → c.procs pid = none) (p : Proc) {k v} :
    WrittenC c k v → WrittenC (c.spawn p) k v := by
  rintro ⟨pid, q, h1, h2⟩
  refine ⟨pid, q, ?_, h2⟩
  have : pid ≠ c.np := by intro e; rw [e, hf _ (Nat.le_refl _)] at h1; cases h1
  show upd c.procs c.np (some p) pid = some q
  rw [upd_other _ _ _ _ this]; exact h1

theorem procCarrier_spawn {c : Core} (hf : ∀ pid, c.np ≤ pid → c.procs pid = none) (p : Proc) {i k v} :
    ProcCarrier c i k v → ProcCarrier (c.spawn p) i k v := by
  rintro ⟨pid, q, h1, h2⟩
  refine ⟨pid, q, ?_, h2⟩
  have : pid ≠ c.np := by intro e; rw [e, hf _ (Nat.le_refl _)] at h1; cases h1
  show upd c.procs c.np (some p) pid = some q
  rw [upd_other _ _ _ _ this]; exact h1

theorem msgCarrier_send {c : Core} (hf : ∀ mid, c.nm ≤ mid → c.msgs mid = none) (m : Msg) {i k v} :
    MsgCarrier c i k v → MsgCarrier (c.send m) i k v := by
  rintro ⟨mid, q, h1, h2⟩
  refine ⟨mid, q, ?_, h2⟩
  have : mid ≠ c.nm := by intro e; rw [e, hf _ (Nat.le_refl _)] at h1; cases h1
  show upd c.msgs c.nm (some m) mid = some q
  rw [upd_other _ _ _ _ this]; exact h1

theorem inv_spawn {c : Core} (h : InvC c) (p : Proc)
    (hw : p.kind = .write → p.seg = 1 ∧ p.fin = false)
    (hr : p.kind = .repl → WrittenC c p.key p.ver) (hi : ItemsG c p.items) : InvC (c.spawn p) := by
  have W : ∀ {k v}, WrittenC c k v → WrittenC (c.spawn p) k v := written_spawn h.freshP p
  have G : ∀ {k v}, Good c k v → Good (c.spawn p) k v :=
    fun hg => Good.mono (c := c) (c' := c.spawn p) rfl (fun _ _ => W) hg
  have cases_ : ∀ pid q, (c.spawn p).procs pid = some q → (pid = c.np ∧ q = p) ∨ c.procs pid = some q := by
    intro pid q hq
    have hq' : (if pid = c.np then some p else c.procs pid) = some q := hq
    split at hq'
    · cases hq'; exact Or.inl ⟨‹_›, rfl⟩
    · exact Or.inr hq'
  refine ⟨?_, h.freshM, ?_, ?_, h.store, ?_, ?_, ?_⟩
  · intro pid hp
    show upd c.procs c.np (some p) pid = none
    have hp' : c.np + 1 ≤ pid := hp
    rw [upd_other _ _ _ _ (by omega)]; exact h.freshP pid (by omega)
  · intro pid q hq hk
    rcases cases_ pid q hq with ⟨_, rfl⟩ | hq
    · obtain ⟨b, d⟩ := hw hk
      exact ⟨by omega, fun hf => by rw [d] at hf; cases hf⟩
    · exact h.wr pid q hq hk
  · intro i k v hv; exact G (h.versG i k v hv)
  · intro mid m hm
    obtain ⟨a, b⟩ := h.msgG mid m hm
    exact ⟨fun hk => W (a hk), fun kv hkv => G (b kv hkv)⟩
  · intro pid q hq
    rcases cases_ pid q hq with ⟨_, rfl⟩ | hq
    · exact ⟨fun hk => W (hr hk), fun kv hkv => G (hi kv hkv)⟩
    · obtain ⟨a, b⟩ := h.procG pid q hq
      exact ⟨fun hk => W (a hk), fun kv hkv => G (b kv hkv)⟩
  · intro pid q hq hk hseg i hi'
    rcases cases_ pid q hq with ⟨_, rfl⟩ | hq
    · have := (hw hk).1; omega
    · rcases h.cov pid q hq hk hseg i hi' with g | g | g
      · exact Or.inl g
      · exact Or.inr (Or.inl g)
      · exact Or.inr (Or.inr (procCarrier_spawn h.freshP p g))

theorem inv_send {c : Core} (h : InvC c) (m : Msg)
    (hr : m.kind = .repl → WrittenC c m.key m.ver) (hi : ItemsG c m.items) : InvC (c.send m) := by
  refine ⟨h.freshP, ?_, h.wr, h.versG, h.store, ?_, h.procG, ?_⟩
  · intro mid hp
    show upd c.msgs c.nm (some m) mid = none
    have hp' : c.nm + 1 ≤ mid := hp
    rw [upd_other _ _ _ _ (by omega)]; exact h.freshM mid (by omega)
  · intro mid q hq
    have hq' : (if mid = c.nm then some m else c.msgs mid) = some q := hq
    split at hq'
    · cases hq'; exact ⟨hr, hi⟩
    · exact h.msgG mid q hq'
  · intro pid q hq hk hseg i hi'
    rcases h.cov pid q hq hk hseg i hi' with g | g | g
    · exact Or.inl g
    · exact Or.inr (Or.inl (msgCarrier_send h.freshM m g))
    · exact Or.inr (Or.inr g)

theorem written_setProc {c : Core} {pid : Nat} {p0 p' : Proc} (h0 : c.procs pid = some p0)
    (hk : p'.kind = p0.kind) (hkey : p'.key = p0.key) (hv : p'.ver = p0.ver) {k v} :
    WrittenC c k v → WrittenC (c.setProc pid p') k v := by
  rintro ⟨pid1, q, h1, h2, h3, h4⟩
  by_cases e : pid1 = pid
  · subst e; rw [h0] at h1; cases h1
    exact ⟨pid1, p', by show upd _ _ _ _ = _; simp, by rw [hk]; exact h2, by rw [hkey]; exact h3,
      by rw [hv]; exact h4⟩
  · exact ⟨pid1, q, by show upd _ _ _ _ = _; rw [upd_other _ _ _ _ e]; exact h1, h2, h3, h4⟩

theorem inv_setProc {c : Core} (h : InvC c) {pid : Nat} {p0 p' : Proc} (h0 : c.procs pid = some p0)
    (hk : p'.kind = p0.kind) (hkey : p'.key = p0.key) (hv : p'.ver = p0.ver) (hnode : p'.node = p0.node)
    (hseg : p'.kind = .write → 1 ≤ p'.seg ∧ (p'.fin = true → 2 ≤ p'.seg))
    (hi : ItemsG c p'.items)
    (hcov : p'.kind = .write → 2 ≤ p'.seg → ∀ i, i < c.n → Covered c i p'.key p'.ver)
    (hcar : p0.kind = .repl → p'.fin = false ∨ Ge c.n (c.vers p0.node p0.key) p0.ver) :
    InvC (c.setProc pid p') := by
  have W : ∀ {k v}, WrittenC c k v → WrittenC (c.setProc pid p') k v := written_setProc h0 hk hkey hv
  have G : ∀ {k v}, Good c k v → Good (c.setProc pid p') k v :=
    fun hg => Good.mono (c := c) (c' := c.setProc pid p') rfl (fun _ _ => W) hg
  have cases_ : ∀ pid1 q, (c.setProc pid p').procs pid1 = some q →
      (pid1 = pid ∧ q = p') ∨ (pid1 ≠ pid ∧ c.procs pid1 = some q) := by
    intro pid1 q hq
    have hq' : (if pid1 = pid then some p' else c.procs pid1) = some q := hq
    split at hq'
    · cases hq'; exact Or.inl ⟨‹_›, rfl⟩
    · exact Or.inr ⟨‹_›, hq'⟩
  have C : ∀ {i k v}, Covered c i k v → Covered (c.setProc pid p') i k v := by
    intro i k v hc
    rcases hc with g | g | ⟨pid1, q, g1, g2, g3, g4, g5, g6⟩
    · exact Or.inl g
    · exact Or.inr (Or.inl g)
    · by_cases e : pid1 = pid
      · subst e; rw [h0] at g1; cases g1
        rcases hcar g2 with hf | hg
        · exact Or.inr (Or.inr ⟨pid1, p', by show upd _ _ _ _ = _; simp, by rw [hk]; exact g2,
            by rw [hnode]; exact g3, by rw [hkey]; exact g4, by rw [hv]; exact g5, hf⟩)
        · rw [g3, g4, g5] at hg; exact Or.inl hg
      · exact Or.inr (Or.inr ⟨pid1, q, by show upd _ _ _ _ = _; rw [upd_other _ _ _ _ e]; exact g1,
          g2, g3, g4, g5, g6⟩)
  refine ⟨?_, h.freshM, ?_, ?_, h.store, ?_, ?_, ?_⟩
  · intro pid1 hp
    show upd c.procs pid (some p') pid1 = none
    have : pid1 ≠ pid := by
      intro e; subst e; rw [h.freshP _ hp] at h0; cases h0
    rw [upd_other _ _ _ _ this]; exact h.freshP pid1 hp
  · intro pid1 q hq hkq
    rcases cases_ pid1 q hq with ⟨rfl, rfl⟩ | ⟨_, hq⟩
    · exact hseg hkq
    · exact h.wr pid1 q hq hkq
  · intro i k v hv'; exact G (h.versG i k v hv')
  · intro mid m hm
    obtain ⟨a, b⟩ := h.msgG mid m hm
    exact ⟨fun hk' => W (a hk'), fun kv hkv => G (b kv hkv)⟩
  · intro pid1 q hq
    rcases cases_ pid1 q hq with ⟨rfl, rfl⟩ | ⟨_, hq⟩
    · obtain ⟨a, _⟩ := h.procG pid1 p0 h0
      refine ⟨fun hk' => ?_, fun kv hkv => G (hi kv hkv)⟩
      have := W (a (by rw [← hk]; exact hk'))
      rw [← hkey, ← hv] at this; exact this
    · obtain ⟨a, b⟩ := h.procG pid1 q hq
      exact ⟨fun hk' => W (a hk'), fun kv hkv => G (b kv hkv)⟩
  · intro pid1 q hq hkq hs i hi'
    rcases cases_ pid1 q hq with ⟨rfl, rfl⟩ | ⟨_, hq⟩
    · exact C (hcov hkq hs i hi')
    · exact C (h.cov pid1 q hq hkq hs i hi')

theorem inv_setMsg {c : Core} (h : InvC c) {mid : Nat} {m0 m' : Msg} (h0 : c.msgs mid = some m0)
    (hk : m'.kind = m0.kind) (hkey : m'.key = m0.key) (hv : m'.ver = m0.ver) (hitems : m'.items = m0.items)
    (hcar : m0.kind = .repl → m0.delivered = false →
      Ge c.n (c.vers m0.dst m0.key) m0.ver ∨ ProcCarrier c m0.dst m0.key m0.ver) :
    InvC (c.setMsg mid m') := by
  refine ⟨h.freshP, ?_, h.wr, h.versG, h.store, ?_, h.procG, ?_⟩
  · intro mid1 hp
    show upd c.msgs mid (some m') mid1 = none
    have : mid1 ≠ mid := by
      intro e; subst e; rw [h.freshM _ hp] at h0; cases h0
    rw [upd_other _ _ _ _ this]; exact h.freshM mid1 hp
  · intro mid1 q hq
    have hq' : (if mid1 = mid then some m' else c.msgs mid1) = some q := hq
    split at hq'
    · cases hq'
      obtain ⟨a, b⟩ := h.msgG mid m0 h0
      rw [hk, hkey, hv, hitems]; exact ⟨a, b⟩
    · exact h.msgG mid1 q hq'
  · intro pid q hq hkq hs i hi'
    rcases h.cov pid q hq hkq hs i hi' with g | ⟨mid1, m, g1, g2, g3, g4, g5, g6⟩ | g
    · exact Or.inl g
    · by_cases e : mid1 = mid
      · subst e; rw [h0] at g1; cases g1
        rcases hcar g2 g6 with hg | hg
        · rw [g3, g4, g5] at hg; exact Or.inl hg
        · rw [g3, g4, g5] at hg; exact Or.inr (Or.inr hg)
      · exact Or.inr (Or.inl ⟨mid1, m, by show upd _ _ _ _ = _; rw [upd_other _ _ _ _ e]; exact g1,
          g2, g3, g4, g5, g6⟩)
    · exact Or.inr (Or.inr g)

/-- `_install` of a bounded version: the invariant is kept, the replica now covers that version, and
no replica's clock went down -/
theorem inv_install {c : Core} (h : InvC c) (i k : Nat) (inc : Version) (hg : Good c k inc) :
    InvC (c.install i k inc) ∧ Ge c.n ((c.install i k inc).vers i k) inc ∧
      (∀ i' k' v, Ge c.n (c.vers i' k') v → Ge c.n ((c.install i k inc).vers i' k') v) := by
  have hcur : ∀ u, c.vers i k = some u → Good c k u := fun u hu => h.versG i k u hu
  have hvers : ∀ i' k', (c.install i k inc).vers i' k' =
      if i' = i ∧ k' = k then installOpt c.n c.join (c.vers i k) inc else c.vers i' k' := by
    intro i' k'
    unfold Core.install installOpt
    by_cases ht : takes c.n (c.vers i k) inc = true
    · rw [if_pos ht, if_pos ht]
      show upd2 c.vers i k (some (pick c.n c.join (c.vers i k) inc)) i' k' = _
      rw [upd2_apply]
    · rw [if_neg ht, if_neg ht]
      split
      · rename_i e; rw [e.1, e.2]
      · rfl
  have hge : ∀ i' k' v, Ge c.n (c.vers i' k') v → Ge c.n ((c.install i k inc).vers i' k') v := by
    intro i' k' v hg'
    rw [hvers]
    split
    · rename_i e
      obtain ⟨e1, e2⟩ := e
      subst e1; subst e2
      exact ge_merge hg'
    · exact hg'
  refine ⟨?_, ?_, hge⟩
  · by_cases ht : takes c.n (c.vers i k) inc = true
    · have e : c.install i k inc = c.setVer i k (pick c.n c.join (c.vers i k) inc) := by
        unfold Core.install; rw [if_pos ht]
      have hge' := hge
      rw [e] at hge' ⊢
      refine ⟨h.freshP, h.freshM, h.wr, ?_, ?_, h.msgG, h.procG, ?_⟩
      · intro i' k' v hv
        have hv' : upd2 c.vers i k (some (pick c.n c.join (c.vers i k) inc)) i' k' = some v := hv
        rw [upd2_apply] at hv'
        split at hv'
        · rename_i e'; cases hv'; rw [e'.2]; exact good_pick hcur hg
        · exact h.versG i' k' v hv'
      · intro i' k'
        show upd2 c.store i k (some (pick c.n c.join (c.vers i k) inc).val) i' k' =
          (upd2 c.vers i k (some (pick c.n c.join (c.vers i k) inc)) i' k').map (·.val)
        rw [upd2_apply, upd2_apply]
        split
        · rfl
        · exact h.store i' k'
      · intro pid q hq hkq hs i' hi'
        rcases h.cov pid q hq hkq hs i' hi' with g | g | g
        · exact Or.inl (hge' i' q.key q.ver g)
        · exact Or.inr (Or.inl g)
        · exact Or.inr (Or.inr g)
    · have e : c.install i k inc = c := by unfold Core.install; rw [if_neg ht]
      rw [e]; exact h
  · rw [hvers, if_pos ⟨rfl, rfl⟩]
    exact ge_merge_self

end HappyModel.C17.MLM
