import HappyModel.C17.MLM
/-!
Multi-leader with a merging resolver: the algebra of `pick` (`LeaderNode._pick` when the resolver
returns the join of two concurrent versions).

* the value join (`|||` on item masks, `max`) is commutative, associative, idempotent;
* the vector-clock component of `pick` is *always* the pointwise maximum, whichever branch is taken,
  so on clocks merging is a semilattice join — order-, grouping- and duplication-independent;
* when the two clocks are equal (`SameClock`: what every pair of leaders satisfies once all
  `Replicate`s are delivered, `MLM.quiescent_clocks_agree`) `pick` is the pure join of the values and
  the clock stays the same: from then on anti-entropy only joins values;
* for pairwise concurrent versions (an antichain) merging in any order gives the join of all values.
-/
namespace HappyModel.C17.MLM
open HappyModel.C17.ML (Version vcGet dominates vcMerge)

/-! ### the value join -/

theorem joinVal_comm (j : Join) (a b : Nat) : joinVal j a b = joinVal j b a := by
  cases j
  · exact Nat.or_comm a b
  · exact Nat.max_comm a b

theorem joinVal_assoc (j : Join) (a b c : Nat) : joinVal j (joinVal j a b) c = joinVal j a (joinVal j b c) := by
  cases j
  · exact Nat.or_assoc a b c
  · exact Nat.max_assoc a b c

theorem joinVal_idem (j : Join) (a : Nat) : joinVal j a a = a := by
  cases j
  · exact Nat.or_self a
  · exact Nat.max_self a

/-! ### vector clocks -/

theorem vcGet_vcMerge (n : Nat) (a b : List Nat) (c : Nat) (hc : c < n) :
    vcGet (vcMerge n a b) c = max (vcGet a c) (vcGet b c) := by
  unfold vcMerge
  show ((List.range n).map fun j => max (vcGet a j) (vcGet b j)).getD c 0 = _
  rw [List.getD_eq_getElem?_getD, List.getElem?_map, List.getElem?_range hc]
  rfl

theorem dominates_le {n : Nat} {a b : List Nat} (h : dominates n a b = true) :
    ∀ c, c < n → vcGet b c ≤ vcGet a c := by
  unfold dominates at h
  rw [Bool.and_eq_true] at h
  intro c hc
  have := List.all_eq_true.mp h.1 c (List.mem_range.mpr hc)
  simpa using this

theorem dominates_strict {n : Nat} {a b : List Nat} (h : dominates n a b = true) :
    ∃ c, c < n ∧ vcGet b c < vcGet a c := by
  unfold dominates at h
  rw [Bool.and_eq_true] at h
  obtain ⟨c, hc, hlt⟩ := List.any_eq_true.mp h.2
  exact ⟨c, List.mem_range.mp hc, by simpa using hlt⟩

/-- the two versions carry the same vector clock (on the `n` leaders) -/
def SameClock (n : Nat) (a b : Version) : Prop := ∀ c, c < n → vcGet a.vc c = vcGet b.vc c

theorem not_dominates_of_same {n : Nat} {a b : Version} (h : SameClock n a b) : dominates n a.vc b.vc = false := by
  cases hd : dominates n a.vc b.vc with
  | false => rfl
  | true =>
    obtain ⟨c, hc, hlt⟩ := dominates_strict hd
    have := h c hc
    omega

/-- **the clock of the picked version is the pointwise maximum**, in every branch of `_pick` -/
theorem pick_clock (n : Nat) (j : Join) (e inc : Version) (c : Nat) (hc : c < n) :
    vcGet (pick n j (some e) inc).vc c = max (vcGet e.vc c) (vcGet inc.vc c) := by
  unfold pick
  by_cases h1 : dominates n inc.vc e.vc = true
  · simp only [h1, if_true]
    have := dominates_le h1 c hc
    omega
  · simp only [h1]
    by_cases h2 : dominates n e.vc inc.vc = true
    · simp only [h2, if_true]
      have := dominates_le h2 c hc
      simp only [Bool.false_eq_true, if_false]
      omega
    · simp only [h2, Bool.false_eq_true, if_false]
      show vcGet (vcMerge n e.vc inc.vc) c = _
      exact vcGet_vcMerge n _ _ c hc

/-- equal clocks: the local version never "wins", the handler pays the write latency and installs
    the join of the two values under the same clock -/
theorem pick_same_clock (n : Nat) (j : Join) (e inc : Version) (h : SameClock n e inc) :
    takes n (some e) inc = true ∧ (pick n j (some e) inc).val = joinVal j e.val inc.val ∧
    SameClock n (pick n j (some e) inc) e := by
  have h1 : dominates n inc.vc e.vc = false := not_dominates_of_same (fun c hc => (h c hc).symm)
  have h2 : dominates n e.vc inc.vc = false := not_dominates_of_same h
  refine ⟨by simp [takes, h1, h2], by simp [pick, h1, h2, joinVer], ?_⟩
  intro c hc
  rw [pick_clock n j e inc c hc, h c hc]
  omega

/-! ### merging a list of versions -/

def mergeOpt (n : Nat) (j : Join) (cur : Option Version) (inc : Version) : Option Version :=
  if takes n cur inc then some (pick n j cur inc) else cur

def mergeAll (n : Nat) (j : Join) (cur : Option Version) (l : List Version) : Option Version :=
  l.foldl (mergeOpt n j) cur

/-- clock component of an optional version -/
def clkOf (o : Option Version) (c : Nat) : Nat :=
  match o with
  | none => 0
  | some u => vcGet u.vc c

/-- greatest `c`-component among the clocks of a list -/
def clkMax (l : List Version) (c : Nat) : Nat := l.foldl (fun acc v => max acc (vcGet v.vc c)) 0

theorem mergeOpt_clock (n : Nat) (j : Join) (cur : Option Version) (inc : Version) (c : Nat) (hc : c < n) :
    clkOf (mergeOpt n j cur inc) c = max (clkOf cur c) (vcGet inc.vc c) := by
  unfold mergeOpt
  cases cur with
  | none => simp [takes, pick, clkOf]
  | some e =>
    by_cases ht : takes n (some e) inc = true
    · rw [if_pos ht]
      exact pick_clock n j e inc c hc
    · rw [if_neg ht]
      -- refused: the local clock strictly dominates
      have hd : dominates n e.vc inc.vc = true := by
        unfold takes at ht
        cases h2 : dominates n e.vc inc.vc with
        | true => rfl
        | false => simp [h2] at ht
      have := dominates_le hd c hc
      show vcGet e.vc c = max (vcGet e.vc c) (vcGet inc.vc c)
      omega

theorem foldl_max_acc (l : List Version) (c a : Nat) :
    l.foldl (fun acc v => max acc (vcGet v.vc c)) a = max a (clkMax l c) := by
  unfold clkMax
  induction l generalizing a with
  | nil => simp
  | cons x xs ih =>
    simp only [List.foldl_cons]
    rw [ih (max a (vcGet x.vc c)), ih (max 0 (vcGet x.vc c))]
    omega

theorem mergeAll_clock (n : Nat) (j : Join) (l : List Version) (cur : Option Version) (c : Nat) (hc : c < n) :
    clkOf (mergeAll n j cur l) c = max (clkOf cur c) (clkMax l c) := by
  induction l generalizing cur with
  | nil => simp [mergeAll, clkMax]
  | cons x xs ih =>
    have : mergeAll n j cur (x :: xs) = mergeAll n j (mergeOpt n j cur x) xs := rfl
    rw [this, ih, mergeOpt_clock n j cur x c hc]
    have e : clkMax (x :: xs) c = max (vcGet x.vc c) (clkMax xs c) := by
      show (x :: xs).foldl (fun acc v => max acc (vcGet v.vc c)) 0 = _
      simp only [List.foldl_cons]
      rw [foldl_max_acc]
      omega
    rw [e]; omega

theorem clkMax_le_of_mem (l : List Version) (c : Nat) (v : Version) (hv : v ∈ l) : vcGet v.vc c ≤ clkMax l c := by
  induction l with
  | nil => cases hv
  | cons x xs ih =>
    have e : clkMax (x :: xs) c = max (vcGet x.vc c) (clkMax xs c) := by
      show (x :: xs).foldl (fun acc v => max acc (vcGet v.vc c)) 0 = _
      simp only [List.foldl_cons]
      rw [foldl_max_acc]
      omega
    rw [e]
    rcases List.mem_cons.mp hv with h | h
    · subst h; omega
    · have := ih h; omega

theorem clkMax_attained (l : List Version) (c : Nat) : clkMax l c = 0 ∨ ∃ v, v ∈ l ∧ clkMax l c = vcGet v.vc c := by
  induction l with
  | nil => left; rfl
  | cons x xs ih =>
    have e : clkMax (x :: xs) c = max (vcGet x.vc c) (clkMax xs c) := by
      show (x :: xs).foldl (fun acc v => max acc (vcGet v.vc c)) 0 = _
      simp only [List.foldl_cons]
      rw [foldl_max_acc]
      omega
    by_cases hle : clkMax xs c ≤ vcGet x.vc c
    · right; exact ⟨x, by simp, by rw [e]; omega⟩
    · rcases ih with h | ⟨v, hv, hm⟩
      · omega
      · right; exact ⟨v, by simp [hv], by rw [e]; omega⟩

theorem clkMax_set_eq (l1 l2 : List Version) (hset : ∀ v, v ∈ l1 ↔ v ∈ l2) (c : Nat) : clkMax l1 c = clkMax l2 c := by
  have half : ∀ (a b : List Version), (∀ v, v ∈ a → v ∈ b) → clkMax a c ≤ clkMax b c := by
    intro a b hab
    rcases clkMax_attained a c with h | ⟨v, hv, hm⟩
    · omega
    · rw [hm]; exact clkMax_le_of_mem b c v (hab v hv)
  have h1 := half l1 l2 (fun v hv => (hset v).mp hv)
  have h2 := half l2 l1 (fun v hv => (hset v).mpr hv)
  omega

/-! ### values: concurrent versions merge to the join of all, in any order -/

/-- value of an optional version; `0` (the unit of both joins) when there is none -/
def valD (o : Option Version) : Nat :=
  match o with
  | none => 0
  | some u => u.val

theorem joinVal_zero (j : Join) (a : Nat) : joinVal j 0 a = a := by
  cases j
  · exact Nat.zero_or a
  · exact Nat.zero_max a

/-- join of the values of a list onto `a`, left to right -/
def joinVals (j : Join) (a : Nat) (l : List Version) : Nat := l.foldl (fun acc v => joinVal j acc v.val) a

/-- `x` is concurrent with the local version: neither clock strictly dominates -/
def concWith (n : Nat) (cur : Option Version) (x : Version) : Bool :=
  match cur with
  | none => true
  | some e => !dominates n x.vc e.vc && !dominates n e.vc x.vc

/-- every version of `l` is concurrent with what has been merged before it: e.g. writes taken at
    different leaders before any `Replicate` arrived -/
def AllConcurrent (n : Nat) (j : Join) : Option Version → List Version → Bool
  | _, [] => true
  | cur, x :: xs => concWith n cur x && AllConcurrent n j (mergeOpt n j cur x) xs

theorem mergeAll_concurrent_val (n : Nat) (j : Join) (l : List Version) (cur : Option Version)
    (h : AllConcurrent n j cur l = true) : valD (mergeAll n j cur l) = joinVals j (valD cur) l := by
  induction l generalizing cur with
  | nil => rfl
  | cons x xs ih =>
    have h' : (concWith n cur x && AllConcurrent n j (mergeOpt n j cur x) xs) = true := h
    rw [Bool.and_eq_true] at h'
    obtain ⟨h1, h2⟩ := h'
    have e : mergeAll n j cur (x :: xs) = mergeAll n j (mergeOpt n j cur x) xs := rfl
    rw [e, ih _ h2]
    show joinVals j (valD (mergeOpt n j cur x)) xs = joinVals j (joinVal j (valD cur) x.val) xs
    congr 1
    cases cur with
    | none => simp [mergeOpt, takes, pick, valD, joinVal_zero]
    | some c =>
      have h1' : (!dominates n x.vc c.vc && !dominates n c.vc x.vc) = true := h1
      rw [Bool.and_eq_true] at h1'
      obtain ⟨a, b⟩ := h1'
      have a' : dominates n x.vc c.vc = false := by simpa using a
      have b' : dominates n c.vc x.vc = false := by simpa using b
      simp [mergeOpt, takes, pick, a', b', valD, joinVer]

theorem joinVals_perm (j : Join) (l1 l2 : List Version) (hp : l1.Perm l2) (a : Nat) :
    joinVals j a l1 = joinVals j a l2 := by
  induction hp generalizing a with
  | nil => rfl
  | cons x _ ih => exact ih (joinVal j a x.val)
  | swap x y l =>
    show joinVals j (joinVal j (joinVal j a y.val) x.val) l = joinVals j (joinVal j (joinVal j a x.val) y.val) l
    congr 1
    rw [joinVal_assoc, joinVal_comm j y.val x.val, ← joinVal_assoc]
  | trans _ _ ih1 ih2 => rw [ih1, ih2]

end HappyModel.C17.MLM
