import HappyProofs.C17.MLMGhost
/-!
Multi-leader with a merging resolver, run level:

* `SubInv` (every anti-entropy copy is subsumed by its sender's current version of that key) holds in
  every reachable state (`run_subInv`).  Copies are taken from the sender's version table
  (`versionsOf`), handlers only copy them and shrink them to a suffix, and `_install` only moves a
  version up: the clock grows pointwise and, while the clock stays the same, the value grows in the
  join order (`sub_pick`).
* cover and clock agreement from `replQuiescent` (every `Replicate` delivered, every write /
  `Replicate` handler finished) instead of full quiescence: `replQuiescent_ge`,
  `replQuiescent_good_le`, `replQuiescent_clocks_agree`.
-/
namespace HappyModel.C17.MLM
open HappyModel.C17.ML (Version Msg Proc MKind PKind vcGet dominates vcMerge vcTick)

/-! ### `Sub` is stable under `_install` -/

theorem sub_pick {j : Join} {n : Nat} {u inc v : Version} (h : Sub j n (some u) v) :
    Sub j n (some (pick n j (some u) inc)) v := by
  obtain ⟨u0, hu0, hle, hval⟩ := h
  cases hu0
  refine ⟨_, rfl, fun c hc => ?_, fun heq => ?_⟩
  · rw [vcGet_pick n j u inc c hc]
    have := hle c hc
    omega
  · have hu : ∀ c, c < n → vcGet v.vc c = vcGet u.vc c ∧ vcGet inc.vc c ≤ vcGet u.vc c := by
      intro c hc
      have h1 := heq c hc
      rw [vcGet_pick n j u inc c hc] at h1
      have h2 := hle c hc
      omega
    have h1 : dominates n inc.vc u.vc = false := by
      cases hd : dominates n inc.vc u.vc with
      | false => rfl
      | true =>
        obtain ⟨c, hc, hlt⟩ := dominates_strict hd
        have := (hu c hc).2
        omega
    have hvu := hval (fun c hc => (hu c hc).1)
    simp only [pick, h1, Bool.false_eq_true, if_false]
    split
    · exact hvu
    · exact le_trans hvu (le_join_left j _ _)

theorem sub_installOpt {j : Join} {n : Nat} {cur : Option Version} {inc v : Version} (h : Sub j n cur v) :
    Sub j n (installOpt n j cur inc) v := by
  unfold installOpt
  split
  · have h' := h
    obtain ⟨u, hu, _⟩ := h'
    subst hu
    exact sub_pick h
  · exact h

theorem install_vers (c : Core) (i k : Nat) (inc : Version) (i' k' : Nat) :
    (c.install i k inc).vers i' k' =
      if i' = i ∧ k' = k then installOpt c.n c.join (c.vers i k) inc else c.vers i' k' := by
  unfold Core.install installOpt
  by_cases ht : takes c.n (c.vers i k) inc = true
  · rw [if_pos ht, if_pos ht]
    show upd2 c.vers i k (some (pick c.n c.join (c.vers i k) inc)) i' k' = _
    rw [upd2_apply]
  · rw [if_neg ht, if_neg ht]
    split
    · rename_i e; rw [e.1, e.2]
    · rfl

theorem install_msgs (c : Core) (i k : Nat) (inc : Version) : (c.install i k inc).msgs = c.msgs := by
  unfold Core.install; split <;> rfl
theorem install_join (c : Core) (i k : Nat) (inc : Version) : (c.install i k inc).join = c.join := by
  unfold Core.install; split <;> rfl
theorem install_nm (c : Core) (i k : Nat) (inc : Version) : (c.install i k inc).nm = c.nm := by
  unfold Core.install; split <;> rfl

theorem sub_install {c : Core} (i k : Nat) (inc : Version) {src k' : Nat} {v : Version}
    (h : Sub c.join c.n (c.vers src k') v) :
    Sub (c.install i k inc).join (c.install i k inc).n ((c.install i k inc).vers src k') v := by
  rw [install_join, install_n, install_vers]
  split
  · rename_i e
    obtain ⟨e1, e2⟩ := e
    subst e1; subst e2
    exact sub_installOpt h
  · exact h

/-! ### the invariant on the core, elementary state changes -/

def ItemsS (c : Core) (src : Nat) (items : List (Nat × Version)) : Prop :=
  ∀ kv, kv ∈ items → Sub c.join c.n (c.vers src kv.1) kv.2

structure SubC (c : Core) : Prop where
  msgS : ∀ mid m, c.msgs mid = some m → (m.kind = .aereq ∨ m.kind = .aeresp) → ItemsS c m.src m.items
  procS : ∀ pid p, c.procs pid = some p → (p.kind = .aereq ∨ p.kind = .aeresp) → ItemsS c p.src p.items

theorem subInv_iff (s : St) : SubInv s ↔ SubC s.core :=
  ⟨fun h => ⟨h.msgS, h.procS⟩, fun h => ⟨h.msgS, h.procS⟩⟩

theorem subC_spawn {c : Core} (h : SubC c) (p : Proc)
    (hp : (p.kind = .aereq ∨ p.kind = .aeresp) → ItemsS c p.src p.items) : SubC (c.spawn p) := by
  refine ⟨h.msgS, ?_⟩
  intro pid q hq hk
  have hq' : (if pid = c.np then some p else c.procs pid) = some q := hq
  split at hq'
  · cases hq'; exact hp hk
  · exact h.procS pid q hq' hk

theorem subC_setProc {c : Core} (h : SubC c) (pid : Nat) (p : Proc)
    (hp : (p.kind = .aereq ∨ p.kind = .aeresp) → ItemsS c p.src p.items) : SubC (c.setProc pid p) := by
  refine ⟨h.msgS, ?_⟩
  intro pid1 q hq hk
  have hq' : (if pid1 = pid then some p else c.procs pid1) = some q := hq
  split at hq'
  · cases hq'; exact hp hk
  · exact h.procS pid1 q hq' hk

theorem subC_send {c : Core} (h : SubC c) (m : Msg)
    (hm : (m.kind = .aereq ∨ m.kind = .aeresp) → ItemsS c m.src m.items) : SubC (c.send m) := by
  refine ⟨?_, h.procS⟩
  intro mid q hq hk
  have hq' : (if mid = c.nm then some m else c.msgs mid) = some q := hq
  split at hq'
  · cases hq'; exact hm hk
  · exact h.msgS mid q hq' hk

theorem subC_setMsg {c : Core} (h : SubC c) (mid : Nat) (m : Msg)
    (hm : (m.kind = .aereq ∨ m.kind = .aeresp) → ItemsS c m.src m.items) : SubC (c.setMsg mid m) := by
  refine ⟨?_, h.procS⟩
  intro mid1 q hq hk
  have hq' : (if mid1 = mid then some m else c.msgs mid1) = some q := hq
  split at hq'
  · cases hq'; exact hm hk
  · exact h.msgS mid1 q hq' hk

theorem itemsS_install {c : Core} (i k : Nat) (inc : Version) {src : Nat} {items : List (Nat × Version)}
    (h : ItemsS c src items) : ItemsS (c.install i k inc) src items :=
  fun kv hkv => sub_install i k inc (h kv hkv)

theorem subC_install {c : Core} (h : SubC c) (i k : Nat) (inc : Version) : SubC (c.install i k inc) := by
  refine ⟨?_, ?_⟩
  · intro mid m hm hk
    rw [install_msgs] at hm
    exact itemsS_install i k inc (h.msgS mid m hm hk)
  · intro pid p hp hk
    rw [install_procs] at hp
    exact itemsS_install i k inc (h.procS pid p hp hk)

/-- a copy of the sender's version table is subsumed by it -/
theorem versionsOf_sub (s : St) (i : Nat) : ItemsS s.core i (versionsOf s i) := by
  intro kv hkv
  unfold versionsOf at hkv
  rw [List.mem_filterMap] at hkv
  obtain ⟨k, _, hk⟩ := hkv
  cases hv : s.vers i k with
  | none => rw [hv] at hk; cases hk
  | some v =>
    rw [hv] at hk; cases hk
    exact ⟨v, hv, fun _ _ => Nat.le_refl _, fun _ => le_refl _ _⟩

theorem subC_foldl_send (mk : Nat → Msg) (hmk : ∀ j, (mk j).kind = .repl) :
    ∀ (l : List Nat) (c : Core), SubC c → SubC (l.foldl (fun c j => c.send (mk j)) c)
  | [], _, h => h
  | j :: l, c, h => by
    simp only [List.foldl_cons]
    exact subC_foldl_send mk hmk l _
      (subC_send h _ (fun e => by rw [hmk j] at e; rcases e with e | e <;> cases e))

/-! ### handlers -/

theorem subC_aeContinue (s : St) (pid : Nat) (p : Proc) (items : List (Nat × Version)) (h : SubC s.core)
    (hi : ItemsS s.core p.src items) : SubC (aeContinue s pid p items).core := by
  unfold aeContinue
  have e1 := aeLoop_fst s p.node items
  have e2 := aeLoop_snd_sub s p.node items
  rcases hl : aeLoop s p.node items with ⟨s1, left⟩
  rw [hl] at e1 e2
  simp only at e1 e2 ⊢
  subst e1
  cases left with
  | cons x xs =>
    simp only
    rw [core_setProc]
    exact subC_setProc h _ _ (fun _ kv hkv => hi kv (e2 kv hkv))
  | nil =>
    simp only
    split
    · rw [core_setProc, core_send]
      exact subC_setProc (subC_send h _ (fun _ => versionsOf_sub _ p.node)) _ _
        (fun _ kv hkv => by cases hkv)
    · rw [core_setProc]
      exact subC_setProc h _ _ (fun _ kv hkv => by cases hkv)

/-- the anti-entropy branch of `resume`, shared by request and response handlers -/
theorem resume_ae_sub (s : St) (pid : Nat) (p0 p : Proc) (h : SubC s.core) (h0 : s.procs pid = some p0)
    (hk0 : p0.kind = .aereq ∨ p0.kind = .aeresp) (hsrc : p.src = p0.src) (hitems : p.items = p0.items) :
    SubInv (if p.sent then s.setProc pid { p with fin := true }
      else match p.items with
        | (k, v) :: rest =>
          if p.waiting then aeContinue (install s p.node k v).1 pid p rest
          else s.fail "not-waiting"
        | [] => s.fail "not-waiting") := by
  have hiw0 : ItemsS s.core p.src p.items := by rw [hsrc, hitems]; exact h.procS pid p0 h0 hk0
  split
  · rw [subInv_iff, core_setProc]
    exact subC_setProc h _ _ (fun _ => hiw0)
  · split
    · rename_i k v rest hit
      split
      · rw [subInv_iff]
        refine subC_aeContinue _ pid p rest ?_ ?_
        · rw [core_install]; exact subC_install h _ _ _
        · rw [core_install]
          intro kv hkv
          rw [hit] at hiw0
          exact sub_install _ _ _ (hiw0 kv (List.mem_cons_of_mem _ hkv))
      · exact (subInv_iff _).2 h
    · exact (subInv_iff _).2 h

theorem resume_subInv (s : St) (pid : Nat) (h : SubInv s) : SubInv (resume s pid) := by
  have hc := (subInv_iff s).1 h
  unfold resume
  cases h0 : s.procs pid with
  | none => exact (subInv_iff _).2 hc
  | some p0 =>
    simp only
    by_cases hf : p0.fin = true
    · simp only [hf, if_true]; exact (subInv_iff _).2 hc
    · have hf' : p0.fin = false := by simpa using hf
      simp only [hf', Bool.false_eq_true, if_false]
      cases hk : p0.kind with
      | write =>
        simp only
        rw [subInv_iff]
        by_cases hs : p0.seg = 1
        · simp only [hs, if_true]
          rw [core_setProc, foldl_send_core, core_install]
          exact subC_setProc (subC_foldl_send _ (fun _ => rfl) _ _ (subC_install hc _ _ _)) _ _
            (fun e => by simp at e)
        · simp only [hs, if_false]
          rw [core_setProc, core_reply]
          exact subC_setProc hc _ _ (fun e => by simp at e)
      | repl =>
        simp only
        rw [subInv_iff, core_setProc, core_install]
        exact subC_setProc (subC_install hc _ _ _) _ _ (fun e => by simp at e)
      | read =>
        simp only
        rw [subInv_iff, core_setProc, core_reply]
        exact subC_setProc hc _ _ (fun e => by simp at e)
      | ae =>
        simp only
        rw [subInv_iff, core_setProc]
        exact subC_setProc hc _ _ (fun e => by simp at e)
      | aereq =>
        simp only
        exact resume_ae_sub s pid p0 { p0 with kind := .aereq, seg := p0.seg + 1, fin := false } hc h0
          (Or.inl hk) rfl rfl
      | aeresp =>
        simp only
        exact resume_ae_sub s pid p0 { p0 with kind := .aeresp, seg := p0.seg + 1, fin := false } hc h0
          (Or.inr hk) rfl rfl
      | other => simp only; exact (subInv_iff _).2 hc

theorem deliver_subInv (s : St) (mid : Nat) (h : SubInv s) : SubInv (deliver s mid) := by
  have hc := (subInv_iff s).1 h
  unfold deliver
  cases h0 : s.msgs mid with
  | none => exact (subInv_iff _).2 hc
  | some m =>
    simp only
    by_cases hd : m.delivered = true
    · simp only [hd, if_true]; exact (subInv_iff _).2 hc
    · have hd' : m.delivered = false := by simpa using hd
      simp only [hd', Bool.false_eq_true, if_false]
      have hm1 : ∀ m' : Msg, m'.kind = m.kind → m'.src = m.src → m'.items = m.items →
          SubC (s.core.setMsg mid m') := by
        intro m' a b c
        refine subC_setMsg hc _ _ (fun e => ?_)
        rw [b, c]
        exact hc.msgS mid m h0 (by rw [← a]; exact e)
      cases hk : m.kind with
      | repl =>
        simp only
        have h1 := hm1 { m with kind := .repl, delivered := true } hk.symm rfl rfl
        rw [subInv_iff]
        split
        · exact subC_spawn h1 _ (fun e => by simp at e)
        · exact subC_spawn h1 _ (fun e => by simp at e)
      | aereq =>
        simp only
        have h1 := hm1 { m with kind := .aereq, delivered := true } hk.symm rfl rfl
        rw [subInv_iff]
        refine subC_aeContinue _ _ _ m.items ?_ ?_
        · exact subC_spawn h1 _ (fun _ kv hkv => by cases hkv)
        · exact hc.msgS mid m h0 (Or.inl hk)
      | aeresp =>
        simp only
        have h1 := hm1 { m with kind := .aeresp, delivered := true } hk.symm rfl rfl
        rw [subInv_iff]
        refine subC_aeContinue _ _ _ m.items ?_ ?_
        · exact subC_spawn h1 _ (fun _ kv hkv => by cases hkv)
        · exact hc.msgS mid m h0 (Or.inr hk)

/-! ### A. the subsumption invariant holds in every reachable state -/

theorem init_subInv (n nk : Nat) (jn : Join) : SubInv (init n nk jn) := by
  constructor
  · intro mid m hm; cases hm
  · intro pid p hp; cases hp

theorem step_subInv (s : St) (a : Act) (h : SubInv s) : SubInv (step s a) := by
  have hc := (subInv_iff s).1 h
  cases a with
  | tick t => exact (subInv_iff _).2 hc
  | cw op node k v =>
    simp only [step]
    split
    · exact (subInv_iff _).2 hc
    · rw [subInv_iff]; exact subC_spawn hc _ (fun e => by simp at e)
  | cr op node k =>
    simp only [step]
    split
    · exact (subInv_iff _).2 hc
    · rw [subInv_iff]; exact subC_spawn hc _ (fun e => by simp at e)
  | dl mid => exact deliver_subInv s mid h
  | rs pid => exact resume_subInv s pid h
  | ae node peer =>
    simp only [step]
    split
    · exact (subInv_iff _).2 hc
    · rw [subInv_iff]
      exact subC_spawn (subC_send hc _ (fun _ => versionsOf_sub s node)) _ (fun e => by simp at e)

theorem run_subInv_from : ∀ (acts : List Act) (s : St), SubInv s → SubInv (run s acts)
  | [], _, h => h
  | a :: as, s, h => by rw [run]; exact run_subInv_from as (step s a) (step_subInv s a h)

theorem run_subInv (n nk : Nat) (jn : Join) (acts : List Act) : SubInv (run (init n nk jn) acts) :=
  run_subInv_from acts _ (init_subInv n nk jn)

/-! ### B. cover and clock agreement from `replQuiescent` -/

theorem replQuiescent_ge (s : St) (h : Inv s) (hq : replQuiescent s) (k : Nat) (w : Version)
    (hw : Written s k w) (i : Nat) (hi : i < s.n) : Ge s.n (s.vers i k) w := by
  obtain ⟨qm, qp⟩ := hq
  obtain ⟨pid, p, hp, hk, rfl, rfl⟩ := hw
  have hfin := qp pid p hp (Or.inl hk)
  have hseg := (h.wr pid p hp hk).2 hfin
  rcases h.cov pid p hp hk hseg i hi with g | ⟨mid, m, g1, g2, _, _, _, g6⟩ | ⟨pid', p', g1, g2, _, _, _, g6⟩
  · exact g
  · have := qm mid m g1 g2
    rw [g6] at this; cases this
  · have := qp pid' p' g1 (Or.inr g2)
    rw [g6] at this; cases this

/-- every held or copied version (anything `Good`) is pointwise below every leader's clock -/
theorem replQuiescent_good_le (s : St) (h : Inv s) (hq : replQuiescent s) (k : Nat) (v : Version)
    (hg : Good s.core k v) (i : Nat) (hi : i < s.n) :
    ∃ u, s.vers i k = some u ∧ ∀ c, c < s.n → vcGet v.vc c ≤ vcGet u.vc c := by
  obtain ⟨⟨w, hw⟩, hb⟩ := hg
  obtain ⟨u', hu', _⟩ := replQuiescent_ge s h hq k w hw i hi
  refine ⟨u', hu', fun c hc => ?_⟩
  rcases hb c hc with h0 | ⟨w', hw', hle⟩
  · rw [h0]; exact Nat.zero_le _
  · obtain ⟨u'', hu'', hge⟩ := replQuiescent_ge s h hq k w' hw' i hi
    rw [hu'] at hu''; cases hu''
    exact Nat.le_trans hle (hge c hc)

theorem replQuiescent_clocks_agree (s : St) (h : Inv s) (hq : replQuiescent s) (i j k : Nat)
    (hi : i < s.n) (hj : j < s.n) :
    (∀ c, c < s.n → clk (s.vers i k) c = clk (s.vers j k) c) ∧
      ((s.vers i k).isSome = (s.vers j k).isSome) := by
  have le : ∀ a b, b < s.n → ∀ u, s.vers a k = some u →
      ∃ u', s.vers b k = some u' ∧ ∀ c, c < s.n → vcGet u.vc c ≤ vcGet u'.vc c :=
    fun a b hb u hu => replQuiescent_good_le s h hq k u (h.versG a k u hu) b hb
  constructor
  · intro c hc
    cases hvi : s.vers i k with
    | none =>
      cases hvj : s.vers j k with
      | none => rfl
      | some u' =>
        obtain ⟨u, hu, _⟩ := le j i hi u' hvj
        rw [hvi] at hu; cases hu
    | some u =>
      obtain ⟨u', hu', hle⟩ := le i j hj u hvi
      obtain ⟨u2, hu2, hle'⟩ := le j i hi u' hu'
      rw [hvi] at hu2; cases hu2
      rw [hu']
      exact Nat.le_antisymm (hle c hc) (hle' c hc)
  · cases hvi : s.vers i k with
    | none =>
      cases hvj : s.vers j k with
      | none => rfl
      | some u' =>
        obtain ⟨u, hu, _⟩ := le j i hi u' hvj
        rw [hvi] at hu; cases hu
    | some u =>
      obtain ⟨u', hu', _⟩ := le i j hj u hvi
      rw [hu']; rfl

end HappyModel.C17.MLM
