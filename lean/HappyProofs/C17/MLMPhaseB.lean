import HappyProofs.C17.MLMPhaseA
/-!
Run-level composition, part B: auxiliary run invariants (`AuxInv`) and the *shape* of what an
anti-entropy merge loop (`aeContinue`) does to the state.

`AuxInv`: anti-entropy messages travel between leaders, anti-entropy handlers run at leaders and
remember a leader as their peer, every key that has a version is in the dict order (so it is copied
by `versionsOf`), and a request handler's message id is an id already handed out.
-/
namespace HappyModel.C17.MLM
open HappyModel.C17.ML (Version Msg Proc MKind PKind vcGet dominates vcMerge vcTick)

structure AuxC (n nm : Nat) (msgs : Nat → Option Msg) (procs : Nat → Option Proc)
    (vers : Nat → Nat → Option Version) (order : Nat → List Nat) : Prop where
  msgN : ∀ mid m, msgs mid = some m → (m.kind = .aereq ∨ m.kind = .aeresp) → m.src < n ∧ m.dst < n
  procN : ∀ pid p, procs pid = some p → (p.kind = .aereq ∨ p.kind = .aeresp) → p.node < n ∧ p.src < n
  ord : ∀ i k, (vers i k).isSome = true → k ∈ order i
  opLt : ∀ pid p, procs pid = some p → p.kind = .aereq → p.op < nm

def AuxInv (s : St) : Prop := AuxC s.n s.nm s.msgs s.procs s.vers s.order

theorem aux_proc {n nm msgs procs vers order} (h : AuxC n nm msgs procs vers order) (pid : Nat) (p : Proc)
    (hn : (p.kind = .aereq ∨ p.kind = .aeresp) → p.node < n ∧ p.src < n)
    (ho : p.kind = .aereq → p.op < nm) : AuxC n nm msgs (upd procs pid (some p)) vers order := by
  refine ⟨h.msgN, ?_, h.ord, ?_⟩
  · intro pid' q hq hk
    rw [upd_apply] at hq
    split at hq
    · cases hq; exact hn hk
    · exact h.procN pid' q hq hk
  · intro pid' q hq hk
    rw [upd_apply] at hq
    split at hq
    · cases hq; exact ho hk
    · exact h.opLt pid' q hq hk

theorem aux_msg {n nm msgs procs vers order} (h : AuxC n nm msgs procs vers order) (mid : Nat) (m : Msg)
    (hn : (m.kind = .aereq ∨ m.kind = .aeresp) → m.src < n ∧ m.dst < n) :
    AuxC n nm (upd msgs mid (some m)) procs vers order := by
  refine ⟨?_, h.procN, h.ord, h.opLt⟩
  intro mid' q hq hk
  rw [upd_apply] at hq
  split at hq
  · cases hq; exact hn hk
  · exact h.msgN mid' q hq hk

theorem aux_nm {n nm msgs procs vers order} (h : AuxC n nm msgs procs vers order) :
    AuxC n (nm + 1) msgs procs vers order :=
  ⟨h.msgN, h.procN, h.ord, fun pid p hp hk => Nat.lt_succ_of_lt (h.opLt pid p hp hk)⟩

theorem aux_send {s : St} (h : AuxInv s) (m : Msg)
    (hn : (m.kind = .aereq ∨ m.kind = .aeresp) → m.src < s.n ∧ m.dst < s.n) : AuxInv (s.send m) :=
  aux_nm (aux_msg h s.nm m hn)

/-! ### `_install` -/

theorem install_vers_p2 (s : St) (i k : Nat) (v : Version) (i' k' : Nat) :
    (install s i k v).1.vers i' k' =
      if i' = i ∧ k' = k then installOpt s.n s.join (s.vers i k) v else s.vers i' k' := by
  unfold install installOpt
  by_cases ht : takes s.n (s.vers i k) v = true
  · rw [if_pos ht, if_pos ht]
    show upd2 s.vers i k (some (pick s.n s.join (s.vers i k) v)) i' k' = _
    rw [upd2_apply]
  · rw [if_neg ht, if_neg ht]
    split
    · rename_i e; rw [e.1, e.2]
    · rfl

theorem install_frame (s : St) (i k : Nat) (v : Version) :
    (install s i k v).1.n = s.n ∧ (install s i k v).1.join = s.join ∧ (install s i k v).1.nm = s.nm ∧
    (install s i k v).1.np = s.np ∧ (install s i k v).1.msgs = s.msgs ∧ (install s i k v).1.procs = s.procs ∧
    (install s i k v).1.nk = s.nk := by
  unfold install; split <;> exact ⟨rfl, rfl, rfl, rfl, rfl, rfl, rfl⟩

theorem aux_install {s : St} (h : AuxInv s) (i k : Nat) (v : Version) : AuxInv (install s i k v).1 := by
  unfold install
  split
  · refine ⟨h.msgN, h.procN, ?_, h.opLt⟩
    intro i' k' hs
    have hs' : (upd2 s.vers i k (some (pick s.n s.join (s.vers i k) v)) i' k').isSome = true := hs
    show k' ∈ (if (s.order i).contains k then s.order else upd s.order i (s.order i ++ [k])) i'
    rw [upd2_apply] at hs'
    by_cases e : i' = i ∧ k' = k
    · obtain ⟨e1, e2⟩ := e
      subst e1; subst e2
      split
      · rename_i hc; simpa using hc
      · simp
    · rw [if_neg e] at hs'
      have := h.ord i' k' hs'
      split
      · exact this
      · rw [upd_apply]; split
        · rename_i e1; subst e1; exact List.mem_append_left _ this
        · exact this
  · exact h

/-! ### the shape of an anti-entropy merge loop -/

theorem aeLoop_skipped (s : St) (i : Nat) : ∀ items kv, kv ∈ items →
    kv ∈ (aeLoop s i items).2 ∨ takes s.n (s.vers i kv.1) kv.2 = false
  | [], kv, h => by cases h
  | (k, v) :: rest, kv, h => by
    unfold aeLoop; split
    · left; exact h
    · rename_i ht
      rcases List.mem_cons.mp h with e | e
      · right; subst e; simpa using ht
      · exact aeLoop_skipped s i rest kv e

/-- what `aeContinue s pid p items` does: handler `pid` becomes `p'`; nothing is installed -/
structure AeShape (s : St) (pid : Nat) (p : Proc) (items : List (Nat × Version)) (p' : Proc) (s' : St) :
    Prop where
  procs : s'.procs = upd s.procs pid (some p')
  vers : s'.vers = s.vers
  store : s'.store = s.store
  order : s'.order = s.order
  n : s'.n = s.n
  join : s'.join = s.join
  np : s'.np = s.np
  kind : p'.kind = p.kind
  node : p'.node = p.node
  src : p'.src = p.src
  op : p'.op = p.op
  sub : ∀ kv, kv ∈ p'.items → kv ∈ items
  skip : ∀ kv, kv ∈ items → kv ∈ p'.items ∨ takes s.n (s.vers p.node kv.1) kv.2 = false
  keep : p'.items ≠ [] → p'.fin = p.fin ∧ p'.sent = p.sent
  msgs : (s'.msgs = s.msgs ∧ s'.nm = s.nm) ∨
    (p.kind = .aereq ∧ p'.fin = p.fin ∧ s'.nm = s.nm + 1 ∧ ∃ m', s'.msgs = upd s.msgs s.nm (some m') ∧
      m'.kind = .aeresp ∧ m'.src = p.node ∧ m'.dst = p.src ∧ m'.delivered = false)

theorem aeContinue_shape (s : St) (pid : Nat) (p : Proc) (items : List (Nat × Version)) :
    ∃ p', AeShape s pid p items p' (aeContinue s pid p items) := by
  unfold aeContinue
  have e1 := aeLoop_fst s p.node items
  have e2 := aeLoop_snd_sub s p.node items
  have e3 := aeLoop_skipped s p.node items
  rcases hl : aeLoop s p.node items with ⟨s1, left⟩
  rw [hl] at e1 e2 e3
  simp only at e1 e2 e3 ⊢
  subst e1
  cases left with
  | cons x xs =>
    simp only
    exact ⟨{ p with items := x :: xs, waiting := true },
      { procs := rfl, vers := rfl, store := rfl, order := rfl, n := rfl, join := rfl, np := rfl, kind := rfl,
        node := rfl, src := rfl, op := rfl, sub := e2, skip := e3,
        keep := fun _ => ⟨rfl, rfl⟩, msgs := Or.inl ⟨rfl, rfl⟩ }⟩
  | nil =>
    simp only
    split
    · rename_i hc
      exact ⟨{ p with items := [], waiting := false, sent := true },
        { procs := rfl, vers := rfl, store := rfl, order := rfl, n := rfl, join := rfl, np := rfl, kind := rfl,
          node := rfl, src := rfl, op := rfl, sub := e2, skip := e3, keep := fun h => absurd rfl h,
          msgs := Or.inr ⟨hc.1, rfl, rfl, _, rfl, rfl, rfl, rfl, rfl⟩ }⟩
    · exact ⟨{ p with items := [], waiting := false, fin := true },
        { procs := rfl, vers := rfl, store := rfl, order := rfl, n := rfl, join := rfl, np := rfl, kind := rfl,
          node := rfl, src := rfl, op := rfl, sub := e2, skip := e3, keep := fun h => absurd rfl h, msgs := Or.inl ⟨rfl, rfl⟩ }⟩

end HappyModel.C17.MLM
