"""C05 known finding — replay on the real code (run: PYTHONHASHSEED=0 /venv/bin/python fixes/C05-tie-order-sensitive-handlers.replay.py).

Uses the harness pieces of hv/props/c05.py (script entities, run_parallel / run_sequential) with a *stateful*
subclass of the harness entity.  Two scenarios on the same two-partition model (e0 in p0, e1 in p1, link
p0->p1 with min_latency 100 ns, window 100 ns):

  order-sensitive   e1 answers a kind-2 delivery that arrives before any kind-1 delivery with a kind-7 event.
                    Lean: HappyModel.C05.tieHandler / par_eq_seq_full_false_for_order_sensitive_handlers.
                    Expected: sequential log of e1 contains 110:7, the partitioned log does not.
  tie-commutative   e1 emits kind 7 when its delivery counter reaches 3 (HappyModel.C05.countHandler,
                    par_eq_seq_tie_commutative).  Expected: logs equal up to the order inside 100 ns.
"""
import os
import sys

sys.path.insert(0, os.path.dirname(os.path.dirname(os.path.abspath(__file__))))
sys.path.insert(0, os.environ.get("HV_REPO", "/repo"))
import warnings

warnings.simplefilter("ignore")
from hv.props import c05  # noqa: E402

P = c05.PROPERTY
Base = c05._node_class()
from happysimulator.core.event import Event  # noqa: E402
from happysimulator.core.temporal import Instant  # noqa: E402


class OrderSensitive(Base):
    def handle_event(self, ev):
        seen_k1 = 1 in [k for (_t, k) in self.log]
        out = super().handle_event(ev)
        if self.eid == 1 and ev.event_type == "k2" and not seen_k1:
            out.append(Event(time=Instant(ev.time.nanoseconds + 10), event_type="k7", target=self))
        return out


class Counting(Base):
    def handle_event(self, ev):
        out = super().handle_event(ev)
        if len(self.log) == 3:
            out.append(Event(time=Instant(ev.time.nanoseconds + 10), event_type="k7", target=self))
        return out


CASE = dict(family="tie", nparts=2, ents=[0, 1], links=[[0, 1, 100]], window=100, end=1000,
            prog=[[0, 0, 100, 1, 2],      # e0 on k0: k2 to e1 after 100 ns (= the link minimum)
                  [1, 0, 50, 1, 1]],      # e1 on k0: k1 to itself after 50 ns
            init=[[0, 0, 0], [50, 1, 0]], reps=1)


def run(cls):
    c05._NODE = cls
    res = {}
    for w in (1, None):
        par, tail = P.run_parallel(CASE, w)
        res[f"par workers={w}"] = (par, tail)
    seq, _xs = P.run_sequential(CASE)
    res["seq"] = seq
    return res


if __name__ == "__main__":
    ok = True
    r = run(OrderSensitive)
    for k, v in r.items():
        print("order-sensitive ", k, v)
    lost = "110:7" in r["seq"][1] and all("110:7" not in r[k][0][1] for k in r if k.startswith("par"))
    print("order-sensitive : sequential delivers 110:7 to e1, partitioned run never does ->", lost)
    r = run(Counting)
    for k, v in r.items():
        print("tie-commutative ", k, v)
    same = all(r[k][0][1].replace("par", "seq") == r["seq"][1] for k in r if k.startswith("par"))
    print("tie-commutative : logs equal up to the order inside one timestamp ->", same)
    sys.exit(0 if (lost and same) else 1)
