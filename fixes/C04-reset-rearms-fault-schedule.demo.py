"""reset() + run() must repeat the first run's delivery sequence for stateless entities (C04);
with a FaultSchedule it does not: the fault events are never re-armed and what the faults changed
stays changed.   usage: python demo_reset_faults.py [repo path]   exit 1 = defect present"""
import sys
if len(sys.argv) > 1:
    sys.path.insert(0, sys.argv[1])
from happysimulator.core.simulation import Simulation
from happysimulator.core.entity import Entity
from happysimulator.core.event import Event
from happysimulator.core.temporal import Instant
from happysimulator.faults.schedule import FaultSchedule
from happysimulator.faults.node_faults import CrashNode
from happysimulator.faults.network_faults import NetworkPartition, InjectLatency
from happysimulator.components.network.network import Network
from happysimulator.components.network.link import NetworkLink
from happysimulator.distributions.constant import ConstantLatency

LOG = []

class Stateless(Entity):
    def handle_event(self, ev):
        LOG.append((self.name, ev.event_type, round(ev.time.to_seconds(), 3)))

def T(x): return Instant.from_seconds(x)
bad = 0

def scenario(title, build, end, stop_at=None):
    """first run (optionally paused at `stop_at`), reset, second run; compare delivery sequences"""
    global bad
    sim = build()
    del LOG[:]
    if stop_at is None:
        sim.run()
    else:
        sim.control.add_breakpoint(__import__("happysimulator.core.control.breakpoints", fromlist=["TimeBreakpoint"]).TimeBreakpoint(T(stop_at)))
        sim.run()
    first = list(LOG)
    sim.control.reset()
    del LOG[:]
    sim.run()
    second = list(LOG)
    del LOG[:]
    ref = build(); ref.run(); full = list(LOG)      # what an uninterrupted run delivers
    ok = second == full
    print(f"{title}: {'same' if ok else 'DIFFERENT'}")
    if not ok:
        bad += 1
        print("   expected :", full)
        print("   after reset:", second)

def crash_case():
    w = Stateless("w0")
    fs = FaultSchedule(); fs.add(CrashNode("w0", at=2.0, restart_at=4.0))
    sim = Simulation(entities=[w], fault_schedule=fs, end_time=T(6))
    sim.schedule([Event(T(t), "req", target=w) for t in (1.0, 3.0, 5.0)])
    return sim

def partition_case():
    a, b = Stateless("a"), Stateless("b")
    net = Network("net")
    net.add_link(a, b, NetworkLink("ab", latency=ConstantLatency(0.0)))
    fs = FaultSchedule()
    fs.add(NetworkPartition(["a"], ["b"], start=2.0, end=4.0))
    fs.add(InjectLatency("a", "b", extra_ms=500.0, start=4.5, end=5.5))
    sim = Simulation(entities=[a, b, net], fault_schedule=fs, end_time=T(8))
    evs = []
    for t in (1.0, 3.0, 5.0, 6.0):
        e = Event(T(t), "msg", target=net); e.context["metadata"].update(source="a", destination="b"); evs.append(e)
    sim.schedule(evs)
    return sim

def permanent_crash_case():
    w = Stateless("w0")
    fs = FaultSchedule(); fs.add(CrashNode("w0", at=2.0))
    sim = Simulation(entities=[w], fault_schedule=fs, end_time=T(6))
    sim.schedule([Event(T(t), "req", target=w) for t in (1.0, 3.0)])
    return sim

def loss_capacity_case():
    from happysimulator.faults.network_faults import InjectPacketLoss
    from happysimulator.faults.resource_faults import ReduceCapacity
    from happysimulator.components.resource import Resource
    a, b = Stateless("a"), Stateless("b")
    res = Resource("res", 4)
    net = Network("net")
    net.add_link(a, b, NetworkLink("ab", latency=ConstantLatency(0.0)))
    fs = FaultSchedule()
    fs.add(InjectPacketLoss("a", "b", loss_rate=1.0, start=2.0, end=4.0))
    fs.add(ReduceCapacity("res", factor=0.5, start=2.0, end=4.0))
    sim = Simulation(entities=[a, b, net, res], fault_schedule=fs, end_time=T(8))
    evs = []
    for t in (1.0, 3.0, 5.0):
        e = Event(T(t), "msg", target=net); e.context["metadata"].update(source="a", destination="b"); evs.append(e)
    evs.append(Event.once(T(3.0), "cap", lambda e: LOG.append(("res", "capacity", res.capacity)), daemon=True))
    evs.append(Event.once(T(5.0), "cap", lambda e: LOG.append(("res", "capacity", res.capacity)), daemon=True))
    sim.schedule(evs)
    return sim

def cancel_case(when):
    def build():
        w = Stateless("w0")
        fs = FaultSchedule(); h = fs.add(CrashNode("w0", at=2.0, restart_at=4.0))
        if when == "before":
            h.cancel()
        sim = Simulation(entities=[w], fault_schedule=fs, end_time=T(6))
        evs = [Event(T(t), "req", target=w) for t in (1.0, 3.0, 5.0)]
        if when == "during":                   # the model cancels the fault while its window is open:
            evs.append(Event.once(T(2.5), "cancel", lambda e: h.cancel(), daemon=True))   # the restart never comes
        sim.schedule(evs)
        return sim
    return build

scenario("crash window, complete first run", crash_case, 6)
scenario("crash window, first run stopped inside the window", crash_case, 6, stop_at=2.5)
scenario("partition + latency windows, complete first run", partition_case, 8)
scenario("partition window, first run stopped inside the window", partition_case, 8, stop_at=2.5)
scenario("permanent crash", permanent_crash_case, 6)
scenario("loss + capacity windows, first run stopped inside", loss_capacity_case, 8, stop_at=2.5)
scenario("handle cancelled before the first run stays cancelled", cancel_case("before"), 6)
scenario("handle cancelled by the model during the run", cancel_case("during"), 6)
sys.exit(1 if bad else 0)
