"""MANIFEST.setup_cmd: build the Lean targets of every property claimed in MANIFEST.json
(only those: modules of checks still under construction are not built)."""
import importlib
import json
import subprocess
import sys
from pathlib import Path

ROOT = Path(__file__).resolve().parent.parent


def main():
    m = json.loads((ROOT / "MANIFEST.json").read_text())
    targets = []
    for c in m["checks"]:
        pid = c["property_id"]
        prop = importlib.import_module(f"hv.props.{pid.lower()}").PROPERTY
        for t in prop.lake_targets:
            if t not in targets:
                targets.append(t)
    print("building:", " ".join(targets), flush=True)
    r = subprocess.run(["lake", "build", *targets], cwd=ROOT / "lean")
    return r.returncode


if __name__ == "__main__":
    sys.exit(main())
