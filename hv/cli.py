"""./check Cxx [--tier quick|thorough] [--seed N] [--cases N] [--replay FILE]"""
import argparse
import importlib
import os
import sys
import traceback

from hv import core


def main(argv=None):
    ap = argparse.ArgumentParser()
    ap.add_argument("prop")
    ap.add_argument("--tier", default=os.environ.get("VERIF_TIER", "quick"), choices=["quick", "thorough"])
    ap.add_argument("--seed", type=int, default=int(os.environ.get("VERIF_SEED", "0") or 0))
    ap.add_argument("--cases", type=int, default=None)
    ap.add_argument("--replay", default=None)
    a = ap.parse_args(argv)
    pid = a.prop.upper()
    try:
        mod = importlib.import_module(f"hv.props.{pid.lower()}")
        prop = mod.PROPERTY
        rc = core.run_property(prop, tier=a.tier, seed=a.seed, n_cases=a.cases, replay=a.replay)
    except core.InfraError as e:
        print(f"INFRA-ERROR {pid}: {e}", file=sys.stderr)
        return 2
    except Exception:
        traceback.print_exc()
        print(f"INFRA-ERROR {pid}: harness exception (not a verdict)", file=sys.stderr)
        return 2
    return rc


if __name__ == "__main__":
    sys.exit(main())
