import json, sys
"""usage: manifest_add.py Cxx 'level text' 'level note' 'technique'"""
pid, text, note, tech = sys.argv[1:5]
m=json.load(open('/verif/MANIFEST.json'))
m['checks']=[c for c in m['checks'] if c['property_id']!=pid]
m['checks'].append({
 "property_id":pid,"quick_cmd":f"./check {pid} --tier quick","thorough_cmd":f"./check {pid} --tier thorough",
 "evidence_file":f"evidence/{pid}.json","replay_cmd_template":f"./check {pid} --replay {{path}}","engine":"lean-model+correspondence",
 "level_claimed":{"category":"proof","text":text,"design_ref":f"DESIGN.md §8 {pid}"},
 "level_note":note,"technique":tech})
m['checks'].sort(key=lambda c:c['property_id'])
m['not_applicable']=[n for n in m.get('not_applicable',[]) if n['property_id']!=pid]
for e in m['engines']:
    if pid not in e['serves_properties']: e['serves_properties'].append(pid); e['serves_properties'].sort()
json.dump(m,open('/verif/MANIFEST.json','w'),indent=1)
