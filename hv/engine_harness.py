"""Scripted entities that run generated programs on the REAL engine (C01 / C02 / C04).

A program (JSON-able dict):
  ents: int
  pre:  [ {tgt, kind, time, daemon, hook, cancelled} ]         pre-run events, in scheduling order
  defs: [ {ent, kind, gen, segs: [ {acts: [...], term: [...]} ]} ]
    acts: ["E", tgt, kind, delay_ns, daemon, hook] | ["EP", tgt, kind, back_ns, daemon] | ["X", kind] | ["R", f, v] | ["A", f, g...] |
          ["L", f, g...] | ["N", f] | ["C", ent] | ["U", ent] | ["AH", kind, hook] | ["M", ent, abs(0/1), v] |
          ["RL", tgt, kind, delay_ns, limit, daemon]
      RL: hop counter kept in the event's metadata: h = event.get_context("hops") or 0; if h < limit the handler stamps
          the delivered event (add_context("hops", h + 1)) and forwards a fresh event whose metadata carries hops = h + 1
  pre entries may carry "hops": h (the metadata the event is scheduled with)
      v of R: an int (= "n<int>") or a value token: none | n7 | a<kind>.<x> | p(<i>,<flat>) | l[<flat>,…]   (see `py_val`)
      AH: add_completion_hook on the most recently created event of that kind (whatever state it is in)
      M:  entity.level = v / entity.level = (entity.level or 0) + v
  levels: {ent: int}   initial `level` attribute (absent: None)
    term: ["Y", delay_seconds_float] | ["W", f] | ["Z"]
  end:  int ns | None   (absolute; with "dur": d (seconds, float) the run is built with duration=d and end = start + int(d*1e9))
  start: int ns         Simulation(start_time=…) (default: not passed); all pre-run events are stamped ≥ start
  nfut: int

The same program is rendered for the Lean driver by `program_lines`.
"""
from __future__ import annotations

import logging


def delay_ns(d: float) -> int:
    """the library's seconds→ns conversion for a yielded delay (Instant.__add__)"""
    return int(d * 1_000_000_000)


EXC_CLASSES = [TimeoutError, ValueError, KeyError, ConnectionError]
TYPE_ATOMS = [TimeoutError, ValueError, KeyError, StopIteration]
METRIC_ATTRS = ["level", "inflight", "_crashed", "nosuch"]
# what a process may find raised at its yield if the engine threw a resolved value (or a class) into it instead of
# sending it; anything else (the harness's own case timeout, KeyboardInterrupt, GeneratorExit, …) is not caught
VALUE_EXCS = (TimeoutError, ValueError, KeyError, ConnectionError, StopIteration)


def val_tok(v):
    """value token of a case's resolve action (ints are the legacy spelling of n<int>)"""
    return f"n{v}" if isinstance(v, int) else str(v)


def _flat(tok):
    if tok == "none":
        return None
    if tok[0] == "n":
        return int(tok[1:])
    if tok[0] == "a":
        k, x = (int(t) for t in tok[1:].split("."))
        if k == 0:
            return EXC_CLASSES[x % 4](x)            # an exception *instance* used as a plain value
        if k == 1:
            return bool(x)
        if k == 2:
            return "" if x == 0 else f"s{x}"
        if k == 3:
            return x / 2.0
        if k == 4:
            return TYPE_ATOMS[x % 4]                # an exception class
        return [(), frozenset(), {}][x % 3]
    raise ValueError(tok)


def py_val(v):
    """the Python object a value token stands for"""
    if isinstance(v, int):
        return v
    if v.startswith("p("):
        i, rest = v[2:-1].split(",", 1)
        return (int(i), _flat(rest))
    if v.startswith("l["):
        inner = v[2:-1]
        return [_flat(t) for t in inner.split(",")] if inner else []
    return _flat(v)


def fmt_val(v):
    if v is None:
        return "none"
    if isinstance(v, bool):
        return f"a1.{int(v)}"
    if isinstance(v, int):
        return f"n{v}"
    if isinstance(v, float):
        return f"a3.{int(v * 2)}"
    if isinstance(v, str):
        return "a2.0" if v == "" else f"a2.{v[1:]}"
    if isinstance(v, BaseException):
        return f"a0.{v.args[0] if v.args else '?'}"
    if isinstance(v, type):
        return f"a4.{TYPE_ATOMS.index(v)}" if v in TYPE_ATOMS else "a4.?"
    if isinstance(v, tuple) and len(v) == 2:
        return f"p({v[0]},{fmt_val(v[1])})"
    if isinstance(v, tuple):
        return "a5.0"
    if isinstance(v, frozenset):
        return "a5.1"
    if isinstance(v, dict):
        return "a5.2"
    if isinstance(v, list):
        return "l[" + ",".join(fmt_val(x) for x in v) + "]"
    return f"?{type(v).__name__}"


class _WarnCounter(logging.Handler):
    def __init__(self):
        super().__init__(level=logging.WARNING)
        self.time_travel = 0

    def emit(self, record):
        try:
            if "Time travel detected" in record.getMessage():
                self.time_travel += 1
        except Exception:
            pass


class Diverged(Exception):
    """raised by a scripted entity when the run has made more deliveries than any generated program can
    legitimately cause: the run is cut there and judged as it stands"""


DELIVERY_CAP = 4000     # auto-terminating runs: generated programs stay far below (tick chains up to the far horizon: < 1000)
HARD_CAP = 20000        # runs with an end time always stop by themselves unless they spin at one instant; same bound as the model's


class Harness:
    def __init__(self, prog):
        from happysimulator.core.entity import Entity
        from happysimulator.core.event import Event
        from happysimulator.core.sim_future import SimFuture, all_of, any_of
        from happysimulator.core.temporal import Instant

        self.Event, self.Instant, self.SimFuture, self.any_of, self.all_of = Event, Instant, SimFuture, any_of, all_of
        self.prog = prog
        self.log = []      # transcript (compared with the model)
        self.trace = []    # judge input (superset, with creations)
        self.tagc = 0
        self.npid = 0
        self.ndeliv = 0    # handler entries of the current run (delivery cap)
        self.last_kind = {}
        self.last_epoch = {}   # kind -> epoch (number of reset() calls so far) in which that handle was created
        self.epoch = 0
        self.pre_specs = []    # (tag, time, tgt, kind, daemon) of everything scheduled before a run: what reset() replays
        self.cont_tag = {}
        self.defs = {(d["ent"], d["kind"]): d for d in prog["defs"]}
        self.futs = {}
        self.EMPTY = []
        H = self

        class ScriptEntity(Entity):
            def __init__(self, idx):
                super().__init__(f"e{idx}")
                self.idx = idx
                # attributes a MetricBreakpoint can watch
                lv = (prog.get("levels") or {}).get(str(idx))
                self.level = (float(lv) if prog.get("lvl_float") else lv) if lv is not None else None
                self.inflight = 0        # generator processes of this entity that have started and not finished
                self._crashed = False

            def handle_event(self, event):
                H.ndeliv += 1
                if H.ndeliv > (DELIVERY_CAP if prog.get("end") is None else HARD_CAP):
                    raise Diverged()
                kind = int(event.event_type[1:])
                meta = event.context.get("metadata") or {}
                tag = meta.get("tag", 0)
                now = self.now.nanoseconds
                d = H.defs.get((self.idx, kind))
                if d is None:
                    H.log.append(f"K {now} {self.idx} {kind} {tag}")
                    H.trace.append(f"K {now} {self.idx} {kind} {tag} {event.time.nanoseconds}")
                    return None
                H.log.append(f"S {now} {self.idx} {kind} {tag}")
                H.trace.append(f"S {now} {self.idx} {kind} {tag} {event.time.nanoseconds}")
                pid = H.npid
                H.npid += 1
                ctx = (event, meta.get("hops") or 0)
                if d["gen"]:
                    self.inflight += 1
                    return self._gen(d, pid, event, ctx)
                evs = H.run_acts(self, d["segs"][0]["acts"], ctx)
                H.emit_log(f"F {self.now.nanoseconds} {pid}")
                return evs

            def _gen(self, d, pid, event, ctx):
                outbox = []     # one list object reused for every `yield delay, events` of this process
                for seg in d["segs"]:
                    pending = H.run_acts(self, seg["acts"], ctx)
                    if d.get("reuse_list"):
                        if pending:
                            outbox.clear()
                            outbox.extend(pending)
                            pending = outbox
                        else:
                            pending = H.EMPTY   # a shared "no side effects" constant the model never touches
                    term = seg["term"]
                    if term[0] == "Y":
                        now = self.now.nanoseconds
                        tag = H.next_tag()
                        H.trace.append(f"y {tag} {pid} {now + delay_ns(term[1])} {1 if event.daemon else 0} {now} {self.idx}")
                        # the process writes down what the yield expression gave it, or what it raised
                        try:
                            sent = yield (term[1], pending) if (pending or d.get("reuse_list")) else term[1]
                            got = fmt_val(sent)
                        except VALUE_EXCS as exc:
                            got = "raised:" + fmt_val(exc)
                        H.emit_log(f"R {self.now.nanoseconds} {pid} {got} {tag}")
                    elif term[0] == "W":
                        H.trace.append(f"w {pid} {term[1]} {1 if event.daemon else 0}")
                        try:
                            sent = yield H.fut(term[1])
                            got = fmt_val(sent)
                        except VALUE_EXCS as exc:
                            got = "raised:" + fmt_val(exc)
                        H.emit_log(f"R {self.now.nanoseconds} {pid} {got} 0")
                    else:
                        self.inflight -= 1
                        H.emit_log(f"F {self.now.nanoseconds} {pid}")
                        return pending
                return None

        self.ents = [ScriptEntity(i) for i in range(prog["ents"])]

    # ------------------------------------------------------------------
    def emit_log(self, line):
        self.log.append(line)
        self.trace.append(line)

    def next_tag(self):
        self.tagc += 1
        return self.tagc

    def fut(self, f):
        if f not in self.futs:
            self.futs[f] = self.SimFuture()
        return self.futs[f]

    def make_event(self, time_ns, tgt, kind, daemon, hook, clock_ns, hops=None):
        tag = self.next_tag()
        meta = {"tag": tag}
        if hops is not None:
            meta["hops"] = hops
        ev = self.Event(time=self.Instant(time_ns), event_type=f"k{kind}", target=self.ents[tgt],
                        daemon=bool(daemon), context={"metadata": meta})
        self.trace.append(f"c {tag} {time_ns} {tgt} {kind} {1 if daemon else 0} {clock_ns}")
        self.last_kind[kind] = (ev, tag)
        self.last_epoch[kind] = self.epoch
        if hook:
            ev.add_completion_hook(self.make_hook(hook))
            self.trace.append(f"h {tag} {hook}")
        return ev

    def make_hook(self, hk):
        def hook(time):
            t = time.nanoseconds
            self.emit_log(f"H {t} {hk}")
            return self.make_event(t, 0, 1000 + hk, False, 0, t)
        return hook

    def run_acts(self, ent, acts, ctx=None):
        out = []
        for a in acts:
            now = ent.now.nanoseconds
            op = a[0]
            if op == "E":
                _, tgt, kind, dns, dm, hk = a
                out.append(self.make_event(now + dns, tgt, kind, dm, hk, now))
            elif op == "EP":
                _, tgt, kind, back, dm = a
                out.append(self.make_event(max(0, now - back), tgt, kind, dm, 0, now))
            elif op == "EA":
                _, tgt, kind, t, dm = a
                out.append(self.make_event(t, tgt, kind, dm, 0, now))
            elif op == "RH":
                h = self.held.pop(a[1], None)
                if h is not None:
                    ev, tag, (t, tgt, kind, dm) = h
                    self.trace.append(f"c {tag} {t} {tgt} {kind} {1 if dm else 0} {now}")
                    out.append(ev)
            elif op == "X":
                p = self.last_kind.get(a[1])
                if p is not None:
                    p[0].cancel()
                    # a handle from before a reset() refers to an event of the discarded heap; its tag may
                    # have been handed on to the replayed copy, which this cancel() does not touch
                    self.trace.append(f"x {p[1]}" if self.last_epoch.get(a[1], 0) == self.epoch else f"xo {p[1]}")
            elif op == "AH":
                p = self.last_kind.get(a[1])
                if p is not None:
                    p[0].add_completion_hook(self.make_hook(a[2]))
                    # (a handle from before a reset() refers to an event of the discarded heap)
                    self.trace.append(f"h {p[1]} {a[2]}" if self.last_epoch.get(a[1], 0) == self.epoch else f"ho {p[1]} {a[2]}")
            elif op == "RL":
                _, tgt, kind, dns, limit, dm = a
                event, hops = ctx
                if hops < limit:
                    event.add_context("hops", hops + 1)      # stamp the delivered event …
                    out.append(self.make_event(now + dns, tgt, kind, dm, 0, now, hops=hops + 1))   # … and forward a copy
            elif op == "M":
                e = self.ents[a[1]]
                v = a[3] if a[2] else (e.level or 0) + a[3]
                e.level = float(v) if self.prog.get("lvl_float") else v
            elif op == "R":
                self.trace.append(f"r {a[1]} {val_tok(a[2])}")
                self.fut(a[1]).resolve(py_val(a[2]))
            elif op == "A":
                self.trace.append("a " + " ".join(str(x) for x in a[1:]))
                self.futs[a[1]] = self.any_of(*[self.fut(g) for g in a[2:]])
            elif op == "L":
                self.trace.append("l " + " ".join(str(x) for x in a[1:]))
                self.futs[a[1]] = self.all_of(*[self.fut(g) for g in a[2:]])
            elif op == "N":
                self.trace.append(f"n {a[1]}")
                self.futs[a[1]] = self.SimFuture()
            elif op == "C":
                self.ents[a[1]]._crashed = True
                self.trace.append(f"C {a[1]}")
            elif op == "U":
                self.ents[a[1]]._crashed = False
                self.trace.append(f"U {a[1]}")
        return out

    # ------------------------------------------------------------------
    def build(self, **sim_kwargs):
        from happysimulator.core.simulation import Simulation

        end = self.prog.get("end")
        start = self.prog.get("start", 0)
        kw = dict(entities=list(self.ents))
        if start or self.prog.get("start_explicit"):
            kw["start_time"] = self.Instant(start)
        if end is not None:
            if self.prog.get("dur") is not None:
                # the horizon given as `duration=` (seconds, relative to start_time); prog["end"] is start + that
                kw["duration"] = self.prog["dur"]
            else:
                kw["end_time"] = self.Instant(end)
        kw.update(sim_kwargs)
        self.sim = Simulation(**kw)
        for p in self.prog["pre"]:
            ev = self.make_event(p["time"], p["tgt"], p["kind"], p["daemon"], p["hook"], start, hops=p.get("hops"))
            self.sim.schedule(ev)
            self.pre_specs.append((self.tagc, p["time"], p["tgt"], p["kind"], p["daemon"]))
            if p.get("cancelled"):
                ev.cancel()
                self.trace.append(f"x {self.tagc}")
        # events created before the run but only handed to the scheduler by a handler during it;
        # throw-away events in between advance the library's creation counter
        self.held = {}
        for i, hd in enumerate(self.prog.get("held", [])):
            for _ in range(self.prog.get("dummies", 0)):
                self.Event(time=self.Instant(0), event_type="k0", target=self.ents[0])
            tag = self.next_tag()
            ev = self.Event(time=self.Instant(hd["time"]), event_type=f"k{hd['kind']}", target=self.ents[hd["tgt"]],
                            daemon=bool(hd["daemon"]), context={"metadata": {"tag": tag}})
            self.held[i] = (ev, tag, (hd["time"], hd["tgt"], hd["kind"], hd["daemon"]))
        return self.sim

    # ------------------------------------------------------------------ operations from outside the loop (C04 scripts)
    def clock_ns(self):
        return self.ents[0].now.nanoseconds

    def inject(self, time_ns, tgt, kind, daemon, pre_run):
        """sim.schedule(Event(...)) from outside the event loop (before run() or while paused)"""
        ev = self.make_event(time_ns, tgt, kind, daemon, 0, self.clock_ns())
        self.sim.schedule(ev)
        if pre_run:
            self.pre_specs.append((self.tagc, time_ns, tgt, kind, daemon))

    def reset(self):
        """control.reset(): marker in log and trace, then the re-created pre-run events (same tags: the
        metadata is copied) as creations of the new epoch.  Entity-side state is deliberately kept."""
        self.sim.control.reset()
        self.epoch += 1
        self.ndeliv = 0
        self.emit_log("RST")
        for tag, t, tgt, kind, dm in self.pre_specs:
            self.trace.append(f"c {tag} {t} {tgt} {kind} {1 if dm else 0} {self.prog.get('start', 0)}")

    def rerun(self):
        """control.reset() after a completed run, then run() again, recorded as a run of its own: the replayed
        pre-run events (same tags: the metadata is copied) are the creations of the new run, the harness's
        counters start over.  Only for stateless programs (`make_stateless`)."""
        self.sim.control.reset()
        self.log.clear()
        self.trace.clear()
        self.tagc = len(self.pre_specs)
        self.npid = 0
        self.ndeliv = 0
        self.last_kind.clear()
        for e in self.ents:
            e.inflight = 0
        for tag, t, tgt, kind, dm in self.pre_specs:
            self.trace.append(f"c {tag} {t} {tgt} {kind} {1 if dm else 0} {self.prog.get('start', 0)}")
        return self.run()

    def run(self, driver=None):
        """driver(sim) performs the run (default: sim.run()); returns transcript"""
        lg = logging.getLogger("happysimulator.core.simulation")
        wc = _WarnCounter()
        old_level = lg.level
        lg.addHandler(wc)
        old_prop = lg.propagate
        lg.propagate = False
        if lg.getEffectiveLevel() > logging.WARNING:
            lg.setLevel(logging.WARNING)
        diverged = False
        try:
            if driver is None:
                summary = self.sim.run()
            else:
                summary = driver(self.sim)
        except Diverged:
            # the run did not stop by itself: cut here; the trace up to this point is judged (an
            # auto-terminating run that goes on delivering with no live non-daemon event pending, …)
            diverged = True
            summary = None
        finally:
            lg.removeHandler(wc)
            lg.propagate = old_prop
            lg.setLevel(old_level)
        now = self.ents[0].now.nanoseconds
        end = self.prog.get("end")
        if diverged:
            self.emit_log(f"diverged {now} {DELIVERY_CAP if end is None else HARD_CAP}")
            self.end_line = f"end {now} diverged"
            self.trace.append(f"end {now} {'inf' if end is None else end}")
            return self.log + [self.end_line]
        self.end_line = f"end {now} {summary.total_events_processed} {summary.events_cancelled} {wc.time_travel} 1"
        self.trace.append(f"end {now} {'inf' if end is None else end}")
        return self.log + [self.end_line]


def make_stateless(prog):
    """entity-side state survives reset(): keep only programs whose entities have none (no futures, crash
    flags, event handles, pre-created events), and pre-run events that reset() replays faithfully"""
    for p in prog["pre"]:
        p["hook"] = 0
        p["cancelled"] = False
    prog["defs"] = [d for d in prog["defs"] if not any(
        a[0] in ("R", "A", "L", "N", "C", "U") for s in d["segs"] for a in s["acts"]) and not any(
        s["term"][0] == "W" for s in d["segs"])]
    # handles to events (for cancel) are entity state too, and the replayed pre-run events are
    # new objects the scripted entities hold no handle to
    prog["defs"] = [dict(d, segs=[dict(s, acts=[a for a in s["acts"] if a[0] not in ("X", "RH", "EA", "AH")]) for s in d["segs"]])
                    for d in prog["defs"]]
    prog.pop("held", None)   # pre-created events held by entities are entity state as well


def program_lines(prog):
    lines = [f"ents {prog['ents']}"]
    if prog.get("start"):
        lines.append(f"start {prog['start']}")
    for x, v in sorted((prog.get("levels") or {}).items()):
        lines.append(f"lvl {x} {v}")
    for i, p in enumerate(prog["pre"]):
        lines.append(f"pre {p['tgt']} {p['kind']} {p['time']} {1 if p['daemon'] else 0} {p['hook']} {1 if p.get('cancelled') else 0}")
        if p.get("hops"):
            lines.append(f"hop {i} {p['hops']}")
    for hd in prog.get("held", []):
        lines.append(f"held {hd['tgt']} {hd['kind']} {hd['time']} {1 if hd['daemon'] else 0}")
    for d in prog["defs"]:
        segs = []
        for seg in d["segs"]:
            acts = []
            for a in seg["acts"]:
                if a[0] == "E":
                    acts.append(f"E {a[1]} {a[2]} {a[3]} {1 if a[4] else 0} {a[5]}")
                elif a[0] in ("EP", "EA"):
                    acts.append(f"{a[0]} {a[1]} {a[2]} {a[3]} {1 if a[4] else 0}")
                elif a[0] == "R":
                    acts.append(f"R {a[1]} {val_tok(a[2])}")
                elif a[0] == "RL":
                    acts.append(f"RL {a[1]} {a[2]} {a[3]} {a[4]} {1 if a[5] else 0}")
                else:
                    acts.append(" ".join(str(x) for x in a))
            t = seg["term"]
            term = f"Y {delay_ns(t[1])}" if t[0] == "Y" else (f"W {t[1]}" if t[0] == "W" else "Z")
            segs.append((" , ".join(acts) + " | " + term) if acts else ("| " + term))
        lines.append(f"def {d['ent']} {d['kind']} {1 if d['gen'] else 0} " + " ; ".join(segs))
    return lines
