"""Copy confirmed seeded changes from the sub-agents' output directory into /verif/seeded/<id>/."""
import json
import shutil
import sys
from pathlib import Path

SRC = Path(sys.argv[1] if len(sys.argv) > 1 else "/tmp/mutout")
ROUND = sys.argv[2] if len(sys.argv) > 2 else "r1"
DST = Path(__file__).resolve().parent.parent / "seeded"
for d in sorted(SRC.glob("C*/m*")):
    rj, tj = d / "result.json", d / "tests.json"
    if not (d / "patch.diff").exists() or not rj.exists():
        continue
    res = json.loads(rj.read_text())
    tests = json.loads(tj.read_text()) if tj.exists() else {}
    meta = json.loads((d / "meta.json").read_text())
    sup = (d / "superseded.txt").read_text().strip() if (d / "superseded.txt").exists() else None
    confirmed = res.get("demo_with_change") == 1 and res.get("demo_without_change") == 0 and tests.get("tests_rc", 0) == 0
    meta["round"] = ROUND
    if not confirmed and not sup:
        print("not kept:", d, res.get("demo_with_change"), res.get("demo_without_change"), tests)
        continue
    out = DST / f"{d.parent.name}-{ROUND}-{d.name}"
    out.mkdir(parents=True, exist_ok=True)
    shutil.copy(d / "patch.diff", out / "patch.diff")
    shutil.copy(d / "demo.py", out / "demo.py")
    meta["verif_result"] = {k: res.get(k) for k in ("check_rc", "detected_as", "replay_kind", "check_wall_s", "check_lines", "at")}
    if res.get("also"):
        meta["verif_result"]["also"] = res["also"]
    if sup:
        meta["verif_result"]["superseded"] = sup
    meta["verif_confirmation"] = {
        "demo_with_change_exit": res.get("demo_with_change"), "demo_without_change_exit": res.get("demo_without_change"),
        "test_suite_with_change_exit": tests.get("tests_rc"),
        "ran": ["python -m hv.seedcheck <dir> (scratch worktree of /repo HEAD + patch; demo with/without; HV_REPO=<worktree> ./check " + str(meta.get("property")) + " --tier quick)",
                "pytest -q -x tests in a scratch worktree with the patch"]}
    (out / "meta.json").write_text(json.dumps(meta, indent=1))
    print("kept", out.name, meta["verif_result"].get("check_rc"), meta["verif_result"].get("detected_as"))
