"""Shared machinery for every property check (see DESIGN.md §2, §5, §11).

A property module (hv/props/cXX.py) defines a subclass of `Property`; `run_property`
does the rest:

  build Lean targets -> audit axioms -> replay known findings -> corpus + generated cases
  -> run the real implementation (in-process, /repo working tree) -> run the Lean model
  (native driver, line protocol) -> diff transcripts -> evaluate the Lean Spec predicate on
  the implementation's own transcript -> shrink / search -> verdict + evidence.

Exit codes: 0 held, 1 VIOLATION (line printed), 2 infrastructure error (never a verdict).
"""
from __future__ import annotations

import hashlib
import json
import multiprocessing as mp
import os
import random
import re
import signal
import subprocess
import sys
import time
import traceback
from pathlib import Path

ROOT = Path(__file__).resolve().parent.parent
LEAN = ROOT / "lean"
REPO = Path(os.environ.get("HV_REPO", "/repo"))
OUT = ROOT / "out"
ALLOWED_AXIOMS = {"propext", "Classical.choice", "Quot.sound"}
FORBIDDEN = re.compile(
    r"\bsorry\b|\badmit\b|^\s*axiom\s|native_decide|bv_decide|implemented_by|\bunsafe\s|maxHeartbeats\s+0\b"
)

if str(REPO) not in sys.path:
    sys.path.insert(0, str(REPO))
os.environ.setdefault("HAPPYSIM_VERIF", "1")


class InfraError(Exception):
    """Something in /verif is broken (build, audit, driver). Exit 2, never a verdict."""


# --------------------------------------------------------------------------- Lean side


def _run(cmd, cwd=None, timeout=3600, input=None):
    return subprocess.run(
        cmd, cwd=cwd, timeout=timeout, input=input, capture_output=True, text=True
    )


def lake_build(targets):
    t0 = time.time()
    r = _run(["lake", "build", *targets], cwd=LEAN, timeout=7200)
    if r.returncode != 0:
        raise InfraError("lake build failed:\n" + (r.stdout + r.stderr)[-4000:])
    return time.time() - t0


def strip_comments(src: str) -> str:
    # remove /- ... -/ (nested not handled beyond one level, good enough for the grep) and -- ...
    out, i, depth = [], 0, 0
    while i < len(src):
        if src.startswith("/-", i):
            depth += 1
            i += 2
        elif src.startswith("-/", i) and depth:
            depth -= 1
            i += 2
        elif depth:
            if src[i] == "\n":
                out.append("\n")
            i += 1
        elif src.startswith("--", i):
            while i < len(src) and src[i] != "\n":
                i += 1
        else:
            out.append(src[i])
            i += 1
    return "".join(out)


def lean_sources(globs):
    files = []
    for g in globs:
        files += sorted(LEAN.glob(g))
    return files


def audit(prop):
    """#print axioms for every property theorem; grep sources for forbidden constructs.
    Cached by the hash of the sources involved."""
    files = lean_sources(prop.lean_files)
    if not files:
        raise InfraError(f"{prop.id}: no Lean sources matched {prop.lean_files}")
    h = hashlib.sha256()
    for f in files:
        h.update(f.read_bytes())
    h.update("\n".join(prop.theorems).encode())
    key = h.hexdigest()
    cache = OUT / "audit" / f"{prop.id}.json"
    if cache.exists():
        try:
            c = json.loads(cache.read_text())
            if c.get("key") == key:
                return c
        except Exception:
            pass
    bad = []
    for f in files:
        for ln, line in enumerate(strip_comments(f.read_text()).splitlines(), 1):
            if FORBIDDEN.search(line):
                bad.append(f"{f.relative_to(LEAN)}:{ln}: {line.strip()}")
    if bad:
        raise InfraError("forbidden construct in Lean sources:\n" + "\n".join(bad))
    (OUT / "audit").mkdir(parents=True, exist_ok=True)
    src = OUT / "audit" / f"{prop.id}_audit.lean"
    lines = [f"import {m}" for m in prop.audit_imports]
    lines += [f"#print axioms {t}" for t in prop.theorems]
    src.write_text("\n".join(lines) + "\n")
    r = _run(["lake", "env", "lean", str(src)], cwd=LEAN, timeout=3600)
    if r.returncode != 0:
        raise InfraError("axiom audit failed to elaborate:\n" + (r.stdout + r.stderr)[-4000:])
    text = r.stdout.replace("\n  ", " ").replace("\n ", " ")
    axioms = {}
    for m in re.finditer(r"'([^']+)' depends on axioms: \[([^\]]*)\]", text):
        axioms[m.group(1)] = [a.strip() for a in m.group(2).split(",") if a.strip()]
    for m in re.finditer(r"'([^']+)' does not depend on any axioms", text):
        axioms[m.group(1)] = []
    missing = [t for t in prop.theorems if t not in axioms]
    if missing:
        raise InfraError(f"audit: theorems not found in #print axioms output: {missing}\n{r.stdout[-2000:]}")
    dirty = {t: a for t, a in axioms.items() if set(a) - ALLOWED_AXIOMS}
    if dirty:
        raise InfraError(f"audit: theorems depend on non-standard axioms: {dirty}")
    res = {
        "key": key,
        "obligations": len(prop.theorems),
        "discharged": len([t for t in prop.theorems if t in axioms]),
        "axioms": axioms,
        "sources": [str(f.relative_to(LEAN)) for f in files],
    }
    cache.write_text(json.dumps(res, indent=1))
    return res


def leanchecker(modules):
    r = _run(["lake", "env", "leanchecker", *modules], cwd=LEAN, timeout=3600)
    if r.returncode != 0:
        raise InfraError("leanchecker rejected modules:\n" + (r.stdout + r.stderr)[-4000:])
    return True


class Driver:
    """Native Lean driver speaking the block protocol of HappyModel/Proto.lean."""

    def __init__(self, name):
        self.exe = LEAN / ".lake" / "build" / "bin" / name
        if not self.exe.exists():
            raise InfraError(f"driver {self.exe} not built")

    def run_blocks(self, blocks, timeout=1800):
        """blocks: list of (header:str, body:list[str]) -> list of list[str] (one per block)."""
        if not blocks:
            return []
        buf = []
        for hdr, body in blocks:
            buf.append("begin " + hdr)
            buf.extend(body)
            buf.append("end")
        data = "\n".join(buf) + "\n"
        try:
            r = subprocess.run([str(self.exe)], input=data, capture_output=True, text=True, timeout=timeout)
        except subprocess.TimeoutExpired:
            raise InfraError(f"driver {self.exe.name} timed out after {timeout}s on {len(blocks)} blocks")
        if r.returncode != 0:
            raise InfraError(f"driver {self.exe.name} crashed: rc={r.returncode} {r.stderr[-2000:]}")
        outs, cur = [], []
        for line in r.stdout.split("\n"):
            if line == "done":
                outs.append(cur)
                cur = []
            elif line != "" or cur:
                cur.append(line)
        if len(outs) != len(blocks):
            raise InfraError(f"driver answered {len(outs)} blocks for {len(blocks)} requests")
        return outs


# --------------------------------------------------------------------------- property API


class Property:
    id = "C00"
    driver = "drv-c00"
    lake_targets: list[str] = []
    audit_imports: list[str] = []
    theorems: list[str] = []
    lean_files: list[str] = []
    partial_theorems: dict = {}     # name -> the gap, reported in evidence
    hypotheses: list[str] = []
    trusted_base: list[str] = []
    assumptions: list[str] = []
    variants = ["current"]
    quick_cases = 300
    thorough_cases = 20000
    case_timeout_s = 20
    pool_workers = None             # None: min(16, cpus); 1: run the implementation serially
    search_budget = {"quick": 400, "thorough": 5000}
    rule = ""

    # -- to implement ------------------------------------------------------
    def generate(self, rng: random.Random, i: int, tier: str) -> dict:
        raise NotImplementedError

    def run_impl(self, case: dict) -> list[str]:
        raise NotImplementedError

    def model_block(self, case: dict, variant: str):
        raise NotImplementedError

    def judge_block(self, case: dict, impl_out: list[str]):
        return None

    def nontrivial_key(self, case: dict, impl_out: list[str]):
        """hashable key if the case is non-trivial, else None"""
        return json.dumps(case, sort_keys=True)

    def shrink(self, case: dict):
        return iter(())

    def mutate(self, case: dict, rng: random.Random) -> dict:
        return case

    def extra_checks(self, ctx) -> list[dict]:
        """optional additional deterministic checks; each returns dicts like
        {'kind': 'violation', 'signature':..., 'case':..., 'detail':...}"""
        return []

    def model_postprocess(self, case, out):
        return out

    def compare_view(self, case, impl_out):
        """the part of the implementation transcript that is compared with the model transcript
        (a property may append judge-only trace lines after a marker)"""
        return impl_out


class _Timeout(Exception):
    pass


def _alarm(signum, frame):
    raise _Timeout()


_PROP = None


def _impl_worker(args):
    case, tmo = args
    return run_impl_safe(_PROP, case, tmo)


def run_impl_safe(prop, case, tmo=None):
    tmo = tmo or prop.case_timeout_s
    old = signal.signal(signal.SIGALRM, _alarm)
    signal.setitimer(signal.ITIMER_REAL, tmo)
    try:
        return [str(x) for x in prop.run_impl(case)]
    except _Timeout:
        return ["IMPL-TIMEOUT"]
    except RecursionError:
        return ["IMPL-EXC RecursionError"]
    except Exception as e:  # the implementation raising is an observable, not a harness failure
        tb = traceback.extract_tb(e.__traceback__)
        where = ""
        for fr in reversed(tb):
            if "/hv/" not in fr.filename:
                where = f"{Path(fr.filename).name}:{fr.name}"
                break
        return [f"IMPL-EXC {type(e).__name__} {where}"]
    finally:
        signal.setitimer(signal.ITIMER_REAL, 0)
        signal.signal(signal.SIGALRM, old)


def pmap_impl(prop, cases, workers=None):
    global _PROP
    _PROP = prop
    workers = workers or prop.pool_workers or min(16, os.cpu_count() or 4)
    try:
        import happysimulator  # noqa: F401  (import once, before forking, so workers do not each pay for it)
    except Exception:
        pass
    if len(cases) < 32 or workers <= 1 or os.environ.get("HV_SERIAL"):
        return [run_impl_safe(prop, c) for c in cases]
    ctx = mp.get_context("fork")
    with ctx.Pool(workers) as pool:
        return pool.map(_impl_worker, [(c, prop.case_timeout_s) for c in cases], chunksize=max(1, len(cases) // (workers * 8)))


# --------------------------------------------------------------------------- findings / corpus


def load_findings(prop_id):
    p = ROOT / "known_findings.json"
    if not p.exists():
        return []
    data = json.loads(p.read_text())
    return [f for f in data.get("findings", []) if f.get("property") == prop_id]


def sig_known(sig, findings):
    for f in findings:
        if f.get("status") == "known" and (sig == f["signature"] or sig.startswith(f["signature"] + "/")):
            return f
    return None


def load_corpus(prop_id):
    d = ROOT / "corpus" / prop_id
    cases = []
    if d.exists():
        for f in sorted(d.glob("*.json")):
            try:
                obj = json.loads(f.read_text())
                cases.append((f.name, obj["case"] if "case" in obj else obj))
            except Exception as e:
                raise InfraError(f"corpus file {f} unreadable: {e}")
    return cases


def parse_judge(out):
    """judge block output -> None (ok) | signature string"""
    if not out:
        raise InfraError("judge returned no output")
    first = out[0].strip()
    if first == "ok":
        return None
    if first.startswith("viol "):
        # signature is the first token; anything after it is detail (op index etc.)
        return first[5:].split()[0]
    raise InfraError(f"judge output not understood: {out[:3]}")


# --------------------------------------------------------------------------- runner


class Ctx:
    def __init__(self, prop, tier, seed):
        self.prop, self.tier, self.seed = prop, tier, seed
        self.rng = random.Random(seed)
        self.driver = None
        self.t0 = time.time()
        self.stats = {}


RECONFIRM_BUDGET_S = float(os.environ.get("HV_RECONFIRM_BUDGET_S", "240"))


def evaluate(prop, drv, cases, variants=None):
    """Run impl + model + judge on cases. Returns list of dict per case."""
    variants = variants or prop.variants
    impl_outs = pmap_impl(prop, cases)
    # a timeout under load is retried serially once with a doubled limit before it counts
    # (a tree that really hangs times out again: stop after a few confirmed timeouts, do not serialise them all)
    confirmed_to, t_retry = 0, time.time()
    for k, o in enumerate(impl_outs):
        if o == ["IMPL-TIMEOUT"] and confirmed_to < 3 and time.time() - t_retry < RECONFIRM_BUDGET_S:
            impl_outs[k] = run_impl_safe(prop, cases[k], prop.case_timeout_s * 2)
            if impl_outs[k] == ["IMPL-TIMEOUT"]:
                confirmed_to += 1
    from_impl = getattr(prop, "model_block_from_impl", None)
    res = [dict(case=c, impl=o, agree=None, variant=None, judge=None, model=None) for c, o in zip(cases, impl_outs)]
    pending = list(range(len(cases)))
    for v in variants:
        if not pending:
            break
        outs = drv.run_blocks([
            from_impl(cases[i], v, res[i]["impl"]) if from_impl else prop.model_block(cases[i], v)
            for i in pending])
        still = []
        for i, o in zip(pending, outs):
            o = prop.model_postprocess(cases[i], o)
            if res[i]["model"] is None:
                res[i]["model"] = o
            if o == prop.compare_view(cases[i], res[i]["impl"]):
                res[i]["agree"], res[i]["variant"], res[i]["model"] = True, v, o
            else:
                still.append(i)
        pending = still
    # a disagreement is re-confirmed once, serially, before it counts: under machine load a case can
    # time out or be cut short in a pool worker; the number of such retractions is reported
    # (a tree that really disagrees keeps disagreeing: after a few confirmed disagreements, or when the
    # wall budget is used up, the remaining ones count without a re-run)
    still, confirmed, t_conf = [], 0, time.time()
    for n_seen, i in enumerate(pending):
        if confirmed >= 4 or time.time() - t_conf > RECONFIRM_BUDGET_S:
            still.extend(pending[n_seen:])
            break
        again = run_impl_safe(prop, cases[i], prop.case_timeout_s * 2)
        if again != res[i]["impl"]:
            ok = False
            for v in variants:
                blk = from_impl(cases[i], v, again) if from_impl else prop.model_block(cases[i], v)
                o = prop.model_postprocess(cases[i], drv.run_blocks([blk])[0])
                if o == prop.compare_view(cases[i], again):
                    res[i].update(impl=again, model=o, agree=True, variant=v, retracted=True)
                    ok = True
                    break
            if ok:
                continue
            res[i]["impl"] = again
        confirmed += 1
        still.append(i)
    for i in still:
        res[i]["agree"] = False
    jidx, jblocks = [], []
    for i, r in enumerate(res):
        jb = prop.judge_block(r["case"], r["impl"])
        if jb is not None:
            jidx.append(i)
            jblocks.append(jb)
    for i, o in zip(jidx, drv.run_blocks(jblocks)):
        res[i]["judge"] = parse_judge(o)
        res[i]["judged"] = True
    return res


def first_diff(a, b):
    for k, (x, y) in enumerate(zip(a, b)):
        if x != y:
            return k, x, y
    if len(a) != len(b):
        k = min(len(a), len(b))
        return k, (a[k] if k < len(a) else "<end>"), (b[k] if k < len(b) else "<end>")
    return None


def shrink_case(prop, drv, case, pred, max_steps=400):
    """greedy delta debugging with the property's own `shrink` candidates"""
    steps = 0
    improved = True
    t_end = time.time() + float(os.environ.get("HV_SHRINK_BUDGET_S", "150"))
    while improved and steps < max_steps and time.time() < t_end:
        improved = False
        for cand in prop.shrink(case):
            steps += 1
            if steps > max_steps or time.time() > t_end:
                break
            try:
                if pred(cand):
                    case, improved = cand, True
                    break
            except InfraError:
                continue
    return case


def write_replay(prop, kind, payload):
    d = OUT / "replays"
    d.mkdir(parents=True, exist_ok=True)
    body = json.dumps(payload, indent=1, sort_keys=True)
    name = f"{prop.id}-{kind}-{hashlib.sha256(body.encode()).hexdigest()[:10]}.json"
    p = d / name
    p.write_text(body)
    return p


def write_evidence(prop, tier, seed, t0, coverage, violations, extra=None):
    ev = {
        "property_id": prop.id,
        "tier": tier,
        "seed": seed,
        "level": "proof",
        "coverage": coverage,
        "assumptions": prop.assumptions,
        "wall_s": round(time.time() - t0, 2),
        "violations": violations,
    }
    if extra:
        ev.update(extra)
    d = Path(os.environ.get("HV_EVIDENCE_DIR", ROOT / "evidence"))
    d.mkdir(parents=True, exist_ok=True)
    (d / f"{prop.id}.json").write_text(json.dumps(ev, indent=1))


def run_property(prop, tier="quick", seed=0, n_cases=None, replay=None):
    t0 = time.time()
    ctx = Ctx(prop, tier, seed)
    # 1. build + audit -------------------------------------------------------
    build_s = lake_build(prop.lake_targets)
    aud = audit(prop)
    checked = False
    if tier == "thorough" and not os.environ.get("HV_NO_LEANCHECKER"):
        checked = leanchecker(prop.audit_imports)
    drv = Driver(prop.driver)
    ctx.driver = drv
    findings = load_findings(prop.id)
    known_lines, violations = [], []

    if replay:
        return replay_file(prop, drv, replay, findings)

    def classify(r):
        """-> None | ('known', finding) | ('violation', sig)"""
        sig = r.get("judge")
        if sig is None:
            return None
        f = sig_known(sig, findings)
        return ("known", f) if f else ("violation", sig)

    # 2. known findings: re-confirm on the real code ----------------------------
    for f in findings:
        if f.get("status") != "known":
            continue
        wp = ROOT / f["witness"]
        obj = json.loads(wp.read_text())
        wcase = obj["case"] if "case" in obj else obj
        rr = evaluate(prop, drv, [wcase])[0]
        if rr["judge"] is not None and sig_known(rr["judge"], [f]):
            known_lines.append(f"KNOWN-FINDING: property={prop.id} {f['signature']} {f['what_fails']} (witness {f['witness']})")

    # 3. corpus + generated cases -----------------------------------------------
    corpus = load_corpus(prop.id)
    n = n_cases if n_cases is not None else (prop.quick_cases if tier == "quick" else prop.thorough_cases)
    gen, gen_crashes = [], []
    for i in range(n):
        try:
            gen.append(prop.generate(ctx.rng, i, tier))
        except InfraError:
            raise
        except Exception as e:
            # some generators consult the real implementation while building a case (recording random
            # draws, tracking what is held); an exception raised from /repo code there is an observation
            # about the implementation, not a harness failure
            tb = traceback.extract_tb(e.__traceback__)
            if any(str(REPO) in fr.filename for fr in tb):
                where = next((f"{Path(fr.filename).name}:{fr.name}" for fr in reversed(tb) if str(REPO) in fr.filename), "")
                gen_crashes.append(dict(index=i, error=f"{type(e).__name__} {where}: {e}"[:300]))
                if len(gen_crashes) > 50:
                    break
            else:
                raise
    cases = [c for _, c in corpus] + gen
    results = []
    CH = 4000
    for k in range(0, len(cases), CH):
        results += evaluate(prop, drv, cases[k:k + CH])

    fam = {}
    nontriv = set()
    for r in results:
        fam[r["case"].get("family", "?")] = fam.get(r["case"].get("family", "?"), 0) + 1
        k = prop.nontrivial_key(r["case"], r["impl"])
        if k is not None:
            nontriv.add(hashlib.sha256(str(k).encode()).hexdigest())
    disagreements = [r for r in results if not r["agree"]]
    for gc in gen_crashes[:3]:
        disagreements.append(dict(case={"family": "implementation-raised-during-case-generation", **gc},
                                  impl=[f"IMPL-EXC {gc['error']}"], model=[], agree=False, variant=None, judge=None, gen_crash=True))
    judged_viol = [(r, classify(r)) for r in results if classify(r)]
    unknown = [r for r, c in judged_viol if c[0] == "violation"]
    known_hits = {}
    for r, c in judged_viol:
        if c[0] == "known":
            known_hits[c[1]["signature"]] = known_hits.get(c[1]["signature"], 0) + 1

    extra_results = prop.extra_checks(ctx) or []
    for er in extra_results:
        if er.get("kind") == "violation":
            f = sig_known(er["signature"], findings)
            if f:
                known_hits[f["signature"]] = known_hits.get(f["signature"], 0) + 1
            else:
                unknown.append(dict(case=er["case"], impl=er.get("impl", []), model=er.get("model", []), judge=er["signature"], agree=er.get("agree", True), extra=True, detail=er.get("detail")))

    searched = 0
    # 4. failing-input search after a disagreement --------------------------------
    if disagreements and not unknown:
        budget = prop.search_budget[tier]
        seeds = [r["case"] for r in disagreements[:10] if not r.get("gen_crash")]
        srng = random.Random(seed ^ 0x5EA4C4)
        batch = []
        for k in range(budget if seeds else 0):
            base = seeds[k % len(seeds)]
            try:
                batch.append(prop.mutate(base, srng) if k % 3 else prop.generate(srng, k, tier))
            except InfraError:
                raise
            except Exception:
                continue   # (a generator that consults a broken implementation; see gen_crashes above)
        sres = evaluate(prop, drv, seeds + batch, variants=prop.variants[:1]) if seeds else []
        searched = len(sres)
        for r in sres:
            c = classify(r)
            if c and c[0] == "violation":
                unknown.append(r)
                break

    # 5. verdict -------------------------------------------------------------------
    for line in known_lines:
        print(line)
    rc = 0
    replay_paths = []
    if unknown:
        r = unknown[0]
        sig = r["judge"]

        def still(c):
            rr = evaluate(prop, drv, [c], variants=prop.variants[:1])[0]
            return rr["judge"] == sig

        case = r["case"] if r.get("extra") else shrink_case(prop, drv, r["case"], still)
        rr = r if r.get("extra") else evaluate(prop, drv, [case])[0]
        p = write_replay(prop, "violation", dict(
            property=prop.id, kind="spec-violation", signature=sig, case=case,
            impl_transcript=rr.get("impl"), model_transcript=rr.get("model"),
            model_agrees=rr.get("agree"), seed=seed, tier=tier, detail=r.get("detail"),
            note="The Lean Spec predicate, evaluated on the transcript produced by the real implementation for this input, is false."))
        print(f"VIOLATION property={prop.id} replay={p}")
        replay_paths.append(str(p))
        rc = 1
    elif disagreements:
        r = disagreements[0]
        if r.get("gen_crash"):
            p = write_replay(prop, "correspondence", dict(
                property=prop.id, kind="correspondence-broken", case=r["case"],
                correspondence=f"hv/props/{prop.id.lower()}.py case generation calls into /repo",
                theorems_no_longer_transferred=prop.theorems, impl_transcript=r["impl"], model_transcript=[],
                seed=seed, tier=tier,
                note="The implementation raised while the harness was consulting it to build a case; no input violating the Spec predicate could be produced, so the theorems no longer transfer to the code."))
            print(f"VIOLATION property={prop.id} replay={p} no-failing-input-found")
            replay_paths.append(str(p))
            rc = 1
        else:
            def still_dis(c):
                rr = evaluate(prop, drv, [c])[0]
                return not rr["agree"]

            case = shrink_case(prop, drv, r["case"], still_dis)
            rr = evaluate(prop, drv, [case])[0]
            fd = first_diff(prop.compare_view(case, rr["impl"]), rr["model"] or [])
            p = write_replay(prop, "correspondence", dict(
                property=prop.id, kind="correspondence-broken", case=case,
                correspondence=f"hv/props/{prop.id.lower()}.py family={case.get('family')} vs Lean driver {prop.driver}",
                theorems_no_longer_transferred=prop.theorems,
                impl_transcript=rr["impl"], model_transcript=rr["model"], first_difference=fd,
                searched_inputs=searched, seed=seed, tier=tier,
                note="Implementation and Lean model disagree on this input; no input violating the Spec predicate was found within the search budget, so the theorems no longer transfer to the code."))
            print(f"VIOLATION property={prop.id} replay={p} no-failing-input-found")
            replay_paths.append(str(p))
            rc = 1

    samples = []
    seen_f = set()
    for r in results[len(corpus):]:
        f = r["case"].get("family", "?")
        if f not in seen_f:
            seen_f.add(f)
            samples.append({"case": r["case"], "impl_transcript_head": r["impl"][:6]})
        if len(samples) >= 6:
            break
    coverage = dict(
        obligations=aud["obligations"], discharged=aud["discharged"],
        checker_cmd=f"cd lean && lake build {' '.join(prop.lake_targets)} && lake env lean out/audit/{prop.id}_audit.lean (#print axioms)" + (" && lake env leanchecker " + " ".join(prop.audit_imports) if checked else ""),
        trusted_base=["Lean 4.33 kernel", "axioms ⊆ {propext, Classical.choice, Quot.sound} (audited this run)",
                      "hand-written model tied to /repo by the differential correspondence below"] + prop.trusted_base,
        theorems=prop.theorems, axioms=aud["axioms"], partial_theorems=prop.partial_theorems,
        hypotheses=prop.hypotheses, leanchecker=checked,
        evaluations=len(results) + searched + len(extra_results), distinct_nontrivial=len(nontriv),
        rule=prop.rule, samples=samples, traces_validated_against_impl=len(results),
        spec_judged=sum(1 for r in results if r.get("judged")),
        families=fam, corpus=len(corpus), disagreements=len(disagreements),
        variants_matched={v: sum(1 for r in results if r["variant"] == v) for v in prop.variants},
        known_finding_hits=known_hits, search_inputs=searched, extra_checks=len(extra_results),
        impl_exceptions=sum(1 for r in results if r["impl"] and r["impl"][0].startswith("IMPL-")),
        retracted_after_serial_rerun=sum(1 for r in results if r.get("retracted")),
        replays=replay_paths, build_s=round(build_s, 2),
    )
    coverage.update(ctx.stats)
    write_evidence(prop, tier, seed, t0, coverage, 1 if rc else 0)
    print(f"{prop.id} {tier}: {len(results)} cases ({len(corpus)} corpus), {len(nontriv)} distinct non-trivial, "
          f"{len(disagreements)} disagreements, {len(unknown)} spec violations, {sum(known_hits.values())} known-finding hits, "
          f"{aud['discharged']}/{aud['obligations']} theorems audited, {time.time() - t0:.1f}s")
    return rc


def replay_file(prop, drv, path, findings):
    obj = json.loads(Path(path).read_text())
    case = obj["case"] if "case" in obj else obj
    rr = evaluate(prop, drv, [case])[0]
    print(json.dumps(dict(agree=rr["agree"], judge=rr["judge"], first_difference=first_diff(prop.compare_view(case, rr["impl"]), rr["model"] or [])), indent=1))
    if rr["judge"] is not None and not sig_known(rr["judge"], findings):
        print(f"VIOLATION property={prop.id} replay={path}")
        return 1
    if not rr["agree"]:
        print(f"VIOLATION property={prop.id} replay={path} no-failing-input-found")
        return 1
    return 0
