"""Canonical run digest for C03: delivery sequence + component statistics.

* deliveries: `(time ns, event type, target name)` in delivery order;
* statistics: floats as IEEE-754 bit patterns (`struct.pack('>d')`), ints exact, sets sorted,
  dict keys sorted, Instants/Durations as ns, enums by name, other objects by type name;
* uuid4-derived identifiers are renamed `U0, U1, …` by first appearance (they are random by
  construction and excluded by the property's observation; their *count* and positions stay).
"""
from __future__ import annotations

import dataclasses
import enum
import hashlib
import re
import struct

_UUID = re.compile(r"[0-9a-fA-F]{8}-[0-9a-fA-F]{4}-[0-9a-fA-F]{4}-[0-9a-fA-F]{4}-[0-9a-fA-F]{12}|\b[0-9a-f]{32}\b")


class Renamer:
    def __init__(self):
        self.map = {}

    def __call__(self, s: str) -> str:
        if "-" not in s and len(s) < 32:
            return s

        def rep(m):
            k = m.group(0).lower()
            if k not in self.map:
                self.map[k] = f"U{len(self.map)}"
            return self.map[k]

        return _UUID.sub(rep, s)


def fbits(x: float) -> str:
    return "f" + struct.pack(">d", float(x)).hex()


def canon(obj, rn: Renamer, depth=0):
    """canonical, process-independent rendering of a statistics value"""
    if depth > 8:
        return "<deep>"
    if obj is None:
        return "none"
    if isinstance(obj, bool):
        return "b1" if obj else "b0"
    if isinstance(obj, int):
        return f"i{obj}"
    if isinstance(obj, float):
        return fbits(obj)
    if isinstance(obj, str):
        return "s" + rn(obj)
    if isinstance(obj, bytes):
        return "y" + obj.hex()
    if isinstance(obj, enum.Enum):
        return "e" + obj.name
    ns = getattr(obj, "nanoseconds", None)
    if isinstance(ns, int) and type(obj).__name__ in ("Instant", "Duration", "_InfiniteInstant"):
        return f"t{ns}"
    if type(obj).__name__ == "_InfiniteInstant":
        return "tinf"
    if isinstance(obj, dict):
        items = [(canon(k, rn, depth + 1), canon(v, rn, depth + 1)) for k, v in obj.items()]
        # values are rendered in the dict's own order first (so uuid renaming follows that order),
        # then sorted by key for comparison
        items.sort(key=lambda kv: str(kv[0]))
        return ["d"] + [[k, v] for k, v in items]
    if isinstance(obj, (set, frozenset)):
        return ["S"] + sorted((canon(x, rn, depth + 1) for x in obj), key=str)
    if isinstance(obj, (list, tuple)) or type(obj).__name__ == "deque":
        return ["l"] + [canon(x, rn, depth + 1) for x in obj]
    if dataclasses.is_dataclass(obj) and not isinstance(obj, type):
        return canon({f.name: getattr(obj, f.name) for f in dataclasses.fields(obj)}, rn, depth + 1)
    try:
        import numpy as np

        if isinstance(obj, np.generic):
            return canon(obj.item(), rn, depth + 1)
        if isinstance(obj, np.ndarray):
            return canon(obj.tolist(), rn, depth + 1)
    except Exception:
        pass
    return "o" + type(obj).__name__


def flat(c) -> str:
    if isinstance(c, list):
        return "[" + ",".join(flat(x) for x in c) + "]"
    return str(c)


def digest_lines(result) -> list[str]:
    """the full canonical digest of a run as lines (deliveries first, then statistics, then status)"""
    rn = Renamer()
    mon = result.mon
    out = []
    for (t, typ, tgt) in mon.deliveries:
        out.append(f"D {t} {rn(typ).replace(' ', '_')} {rn(tgt).replace(' ', '_')}")
    out.append(f"N {mon.n_deliveries} cancelled {mon.n_cancelled} stale {mon.n_stale_pops}")
    for k in sorted(result.stats or {}):
        out.append(f"S {k} {flat(canon(result.stats[k], rn))}")
    out.append(f"E {result.error or 'none'} spin {mon.spin} runaway {mon.runaway}")
    return out


def sha(lines) -> str:
    h = hashlib.sha256()
    for ln in lines:
        h.update(ln.encode("utf-8", "replace"))
        h.update(b"\n")
    return h.hexdigest()
