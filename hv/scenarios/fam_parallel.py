"""ParallelSimulation: a model split into 2–4 partitions (threads) coupled by PartitionLinks and a barrier window.

Every partition has an aligned constant-rate Source → Sender.  A Sender forwards each arrival to the Hub entities of
the partitions it is linked to (cross-partition events, stamped now + delay with delay >= the link's min_latency) and to
its local Hub.  All sources tick on the same grid, so events from *different* partitions reach one Hub at the *same*
simulated instant: their order at the destination is fixed by the order in which the coordinator injects them
(declaration order of the partitions), never by which worker thread finished its window first.  Hubs answer some of the
events back (ring / mesh topologies), links may drop packets (coordinator RNG draws are consumed in processing order) or
resample the latency, `max_workers` is 1 … n, `window_size` is None (= min latency) or a fraction of it, and a third of
the scenarios have no links at all (independent partitions, no coordinator).

Wall time: Sender handlers call `base.wall_slow(partition index, n)`: the C03 environments slow one partition's handlers
by a real sleep (partition 0 in `after-activity`, partition 1 in `wallclock`, nobody elsewhere), so the thread completion
order of a window differs between environments while simulated time is untouched.

`build` returns the ParallelSimulation itself (it has `run()`); the monitor attaches one Monitor per partition
(`monitor.MultiMonitor`).
"""
from __future__ import annotations

import random

from hv.scenarios.base import T, dur_ms, seed_all, sub_seed, wall_slow

NAME = "parallel"
MODEL = None
COMPONENTS = ["ParallelSimulation", "SimulationPartition", "PartitionLink", "WindowedCoordinator", "Source", "Sink"]

TOPOLOGIES = ["fan-in", "ring", "mesh", "none"]


def gen_cfg(rng):
    n = rng.randint(2, 4)
    min_lat = dur_ms(rng, 5, 120)
    return {
        "end": rng.choice([0.6, 1.0, 1.5]),
        "n": n,
        "topology": rng.choice(TOPOLOGIES),
        "hub": rng.randrange(n),                                   # fan-in destination
        "min_lat_ms": min_lat,
        "extra_ms": rng.choice([0, 0, dur_ms(rng, 1, 60)]),        # delay above the minimum (same for all senders: ties)
        "window_frac": rng.choice([None, None, 1.0, 0.5, 0.25]),   # window_size = frac * min latency
        "max_workers": rng.choice([None, 1, 2, n]),
        "rate": rng.choice([20, 50, 100]),                         # aligned grid: 50 / 20 / 10 ms
        "per_tick": rng.randint(1, 3),                             # cross-partition events per arrival
        "loss": rng.choice([0.0, 0.0, 0.1, 0.5]),
        "lat_values_ms": rng.choice([None, None, [0, 1, 7]]),      # link.latency: min latency + one of these (resampled)
        "reply_pct": rng.choice([0, 30, 100]),
        "coord_seed": rng.choice([None, 7, 42]),
        "duration_arg": rng.random() < 0.3,                        # ParallelSimulation(duration=…) instead of end_time
    }


def gen_cfg_wide(rng):
    cfg = gen_cfg(rng)
    cfg.update({"n": max(cfg["n"], 3), "topology": rng.choice(["fan-in", "mesh"]), "max_workers": None,
                "rate": 100, "per_tick": 2, "loss": rng.choice([0.0, 0.3]), "extra_ms": 0})
    cfg["hub"] = cfg["hub"] % cfg["n"]
    return cfg


def build(cfg, seed):
    from happysimulator.core.entity import Entity
    from happysimulator.core.event import Event
    from happysimulator.core.temporal import Duration
    from happysimulator.distributions import UniformDistribution
    from happysimulator.load.source import Source
    from happysimulator.parallel import ParallelSimulation, PartitionLink, SimulationPartition

    seed_all(seed)
    n = cfg["n"]
    end = cfg["end"]
    min_lat = cfg["min_lat_ms"] / 1000.0
    delay = Duration.from_seconds(min_lat) + Duration.from_seconds(cfg["extra_ms"] / 1000.0)
    topo = cfg["topology"]
    names = [f"part{i}" for i in range(n)]

    # directed links i -> j
    pairs = []
    if topo == "fan-in":
        pairs = [(i, cfg["hub"] % n) for i in range(n) if i != cfg["hub"] % n]
    elif topo == "ring":
        pairs = [(i, (i + 1) % n) for i in range(n)] if n > 2 else [(0, 1), (1, 0)]
    elif topo == "mesh":
        pairs = [(i, j) for i in range(n) for j in range(n) if i != j]
    out_of = {i: [j for (a, j) in pairs if a == i] for i in range(n)}

    class Hub(Entity):
        """records what arrives, in arrival order; answers a share of the cross-partition events back"""

        def __init__(self, i):
            super().__init__(f"hub{i}")
            self.i = i
            self.rng = random.Random(sub_seed(seed, "hub", i))
            self.seen = []
            self.replied = 0

        def handle_event(self, event):
            src = event.context.get("from")
            self.seen.append([self.now.nanoseconds, event.event_type, src, event.context.get("k")])
            if event.event_type == "msg" and src is not None and src != self.i and src in out_of[self.i] \
                    and self.rng.randrange(100) < cfg["reply_pct"]:
                self.replied += 1
                return [Event(time=self.now + delay, event_type="reply", target=hubs[src],
                              context={"from": self.i, "k": event.context.get("k")})]
            return None

    class Sender(Entity):
        def __init__(self, i):
            super().__init__(f"sender{i}")
            self.i = i
            self.k = 0
            self.sent = 0

        def handle_event(self, event):
            wall_slow(self.i, n)
            self.k += 1
            out = [Event(time=self.now, event_type="local", target=hubs[self.i], context={"from": self.i, "k": self.k})]
            for j in out_of[self.i]:
                for c in range(cfg["per_tick"]):
                    self.sent += 1
                    out.append(Event(time=self.now + delay, event_type="msg", target=hubs[j],
                                     context={"from": self.i, "k": self.k * 10 + c}))
            return out

    hubs = [Hub(i) for i in range(n)]
    senders = [Sender(i) for i in range(n)]
    stop = max(0.1, end - min_lat - cfg["extra_ms"] / 1000.0 - 0.05)
    parts = []
    for i in range(n):
        src = Source.constant(rate=cfg["rate"], target=senders[i], event_type="tick", name=f"src{i}", stop_after=stop)
        parts.append(SimulationPartition(name=names[i], entities=[hubs[i], senders[i]], sources=[src]))

    lat = None
    if cfg["lat_values_ms"] is not None:
        # the coordinator calls `link.latency.sample()` and adds the result (seconds) to the send time
        lat = UniformDistribution([min_lat + v / 1000.0 for v in cfg["lat_values_ms"]], seed=sub_seed(seed, "link-latency"))
    links = [PartitionLink(source_partition=names[i], dest_partition=names[j], min_latency=min_lat, latency=lat,
                           packet_loss=cfg["loss"]) for (i, j) in pairs]
    kw = {}
    if cfg["window_frac"] is not None and links:
        kw["window_size"] = min_lat * cfg["window_frac"]
    if cfg["max_workers"] is not None:
        kw["max_workers"] = cfg["max_workers"]
    if cfg["coord_seed"] is not None:
        kw["seed"] = cfg["coord_seed"]
    if cfg["duration_arg"]:
        kw["duration"] = end
    else:
        kw["end_time"] = T(end)
    psim = ParallelSimulation(parts, links=links or None, **kw)

    obs = {}
    for h in hubs:
        obs[h.name] = (lambda h=h: {"n": len(h.seen), "replied": h.replied, "seen": h.seen[:400]})
    obs["senders"] = lambda: [[s.name, s.k, s.sent] for s in senders]
    return psim, obs
