"""Rate limiters: RateLimitedEntity with every policy (token bucket, leaky bucket, fixed window, sliding window,
adaptive AIMD) and a bounded / unbounded / zero-capacity queue, Inductor, NullRateLimiter and
DistributedRateLimiter instances sharing a KVStore with (possibly zero) latency. Load exceeds the limit:
grid-rate sources whose arrivals fall exactly on window boundaries, Poisson sources, same-instant bursts
scheduled on window boundaries, burst "echoes" a few microseconds later.

Coverage notes (widened):
  * every constructor parameter of every policy / limiter is drawn (TokenBucket capacity incl. fractional,
    initial_tokens below / at / above capacity; AdaptivePolicy min/max rate, increase_step (None, 0, small,
    large), decrease_factor near 0 and near 1, window so small that rate * window < 1; Inductor time constant
    0 .. seconds; DistributedRateLimiter global_limit, local_threshold near 0 .. 1, 1-4 instances);
  * every RateAdjustmentReason is fed back to adaptive policies;
  * windows / time constants / store latencies with `dur_ms` (lossy values, sub-ms decimals, > 1 s);
  * a "bank" option: one lane of EVERY kind in one scenario, fed in parallel;
  * sustained overload (up to 2 x 1000 req/s against limits of a few req/s) into bounded, zero and effectively
    unbounded queues; rates from 0.5/s (no grant within the run after the first) to 10000/s.
No hard-coded size constants in rate_limiter/*.py besides the default queue capacities (1000 / 10000), which the
"unbounded" setting (100000) exceeds and sustained overload with qcap 1000 reaches.
"""
from __future__ import annotations

from hv.scenarios.base import LOSSY_MS, T, dur_ms, seed_all, stats_of

NAME = "ratelimit"
MODEL = "C10"
COMPONENTS = ["RateLimitedEntity", "TokenBucketPolicy", "LeakyBucketPolicy", "FixedWindowPolicy",
              "SlidingWindowPolicy", "AdaptivePolicy", "Inductor", "NullRateLimiter", "DistributedRateLimiter",
              "KVStore", "Sink", "Source"]

KINDS = ["token", "leaky", "sliding", "fixed", "adaptive", "inductor", "null", "distributed"]
WINDOWS_MS = [100, 200, 250, 500, 1000, 70, 290, 330]   # 0.29 s is 289999999 ns after float truncation


def _stage(rng, kind):
    rate = rng.choice([0.5, 2.5, 3, 5, 7, 10, 20, 30, 50, 333, 1000, 10000])
    cap = rng.choice([1, 1, 2, 3, 5, 1.5, 50])
    return {
        "kind": kind,
        "qcap": rng.choice([0, 1, 2, 5, 20, 200, 1000, 100000]),
        "capacity": cap,
        "rate": rate,
        "init_tokens": rng.choice([-1, -1, 0, 1, 0.5, cap + 2]),     # -1 = default (full bucket)
        "window_ms": rng.choice(WINDOWS_MS) if rng.random() < 0.4 else dur_ms(rng, 5, rng.choice([300, 1500])),
        "max_req": rng.choice([1, 2, 3, 5, 8, 10, 100]),
        "tau_ms": dur_ms(rng, 1, rng.choice([200, 1000, 5000]), zero=True),
        "dec_pct": rng.choice([1, 50, 80, 99]),
        "inc_step_x10": rng.choice([-1, -1, 0, 5, 50, 1000]),        # -1 = default (initial_rate / 10)
        "min_rate_x10": rng.choice([1, 10, 10, 25]),                 # AdaptivePolicy.min_rate * 10
        "max_rate_mult": rng.choice([1, 2, 2, 100]),                 # max_rate = max(rate, min_rate) * this
        "fail_every": rng.choice([0, 1, 3, 7]),               # adaptive feedback: every n-th delivery is a failure
        "instances": rng.randint(1, 4),                    # distributed
        "store_ms": [dur_ms(rng, 0.5, 8, zero=True), dur_ms(rng, 0.5, rng.choice([8, 120]), zero=True)],
        "threshold_pct": rng.choice([1, 50, 80, 100]),
        "glimit": rng.choice([1, 2, 6, 20, 200]),                    # DistributedRateLimiter.global_limit
    }


def _lane(rng, kind, overload):
    stages = [_stage(rng, kind)]
    if kind != "distributed" and rng.random() < 0.3:
        stages.insert(0, _stage(rng, rng.choice(["null", "inductor", "token"])))
    window_ms = stages[-1]["window_ms"]
    bursts = []
    for _b in range(rng.randint(0, 3)):
        # on a window boundary of the limiter (or just before / after it)
        t = int(window_ms * rng.randint(1, max(1, int(1800 // window_ms)))) + rng.choice([0, 0, 0, -1, 1])
        if rng.random() < 0.3:
            t = rng.randint(1, 9)        # before the first source arrival: the burst is the limiter's first input
        bursts.append([max(1, t), rng.choice([2, 3, 8, 25])])
    return {
        "stages": stages,
        "sources": [{"rate": rng.choice([300, 1000] if overload else [10, 20, 40, 50, 100]),
                     "poisson": rng.random() < 0.35} for _ in range(rng.randint(1, 2))],
        "bursts": bursts,
        # every burst is repeated this many microseconds later (0 = no echo)
        "echo_us": rng.choice([0, 0, 0, 0, 0, 0, 0, 0, 0, 1, 10, 100]),
    }


def gen_cfg(rng):
    long_run = rng.random() < 0.12
    overload = (not long_run) and rng.random() < 0.3
    lanes = []
    if rng.random() < 0.5:
        # bank: every kind once
        for kind in KINDS:
            lanes.append(_lane(rng, kind, overload and rng.random() < 0.3))
    else:
        with_dist = rng.random() < 0.5
        n_lanes = rng.randint(3, 5)
        for i in range(n_lanes):
            kind = rng.choice(KINDS[:-1])
            if with_dist and i == 0:
                kind = "distributed"
            lanes.append(_lane(rng, kind, overload and rng.random() < 0.5))
    return {"lanes": lanes, "end": rng.choice([8.0, 10.0]) if long_run else rng.choice([2.0, 3.0, 4.0, 2.05, 3.003])}


def gen_cfg_wide(rng):
    """maximum-coverage configuration: every limiter kind once; the windowed policies get a window that loses a nanosecond
    in the seconds -> ns conversion (1.001 s ... 1.3 s) and fewer permits per window than arrivals (requests queue and a
    poll is armed for the next window start); the run covers several windows"""
    lanes = []
    for kind in KINDS:
        lane = _lane(rng, kind, False)
        st = lane["stages"][-1]
        if kind in ("sliding", "fixed", "adaptive"):
            st["window_ms"] = rng.choice([m for m in LOSSY_MS if m <= 1300])
            st["max_req"] = rng.choice([1, 2, 3, 5])
            st["qcap"] = rng.choice([5, 20, 200])
            lane["sources"] = [{"rate": rng.choice([10, 20, 40]), "poisson": rng.random() < 0.35}]
        lanes.append(lane)
    return {"lanes": lanes, "end": rng.choice([4.0, 5.0])}


def _policy(st):
    from happysimulator.components.rate_limiter import (AdaptivePolicy, FixedWindowPolicy, LeakyBucketPolicy,
                                                       SlidingWindowPolicy, TokenBucketPolicy)

    k = st["kind"]
    w = st["window_ms"] / 1000.0
    if k == "token":
        init = None if st["init_tokens"] < 0 else float(st["init_tokens"])
        return TokenBucketPolicy(capacity=st["capacity"], refill_rate=st["rate"], initial_tokens=init)
    if k == "leaky":
        return LeakyBucketPolicy(leak_rate=st["rate"])
    if k == "sliding":
        return SlidingWindowPolicy(window_size_seconds=w, max_requests=st["max_req"])
    if k == "fixed":
        return FixedWindowPolicy(requests_per_window=st["max_req"], window_size=w)
    if "min_rate_x10" not in st:                                     # corpus cfgs of the old shape
        return AdaptivePolicy(initial_rate=float(st["rate"]), min_rate=1.0, max_rate=max(100.0, 2.0 * st["rate"]),
                              decrease_factor=st["dec_pct"] / 100.0, window_size=w)
    mn = st["min_rate_x10"] / 10.0
    init = max(mn, float(st["rate"]))
    step = None if st["inc_step_x10"] < 0 else st["inc_step_x10"] / 10.0
    return AdaptivePolicy(initial_rate=init, min_rate=mn, max_rate=init * st["max_rate_mult"], increase_step=step,
                          decrease_factor=st["dec_pct"] / 100.0, window_size=w)


def _ns(instants, k=4):
    return {"n": len(instants), "first": [t.nanoseconds for t in instants[:k]],
            "last": [t.nanoseconds for t in instants[-k:]]}


def build(cfg, seed):
    from happysimulator.components.common import Sink
    from happysimulator.components.datastore import KVStore
    from happysimulator.components.rate_limiter import (DistributedRateLimiter, Inductor, NullRateLimiter,
                                                       RateAdjustmentReason, RateLimitedEntity)
    from happysimulator.core.entity import Entity
    from happysimulator.core.event import Event
    from happysimulator.core.simulation import Simulation
    from happysimulator.core.temporal import Instant
    from happysimulator.load.source import SimpleEventProvider, Source

    seed_all(seed)
    end = cfg["end"]

    class FeedbackSink(Entity):
        """terminal consumer; reports success / failure to adaptive policies"""

        def __init__(self, name, policies, fail_every, reasons):
            super().__init__(name)
            self.policies, self.fail_every, self.reasons = policies, fail_every, reasons
            self.n = 0
            self.nfail = 0
            self.types = {}
            self.keys = {}
            self.first = []

        def handle_event(self, event):
            self.n += 1
            self.types[event.event_type] = self.types.get(event.event_type, 0) + 1
            k = event.context.get("key", "?")
            self.keys[k] = self.keys.get(k, 0) + 1
            if len(self.first) < 6:
                self.first.append([self.now.nanoseconds, event.context.get("request_id", -1)])
            for p in self.policies:
                if self.fail_every and self.n % self.fail_every == 0:
                    self.nfail += 1
                    if self.reasons:
                        p.record_failure(self.now, reasons[self.nfail % len(reasons)])
                    else:
                        p.record_failure(self.now)
                else:
                    p.record_success(self.now)
            return None

        def stats(self):
            return {"n": self.n, "types": dict(self.types), "keys": dict(self.keys), "first": list(self.first)}

    entities, sources, obs, pre = [], [], {}, []
    reasons = [RateAdjustmentReason.FAILURE, RateAdjustmentReason.TIMEOUT, RateAdjustmentReason.THROTTLED]

    for li, lane in enumerate(cfg["lanes"]):
        adaptive = []
        last = lane["stages"][-1]
        fsink = FeedbackSink(f"l{li}.sink", adaptive, last["fail_every"], "min_rate_x10" in last)
        lat_sink = Sink(f"l{li}.latsink")
        entities += [fsink, lat_sink]
        obs[fsink.name] = fsink.stats
        obs[lat_sink.name] = (lambda s=lat_sink: {"n": s.events_received, "lat": s.latency_stats()})
        down = fsink
        heads = None
        for si in reversed(range(len(lane["stages"]))):
            st = lane["stages"][si]
            nm = f"l{li}.s{si}.{st['kind']}"
            kind = st["kind"]
            if kind == "null":
                ent = NullRateLimiter(nm, downstream=down)
            elif kind == "inductor":
                ent = Inductor(nm, downstream=down, time_constant=st["tau_ms"] / 1000.0, queue_capacity=st["qcap"])
                obs[nm] = stats_of(ent)
                obs[nm + ".more"] = (lambda e=ent: {"rate": e.estimated_rate, "depth": e.queue_depth,
                                                    "recv": _ns(e.received_times), "fwd": _ns(e.forwarded_times),
                                                    "drop": _ns(e.dropped_times), "hist": len(e.rate_history)})
            elif kind == "distributed":
                store = KVStore(f"l{li}.store", read_latency=st["store_ms"][0] / 1000.0,
                                write_latency=st["store_ms"][1] / 1000.0)
                entities.append(store)
                obs[store.name] = (lambda s=store: {"stats": stats_of(s)(), "size": s.size,
                                                    "items": [[k, s.get_sync(k)] for k in sorted(s.keys())]})
                insts = []
                for ii in range(st["instances"]):
                    tgt = down if ii % 2 == 0 else lat_sink
                    d = DistributedRateLimiter(f"{nm}.n{ii}", downstream=tgt, backing_store=store,
                                               global_limit=st.get("glimit", st["max_req"] * 2), window_size=st["window_ms"] / 1000.0,
                                               key_prefix=f"rl-lane{li}", local_threshold=st["threshold_pct"] / 100.0)
                    insts.append(d)
                    entities.append(d)
                    obs[d.name] = stats_of(d)
                    obs[d.name + ".more"] = (lambda e=d: {"local": e.local_count, "recv": _ns(e.received_times),
                                                          "fwd": _ns(e.forwarded_times), "drop": _ns(e.dropped_times),
                                                          "gc": [[t.nanoseconds, c] for t, c in e.global_counts[-5:]]})
                heads = insts
                break
            else:
                pol = _policy(st)
                if kind == "adaptive":
                    adaptive.append(pol)
                ent = RateLimitedEntity(nm, downstream=down, policy=pol, queue_capacity=st["qcap"])
                obs[nm] = stats_of(ent)

                def more(e=ent, p=pol, kind=kind):
                    d = {"depth": e.queue_depth, "recv": _ns(e.received_times), "fwd": _ns(e.forwarded_times),
                         "drop": _ns(e.dropped_times)}
                    if kind in ("token", "adaptive"):
                        d["tokens"] = p.tokens
                    if kind == "adaptive":
                        d.update({"rate": p.current_rate, "succ": p.successes, "fail": p.failures, "to": p.timeouts,
                                  "nhist": len(p.rate_history),
                                  "by_reason": [sum(1 for s in p.rate_history if s.reason == r) for r in
                                                (RateAdjustmentReason.SUCCESS, RateAdjustmentReason.FAILURE,
                                                 RateAdjustmentReason.TIMEOUT, RateAdjustmentReason.THROTTLED)],
                                  "inc": p.rate_increases, "dec": p.rate_decreases,
                                  "hist": [[s.time.nanoseconds, s.rate, s.reason.name] for s in p.rate_history[-4:]]})
                    return d

                obs[nm + ".more"] = more
            entities.append(ent)
            down = ent
        if heads is None:
            heads = [down]

        stop = T(end - 0.5)
        for si, sc in enumerate(lane["sources"]):
            head = heads[si % len(heads)]

            def ctx(time, count, _li=li, _si=si):
                return {"created_at": time, "request_id": count, "key": f"user-{(count * 3 + _si) % 17}"}

            mk = Source.poisson if sc["poisson"] else Source.constant
            src = mk(rate=sc["rate"], name=f"l{li}.src{si}",
                     event_provider=SimpleEventProvider(head, f"Req{li}", stop, context_fn=ctx))
            sources.append(src)
        echo_ns = lane.get("echo_us", 0) * 1000
        for bi, (t_ms, n) in enumerate(lane["bursts"]):
            if t_ms / 1000.0 >= end:
                continue
            for rep, off in enumerate([0, echo_ns] if echo_ns else [0]):
                for j in range(n):
                    head = heads[j % len(heads)]
                    at = Instant(t_ms * 1_000_000 + off)   # exact, no float rounding: really on the boundary
                    pre.append(Event(time=at, event_type=f"Burst{li}", target=head,
                                     context={"created_at": at, "request_id": 100000 + rep * 10000 + bi * 100 + j,
                                              "key": f"k{j % 5}"}))

    sim = Simulation(end_time=T(end), sources=sources, entities=entities)
    for e in pre:
        sim.schedule(e)
    return sim, obs
