"""Execution environments for C03: the same (family, cfg, seed) is run

  inproc          in this process;
  sub-h<N>        in a fresh interpreter with PYTHONHASHSEED=N (hv/scenarios/subrun.py);
  after-activity  in this process after unrelated activity: other scenarios built and run first, a
                  simulation whose handler RAISED (the exception is caught by the caller, as a user's
                  notebook would), spare Events created (global creation counter advanced), junk
                  allocated, and a second Simulation constructed between building and running the first;
  wallclock       in this process with time.time / time.monotonic / perf_counter (and the _ns forms)
                  replaced by a clock that jumps forward by minutes at every call; handlers of partition /
                  worker 1 are slowed in wall time.

Each returns the canonical digest lines of `hv/scenarios/digest.py`.
"""
from __future__ import annotations

import json
import os
import random
import subprocess
import sys
import time as _time
from pathlib import Path

ROOT = Path(__file__).resolve().parent.parent.parent
PY = "/venv/bin/python" if os.path.exists("/venv/bin/python") else sys.executable
HASH_SEEDS = (0, 1, 12345)


def digest_inproc(scen, before_run=None):
    from hv.scenarios.digest import digest_lines
    from hv.scenarios.monitor import run_scenario

    r = run_scenario(scen["family"], scen["cfg"], int(scen["seed"]), keep_pushes=False, before_run=before_run)
    return digest_lines(r)


# ----------------------------------------------------------------------------- after unrelated activity
_KEEP = []


def unrelated_activity(scen):
    """things a long-lived interpreter has done before our model is built"""
    from hv.scenarios import families
    from hv.scenarios.monitor import run_scenario

    fams = families()
    names = sorted(fams)
    rng = random.Random(f"activity/{scen['family']}/{scen['seed']}")
    # 1. other models built and run to completion (other families first, then the same family with other seeds)
    others = [n for n in names if n != scen["family"]]
    picks = [(rng.choice(others), None)] if others else []
    # the SAME model shape with other seeds: the same classes with the same constructor parameters (so any cache keyed
    # by shape is populated by a different seed first), then, sometimes, the same family with another configuration
    picks.append((scen["family"], scen["cfg"]))
    if rng.random() < 0.3:
        picks.append((scen["family"], None))
    for n, cfg in picks:
        try:
            run_scenario(n, fams[n].gen_cfg(rng) if cfg is None else cfg, rng.randrange(2**31), keep_pushes=False,
                         keep_deliveries=False, total_cap=8000)
        except Exception:
            pass
    # 1b. an earlier simulation that died: a handler raised in the middle of the run and the caller caught it
    failed_simulation(rng)
    # 2. the module-level RNGs have been used
    random.random()
    try:
        import numpy as np

        np.random.random()
    except Exception:
        pass
    # 3. junk that stays alive, so object addresses / id() order differ
    _KEEP.append([object() for _ in range(rng.randrange(1000, 5000))])


def failed_simulation(rng):
    """build and run a small simulation whose handler raises after a few events; the exception escapes `run()` and is
    caught here.  Whatever run() set up for its own duration (active heap / clock / creation counter, logging hooks)
    must not leak into the next simulation of the process."""
    from happysimulator.core.entity import Entity
    from happysimulator.core.event import Event
    from happysimulator.core.simulation import Simulation
    from happysimulator.core.temporal import Instant

    class Faulty(Entity):
        def __init__(self, name, die_at, as_generator):
            super().__init__(name)
            self.seen, self.die_at, self.as_generator = 0, die_at, as_generator

        def _step(self, event):
            self.seen += 1
            if self.seen >= self.die_at:
                raise ValueError("bad record in input")
            return [Event(time=event.time + 0.1, event_type="step", target=self)]

        def handle_event(self, event):
            if self.as_generator:
                return self._gen(event)
            return self._step(event)

        def _gen(self, event):
            yield 0.01
            return self._step(event)

    f = Faulty("faulty", rng.randint(1, 6), rng.random() < 0.5)
    sim = Simulation(entities=[f], end_time=Instant.from_seconds(10.0))
    sim.schedule(Event(time=Instant.Epoch, event_type="step", target=f))
    _KEEP.append([Event(time=Instant.from_seconds(1.0), event_type="orphan", target=f) for _ in range(rng.randint(0, 9))])
    try:
        sim.run()
    except ValueError:
        pass
    _KEEP.append(sim)


def _decoy(sim):
    """a second Simulation constructed (and spare Events created) between building and running `sim`"""
    from happysimulator.components.common import Sink
    from happysimulator.core.event import Event
    from happysimulator.core.simulation import Simulation
    from happysimulator.core.temporal import Instant
    from happysimulator.load.source import Source

    sink = Sink("decoy-sink")
    src = Source.constant(rate=7, target=sink, event_type="Decoy", name="decoy-src")
    other = Simulation(end_time=Instant.from_seconds(1.0), sources=[src], entities=[sink])
    spare = [Event(time=Instant.from_seconds(0.5), event_type="Spare", target=sink) for _ in range(137)]
    other.schedule(spare[:5])
    _KEEP.append((other, spare))


def _with_wall_slow(index, fn):
    """run `fn` while the harness entities of partition / worker `index` are slowed in wall time (threads finish their
    windows in another order; simulated time is untouched)"""
    from hv.scenarios import base

    base.WALL_SLOW = index
    try:
        return fn()
    finally:
        base.WALL_SLOW = None


def digest_after_activity(scen):
    unrelated_activity(scen)
    return _with_wall_slow(0, lambda: digest_inproc(scen, before_run=_decoy))


# ----------------------------------------------------------------------------- jumping wall clock
class _JumpClock:
    def __init__(self):
        self.t = 1_900_000_000.0
        self.k = 0

    def tick(self):
        self.k += 1
        self.t += 61.0 + (self.k % 7) * 1013.0
        return self.t


def digest_wallclock(scen):
    import time

    jc = _JumpClock()
    names = ["time", "monotonic", "perf_counter", "time_ns", "monotonic_ns", "perf_counter_ns"]
    saved = {n: getattr(time, n) for n in names}
    try:
        time.time = lambda: jc.tick()
        time.monotonic = lambda: jc.tick()
        time.perf_counter = lambda: jc.tick()
        time.time_ns = lambda: int(jc.tick() * 1e9)
        time.monotonic_ns = lambda: int(jc.tick() * 1e9)
        time.perf_counter_ns = lambda: int(jc.tick() * 1e9)
        return _with_wall_slow(1, lambda: digest_inproc(scen))
    finally:
        for n, f in saved.items():
            setattr(time, n, f)


# Execution order matters: `after-activity` runs FIRST, so that its earlier same-shape / other-seed model is the first
# of its shape in this interpreter (a cache keyed by shape is then filled by the wrong seed and every later run in the
# process, `inproc` included, differs from the fresh interpreters).
INPROC_ENVS = {"after-activity": digest_after_activity, "inproc": digest_inproc, "wallclock": digest_wallclock}


# ----------------------------------------------------------------------------- fresh interpreters
def spawn_sub(scens, hashseed, full=()):
    """start a fresh interpreter that digests all `scens`; returns the Popen"""
    env = dict(os.environ)
    env["PYTHONHASHSEED"] = str(hashseed)
    env["PYTHONPATH"] = str(ROOT) + (":" + env["PYTHONPATH"] if env.get("PYTHONPATH") else "")
    req = {"repo": os.environ.get("HV_REPO", "/repo"), "scenarios": scens, "full": list(full)}
    p = subprocess.Popen([PY, "-m", "hv.scenarios.subrun"], cwd=str(ROOT), env=env, stdin=subprocess.PIPE,
                         stdout=subprocess.PIPE, stderr=subprocess.PIPE, text=True)
    try:
        p.stdin.write(json.dumps(req))
        p.stdin.close()
    except Exception:
        pass
    return p


def _drain(p, timeout):
    """read stdout/stderr to the end (stdin is already closed)"""
    import threading

    bufs = {}

    def rd(name, f):
        bufs[name] = f.read()

    ts = [threading.Thread(target=rd, args=("o", p.stdout)), threading.Thread(target=rd, args=("e", p.stderr))]
    for t in ts:
        t.daemon = True
        t.start()
    try:
        p.wait(timeout=timeout)
    except subprocess.TimeoutExpired:
        raise
    for t in ts:
        t.join(5)
    return bufs.get("o", ""), bufs.get("e", "")


def collect_sub(p, timeout=300):
    try:
        out, err = _drain(p, timeout)
    except subprocess.TimeoutExpired:
        p.kill()
        return None, "timeout"
    if p.returncode != 0:
        return None, (err or "")[-400:]
    try:
        return json.loads(out.strip().splitlines()[-1]), None
    except Exception as e:
        return None, f"unparsable output: {e}: {out[-200:]}"


def first_difference(a, b):
    for k, (x, y) in enumerate(zip(a, b)):
        if x != y:
            return k, x, y
    if len(a) != len(b):
        k = min(len(a), len(b))
        return k, (a[k] if k < len(a) else "<end>"), (b[k] if k < len(b) else "<end>")
    return None
