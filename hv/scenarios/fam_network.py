"""Network: 3–6 nodes exchanging Ping/Pong (with timeouts + retries) and one-way gossip over a `Network`
topology whose links come from every condition factory of conditions.py plus hand-made `NetworkLink`s
(exponential latency, jitter, packet loss, finite bandwidth), wired as full mesh (bidirectional links),
per-direction links, default-link only, or a sparse topology with missing routes.  During the run partitions
are created and healed (symmetric and asymmetric, overlapping windows, selective `Partition.heal()` and
`Network.heal_partition()`), both by a harness admin entity and by the library's fault schedule
(`NetworkPartition`, `RandomPartition`, `InjectLatency`, `InjectPacketLoss`)."""
from __future__ import annotations

import random

from hv.scenarios.base import T, seed_all, stats_of, sub_seed

NAME = "network"
MODEL = None
COMPONENTS = ["Network", "NetworkLink", "Partition", "local_network", "datacenter_network", "cross_region_network",
              "internet_network", "satellite_network", "lossy_network", "slow_network", "mobile_3g_network",
              "mobile_4g_network", "FaultSchedule", "NetworkPartition", "RandomPartition", "InjectLatency",
              "InjectPacketLoss", "ConstantLatency", "ExponentialLatency", "Source"]

KINDS = ["local", "datacenter", "cross_region", "internet", "satellite", "lossy", "slow", "mobile_3g", "mobile_4g",
         "custom", "custom"]
NODE_NAMES = ["node-a", "node-b", "edge-17", "edge-3", "core-x", "k9"]


def _link_cfg(rng):
    return {
        "kind": rng.choice(KINDS),
        "loss": rng.choice([0.0, 0.05, 0.2, 0.5]),
        "lat_ms": rng.randint(1, 60),
        "exp": rng.random() < 0.5,
        "jit_ms": rng.choice([0, 0, 1, 5, 20]),
        "jit_exp": rng.random() < 0.5,
        "bw": rng.choice([None, 64_000, 1_000_000, 100_000_000]),
    }


def gen_cfg(rng):
    n = rng.randint(3, 6)
    end = rng.choice([2.0, 3.0, 4.0, 6.0])
    end_ms = int(end * 1000)
    pairs = [[i, j] for i in range(n) for j in range(i + 1, n)]
    topo = rng.choice(["mesh", "mesh", "directed", "default", "sparse"])

    def window():
        a = rng.randint(100, end_ms - 600)
        return a, a + rng.randint(100, 1500)

    def groups():
        idx = list(range(n))
        rng.shuffle(idx)
        k = rng.randint(1, n - 1)
        ga = idx[:k]
        gb = idx[k:]
        if rng.random() < 0.3 and len(gb) > 1:   # groups that do not cover every node
            gb = gb[:-1]
        return ga, gb

    parts = []
    for _ in range(rng.randint(1, 4)):
        a, b = window()
        ga, gb = groups()
        parts.append({"start": a, "end": b, "a": ga, "b": gb, "asym": rng.random() < 0.4,
                      "via": rng.choice(["admin", "admin", "fault"])})
    lat_faults, loss_faults = [], []
    for _ in range(rng.randint(0, 3)):
        a, b = window()
        i, j = rng.sample(range(n), 2)
        lat_faults.append({"src": i, "dst": j, "extra_ms": rng.choice([5, 50, 300]), "start": a, "end": b})
    for _ in range(rng.randint(0, 3)):
        a, b = window()
        i, j = rng.sample(range(n), 2)
        loss_faults.append({"src": i, "dst": j, "rate": rng.choice([0.1, 0.5, 1.0]), "start": a, "end": b})
    return {
        "n": n,
        "end": end,
        "topo": topo,
        "links": [dict(_link_cfg(rng), pair=p) for p in pairs],
        "rev_links": [_link_cfg(rng) for _ in pairs],          # used by topo == "directed"
        "default": _link_cfg(rng),
        "sparse_drop": [rng.random() < 0.3 for _ in pairs],   # topo == "sparse": pairs without a route
        "rates": [rng.choice([5, 10, 20, 40]) for _ in range(n)],
        "poisson": [rng.random() < 0.5 for _ in range(n)],
        "gossip_ms": rng.choice([0, 50, 100, 250]),
        "fanout": rng.randint(1, 2),
        "proc_ms": rng.randint(0, 5),
        "timeout_ms": rng.choice([20, 80, 300, 1500]),
        "retries": rng.randint(0, 3),
        "size": rng.choice([0, 64, 1500, 9000]),
        "bad_meta_every": rng.choice([0, 0, 7, 13]),
        "parts": parts,
        "heal_all_ms": rng.choice([None, None, rng.randint(500, end_ms - 200)]),
        "random_partition": ({"mtbf_ms": rng.choice([200, 500, 1000]), "mttr_ms": rng.choice([100, 300])}
                             if rng.random() < 0.4 else None),
        "lat_faults": lat_faults,
        "loss_faults": loss_faults,
    }


def _mk_link(lc, name):
    from happysimulator.components.network import (NetworkLink, cross_region_network, datacenter_network,
                                                   internet_network, local_network, lossy_network,
                                                   mobile_3g_network, mobile_4g_network, satellite_network,
                                                   slow_network)
    from happysimulator.distributions import ConstantLatency, ExponentialLatency

    k = lc["kind"]
    if k == "local":
        return local_network(name)
    if k == "datacenter":
        return datacenter_network(name)
    if k == "cross_region":
        return cross_region_network(name)
    if k == "internet":
        return internet_network(name)
    if k == "satellite":
        return satellite_network(name)
    if k == "lossy":
        return lossy_network(lc["loss"], name=name, base_latency=lc["lat_ms"] / 1000.0)
    if k == "slow":
        return slow_network(lc["lat_ms"] / 1000.0 * 4, name=name, bandwidth_bps=lc["bw"] or 1_000_000)
    if k == "mobile_3g":
        return mobile_3g_network(name)
    if k == "mobile_4g":
        return mobile_4g_network(name)
    lat = lc["lat_ms"] / 1000.0
    jit = None
    if lc["jit_ms"]:
        j = lc["jit_ms"] / 1000.0
        jit = ExponentialLatency(j) if lc["jit_exp"] else ConstantLatency(j)
    return NetworkLink(name=name, latency=ExponentialLatency(lat) if lc["exp"] else ConstantLatency(lat),
                       bandwidth_bps=lc["bw"], packet_loss_rate=lc["loss"], jitter=jit)


def build(cfg, seed):
    from happysimulator.components.network import Network
    from happysimulator.core.entity import Entity
    from happysimulator.core.event import Event
    from happysimulator.core.simulation import Simulation
    from happysimulator.core.temporal import Instant
    from happysimulator.faults import (FaultSchedule, InjectLatency, InjectPacketLoss, NetworkPartition,
                                       RandomPartition)
    from happysimulator.load.source import Source

    seed_all(seed)
    n, end = cfg["n"], cfg["end"]
    names = NODE_NAMES[:n]
    topo = cfg["topo"]

    default_link = _mk_link(cfg["default"], "default-link") if topo in ("default", "mesh", "directed") else None
    if topo == "mesh" and not cfg["default"]["exp"]:
        default_link = None            # some meshes have no default link at all
    net = Network(name="net", default_link=default_link)

    class Node(Entity):
        def __init__(self, i):
            super().__init__(names[i])
            self.i = i
            self.rng = random.Random(sub_seed(seed, "node", i))
            self.peers = []
            self.next_id = 0
            self.pending = {}        # ping id -> (sent at ns, attempt, peer index)
            self.pings_sent = self.pings_rx = self.pongs_rx = self.late_pongs = 0
            self.timeouts = self.retries = self.gave_up = 0
            self.gossip_rx = self.gossip_tx = self.bad_sent = 0
            self.version = {nm: 0 for nm in names}
            self.rtts = []
            self.ticks = 0

        def _ping(self, peer_i, attempt, pid=None):
            if pid is None:
                self.next_id += 1
                pid = f"{self.name}#{self.next_id}"
            self.pending[pid] = (self.now.nanoseconds, attempt, peer_i)
            self.pings_sent += 1
            ev = net.send(self, nodes[peer_i], "Ping", payload={"ping_id": pid, "payload_size": cfg["size"],
                                                                "user": f"user-{self.next_id % 17}"})
            to = Event(time=self.now + cfg["timeout_ms"] / 1000.0, event_type="PingTimeout", target=self,
                       context={"ping_id": pid, "attempt": attempt})
            return [ev, to]

        def handle_event(self, event):
            et = event.event_type
            if et == "Tick":
                self.ticks += 1
                out = []
                peer_i = self.rng.choice(self.peers)
                out.extend(self._ping(peer_i, 0))
                be = cfg["bad_meta_every"]
                if be and self.ticks % be == 0:
                    # an event addressed to the network without routing metadata (dropped: no route)
                    self.bad_sent += 1
                    out.append(Event(time=self.now, event_type="Stray", target=net))
                return out
            if et == "GossipTick":
                self.version[self.name] += 1
                out = []
                for p in self.rng.sample(self.peers, min(cfg["fanout"], len(self.peers))):
                    self.gossip_tx += 1
                    out.append(net.send(self, nodes[p], "Gossip", payload={"versions": dict(self.version),
                                                                           "size": 32 * n}, daemon=True))
                out.append(Event(time=self.now + cfg["gossip_ms"] / 1000.0, event_type="GossipTick", target=self,
                                 daemon=True))
                return out
            md = event.context.get("metadata", {})
            if et == "Ping":
                self.pings_rx += 1
                return self._reply(md)
            if et == "Pong":
                pid = md["ping_id"]
                ent = self.pending.pop(pid, None)
                if ent is None:
                    self.late_pongs += 1
                    return None
                self.pongs_rx += 1
                self.rtts.append(self.now.nanoseconds - ent[0])
                return None
            if et == "PingTimeout":
                pid = event.context["ping_id"]
                ent = self.pending.get(pid)
                if ent is None or ent[1] != event.context["attempt"]:
                    return None
                self.timeouts += 1
                del self.pending[pid]
                if ent[1] < cfg["retries"]:
                    self.retries += 1
                    return self._ping(ent[2], ent[1] + 1, pid)
                self.gave_up += 1
                return None
            if et == "Gossip":
                self.gossip_rx += 1
                for k, v in md["versions"].items():
                    if v > self.version[k]:
                        self.version[k] = v
                return None
            return None

        def _reply(self, md):
            if cfg["proc_ms"]:
                yield cfg["proc_ms"] / 1000.0
            src = by_name[md["source"]]
            return [net.send(self, src, "Pong", payload={"ping_id": md["ping_id"], "payload_size": 16})]

    nodes = [Node(i) for i in range(n)]
    by_name = {nd.name: nd for nd in nodes}
    for nd in nodes:
        nd.peers = [j for j in range(n) if j != nd.i]

    links = []
    for k, lc in enumerate(cfg["links"]):
        i, j = lc["pair"]
        a, b = nodes[i], nodes[j]
        if topo == "default":
            continue
        if topo == "sparse" and cfg["sparse_drop"][k]:
            continue
        if topo == "directed":
            l1 = _mk_link(lc, f"l-{a.name}>{b.name}")
            l2 = _mk_link(cfg["rev_links"][k], f"l-{b.name}>{a.name}")
            net.add_link(a, b, l1)
            net.add_link(b, a, l2)
            links += [l1, l2]
        else:
            l1 = _mk_link(lc, f"l-{a.name}={b.name}")
            net.add_bidirectional_link(a, b, l1)
            links.append(l1)

    class Admin(Entity):
        def __init__(self):
            super().__init__("admin")
            self.handles = {}
            self.log = []

        def handle_event(self, event):
            k = event.context.get("k")
            if event.event_type == "part":
                p = cfg["parts"][k]
                h = net.partition([nodes[i] for i in p["a"]], [nodes[i] for i in p["b"]], asymmetric=p["asym"])
                self.handles[k] = h
                self.log.append(["part", k, h.is_active])
            elif event.event_type == "heal":
                h = self.handles.get(k)
                if h is not None:
                    h.heal()
                    h.heal()   # idempotent
                    self.log.append(["heal", k, h.is_active])
            elif event.event_type == "heal_all":
                net.heal_partition()
                self.log.append(["heal_all", -1, any(h.is_active for h in self.handles.values())])
            return None

    admin = Admin()
    faults = FaultSchedule("faults")
    for p in cfg["parts"]:
        if p["via"] == "fault":
            faults.add(NetworkPartition([names[i] for i in p["a"]], [names[i] for i in p["b"]],
                                        start=p["start"] / 1000.0, end=p["end"] / 1000.0, asymmetric=p["asym"]))
    has_link = (lambda i, j: net.get_link(names[i], names[j]) is not None)
    for f in cfg["lat_faults"]:
        if has_link(f["src"], f["dst"]):
            faults.add(InjectLatency(names[f["src"]], names[f["dst"]], extra_ms=f["extra_ms"],
                                     start=f["start"] / 1000.0, end=f["end"] / 1000.0))
    for f in cfg["loss_faults"]:
        if has_link(f["src"], f["dst"]):
            faults.add(InjectPacketLoss(names[f["src"]], names[f["dst"]], loss_rate=f["rate"],
                                        start=f["start"] / 1000.0, end=f["end"] / 1000.0))
    if cfg["random_partition"]:
        rp = cfg["random_partition"]
        faults.add(RandomPartition(list(names), mtbf=rp["mtbf_ms"] / 1000.0, mttr=rp["mttr_ms"] / 1000.0,
                                   seed=sub_seed(seed, "random-partition")))

    sources = []
    for i, nd in enumerate(nodes):
        mk = Source.poisson if cfg["poisson"][i] else Source.constant
        sources.append(mk(rate=cfg["rates"][i], target=nd, event_type="Tick", name=f"src-{nd.name}",
                          stop_after=end - 0.3))
    sim = Simulation(end_time=T(end), sources=sources, entities=[net, admin, *nodes],
                     fault_schedule=faults)

    def at(ms, typ, **ctx):
        sim.schedule(Event(time=Instant.from_seconds(ms / 1000.0), event_type=typ, target=admin, context=ctx))

    for k, p in enumerate(cfg["parts"]):
        if p["via"] == "admin":
            at(p["start"], "part", k=k)
            at(p["end"], "heal", k=k)
    if cfg["heal_all_ms"] is not None:
        at(cfg["heal_all_ms"], "heal_all")
    if cfg["gossip_ms"]:
        for i, nd in enumerate(nodes):
            sim.schedule(Event(time=Instant.from_seconds((cfg["gossip_ms"] + i) / 1000.0), event_type="GossipTick",
                               target=nd, daemon=True))

    def net_obs():
        return {"routed": net.events_routed, "no_route": net.events_dropped_no_route,
                "partition": net.events_dropped_partition,
                "matrix": [[s.source, s.destination, s.packets_sent, s.packets_dropped, s.bytes_transmitted]
                           for s in net.traffic_matrix()],
                "partitioned": [[a, b, net.is_partitioned(a, b)] for a in names for b in names if a != b],
                "default": None if net.default_link is None else
                [net.default_link.packets_sent, net.default_link.packets_dropped,
                 net.default_link.bytes_transmitted, net.default_link.current_utilization,
                 net.default_link.packet_loss_rate]}

    def link_obs():
        out = []
        for a in names:
            for b in names:
                if a == b:
                    continue
                l = net.get_link(a, b)
                if l is None:
                    out.append([a, b, None])
                else:
                    st = l.link_stats
                    out.append([a, b, l.name, st.packets_sent, st.packets_dropped, st.bytes_transmitted,
                                l.current_utilization, l.packet_loss_rate])
        return out

    obs = {"net": net_obs, "links": link_obs, "faults": stats_of(faults), "admin": lambda: admin.log}
    for nd in nodes:
        obs[nd.name] = (lambda nd=nd: {
            "ticks": nd.ticks, "pings_sent": nd.pings_sent, "pings_rx": nd.pings_rx, "pongs_rx": nd.pongs_rx,
            "late": nd.late_pongs, "timeouts": nd.timeouts, "retries": nd.retries, "gave_up": nd.gave_up,
            "gossip_rx": nd.gossip_rx, "gossip_tx": nd.gossip_tx, "bad": nd.bad_sent,
            "pending": sorted(nd.pending), "version": nd.version, "rtt_n": len(nd.rtts),
            "rtt_sum": sum(nd.rtts), "rtt_last": nd.rtts[-5:]})
    return sim, obs
