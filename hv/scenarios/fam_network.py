"""Network: 2–6 nodes exchanging Ping/Pong (with timeouts + retries) and one-way gossip over a `Network`
topology whose links come from every condition factory of conditions.py plus hand-made `NetworkLink`s
(constant / exponential / percentile-fitted latency, jitter, packet loss 0 … 1, bandwidth None / 0 / tiny … 10 Gbps,
explicit `egress`), wired as full mesh (bidirectional links), per-direction links, default-link only (optionally with a
gateway egress), or a sparse topology with missing routes.  `all_kinds` deals the link kinds round-robin so that one
scenario carries every factory.  During the run partitions are created and healed (symmetric and asymmetric,
overlapping / zero-length / past-the-end windows, selective `Partition.heal()` and `Network.heal_partition()`), both by
a harness admin entity and by the library's fault schedule (`NetworkPartition`, `RandomPartition`, `InjectLatency`,
`InjectPacketLoss`, with and without `network_name`, some cancelled through their `FaultHandle`).  Optionally a second
`Network` ("net-b", a ring) carries the gossip, and a stand-alone `NetworkLink(egress=...)` pipe is fed directly by a
source.

Durations (latencies, jitter, ping timeout, gossip period, processing time, partition / fault windows, heal-all time,
mtbf / mttr, run end) are drawn with `dur_ms`: values that lose a nanosecond in `Instant.from_seconds`, sub-ms
values, timeout shorter than the link latency, gossip period longer than the run, windows above 1 s.  Load regimes:
light, one or two "hot" nodes at a few hundred pings/s, same-instant bursts, payloads from 0 to 1 MB on links from
8 kbit/s upward (transmission time far above the run length)."""
from __future__ import annotations

import random

from hv.scenarios.base import T, dur_ms, seed_all, stats_of, sub_seed, shared

NAME = "network"
MODEL = None
COMPONENTS = ["Network", "NetworkLink", "Partition", "local_network", "datacenter_network", "cross_region_network",
              "internet_network", "satellite_network", "lossy_network", "slow_network", "mobile_3g_network",
              "mobile_4g_network", "FaultSchedule", "NetworkPartition", "RandomPartition", "InjectLatency",
              "InjectPacketLoss", "ConstantLatency", "ExponentialLatency", "PercentileFittedLatency", "Source"]

KINDS = ["local", "datacenter", "cross_region", "internet", "satellite", "lossy", "slow", "mobile_3g", "mobile_4g",
         "custom", "custom"]
NODE_NAMES = ["node-a", "node-b", "edge-17", "edge-3", "core-x", "k9"]
LOSS = [0.0, 0.0, 0.001, 0.05, 0.2, 0.5, 0.9, 1.0]
BANDWIDTH = [None, None, 0, 8_000, 64_000, 1_000_000, 100_000_000, 10_000_000_000]


def _link_cfg(rng, kind=None):
    lat_kind = rng.choice(["const", "const", "exp", "exp", "pfit"])
    return {
        "kind": kind or rng.choice(KINDS),
        "loss": rng.choice(LOSS),
        "lat_ms": dur_ms(rng, 0.05, rng.choice([5, 60, 60, 700]), zero=True),
        "exp": lat_kind == "exp",
        "lat_kind": lat_kind,
        "pfit_tail": rng.choice([None, 3, 10]),        # p99 = tail * p50 for the percentile-fitted latency
        "jit_ms": 0 if rng.random() < 0.4 else dur_ms(rng, 0.1, rng.choice([5, 20, 120])),
        "jit_exp": rng.random() < 0.5,
        # jitter that can go NEGATIVE (the link clamps the total delay at zero): a negative constant built with the
        # distributions' `-` operator, zero-mean uniform / alternating ±a jitter (LatencyDistribution subclasses);
        # amplitudes below and above the base latency.  None: the non-negative kinds above (jit_exp)
        "jit_kind": rng.choice([None, None, "neg-const", "sym", "alt"]),
        "lat_neg": rng.random() < 0.05,                 # the base latency itself below zero (`ConstantLatency(x) - 2x`)
        "bw": rng.choice(BANDWIDTH),
    }


def gen_cfg(rng):
    n = rng.choice([2, 3, 3, 4, 4, 5, 5, 6, 6])
    long_run = rng.random() < 0.10
    end = rng.choice([8.0, 10.0, 12.0]) if long_run else rng.choice([2.0, 3.0, 4.0, 6.0, 2.05, 3.001, 4.1])
    end_ms = int(end * 1000)
    pairs = [[i, j] for i in range(n) for j in range(i + 1, n)]
    topo = rng.choice(["mesh", "mesh", "directed", "default", "sparse"])
    all_kinds = rng.random() < 0.5
    two_nets = rng.random() < 0.35

    def window():
        a = dur_ms(rng, 20, end_ms - 100)
        length = dur_ms(rng, 1, 2500, zero=True)
        return a, round(a + length, 3)          # may lie beyond the end of the run; may be empty

    def groups():
        idx = list(range(n))
        rng.shuffle(idx)
        k = rng.randint(1, n - 1)
        ga = idx[:k]
        gb = idx[k:]
        if rng.random() < 0.3 and len(gb) > 1:   # groups that do not cover every node
            gb = gb[:-1]
        return ga, gb

    def which_net():
        return rng.choice([None, None, "net", "net-b"]) if two_nets else rng.choice([None, None, "net"])

    parts = []
    for _ in range(rng.randint(1, 4)):
        a, b = window()
        ga, gb = groups()
        parts.append({"start": a, "end": b, "a": ga, "b": gb, "asym": rng.random() < 0.4,
                      "via": rng.choice(["admin", "admin", "fault"]), "net": which_net()})
    lat_faults, loss_faults = [], []
    for _ in range(rng.randint(0, 3)):
        a, b = window()
        i, j = rng.sample(range(n), 2)
        lat_faults.append({"src": i, "dst": j, "extra_ms": dur_ms(rng, 0.1, 800), "start": a, "end": b,
                           "net": which_net()})
    for _ in range(rng.randint(0, 3)):
        a, b = window()
        i, j = rng.sample(range(n), 2)
        loss_faults.append({"src": i, "dst": j, "rate": rng.choice([0.0, 0.1, 0.5, 1.0]), "start": a, "end": b,
                            "net": which_net()})

    # load regime: light everywhere, or one / two hot nodes (short runs only), plus same-instant bursts
    rates = [rng.choice([5, 10, 20, 40]) for _ in range(n)]
    regime = "light" if long_run else rng.choice(["light", "light", "hot", "hot2"])
    if regime != "light":
        budget = 1400.0 / end                      # total hot pings per second so that a run stays below ~2000 pings
        hot = rng.sample(range(n), 1 if regime == "hot" or n < 3 else 2)
        for i in hot:
            rates[i] = int(min(400, budget / len(hot)))
    bursts = [{"at": dur_ms(rng, 10, end_ms - 400), "node": rng.randrange(n), "k": rng.choice([5, 20, 60])}
              for _ in range(rng.choice([0, 0, 1, 2]))]
    n_faults = len(lat_faults) + len(loss_faults) + sum(1 for p in parts if p["via"] == "fault")
    cancels = [{"h": rng.randrange(n_faults), "at": dur_ms(rng, 1, end_ms - 100)}
               for _ in range(rng.choice([0, 0, 1, 2]))] if n_faults else []
    kinds_cycle = list(KINDS[:10])
    rng.shuffle(kinds_cycle)

    def lk(k):
        return _link_cfg(rng, kinds_cycle[k % len(kinds_cycle)] if all_kinds else None)

    return {
        "n": n,
        "end": end,
        "topo": topo,
        "all_kinds": all_kinds,
        "links": [dict(lk(k), pair=p) for k, p in enumerate(pairs)],
        "rev_links": [lk(len(pairs) + k) for k, _ in enumerate(pairs)],   # used by topo == "directed"
        "default": _link_cfg(rng),
        "default_egress": rng.choice([None, None, rng.randrange(n)]),       # gateway node behind the default link
        "sparse_drop": [rng.random() < 0.3 for _ in pairs],   # topo == "sparse": pairs without a route
        "rates": rates,
        "poisson": [rng.random() < 0.5 for _ in range(n)],
        "bursts": bursts,
        "gossip_ms": 0 if rng.random() < 0.25 else dur_ms(rng, 20, rng.choice([100, 250, 1500, end_ms + 500])),
        "fanout": rng.randint(1, 2),
        "proc_ms": 0 if rng.random() < 0.3 else dur_ms(rng, 0.1, rng.choice([5, 50])),
        "timeout_ms": dur_ms(rng, 1, rng.choice([20, 80, 300, 2500])),
        "retries": rng.randint(0, 3),
        "size": rng.choice([0, 1, 64, 1500, 9000, 1_000_000]),
        "bad_meta_every": rng.choice([0, 0, 7, 13]),
        "parts": parts,
        "heal_all_ms": rng.choice([None, None, dur_ms(rng, 100, end_ms - 100)]),
        "random_partition": ({"mtbf_ms": dur_ms(rng, 20, rng.choice([200, 1000, 2500])),
                              "mttr_ms": dur_ms(rng, 5, rng.choice([100, 300, 1500])),
                              "net": which_net()}
                             if rng.random() < 0.4 else None),
        "lat_faults": lat_faults,
        "loss_faults": loss_faults,
        "cancels": cancels,
        "two_nets": two_nets,
        "net_b_first": two_nets and rng.random() < 0.3,    # which network a fault without network_name finds first
        "ring": [_link_cfg(rng) for _ in range(n)],
        "pipe": (dict(_link_cfg(rng, "custom"), rate=rng.choice([5, 20, 80]), poisson=rng.random() < 0.5)
                 if rng.random() < 0.5 else None),
    }


def _latency(lc):
    from happysimulator.distributions import ConstantLatency, ExponentialLatency, PercentileFittedLatency

    lat = lc["lat_ms"] / 1000.0
    kind = lc.get("lat_kind", "exp" if lc["exp"] else "const")
    if lc.get("lat_neg") and lat > 0:
        return ConstantLatency(lat) - 2 * lat
    if lat <= 0 or kind == "const":
        return ConstantLatency(lat)
    if kind == "pfit":
        tail = lc.get("pfit_tail")
        return PercentileFittedLatency(p50=lat, p99=lat * tail) if tail else PercentileFittedLatency(p50=lat)
    return ExponentialLatency(lat)


def _signed_jitter(kind, amplitude):
    """zero-mean jitter as a user-defined LatencyDistribution: uniform on [-a, a] drawn from the module-level `random`
    (seeded by seed_all), or the deterministic sequence +a, -a, +a, …"""
    import random as _random

    from happysimulator.core.temporal import Duration
    from happysimulator.distributions.latency_distribution import LatencyDistribution

    class SignedJitter(LatencyDistribution):
        def __init__(self):
            super().__init__(0.0)
            self.n = 0

        def get_latency(self, current_time):
            self.n += 1
            if kind == "alt":
                return Duration.from_seconds(amplitude if self.n % 2 else -amplitude)
            return Duration.from_seconds(_random.uniform(-amplitude, amplitude))

    return SignedJitter()


def _mk_link(lc, name, egress=None):
    from happysimulator.components.network import (NetworkLink, cross_region_network, datacenter_network,
                                                   internet_network, local_network, lossy_network,
                                                   mobile_3g_network, mobile_4g_network, satellite_network,
                                                   slow_network)
    from happysimulator.distributions import ConstantLatency, ExponentialLatency

    k = lc["kind"]
    link = None
    if k == "local":
        link = local_network(name)
    elif k == "datacenter":
        link = datacenter_network(name)
    elif k == "cross_region":
        link = cross_region_network(name)
    elif k == "internet":
        link = internet_network(name)
    elif k == "satellite":
        link = satellite_network(name)
    elif k == "lossy":
        link = lossy_network(lc["loss"], name=name, base_latency=lc["lat_ms"] / 1000.0)
    elif k == "slow":
        link = slow_network(lc["lat_ms"] / 1000.0 * 4, name=name, bandwidth_bps=lc["bw"] or 1_000_000)
    elif k == "mobile_3g":
        link = mobile_3g_network(name)
    elif k == "mobile_4g":
        link = mobile_4g_network(name)
    if link is not None:
        if egress is not None:
            link.egress = egress
        return link
    jit = None
    if lc["jit_ms"]:
        j = lc["jit_ms"] / 1000.0
        jk = lc.get("jit_kind")
        if jk == "neg-const":
            jit = ConstantLatency(j) - 2 * j
        elif jk in ("sym", "alt"):
            jit = _signed_jitter(jk, j)
        else:
            jit = ExponentialLatency(j) if lc["jit_exp"] else ConstantLatency(j)
    return NetworkLink(name=name, latency=_latency(lc), bandwidth_bps=lc["bw"], packet_loss_rate=lc["loss"],
                       jitter=jit, egress=egress)


def build(cfg, seed):
    from happysimulator.components.network import Network
    from happysimulator.core.entity import Entity
    from happysimulator.core.event import Event
    from happysimulator.core.simulation import Simulation
    from happysimulator.core.temporal import Instant
    from happysimulator.faults import (FaultSchedule, InjectLatency, InjectPacketLoss, NetworkPartition,
                                       RandomPartition)
    from happysimulator.load.source import Source

    seed_all(seed)
    n, end = cfg["n"], cfg["end"]
    names = NODE_NAMES[:n]
    topo = cfg["topo"]
    two_nets = cfg.get("two_nets", False)

    class Node(Entity):
        def __init__(self, i):
            super().__init__(names[i])
            self.i = i
            self.rng = random.Random(sub_seed(seed, "node", i))
            self.peers = []
            self.next_id = 0
            self.pending = {}        # ping id -> (sent at ns, attempt, peer index)
            self.pings_sent = self.pings_rx = self.pongs_rx = self.late_pongs = 0
            self.timeouts = self.retries = self.gave_up = 0
            self.gossip_rx = self.gossip_tx = self.bad_sent = 0
            self.misrouted = 0
            self.version = {nm: 0 for nm in names}
            self.rtts = []
            self.ticks = 0

        def _ping(self, peer_i, attempt, pid=None):
            if pid is None:
                self.next_id += 1
                pid = f"{self.name}#{self.next_id}"
            self.pending[pid] = (self.now.nanoseconds, attempt, peer_i)
            self.pings_sent += 1
            ev = net.send(self, nodes[peer_i], "Ping", payload={"ping_id": pid, "payload_size": cfg["size"],
                                                                "user": f"user-{self.next_id % 17}"})
            to = Event(time=self.now + cfg["timeout_ms"] / 1000.0, event_type="PingTimeout", target=self,
                       context={"ping_id": pid, "attempt": attempt})
            return [ev, to]

        def handle_event(self, event):
            et = event.event_type
            if et == "Tick":
                self.ticks += 1
                out = []
                peer_i = self.rng.choice(self.peers)
                out.extend(self._ping(peer_i, 0))
                be = cfg["bad_meta_every"]
                if be and self.ticks % be == 0:
                    # an event addressed to the network without routing metadata (dropped: no route)
                    self.bad_sent += 1
                    out.append(Event(time=self.now, event_type="Stray", target=net))
                return out
            if et == "GossipTick":
                self.version[self.name] += 1
                out = []
                if two_nets:
                    targets = sorted({(self.i + 1) % n, (self.i - 1) % n} - {self.i})[:cfg["fanout"]]
                else:
                    targets = self.rng.sample(self.peers, min(cfg["fanout"], len(self.peers)))
                for p in targets:
                    self.gossip_tx += 1
                    out.append(gossip_net.send(self, nodes[p], "Gossip",
                                               payload={"versions": dict(self.version), "size": 32 * n},
                                               daemon=True))
                out.append(Event(time=self.now + cfg["gossip_ms"] / 1000.0, event_type="GossipTick", target=self,
                                 daemon=True))
                return out
            md = event.context.get("metadata", {})
            if et == "Ping":
                self.pings_rx += 1
                if md.get("destination") != self.name:
                    self.misrouted += 1          # arrived through the default link's gateway egress
                return self._reply(md)
            if et == "Pong":
                pid = md["ping_id"]
                ent = self.pending.pop(pid, None)
                if ent is None:
                    self.late_pongs += 1
                    return None
                self.pongs_rx += 1
                self.rtts.append(self.now.nanoseconds - ent[0])
                return None
            if et == "PingTimeout":
                pid = event.context["ping_id"]
                ent = self.pending.get(pid)
                if ent is None or ent[1] != event.context["attempt"]:
                    return None
                self.timeouts += 1
                del self.pending[pid]
                if ent[1] < cfg["retries"]:
                    self.retries += 1
                    return self._ping(ent[2], ent[1] + 1, pid)
                self.gave_up += 1
                return None
            if et == "Gossip":
                self.gossip_rx += 1
                for k, v in md["versions"].items():
                    if v > self.version[k]:
                        self.version[k] = v
                return None
            return None

        def _reply(self, md):
            if cfg["proc_ms"]:
                yield cfg["proc_ms"] / 1000.0
            src = by_name[md["source"]]
            return [net.send(self, src, "Pong", payload={"ping_id": md["ping_id"], "payload_size": 16})]

    nodes = [Node(i) for i in range(n)]
    by_name = {nd.name: nd for nd in nodes}
    for nd in nodes:
        nd.peers = [j for j in range(n) if j != nd.i]

    de = cfg.get("default_egress")
    default_link = (_mk_link(cfg["default"], "default-link", egress=None if de is None else nodes[de])
                    if topo in ("default", "mesh", "directed") else None)
    if topo == "mesh" and not cfg["default"]["exp"]:
        default_link = None            # some meshes have no default link at all
    net = Network(name="net", default_link=default_link)

    links = []
    for k, lc in enumerate(cfg["links"]):
        i, j = lc["pair"]
        a, b = nodes[i], nodes[j]
        if topo == "default":
            continue
        if topo == "sparse" and cfg["sparse_drop"][k]:
            continue
        if topo == "directed":
            l1 = _mk_link(lc, f"l-{a.name}>{b.name}")
            l2 = _mk_link(cfg["rev_links"][k], f"l-{b.name}>{a.name}")
            net.add_link(a, b, l1)
            net.add_link(b, a, l2)
            links += [l1, l2]
        else:
            l1 = _mk_link(lc, f"l-{a.name}={b.name}")
            net.add_bidirectional_link(a, b, l1)
            links.append(l1)

    # second network: a ring that carries the gossip
    net_b = None
    if two_nets:
        net_b = Network(name="net-b")
        for i in range(n):
            j = (i + 1) % n
            if j == i or (n == 2 and i == 1):
                continue
            net_b.add_bidirectional_link(nodes[i], nodes[j], _mk_link(cfg["ring"][i], f"r-{names[i]}={names[j]}"))
    gossip_net = net_b if two_nets else net
    nets = {"net": net}
    if net_b is not None:
        nets["net-b"] = net_b
    net_entities = [net_b, net] if (net_b is not None and cfg.get("net_b_first")) else \
        [x for x in (net, net_b) if x is not None]

    def resolve(nm):
        """the network a fault with `network_name=nm` acts on (None: the first registered one)"""
        if nm is None or nm not in nets:
            return None, net_entities[0]
        return nm, nets[nm]

    class Admin(Entity):
        def __init__(self):
            super().__init__("admin")
            self.handles = {}
            self.log = []

        def handle_event(self, event):
            k = event.context.get("k")
            if event.event_type == "part":
                p = cfg["parts"][k]
                target_net = resolve(p.get("net"))[1]
                h = target_net.partition([nodes[i] for i in p["a"]], [nodes[i] for i in p["b"]],
                                         asymmetric=p["asym"])
                self.handles[k] = h
                self.log.append(["part", k, h.is_active])
            elif event.event_type == "heal":
                h = self.handles.get(k)
                if h is not None:
                    h.heal()
                    h.heal()   # idempotent
                    self.log.append(["heal", k, h.is_active])
            elif event.event_type == "heal_all":
                net.heal_partition()
                self.log.append(["heal_all", -1, any(h.is_active for h in self.handles.values())])
            elif event.event_type == "cancel":
                fh = fault_handles[k % len(fault_handles)] if fault_handles else None
                if fh is not None:
                    fh.cancel()
                    fh.cancel()   # idempotent
                    self.log.append(["cancel", k % len(fault_handles), fh.cancelled])
            return None

    admin = Admin()
    faults = FaultSchedule("faults")
    fault_handles = []
    for p in cfg["parts"]:
        if p["via"] == "fault":
            nm, _ = resolve(p.get("net"))
            fault_handles.append(faults.add(NetworkPartition(
                shared("network.ga", [names[i] for i in p["a"]]), shared("network.gb", [names[i] for i in p["b"]]),
                start=p["start"] / 1000.0,
                end=p["end"] / 1000.0, asymmetric=p["asym"], network_name=nm)))
    for f in cfg["lat_faults"]:
        nm, target_net = resolve(f.get("net"))
        if target_net.get_link(names[f["src"]], names[f["dst"]]) is not None:
            fault_handles.append(faults.add(InjectLatency(
                names[f["src"]], names[f["dst"]], extra_ms=f["extra_ms"], start=f["start"] / 1000.0,
                end=f["end"] / 1000.0, network_name=nm)))
    for f in cfg["loss_faults"]:
        nm, target_net = resolve(f.get("net"))
        if target_net.get_link(names[f["src"]], names[f["dst"]]) is not None:
            fault_handles.append(faults.add(InjectPacketLoss(
                names[f["src"]], names[f["dst"]], loss_rate=f["rate"], start=f["start"] / 1000.0,
                end=f["end"] / 1000.0, network_name=nm)))
    if cfg["random_partition"]:
        rp = cfg["random_partition"]
        nm, _ = resolve(rp.get("net"))
        # the node list is a process-wide shared object (module-level-constant style, base.shared)
        faults.add(RandomPartition(shared("network.nodes", list(names)), mtbf=rp["mtbf_ms"] / 1000.0, mttr=rp["mttr_ms"] / 1000.0,
                                   seed=sub_seed(seed, "random-partition"), network_name=nm))

    sources = []
    for i, nd in enumerate(nodes):
        mk = Source.poisson if cfg["poisson"][i] else Source.constant
        sources.append(mk(rate=cfg["rates"][i], target=nd, event_type="Tick", name=f"src-{nd.name}",
                          stop_after=end - 0.3))

    # stand-alone link used as a pipe: source -> NetworkLink(egress=sink)
    pipe = sink = None
    pc = cfg.get("pipe")
    if pc:
        class Sink(Entity):
            def __init__(self):
                super().__init__("pipe-sink")
                self.n = 0
                self.first = []
                self.last = None

            def handle_event(self, event):
                self.n += 1
                if len(self.first) < 5:
                    self.first.append(self.now.nanoseconds)
                self.last = self.now.nanoseconds
                return None

        sink = Sink()
        pipe = _mk_link(pc, "pipe", egress=sink)
        mk = Source.poisson if pc["poisson"] else Source.constant
        sources.append(mk(rate=pc["rate"], target=pipe, event_type="Datagram", name="src-pipe",
                          stop_after=end - 0.3))

    extra = [x for x in (pipe, sink) if x is not None]
    sim = Simulation(end_time=T(end), sources=sources, entities=[*net_entities, admin, *nodes, *extra],
                     fault_schedule=faults)

    def at(ms, typ, **ctx):
        sim.schedule(Event(time=Instant.from_seconds(ms / 1000.0), event_type=typ, target=admin, context=ctx))

    for k, p in enumerate(cfg["parts"]):
        if p["via"] == "admin":
            at(p["start"], "part", k=k)
            at(p["end"], "heal", k=k)
    if cfg["heal_all_ms"] is not None:
        at(cfg["heal_all_ms"], "heal_all")
    for c in cfg.get("cancels", []):
        at(c["at"], "cancel", k=c["h"])
    if cfg["gossip_ms"]:
        for i, nd in enumerate(nodes):
            sim.schedule(Event(time=Instant.from_seconds((cfg["gossip_ms"] + i) / 1000.0), event_type="GossipTick",
                               target=nd, daemon=True))
    for b in cfg.get("bursts", []):
        for _ in range(b["k"]):       # k pings started at one instant
            sim.schedule(Event(time=Instant.from_seconds(b["at"] / 1000.0), event_type="Tick",
                               target=nodes[b["node"] % n]))

    def one_link(l):
        st = l.link_stats
        return [l.name, st.packets_sent, st.packets_dropped, st.bytes_transmitted, l.current_utilization,
                l.packet_loss_rate, type(l.latency).__name__, l.bandwidth_bps,
                None if l.egress is None else l.egress.name]

    def net_obs(nw):
        def read():
            return {"routed": nw.events_routed, "no_route": nw.events_dropped_no_route,
                    "partition": nw.events_dropped_partition,
                    "matrix": [[s.source, s.destination, s.packets_sent, s.packets_dropped, s.bytes_transmitted]
                               for s in nw.traffic_matrix()],
                    "partitioned": [[a, b, nw.is_partitioned(a, b)] for a in names for b in names if a != b],
                    "default": None if nw.default_link is None else one_link(nw.default_link)}
        return read

    def link_obs(nw):
        def read():
            out = []
            for a in names:
                for b in names:
                    if a == b:
                        continue
                    l = nw.get_link(a, b)
                    out.append([a, b, None] if l is None else [a, b, *one_link(l)])
            return out
        return read

    obs = {"net": net_obs(net), "links": link_obs(net), "faults": stats_of(faults), "admin": lambda: admin.log,
           "fault_handles": lambda: [[type(h.fault).__name__, h.cancelled] for h in fault_handles],
           "sources": lambda: [[s.name, s.generated_count] for s in sources]}
    if net_b is not None:
        obs["net-b"] = net_obs(net_b)
        obs["links-b"] = link_obs(net_b)
    if pipe is not None:
        obs["pipe"] = lambda: {"link": one_link(pipe), "n": sink.n, "first": sink.first, "last": sink.last}
    for nd in nodes:
        obs[nd.name] = (lambda nd=nd: {
            "ticks": nd.ticks, "pings_sent": nd.pings_sent, "pings_rx": nd.pings_rx, "pongs_rx": nd.pongs_rx,
            "late": nd.late_pongs, "timeouts": nd.timeouts, "retries": nd.retries, "gave_up": nd.gave_up,
            "gossip_rx": nd.gossip_rx, "gossip_tx": nd.gossip_tx, "bad": nd.bad_sent, "misrouted": nd.misrouted,
            "pending": sorted(nd.pending), "version": nd.version, "rtt_n": len(nd.rtts),
            "rtt_sum": sum(nd.rtts), "rtt_last": nd.rtts[-5:]})
    return sim, obs
