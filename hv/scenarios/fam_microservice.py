"""Microservice patterns: APIGateway (several routes: auth + failures, per-route rate-limit policies, round-robin
backends, per-route timeout, a route without backends, unknown routes), IdempotencyStore (string keys repeated
by a retrying client and by the workload, TTL expiry, tiny max_entries, cleanup daemon), OutboxRelay
(writes from an order service, poll loop primed the way outbox_relay_lag.py does or by "kick" events, small
batches, relay latency → lag), Saga (2–4 steps on contended services, one unreliable step that times out →
compensations in reverse order, concurrent instances) and Sidecar (rate limit, request timeouts → retries with
backoff → circuit opens / half-opens / closes).  Backends are small harness entities that hold a library
`Resource` (capacity 1–2) while they work, so requests contend.  `parts` selects the sub-scenarios of a run.

Configuration coverage (widened):
  * every constructor parameter: APIGateway(routes, auth_latency incl. 0, auth_failure_rate 0 / between / 1,
    route_extractor default and custom), RouteConfig(backends 0..4, every rate-limit policy incl. None and
    AdaptivePolicy, auth_required drawn per route, timeout None / shorter / longer than the backend latency),
    IdempotencyStore(ttl, max_entries 1 .. library default, cleanup_interval — TTL shorter than the backend latency,
    cleanup interval longer than the TTL and longer than the run), OutboxRelay(poll_interval, batch_size 1 .. above
    the default 100 with more than 100 entries pending, relay_latency 0 .. so large that one cycle outlasts the
    poll interval), Saga(1..5 steps, on_complete with / without callback; SagaStep timeouts None / shorter / longer
    than the step latency, timeout on the first step, shared compensation target), Sidecar(all ten parameters
    incl. rate_limit_queue_capacity; retry_base_delay 0 / smaller / larger than request_timeout; circuit timeout
    shorter and longer than the request timeout; thresholds 1..6; max_retries 0..5);
  * the rate-limit policies get their own drawn parameters (bucket capacity, initial tokens 0 / partial / full,
    window sizes from `dur_ms`);
  * all durations from `dur_ms` (lossy values, 1-4 decimals); absolute burst times as well;
  * load regimes per part: light, sustained overload (arrival rate far above the backend capacity; the backend's
    Resource queue grows for the whole run), bursts of many same-instant requests;
  * a bank of Sidecars (different timeouts / backoffs / policies) fed by the same source in ONE run;
  * occasional long run (8-12 s).
"""
from __future__ import annotations

import random

from hv.scenarios.base import T, dur_ms, seed_all, size_over, stats_of, sub_seed

NAME = "microservice"
MODEL = None
COMPONENTS = ["APIGateway", "RouteConfig", "IdempotencyStore", "OutboxRelay", "Saga", "SagaStep", "Sidecar",
              "TokenBucketPolicy", "LeakyBucketPolicy", "SlidingWindowPolicy", "FixedWindowPolicy", "AdaptivePolicy",
              "Resource", "Source", "Sink"]

PARTS = ["gateway", "idem", "outbox", "saga", "sidecar"]
POLICIES = [None, "token", "leaky", "sliding", "fixed", "adaptive"]


def _backend_cfg(rng):
    return {"lat_ms": dur_ms(rng, 0.1, rng.choice([10, 30, 120]), zero=True), "exp": rng.random() < 0.5,
            "slow_pct": rng.choice([0, 5, 20, 50, 100]),
            "slow_ms": dur_ms(rng, 40, rng.choice([200, 1000, 2500])), "cap": rng.choice([None, 1, 2])}


def _pol_params(rng):
    return {"cap": rng.choice([None, 1, 3, 40]), "init": rng.choice([None, None, 0, 0.5, 2]),
            "win_ms": rng.choice([None, dur_ms(rng, 5, 1500)]), "step": rng.choice([None, 0.5, 5])}


def _rate(rng, light, long):
    """arrival rate of one part: light load, or sustained overload (well above any backend capacity)"""
    if long:
        return rng.choice([5, 10, 20])
    return rng.choice([200, 300, 500]) if rng.random() < 0.25 else rng.choice(light)


def _gen_sidecar(rng, long):
    timeout = dur_ms(rng, 1, rng.choice([30, 120, 1500]))
    return {
        "rate": _rate(rng, [20, 50, 100], long),
        "policy": rng.choice(POLICIES),
        "pol_params": _pol_params(rng),
        "limit": rng.choice([1, 10, 30, 100, 1000]),
        "queue_cap": rng.choice([None, 0, 1, 1000]),
        "fail_thr": rng.choice([1, 1, 2, 3, 4, 6]),
        "succ_thr": rng.choice([1, 1, 2, 3, 5]),
        "circuit_ms": dur_ms(rng, 5, rng.choice([100, 1000, 3000])),
        "timeout_ms": timeout,
        "max_retries": rng.choice([0, 1, 2, 3, 5]),
        # base delay of the exponential backoff: 0, smaller and larger than the request timeout
        "backoff_ms": rng.choice([0, dur_ms(rng, 0.1, max(0.2, timeout)), dur_ms(rng, timeout, 4 * timeout + 50)]),
        "backend": _backend_cfg(rng),
    }


def gen_cfg(rng):
    long = rng.random() < 0.12
    end = rng.choice([8.0, 10.0, 12.0]) if long else rng.choice([2.0, 3.0, 4.0])
    end_ms = int(end * 1000)
    k = rng.randint(1, len(PARTS))
    parts = sorted(rng.sample(PARTS, k))
    n_steps = rng.randint(1, 5)
    bursts = [[dur_ms(rng, 50, end_ms - 900), rng.choice(parts), rng.choice([5, 20, 60, 150])]
              for _ in range(rng.choice([0, 0, 1, 2, 3]))]
    ob_rate = _rate(rng, [20, 50, 100], long)
    saga_to = []
    for _ in range(n_steps):
        saga_to.append(rng.choice([None, dur_ms(rng, 1, 60), dur_ms(rng, 20, 400), dur_ms(rng, 400, 2500)]))
    cfg = {
        "end": end,
        "parts": parts,
        "poisson": rng.random() < 0.5,
        "bursts": bursts,
        "gateway": {
            "rate": _rate(rng, [50, 100, 200], long),
            "weights": [rng.randint(1, 5), rng.randint(1, 5), rng.randint(0, 3), rng.randint(0, 2), rng.randint(0, 2)],
            "auth_ms": dur_ms(rng, 0.1, rng.choice([5, 40]), zero=True),
            "auth_fail_pct": rng.choice([0, 10, 30, 100]),
            "auth": [rng.random() < 0.7, rng.random() < 0.3, rng.random() < 0.7],
            "extractor": rng.choice(["default", "default", "custom"]),
            "policy": [rng.choice(POLICIES) for _ in range(3)],
            "pol_params": [_pol_params(rng) for _ in range(3)],
            "limit": rng.choice([1, 5, 20, 50, 500]),
            "n_backends": rng.randint(1, 4),
            "timeout_ms": rng.choice([None, dur_ms(rng, 1, 40), dur_ms(rng, 40, 1500)]),
            "pay_timeout_ms": rng.choice([None, 50, dur_ms(rng, 1, 1200)]),
            "backend": _backend_cfg(rng),
            "to_idem": rng.random() < 0.5,
            "n_users": rng.randint(1, 40),
        },
        "idem": {
            "rate": _rate(rng, [20, 50, 100], long),
            "n_keys": rng.choice([1, 5, 20, 60, 1000]),
            "ttl_ms": dur_ms(rng, 1, rng.choice([60, 300, 2500])),
            "max_entries": rng.choice([1, 2, 3, 5, 8, 100, None]),                 # None: library default (10 000)
            "cleanup_ms": dur_ms(rng, 5, rng.choice([100, 600, 2500])) if rng.random() < 0.9 else dur_ms(rng, end_ms, 2 * end_ms),
            "client_timeout_ms": dur_ms(rng, 1, rng.choice([30, 150, 1200])),
            "max_retries": rng.randint(0, 4),
            "none_key_pct": rng.choice([0, 0, 10, 100]),
            "backend": _backend_cfg(rng),
        },
        "outbox": {
            "rate": ob_rate,
            "proc_ms": dur_ms(rng, 0.1, 20, zero=True),
            "poll_ms": dur_ms(rng, 5 if ob_rate >= 200 else 1, rng.choice([60, 300, 1500])),
            "batch": size_over(rng, [1, 3, 10], 100),
            "relay_us": rng.choice([0, 100, 1000, 5000]),
            "relay_ms": rng.choice([None, dur_ms(rng, 0.01, 5, zero=True), dur_ms(rng, 5, 200)]),
            "prime": rng.choice(["first_write", "kick", "first_write+kick", "every_write"]),
            "kick_rate": rng.choice([2, 5, 10, 100]),
            # every poll cycle scans all entries ever written: keep rate x writes below ~1000 entries per second
            "writes": rng.choice([1, 2]) if ob_rate >= 200 else rng.choice([1, 1, 2, 3, 8]),
        },
        "saga": {
            "rate": rng.choice([5, 10, 20]) if long else (rng.choice([100, 200]) if rng.random() < 0.2
                                                        else rng.choice([5, 10, 20, 40])),
            "n_steps": n_steps,
            "timeout_ms": saga_to,
            "bad_step": rng.randint(0, n_steps - 1),
            "force_bad": rng.random() < 0.8,
            "backends": [_backend_cfg(rng) for _ in range(n_steps)],
            "shared_comp": rng.random() < 0.3,
            "callback": rng.random() < 0.8,
        },
        "sidecar": _gen_sidecar(rng, long),
        "sidecars_extra": [_gen_sidecar(rng, long) for _ in range(rng.choice([0, 0, 1, 2]))],
    }
    # A daemon interval below one nanosecond (OutboxRelay.poll_interval, IdempotencyStore.cleanup_interval = 1e-10 s)
    # is rejected by the constructors since fix 1ffc2c6 (fixes/C07-microservice-subnanosecond-interval.*) and is never
    # generated; the regression inputs are corpus/C07/outbox-subnanosecond-poll-interval.json and
    # corpus/C07/idem-subnanosecond-cleanup-interval.json.
    return cfg


def build(cfg, seed):
    from happysimulator.components.common import Sink
    from happysimulator.components.microservice import (
        APIGateway, IdempotencyStore, OutboxRelay, RouteConfig, Saga, SagaStep, Sidecar,
    )
    from happysimulator.components.microservice.saga import SagaState
    from happysimulator.components.rate_limiter.policy import (
        AdaptivePolicy, FixedWindowPolicy, LeakyBucketPolicy, SlidingWindowPolicy, TokenBucketPolicy,
    )
    from happysimulator.components.resource import Resource
    from happysimulator.core.entity import Entity
    from happysimulator.core.event import Event
    from happysimulator.core.simulation import Simulation
    from happysimulator.core.temporal import Duration, Instant
    from happysimulator.load.event_provider import EventProvider
    from happysimulator.load.source import Source

    seed_all(seed)
    end = cfg["end"]
    stop = end - 0.8
    parts = cfg["parts"]
    sink = Sink("sink")
    entities = [sink]
    sources = []
    pre = []
    providers = {}
    obs = {"sink": lambda: {"n": sink.events_received, "lat": sink.latency_stats()}}

    def policy(kind, limit, pp=None):
        pp = pp or {}
        win = pp.get("win_ms")
        if kind == "token":
            cap = pp.get("cap")
            return TokenBucketPolicy(capacity=float(limit if cap is None else cap), refill_rate=float(limit),
                                     initial_tokens=pp.get("init"))
        if kind == "leaky":
            return LeakyBucketPolicy(leak_rate=float(limit))
        if kind == "sliding":
            return SlidingWindowPolicy(window_size_seconds=0.5 if win is None else win / 1000.0,
                                       max_requests=max(1, limit // 2))
        if kind == "fixed":
            return FixedWindowPolicy(requests_per_window=max(1, limit // 4),
                                     window_size=0.25 if win is None else win / 1000.0)
        if kind == "adaptive":
            return AdaptivePolicy(initial_rate=float(limit), min_rate=0.5, max_rate=float(limit) * 4,
                                  increase_step=pp.get("step"), decrease_factor=0.5,
                                  window_size=1.0 if win is None else win / 1000.0)
        return None

    class Backend(Entity):
        """works for a random latency while holding a unit of a shared Resource; forwards a reply to the sink"""

        def __init__(self, name, bc, reply=True):
            super().__init__(name)
            self.bc = bc
            self.rng = random.Random(sub_seed(seed, "backend", name))
            self.res = Resource(name + ".slots", capacity=bc["cap"]) if bc["cap"] else None
            self.reply = reply
            self.actions = 0
            self.compensations = 0
            self.done = 0
            self.keys = {}

        def handle_event(self, event):
            md = event.context.get("metadata", {})
            if md.get("_saga_compensation"):
                self.compensations += 1
            else:
                self.actions += 1
            key = md.get("idempotency_key")
            if key is not None:
                self.keys[key] = self.keys.get(key, 0) + 1
            bc = self.bc
            lat = bc["lat_ms"] / 1000.0
            if bc["exp"] and lat > 0:
                lat = max(0.0005, self.rng.expovariate(1.0 / lat))
            if not md.get("_saga_compensation") and self.rng.randrange(100) < bc["slow_pct"]:
                lat = bc["slow_ms"] / 1000.0
            grant = None
            if self.res is not None:
                grant = yield self.res.acquire()
            yield lat
            if grant is not None:
                grant.release()
            self.done += 1
            if self.reply and "created_at" in event.context:
                # reply to the caller named in the request (a retrying client), else to the sink
                return [self.forward(event, event.context.get("reply_to") or sink, event_type="Reply")]
            return []

        def obs(self):
            out = {"actions": self.actions, "comp": self.compensations, "done": self.done,
                   "dup_keys": sorted((k, v) for k, v in self.keys.items() if v > 1)[:20],
                   "n_keys": len(self.keys)}
            if self.res is not None:
                out["res"] = stats_of(self.res)()
            return out

    def add_backend(name, bc, reply=True):
        b = Backend(name, bc, reply)
        entities.append(b)
        if b.res is not None:
            entities.append(b.res)
        obs[name] = b.obs
        return b

    class Provider(EventProvider):
        def __init__(self, tag, fn):
            self.rng = random.Random(sub_seed(seed, "prov", tag))
            self.fn = fn
            self.n = 0

        def get_events(self, time):
            self.n += 1
            return self.fn(time, self.n, self.rng)

    def src(rate, name, provider, until=None, part=None):
        mk = Source.poisson if cfg["poisson"] else Source.constant
        sources.append(mk(rate=rate, name=name, event_provider=provider, stop_after=stop if until is None else until))
        if part is not None:
            providers[part] = provider

    idem_store = None

    # ------------------------------------------------------------------ Idempotency store
    if "idem" in parts:
        c = cfg["idem"]
        pay = add_backend("payment", c["backend"])
        idem_kw = {}
        if c["max_entries"] is not None:
            idem_kw["max_entries"] = c["max_entries"]
        idem_store = IdempotencyStore("idem", target=pay,
                                      key_extractor=lambda e: e.context.get("metadata", {}).get("idempotency_key"),
                                      ttl=c["ttl_ms"] / 1000.0, cleanup_interval=c["cleanup_ms"] / 1000.0, **idem_kw)

        class RetryingClient(Entity):
            """retries the same idempotency key when no completion arrives in time (idempotency_under_retries.py)"""

            def __init__(self):
                super().__init__("pay-client")
                self.sent = self.retries = self.completed = self.gave_up = self.hook_done = self.late_replies = 0
                self.in_flight = {}

            def handle_event(self, event):
                md = event.context.get("metadata", {})
                if event.event_type == "_rc_done":   # completion hook of the request sent to the store
                    self.hook_done += 1
                    return None
                if event.event_type == "Reply":      # the payment service answered
                    if self.in_flight.pop(event.context["token"], None) is not None:
                        self.completed += 1
                        return [self.forward(event, sink, event_type="Paid")]
                    self.late_replies += 1
                    return None
                if event.event_type == "_rc_timeout":
                    tok = md["token"]
                    if tok not in self.in_flight:
                        return None
                    if md["attempt"] >= c["max_retries"]:
                        del self.in_flight[tok]
                        self.gave_up += 1
                        return None
                    self.retries += 1
                    return self._send(tok, md["key"], md["attempt"] + 1, event.context["created_at"])
                return self._send(f"t{self.sent}", md.get("idempotency_key"), 0, self.now)

            def _send(self, tok, key, attempt, created):
                self.sent += 1
                self.in_flight[tok] = attempt
                fwd = Event(time=self.now, event_type="payment", target=idem_store,
                            context={"created_at": created, "reply_to": self, "token": tok,
                                     "metadata": {"idempotency_key": key}})
                fwd.add_completion_hook(lambda t: Event(time=t, event_type="_rc_done", target=self,
                                                        context={"metadata": {"token": tok}}))
                to = Event(time=self.now + Duration.from_seconds(c["client_timeout_ms"] / 1000.0),
                           event_type="_rc_timeout", target=self,
                           context={"created_at": created, "metadata": {"token": tok, "key": key, "attempt": attempt}})
                return [fwd, to]

        client = RetryingClient()
        entities += [idem_store, client]

        def mk_pay(time, n, rng):
            key = None if rng.randrange(100) < c["none_key_pct"] else f"user-{rng.randrange(c['n_keys'])}"
            return [Event(time=time, event_type="pay", target=client, context={"metadata": {"idempotency_key": key}})]

        src(c["rate"], "src-idem", Provider("idem", mk_pay), part="idem")
        obs["idem"] = stats_of(idem_store)
        obs["idem.x"] = lambda: {"size": idem_store.cache_size, "in_flight": idem_store.in_flight_count,
                                 "target": idem_store.target.name,
                                 "sent": client.sent, "retries": client.retries, "completed": client.completed,
                                 "gave_up": client.gave_up, "open": len(client.in_flight),
                                 "hook_done": client.hook_done, "late": client.late_replies}

    # ------------------------------------------------------------------ API gateway
    if "gateway" in parts:
        g = cfg["gateway"]
        pps = g.get("pol_params") or [None, None, None]
        auth = g.get("auth") or [True, False, True]
        pay_to = g.get("pay_timeout_ms", 50)
        users = [add_backend(f"users-{i}", g["backend"]) for i in range(g["n_backends"])]
        orders = add_backend("orders-0", dict(g["backend"], slow_pct=max(g["backend"]["slow_pct"], 20)))
        pay_backends = [idem_store] if (idem_store is not None and g["to_idem"]) else [add_backend("gw-pay", g["backend"])]
        routes = {
            "/api/users": RouteConfig(name="users", backends=users,
                                      rate_limit_policy=policy(g["policy"][0], g["limit"], pps[0]),
                                      auth_required=auth[0]),
            "/api/orders": RouteConfig(name="orders", backends=[orders],
                                       rate_limit_policy=policy(g["policy"][1], g["limit"], pps[1]),
                                       auth_required=auth[1],
                                       timeout=None if g["timeout_ms"] is None else g["timeout_ms"] / 1000.0),
            "/api/pay": RouteConfig(name="pay", backends=pay_backends,
                                    rate_limit_policy=policy(g["policy"][2], g["limit"], pps[2]),
                                    auth_required=auth[2],
                                    timeout=None if pay_to is None else pay_to / 1000.0),
            "/api/empty": RouteConfig(name="empty", backends=[], auth_required=False),
        }
        gw_kw = {}
        if g.get("extractor", "default") == "custom":
            gw_kw["route_extractor"] = lambda e: e.context.get("metadata", {}).get("route") or e.context.get("path")
        gateway = APIGateway("gateway", routes=routes, auth_latency=g["auth_ms"] / 1000.0,
                             auth_failure_rate=g["auth_fail_pct"] / 100.0, **gw_kw)
        entities.append(gateway)
        route_keys = ["/api/users", "/api/orders", "/api/pay", "/api/empty", "/api/nope"]

        def mk_req(time, n, rng):
            r = rng.choices(route_keys, weights=[w + (1 if i < 2 else 0) for i, w in enumerate(g["weights"])])[0]
            user = f"user-{rng.randrange(g['n_users'])}"
            md = {"route": r, "user": user}
            if r == "/api/pay":
                md["idempotency_key"] = f"{user}/{n // 3}"
            ctx = {"created_at": time, "metadata": md}
            if r == "/api/nope" and rng.random() < 0.3:
                ctx["metadata"] = {}
                ctx["path"] = "/api/orders"        # only the custom extractor finds a route here
            return [Event(time=time, event_type="http", target=gateway, context=ctx)]

        src(g["rate"], "src-gw", Provider("gw", mk_req), part="gateway")
        obs["gateway"] = stats_of(gateway)
        obs["gateway.x"] = lambda: {"routes": sorted(gateway.routes),
                                    "auth": [[k, r.auth_required, r.timeout, len(r.backends)]
                                             for k, r in sorted(gateway.routes.items())]}

    # ------------------------------------------------------------------ Outbox relay
    if "outbox" in parts:
        o = cfg["outbox"]

        class Collector(Entity):
            def __init__(self):
                super().__init__("mq")
                self.ids = []

            def handle_event(self, event):
                self.ids.append(event.context["metadata"]["entry_id"])
                return None

        mq = Collector()
        relay_s = o["relay_us"] / 1e6 if o.get("relay_ms") is None else o["relay_ms"] / 1000.0
        outbox = OutboxRelay("outbox", downstream=mq, poll_interval=o["poll_ms"] / 1000.0, batch_size=o["batch"],
                             relay_latency=relay_s)

        class OrderService(Entity):
            def __init__(self):
                super().__init__("order-svc")
                self.n = 0
                self.primed = False

            def handle_event(self, event):
                self.n += 1
                yield o["proc_ms"] / 1000.0
                for j in range(o["writes"]):
                    outbox.write({"order_id": f"order-{self.n}", "part": j, "event_type": "order_created"})
                if o["prime"] == "every_write":
                    # the transactional-outbox idiom "write, then nudge the relay": any non-poll event primes it
                    return [Event(time=self.now, event_type="written", target=outbox)]
                if "first_write" in o["prime"] and not self.primed:
                    self.primed = True
                    return [outbox.prime_poll()]
                return []

        osvc = OrderService()
        entities += [mq, outbox, osvc]
        src(o["rate"], "src-outbox", Provider("ob", lambda time, n, rng: [
            Event(time=time, event_type="new_order", target=osvc)]), part="outbox")
        if "kick" in o["prime"]:
            # "sending any event to the outbox will auto-prime" (OutboxRelay.prime_poll docstring)
            sources.append(Source.constant(rate=o["kick_rate"], target=outbox, event_type="kick", name="src-kick",
                                           stop_after=stop))
        obs["outbox"] = stats_of(outbox)
        obs["outbox.x"] = lambda: {"pending": outbox.pending_count, "total": outbox.total_entries,
                                   "downstream": outbox.downstream.name,
                                   "avg_lag": outbox.stats.avg_relay_lag, "orders": osvc.n, "got": len(mq.ids),
                                   "in_order": mq.ids == sorted(mq.ids), "dups": len(mq.ids) - len(set(mq.ids)),
                                   "head": mq.ids[:10]}

    # ------------------------------------------------------------------ Saga
    if "saga" in parts:
        s = cfg["saga"]
        names = ["inventory", "payment-svc", "shipping", "notify", "ledger"]
        svcs = []
        force_bad = s.get("force_bad", True)
        for i in range(s["n_steps"]):
            bc = dict(s["backends"][i])
            if force_bad:
                if i == s["bad_step"]:
                    bc["slow_pct"] = max(bc["slow_pct"], 30)
                else:
                    bc["slow_pct"] = min(bc["slow_pct"], 5)
            svcs.append(add_backend(names[i], bc, reply=False))
        comp = add_backend("compensator", s["backends"][0], reply=False) if s["shared_comp"] else None
        steps = []
        for i in range(s["n_steps"]):
            to = s["timeout_ms"][i]
            if force_bad and i == s["bad_step"] and to is None:
                to = 40
            steps.append(SagaStep(name=f"step-{names[i]}", action_target=svcs[i], action_event_type=f"do_{names[i]}",
                                  compensation_target=comp or svcs[i], compensation_event_type=f"undo_{names[i]}",
                                  timeout=None if to is None else to / 1000.0))
        outcomes = []

        def on_saga_done(saga_id, state, results):
            outcomes.append([saga_id, state.name, [[r.step_name, r.success,
                                                    None if r.started_at is None else r.started_at.nanoseconds,
                                                    None if r.completed_at is None else r.completed_at.nanoseconds]
                                                   for r in results]])

        saga = Saga("order-saga", steps=steps, on_complete=on_saga_done if s.get("callback", True) else None)
        entities.append(saga)
        hook_fired = []

        def mk_order(time, n, rng):
            ev = Event(time=time, event_type="start_order", target=saga,
                       context={"payload": {"order_id": f"order-{n}", "customer": f"user-{rng.randrange(9)}"}})
            ev.add_completion_hook(lambda t, n=n: hook_fired.append([n, t.nanoseconds]) or None)
            return [ev]

        src(s["rate"], "src-saga", Provider("saga", mk_order), part="saga")
        obs["saga"] = stats_of(saga)

        def saga_states():
            out = {st.name: 0 for st in (SagaState.PENDING, SagaState.RUNNING, SagaState.COMPENSATING,
                                         SagaState.COMPLETED, SagaState.COMPENSATED, SagaState.FAILED)}
            for i in range(1, saga.stats.sagas_started + 2):
                st = saga.get_instance_state(i)
                k = "none" if st is None else st.name
                out[k] = out.get(k, 0) + 1
            return sorted(out.items())

        obs["saga.x"] = lambda: {"active": saga.active_instances, "outcomes": outcomes, "hooks": hook_fired,
                                 "steps": [[st.name, st.timeout] for st in saga.steps], "states": saga_states(),
                                 "state1": (saga.get_instance_state(1).name if saga.get_instance_state(1) else None)}

    # ------------------------------------------------------------------ Sidecar
    if "sidecar" in parts:
        bank = [cfg["sidecar"], *cfg.get("sidecars_extra", [])]
        sidecars = []
        states = []
        for j, c2 in enumerate(bank):
            sfx = "" if j == 0 else f"-{j}"
            svc = add_backend("mesh-backend" + sfx, c2["backend"])
            kw = {}
            if c2.get("queue_cap") is not None:
                kw["rate_limit_queue_capacity"] = c2["queue_cap"]
            sc = Sidecar("sidecar" + sfx, target=svc,
                         rate_limit_policy=policy(c2["policy"], c2["limit"], c2.get("pol_params")),
                         circuit_failure_threshold=c2["fail_thr"], circuit_success_threshold=c2["succ_thr"],
                         circuit_timeout=c2["circuit_ms"] / 1000.0, request_timeout=c2["timeout_ms"] / 1000.0,
                         max_retries=c2["max_retries"], retry_base_delay=c2["backoff_ms"] / 1000.0, **kw)
            entities.append(sc)
            sidecars.append(sc)
            states.append([])
            obs["sidecar" + sfx] = stats_of(sc)
            obs["sidecar" + sfx + ".x"] = (lambda sc=sc, j=j: {"circuit": sc.circuit_state, "states": states[j],
                                                               "target": sc.target.name})
        sidecar = sidecars[0]

        class StateProbe(Entity):
            def handle_event(self, event):
                for j, sc in enumerate(sidecars):
                    st = sc.circuit_state
                    if not states[j] or states[j][-1][1] != st:
                        states[j].append([self.now.nanoseconds, st])
                return None

        probe = StateProbe("cb-probe")
        entities.append(probe)
        sources.append(Source.constant(rate=20, target=probe, event_type="probe", name="src-probe",
                                       stop_after=end - 0.1))

        def mk_rpc(time, n, rng):
            caller = f"user-{rng.randrange(7)}"
            return [Event(time=time, event_type="rpc", target=sc,
                          context={"created_at": time, "metadata": {"caller": caller}}) for sc in sidecars]

        src(cfg["sidecar"]["rate"], "src-sidecar", Provider("sc", mk_rpc), part="sidecar")

    sim = Simulation(end_time=T(end), sources=sources, entities=entities)
    # bursts: many same-instant requests into one part (the part's own request factory makes them)
    for t_ms, part, n in cfg.get("bursts", []):
        prov = providers.get(part)
        if prov is None:
            continue
        t = Instant.from_seconds(t_ms / 1000.0)
        for _ in range(n):
            for ev in prov.get_events(t):
                sim.schedule(ev)
    for f in pre:
        f(sim)
    return sim, obs
