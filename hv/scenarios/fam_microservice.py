"""Microservice patterns: APIGateway (several routes: auth + failures, per-route rate-limit policies, round-robin
backends, per-route timeout, a route without backends, unknown routes), IdempotencyStore (string keys repeated
by a retrying client and by the workload, TTL expiry, tiny max_entries, cleanup daemon), OutboxRelay
(writes from an order service, poll loop primed the way outbox_relay_lag.py does or by "kick" events, small
batches, relay latency → lag), Saga (2–4 steps on contended services, one unreliable step that times out →
compensations in reverse order, concurrent instances) and Sidecar (rate limit, request timeouts → retries with
backoff → circuit opens / half-opens / closes).  Backends are small harness entities that hold a library
`Resource` (capacity 1–2) while they work, so requests contend.  `parts` selects the sub-scenarios of a run."""
from __future__ import annotations

import random

from hv.scenarios.base import T, seed_all, stats_of, sub_seed

NAME = "microservice"
MODEL = None
COMPONENTS = ["APIGateway", "RouteConfig", "IdempotencyStore", "OutboxRelay", "Saga", "SagaStep", "Sidecar",
              "TokenBucketPolicy", "LeakyBucketPolicy", "SlidingWindowPolicy", "FixedWindowPolicy", "Resource",
              "Source", "Sink"]

PARTS = ["gateway", "idem", "outbox", "saga", "sidecar"]
POLICIES = [None, "token", "leaky", "sliding", "fixed"]


def _backend_cfg(rng):
    return {"lat_ms": rng.randint(2, 30), "exp": rng.random() < 0.5, "slow_pct": rng.choice([0, 5, 20, 50]),
            "slow_ms": rng.choice([80, 200, 1000]), "cap": rng.choice([None, 1, 2])}


def gen_cfg(rng):
    k = rng.randint(2, len(PARTS))
    parts = sorted(rng.sample(PARTS, k))
    n_steps = rng.randint(2, 4)
    return {
        "end": rng.choice([2.0, 3.0, 4.0]),
        "parts": parts,
        "poisson": rng.random() < 0.5,
        "gateway": {
            "rate": rng.choice([50, 100, 200]),
            "weights": [rng.randint(1, 5), rng.randint(1, 5), rng.randint(0, 3), rng.randint(0, 2), rng.randint(0, 2)],
            "auth_ms": rng.choice([0, 1, 5]),
            "auth_fail_pct": rng.choice([0, 10, 30]),
            "policy": [rng.choice(POLICIES) for _ in range(3)],
            "limit": rng.choice([5, 20, 50]),
            "n_backends": rng.randint(1, 3),
            "timeout_ms": rng.choice([None, 10, 40, 100]),
            "backend": _backend_cfg(rng),
            "to_idem": rng.random() < 0.5,
            "n_users": rng.randint(3, 40),
        },
        "idem": {
            "rate": rng.choice([20, 50, 100]),
            "n_keys": rng.choice([5, 20, 1000]),
            "ttl_ms": rng.choice([50, 200, 1000]),
            "max_entries": rng.choice([2, 5, 100]),
            "cleanup_ms": rng.choice([20, 100, 500]),
            "client_timeout_ms": rng.choice([10, 30, 100]),
            "max_retries": rng.randint(0, 3),
            "none_key_pct": rng.choice([0, 10]),
            "backend": _backend_cfg(rng),
        },
        "outbox": {
            "rate": rng.choice([20, 50, 100]),
            "proc_ms": rng.randint(1, 10),
            "poll_ms": rng.choice([10, 50, 100, 250]),
            "batch": rng.choice([1, 3, 10, 100]),
            "relay_us": rng.choice([0, 100, 1000, 5000]),
            "prime": rng.choice(["first_write", "kick", "first_write+kick"]),
            "kick_rate": rng.choice([2, 5, 10]),
            "writes": rng.randint(1, 3),
        },
        "saga": {
            "rate": rng.choice([5, 10, 20, 40]),
            "n_steps": n_steps,
            "timeout_ms": [rng.choice([None, 20, 50, 150]) for _ in range(n_steps)],
            "bad_step": rng.randint(0, n_steps - 1),
            "backends": [_backend_cfg(rng) for _ in range(n_steps)],
            "shared_comp": rng.random() < 0.3,
        },
        "sidecar": {
            "rate": rng.choice([20, 50, 100]),
            "policy": rng.choice(POLICIES),
            "limit": rng.choice([10, 30, 100]),
            "fail_thr": rng.randint(1, 4),
            "succ_thr": rng.randint(1, 3),
            "circuit_ms": rng.choice([100, 300, 1000]),
            "timeout_ms": rng.choice([10, 25, 60]),
            "max_retries": rng.randint(0, 3),
            "backoff_ms": rng.choice([0, 5, 20, 50]),
            "backend": _backend_cfg(rng),
        },
    }


def build(cfg, seed):
    from happysimulator.components.common import Sink
    from happysimulator.components.microservice import (
        APIGateway, IdempotencyStore, OutboxRelay, RouteConfig, Saga, SagaStep, Sidecar,
    )
    from happysimulator.components.rate_limiter.policy import (
        FixedWindowPolicy, LeakyBucketPolicy, SlidingWindowPolicy, TokenBucketPolicy,
    )
    from happysimulator.components.resource import Resource
    from happysimulator.core.entity import Entity
    from happysimulator.core.event import Event
    from happysimulator.core.simulation import Simulation
    from happysimulator.core.temporal import Duration, Instant
    from happysimulator.load.event_provider import EventProvider
    from happysimulator.load.source import Source

    seed_all(seed)
    end = cfg["end"]
    stop = end - 0.8
    parts = cfg["parts"]
    sink = Sink("sink")
    entities = [sink]
    sources = []
    pre = []
    obs = {"sink": lambda: {"n": sink.events_received, "lat": sink.latency_stats()}}

    def policy(kind, limit):
        if kind == "token":
            return TokenBucketPolicy(capacity=float(limit), refill_rate=float(limit))
        if kind == "leaky":
            return LeakyBucketPolicy(leak_rate=float(limit))
        if kind == "sliding":
            return SlidingWindowPolicy(window_size_seconds=0.5, max_requests=max(1, limit // 2))
        if kind == "fixed":
            return FixedWindowPolicy(requests_per_window=max(1, limit // 4), window_size=0.25)
        return None

    class Backend(Entity):
        """works for a random latency while holding a unit of a shared Resource; forwards a reply to the sink"""

        def __init__(self, name, bc, reply=True):
            super().__init__(name)
            self.bc = bc
            self.rng = random.Random(sub_seed(seed, "backend", name))
            self.res = Resource(name + ".slots", capacity=bc["cap"]) if bc["cap"] else None
            self.reply = reply
            self.actions = 0
            self.compensations = 0
            self.done = 0
            self.keys = {}

        def handle_event(self, event):
            md = event.context.get("metadata", {})
            if md.get("_saga_compensation"):
                self.compensations += 1
            else:
                self.actions += 1
            key = md.get("idempotency_key")
            if key is not None:
                self.keys[key] = self.keys.get(key, 0) + 1
            bc = self.bc
            lat = bc["lat_ms"] / 1000.0
            if bc["exp"]:
                lat = max(0.0005, self.rng.expovariate(1.0 / lat))
            if not md.get("_saga_compensation") and self.rng.randrange(100) < bc["slow_pct"]:
                lat = bc["slow_ms"] / 1000.0
            grant = None
            if self.res is not None:
                grant = yield self.res.acquire()
            yield lat
            if grant is not None:
                grant.release()
            self.done += 1
            if self.reply and "created_at" in event.context:
                # reply to the caller named in the request (a retrying client), else to the sink
                return [self.forward(event, event.context.get("reply_to") or sink, event_type="Reply")]
            return []

        def obs(self):
            return {"actions": self.actions, "comp": self.compensations, "done": self.done,
                    "dup_keys": sorted((k, v) for k, v in self.keys.items() if v > 1)[:20],
                    "n_keys": len(self.keys)}

    def add_backend(name, bc, reply=True):
        b = Backend(name, bc, reply)
        entities.append(b)
        if b.res is not None:
            entities.append(b.res)
        obs[name] = b.obs
        return b

    class Provider(EventProvider):
        def __init__(self, tag, fn):
            self.rng = random.Random(sub_seed(seed, "prov", tag))
            self.fn = fn
            self.n = 0

        def get_events(self, time):
            self.n += 1
            return self.fn(time, self.n, self.rng)

    def src(rate, name, provider, until=None):
        mk = Source.poisson if cfg["poisson"] else Source.constant
        sources.append(mk(rate=rate, name=name, event_provider=provider, stop_after=stop if until is None else until))

    idem_store = None

    # ------------------------------------------------------------------ Idempotency store
    if "idem" in parts:
        c = cfg["idem"]
        pay = add_backend("payment", c["backend"])
        idem_store = IdempotencyStore("idem", target=pay,
                                      key_extractor=lambda e: e.context.get("metadata", {}).get("idempotency_key"),
                                      ttl=c["ttl_ms"] / 1000.0, max_entries=c["max_entries"],
                                      cleanup_interval=c["cleanup_ms"] / 1000.0)

        class RetryingClient(Entity):
            """retries the same idempotency key when no completion arrives in time (idempotency_under_retries.py)"""

            def __init__(self):
                super().__init__("pay-client")
                self.sent = self.retries = self.completed = self.gave_up = self.hook_done = self.late_replies = 0
                self.in_flight = {}

            def handle_event(self, event):
                md = event.context.get("metadata", {})
                if event.event_type == "_rc_done":   # completion hook of the request sent to the store
                    self.hook_done += 1
                    return None
                if event.event_type == "Reply":      # the payment service answered
                    if self.in_flight.pop(event.context["token"], None) is not None:
                        self.completed += 1
                        return [self.forward(event, sink, event_type="Paid")]
                    self.late_replies += 1
                    return None
                if event.event_type == "_rc_timeout":
                    tok = md["token"]
                    if tok not in self.in_flight:
                        return None
                    if md["attempt"] >= c["max_retries"]:
                        del self.in_flight[tok]
                        self.gave_up += 1
                        return None
                    self.retries += 1
                    return self._send(tok, md["key"], md["attempt"] + 1, event.context["created_at"])
                return self._send(f"t{self.sent}", md.get("idempotency_key"), 0, self.now)

            def _send(self, tok, key, attempt, created):
                self.sent += 1
                self.in_flight[tok] = attempt
                fwd = Event(time=self.now, event_type="payment", target=idem_store,
                            context={"created_at": created, "reply_to": self, "token": tok,
                                     "metadata": {"idempotency_key": key}})
                fwd.add_completion_hook(lambda t: Event(time=t, event_type="_rc_done", target=self,
                                                        context={"metadata": {"token": tok}}))
                to = Event(time=self.now + Duration.from_seconds(c["client_timeout_ms"] / 1000.0),
                           event_type="_rc_timeout", target=self,
                           context={"created_at": created, "metadata": {"token": tok, "key": key, "attempt": attempt}})
                return [fwd, to]

        client = RetryingClient()
        entities += [idem_store, client]

        def mk_pay(time, n, rng):
            key = None if rng.randrange(100) < c["none_key_pct"] else f"user-{rng.randrange(c['n_keys'])}"
            return [Event(time=time, event_type="pay", target=client, context={"metadata": {"idempotency_key": key}})]

        src(c["rate"], "src-idem", Provider("idem", mk_pay))
        obs["idem"] = stats_of(idem_store)
        obs["idem.x"] = lambda: {"size": idem_store.cache_size, "in_flight": idem_store.in_flight_count,
                                 "sent": client.sent, "retries": client.retries, "completed": client.completed,
                                 "gave_up": client.gave_up, "open": len(client.in_flight),
                                 "hook_done": client.hook_done, "late": client.late_replies}

    # ------------------------------------------------------------------ API gateway
    if "gateway" in parts:
        g = cfg["gateway"]
        users = [add_backend(f"users-{i}", g["backend"]) for i in range(g["n_backends"])]
        orders = add_backend("orders-0", dict(g["backend"], slow_pct=max(g["backend"]["slow_pct"], 20)))
        pay_backends = [idem_store] if (idem_store is not None and g["to_idem"]) else [add_backend("gw-pay", g["backend"])]
        routes = {
            "/api/users": RouteConfig(name="users", backends=users, rate_limit_policy=policy(g["policy"][0], g["limit"]),
                                      auth_required=True),
            "/api/orders": RouteConfig(name="orders", backends=[orders],
                                       rate_limit_policy=policy(g["policy"][1], g["limit"]), auth_required=False,
                                       timeout=None if g["timeout_ms"] is None else g["timeout_ms"] / 1000.0),
            "/api/pay": RouteConfig(name="pay", backends=pay_backends,
                                    rate_limit_policy=policy(g["policy"][2], g["limit"]), auth_required=True,
                                    timeout=0.05),
            "/api/empty": RouteConfig(name="empty", backends=[], auth_required=False),
        }
        gateway = APIGateway("gateway", routes=routes, auth_latency=g["auth_ms"] / 1000.0,
                             auth_failure_rate=g["auth_fail_pct"] / 100.0)
        entities.append(gateway)
        route_keys = ["/api/users", "/api/orders", "/api/pay", "/api/empty", "/api/nope"]

        def mk_req(time, n, rng):
            r = rng.choices(route_keys, weights=[w + (1 if i < 2 else 0) for i, w in enumerate(g["weights"])])[0]
            user = f"user-{rng.randrange(g['n_users'])}"
            md = {"route": r, "user": user}
            if r == "/api/pay":
                md["idempotency_key"] = f"{user}/{n // 3}"
            if r == "/api/nope" and rng.random() < 0.3:
                md = {}
            return [Event(time=time, event_type="http", target=gateway, context={"created_at": time, "metadata": md})]

        src(g["rate"], "src-gw", Provider("gw", mk_req))
        obs["gateway"] = stats_of(gateway)
        obs["gateway.x"] = lambda: {"routes": sorted(gateway.routes)}

    # ------------------------------------------------------------------ Outbox relay
    if "outbox" in parts:
        o = cfg["outbox"]

        class Collector(Entity):
            def __init__(self):
                super().__init__("mq")
                self.ids = []

            def handle_event(self, event):
                self.ids.append(event.context["metadata"]["entry_id"])
                return None

        mq = Collector()
        outbox = OutboxRelay("outbox", downstream=mq, poll_interval=o["poll_ms"] / 1000.0, batch_size=o["batch"],
                             relay_latency=o["relay_us"] / 1e6)

        class OrderService(Entity):
            def __init__(self):
                super().__init__("order-svc")
                self.n = 0
                self.primed = False

            def handle_event(self, event):
                self.n += 1
                yield o["proc_ms"] / 1000.0
                for j in range(o["writes"]):
                    outbox.write({"order_id": f"order-{self.n}", "part": j, "event_type": "order_created"})
                if "first_write" in o["prime"] and not self.primed:
                    self.primed = True
                    return [outbox.prime_poll()]
                return []

        osvc = OrderService()
        entities += [mq, outbox, osvc]
        src(o["rate"], "src-outbox", Provider("ob", lambda time, n, rng: [
            Event(time=time, event_type="new_order", target=osvc)]))
        if "kick" in o["prime"]:
            # "sending any event to the outbox will auto-prime" (OutboxRelay.prime_poll docstring)
            sources.append(Source.constant(rate=o["kick_rate"], target=outbox, event_type="kick", name="src-kick",
                                           stop_after=stop))
        obs["outbox"] = stats_of(outbox)
        obs["outbox.x"] = lambda: {"pending": outbox.pending_count, "total": outbox.total_entries,
                                   "avg_lag": outbox.stats.avg_relay_lag, "orders": osvc.n, "got": len(mq.ids),
                                   "in_order": mq.ids == sorted(mq.ids), "dups": len(mq.ids) - len(set(mq.ids)),
                                   "head": mq.ids[:10]}

    # ------------------------------------------------------------------ Saga
    if "saga" in parts:
        s = cfg["saga"]
        names = ["inventory", "payment-svc", "shipping", "notify"]
        svcs = []
        for i in range(s["n_steps"]):
            bc = dict(s["backends"][i])
            if i == s["bad_step"]:
                bc["slow_pct"] = max(bc["slow_pct"], 30)
            else:
                bc["slow_pct"] = min(bc["slow_pct"], 5)
            svcs.append(add_backend(names[i], bc, reply=False))
        comp = add_backend("compensator", s["backends"][0], reply=False) if s["shared_comp"] else None
        steps = []
        for i in range(s["n_steps"]):
            to = s["timeout_ms"][i]
            if i == s["bad_step"] and to is None:
                to = 40
            steps.append(SagaStep(name=f"step-{names[i]}", action_target=svcs[i], action_event_type=f"do_{names[i]}",
                                  compensation_target=comp or svcs[i], compensation_event_type=f"undo_{names[i]}",
                                  timeout=None if to is None else to / 1000.0))
        outcomes = []

        def on_saga_done(saga_id, state, results):
            outcomes.append([saga_id, state.name, [[r.step_name, r.success] for r in results]])

        saga = Saga("order-saga", steps=steps, on_complete=on_saga_done)
        entities.append(saga)
        hook_fired = []

        def mk_order(time, n, rng):
            ev = Event(time=time, event_type="start_order", target=saga,
                       context={"payload": {"order_id": f"order-{n}", "customer": f"user-{rng.randrange(9)}"}})
            ev.add_completion_hook(lambda t, n=n: hook_fired.append([n, t.nanoseconds]) or None)
            return [ev]

        src(s["rate"], "src-saga", Provider("saga", mk_order))
        obs["saga"] = stats_of(saga)
        obs["saga.x"] = lambda: {"active": saga.active_instances, "outcomes": outcomes, "hooks": hook_fired,
                                 "state1": (saga.get_instance_state(1).name if saga.get_instance_state(1) else None)}

    # ------------------------------------------------------------------ Sidecar
    if "sidecar" in parts:
        c2 = cfg["sidecar"]
        svc = add_backend("mesh-backend", c2["backend"])
        sidecar = Sidecar("sidecar", target=svc, rate_limit_policy=policy(c2["policy"], c2["limit"]),
                          circuit_failure_threshold=c2["fail_thr"], circuit_success_threshold=c2["succ_thr"],
                          circuit_timeout=c2["circuit_ms"] / 1000.0, request_timeout=c2["timeout_ms"] / 1000.0,
                          max_retries=c2["max_retries"], retry_base_delay=c2["backoff_ms"] / 1000.0)
        entities.append(sidecar)
        states = []

        class StateProbe(Entity):
            def handle_event(self, event):
                st = sidecar.circuit_state
                if not states or states[-1][1] != st:
                    states.append([self.now.nanoseconds, st])
                return None

        probe = StateProbe("cb-probe")
        entities.append(probe)
        sources.append(Source.constant(rate=20, target=probe, event_type="probe", name="src-probe",
                                       stop_after=end - 0.1))
        src(c2["rate"], "src-sidecar", Provider("sc", lambda time, n, rng: [
            Event(time=time, event_type="rpc", target=sidecar,
                  context={"created_at": time, "metadata": {"caller": f"user-{rng.randrange(7)}"}})]))
        obs["sidecar"] = stats_of(sidecar)
        obs["sidecar.x"] = lambda: {"circuit": sidecar.circuit_state, "states": states}

    sim = Simulation(end_time=T(end), sources=sources, entities=entities)
    for f in pre:
        f(sim)
    return sim, obs
