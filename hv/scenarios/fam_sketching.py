"""Sketching: two shards of clients → worker (service latency) → fan-out to SketchCollector(CountMinSketch /
HyperLogLog / BloomFilter / ReservoirSampler / TDigest / TopK), TopKCollector and QuantileEstimator, all fed with
STRING items ("user-17"); shard sketches are merged near the end of the run; two MerkleTree replicas with lossy
replication and periodic anti-entropy (diff + repair); a snapshotter samples estimates during the run.

`cfg["cms"]` switches every use of CountMinSketch on/off (CountMinSketch hashes items with builtin hash())."""
from __future__ import annotations

import random

from hv.scenarios.base import T, seed_all, sub_seed

NAME = "sketching"
MODEL = "C20"
COMPONENTS = ["SketchCollector", "TopKCollector", "QuantileEstimator", "CountMinSketch", "BloomFilter",
              "HyperLogLog", "TopK", "ReservoirSampler", "TDigest", "MerkleTree", "Source"]

PROBE = ["user-0", "user-1", "user-2", "user-3", "user-5", "user-8", "user-13", "user-17", "user-21", "user-34",
         "ghost-1", "ghost-2", "ghost-3", "k3"]
QS = [0.01, 0.25, 0.5, 0.9, 0.99]


def gen_cfg(rng):
    return {
        "end": rng.choice([2.0, 3.0, 4.0]),
        "cms": rng.random() < 0.8,
        "cms_w": rng.choice([8, 16, 64, 272]),
        "cms_d": rng.randint(1, 5),
        "cms_weighted": rng.random() < 0.4,
        "hll_p": rng.choice([4, 6, 10]),
        "bloom_bits": rng.choice([64, 256, 1024]),
        "bloom_k": rng.choice([None, 2, 4]),
        "res_size": rng.choice([3, 8, 20]),
        "td_comp": rng.choice([10, 25, 100]),
        "topk": rng.choice([2, 5, 10]),
        "topk_weighted": rng.random() < 0.4,
        "n_items": rng.choice([12, 40, 150]),
        "skew": rng.choice([1, 2, 3]),
        "svc_ms": rng.randint(2, 40),
        "clients": [[{"rate": rng.choice([10, 20, 40]), "poisson": rng.random() < 0.6}
                     for _ in range(rng.randint(2, 3))] for _ in range(2)],
        "merkle_keys": rng.choice([8, 20, 40]),
        "merkle_drop_pct": rng.choice([0, 10, 30]),
        "merkle_lag_ms": rng.randint(1, 50),
        "merkle_remove_pct": rng.choice([0, 5, 15]),
        "sync_rate": rng.choice([2, 5, 10]),
        "snap_rate": rng.choice([2, 5]),
    }


def build(cfg, seed):
    from happysimulator.components.sketching import QuantileEstimator, SketchCollector, TopKCollector
    from happysimulator.core.entity import Entity
    from happysimulator.core.event import Event
    from happysimulator.core.simulation import Simulation
    from happysimulator.load.source import Source
    from happysimulator.sketching import (BloomFilter, CountMinSketch, HyperLogLog, MerkleTree, ReservoirSampler,
                                          TDigest, TopK)

    seed_all(seed)
    end = cfg["end"]
    stop = end - 0.4
    use_cms = cfg["cms"]

    # both shards use the same sketch seeds (a requirement of merge()); the sampler's RNG differs per shard
    def mk_cms():
        return CountMinSketch(width=cfg["cms_w"], depth=cfg["cms_d"], seed=sub_seed(seed, "cms"))

    def mk_hll():
        return HyperLogLog(precision=cfg["hll_p"], seed=sub_seed(seed, "hll"))

    def mk_bloom():
        return BloomFilter(size_bits=cfg["bloom_bits"], num_hashes=cfg["bloom_k"], seed=sub_seed(seed, "bloom"))

    def mk_res(tag):
        return ReservoirSampler(size=cfg["res_size"], seed=sub_seed(seed, "res", tag))

    def mk_td():
        return TDigest(compression=float(cfg["td_comp"]), seed=sub_seed(seed, "td"))

    def mk_topk():
        return TopK(k=cfg["topk"], seed=sub_seed(seed, "topk"))

    cust = lambda e: e.context.get("customer")  # noqa: E731
    lat = lambda e: e.context.get("latency")  # noqa: E731
    weight = lambda e: e.context.get("weight", 1)  # noqa: E731

    shards = []
    for s in range(2):
        col = {}
        if use_cms:
            col["cms"] = SketchCollector(f"cms-{s}", mk_cms(), cust, weight_extractor=weight if cfg["cms_weighted"] else None)
        col["hll"] = SketchCollector(f"hll-{s}", mk_hll(), cust)
        col["bloom"] = SketchCollector(f"bloom-{s}", mk_bloom(), cust)
        col["res"] = SketchCollector(f"res-{s}", mk_res(s), cust)
        col["td"] = SketchCollector(f"td-{s}", mk_td(), lat)
        col["tk"] = SketchCollector(f"tk-{s}", mk_topk(), cust, weight_extractor=weight)
        col["topk"] = TopKCollector(f"topk-{s}", k=cfg["topk"], value_extractor=cust,
                                    count_extractor=weight if cfg["topk_weighted"] else None,
                                    seed=sub_seed(seed, "topkc"))
        col["quant"] = QuantileEstimator(f"quant-{s}", value_extractor=lat, compression=float(cfg["td_comp"]),
                                         seed=sub_seed(seed, "quant"))
        shards.append(col)

    class Replica(Entity):
        def __init__(self, name):
            super().__init__(name)
            self.tree = MerkleTree()
            self.applied = 0

        def handle_event(self, event):
            c = event.context
            self.applied += 1
            if c["op"] == "del":
                self.tree.remove(c["key"])
            else:
                self.tree.update(c["key"], c["value"])
            return None

    rep_a, rep_b = Replica("replica-a"), Replica("replica-b")

    class Worker(Entity):
        def __init__(self, s):
            super().__init__(f"worker-{s}")
            self.s = s
            self.rng = random.Random(sub_seed(seed, "worker", s))
            self.n = 0
            self.done = 0

        def handle_event(self, event):
            self.n += 1
            r = self.rng
            idx = int(cfg["n_items"] * (r.random() ** cfg["skew"]))
            item = f"user-{idx}"
            t0 = self.now
            yield r.randint(1, cfg["svc_ms"]) / 1000.0
            self.done += 1
            latency = (self.now - t0).to_seconds()
            ctx = {"customer": item, "latency": latency, "weight": 1 + idx % 3, "created_at": t0}
            out = [Event(time=self.now, event_type="Obs", target=c, context=ctx) for c in shards[self.s].values()]
            # replicated key/value store guarded by Merkle trees
            key = f"k{idx % cfg['merkle_keys']}"
            op = "del" if r.randrange(100) < cfg["merkle_remove_pct"] else "put"
            w = {"op": op, "key": key, "value": f"v{self.s}-{self.n}"}
            out.append(Event(time=self.now, event_type="Write", target=rep_a, context=w))
            if r.randrange(100) >= cfg["merkle_drop_pct"]:
                out.append(Event(time=self.now + cfg["merkle_lag_ms"] / 1000.0, event_type="Write", target=rep_b,
                                 context=w))
            return out

    workers = [Worker(0), Worker(1)]

    class AntiEntropy(Entity):
        def __init__(self):
            super().__init__("anti-entropy")
            self.rounds = []
            self.repaired = 0

        def handle_event(self, event):
            a, b = rep_a.tree, rep_b.tree
            ranges = a.diff(b)
            self.rounds.append([self.now.nanoseconds, len(ranges), [[r.start, r.end] for r in ranges[:4]],
                                a.root_hash == b.root_hash])
            if not ranges:
                return None
            yield 0.002
            keys = sorted(dict.fromkeys(a.keys() + b.keys()))
            for k in keys:
                if any(r.contains(k) for r in ranges):
                    va = a.get(k)
                    if va is None:
                        if b.remove(k):
                            self.repaired += 1
                    elif b.get(k) != va:
                        b.update(k, va)
                        self.repaired += 1
            return None

    anti = AntiEntropy()

    class Snapshotter(Entity):
        def __init__(self):
            super().__init__("snapshotter")
            self.rows = []

        def handle_event(self, event):
            row = [self.now.nanoseconds]
            for col in shards:
                row.append(col["hll"].sketch.cardinality())
                row.append([[e.item, e.count] for e in col["topk"].top(2)])
                row.append(col["quant"].sample_count)
                if use_cms:
                    row.append([col["cms"].sketch.estimate(x) for x in PROBE[:4]])
            self.rows.append(row)
            return None

    snap = Snapshotter()
    merged = {}

    class Merger(Entity):
        """merges the shard sketches into fresh ones near the end of the run"""

        def handle_event(self, event):
            pairs = [("hll", mk_hll), ("bloom", mk_bloom), ("res", lambda: mk_res("m")), ("td", mk_td),
                     ("tk", mk_topk)]
            if use_cms:
                pairs.append(("cms", mk_cms))
            for k, mk in pairs:
                m = mk()
                for col in shards:
                    m.merge(col[k].sketch)
                merged[k] = m
            return None

    merger = Merger("merger")

    sources = []
    for s in range(2):
        for i, c in enumerate(cfg["clients"][s]):
            mk = Source.poisson if c["poisson"] else Source.constant
            sources.append(mk(rate=c["rate"], target=workers[s], event_type="Tick", name=f"client-{s}-{i}",
                              stop_after=stop))
    sources.append(Source.constant(rate=cfg["sync_rate"], target=anti, event_type="Sync", name="src-sync",
                                   stop_after=end - 0.05))
    sources.append(Source.constant(rate=cfg["snap_rate"], target=snap, event_type="Snap", name="src-snap",
                                   stop_after=end - 0.05))
    ents = [*workers, rep_a, rep_b, anti, snap, merger]
    for col in shards:
        ents += list(col.values())
    sim = Simulation(end_time=T(end), sources=sources, entities=ents)
    sim.schedule(Event(time=T(end - 0.1), event_type="Merge", target=merger))

    # ------------------------------------------------------------------ observers
    def cms_view(c):
        return {"est": [[x, c.estimate(x)] for x in PROBE], "n": c.item_count,
                "err0": [c.estimate_with_error(PROBE[0]).count, c.estimate_with_error(PROBE[0]).error],
                "self_ip": c.inner_product(c), "w": c.width, "d": c.depth, "mem": c.memory_bytes}

    def hll_view(h):
        return {"card": h.cardinality(), "n": h.item_count, "se": h.standard_error(), "mem": h.memory_bytes}

    def bloom_view(b):
        return {"in": [[x, b.contains(x)] for x in PROBE], "fill": b.fill_ratio, "fpr": b.false_positive_rate,
                "n": b.item_count, "bits": b.size_bits, "k": b.num_hashes}

    def res_view(r):
        return {"sample": list(r.sample()), "n": r.item_count, "size": r.sample_size, "full": r.is_full}

    def td_view(t):
        if t.item_count == 0:
            return {"n": 0}
        return {"q": [t.quantile(q) for q in QS], "cdf": [t.cdf(x) for x in (0.005, 0.02, 0.1)],
                "n": t.item_count, "centroids": t.centroid_count, "min": t.min, "max": t.max}

    def tk_view(t):
        return {"top": [[e.item, e.count, e.error] for e in t.top(None)], "n": t.item_count,
                "tracked": t.tracked_count, "max_err": t.max_error(), "thr": t.guaranteed_threshold(),
                "est": [[x, t.estimate(x)] for x in PROBE[:6]]}

    views = {"cms": cms_view, "hll": hll_view, "bloom": bloom_view, "res": res_view, "td": td_view, "tk": tk_view}

    def shard_obs(s, k):
        def read():
            c = shards[s][k]
            d = views[k](c.sketch)
            d["events"] = c.events_processed
            return d
        return read

    def topk_obs(c):
        return lambda: {"top": [[e.item, e.count, e.error] for e in c.top()], "top3": [e.item for e in c.top(3)],
                        "total": c.total_count, "tracked": c.tracked_count, "max_err": c.max_error(),
                        "thr": c.guaranteed_threshold(), "events": c.events_processed, "k": c.k,
                        "has": [[x, x in c, c.estimate(x)] for x in PROBE[:6]]}

    def quant_obs(q):
        def read():
            sm = q.summary()
            return {"p50": sm.p50, "p75": sm.p75, "p90": sm.p90, "p95": sm.p95, "p99": sm.p99, "p999": sm.p999,
                    "min": sm.min, "max": sm.max, "count": sm.count, "events": q.events_processed,
                    "cdf": q.cdf(0.01) if sm.count else None, "q": q.quantile(0.5) if sm.count else None}
        return read

    obs = {}
    for s in range(2):
        for k in shards[s]:
            if k == "topk":
                obs[f"topk-{s}"] = topk_obs(shards[s][k])
            elif k == "quant":
                obs[f"quant-{s}"] = quant_obs(shards[s][k])
            else:
                obs[f"{k}-{s}"] = shard_obs(s, k)
    for k in ["hll", "bloom", "res", "td", "tk"] + (["cms"] if use_cms else []):
        obs[f"merged-{k}"] = (lambda k=k: views[k](merged[k]) if k in merged else None)
    obs["workers"] = lambda: [[w.n, w.done] for w in workers]
    obs["merkle"] = lambda: {"a": [rep_a.tree.root_hash, rep_a.tree.size, rep_a.applied],
                             "b": [rep_b.tree.root_hash, rep_b.tree.size, rep_b.applied],
                             "diff": [[r.start, r.end] for r in rep_a.tree.diff(rep_b.tree)],
                             "a_items": [[k, v] for k, v in rep_a.tree.items()][:10],
                             "repaired": anti.repaired, "rounds": anti.rounds}
    obs["snap"] = lambda: snap.rows
    return sim, obs
