"""Sketching: two shards of clients → worker (service latency) → fan-out to SketchCollector(CountMinSketch /
HyperLogLog / BloomFilter / ReservoirSampler / TDigest / TopK), TopKCollector and QuantileEstimator, all fed with
STRING items ("user-17"); shard sketches are merged near the end of the run; two MerkleTree replicas with lossy
replication and periodic anti-entropy (diff + repair); a snapshotter samples estimates during the run.

`cfg["cms"]` switches every use of CountMinSketch on/off (CountMinSketch hashes items with builtin hash()).

Widened configuration space (new keys are read with `cfg.get`; old corpus cfgs keep building):
  * every sketch type is in the bank of every scenario; `only` restricts a scenario to a few kinds (single-variant runs);
  * classmethod factories `CountMinSketch.from_error_rate` / `BloomFilter.from_expected_items` (incl. n = 0),
    BloomFilter default `num_hashes` (internal constant 7), HyperLogLog precisions on both sides of the `_ALPHA`
    table (4, 5, 6 | 7 … 16) with item populations above the small-range correction bound 2.5 * 2**p,
    TDigest compressions 0.4 … 500 (buffer of `int(2 * compression)` values: 0, 2, 5, … 1000 — flushed on every
    add, after a few adds, never during the run), k = 1 TopK, reservoirs of size 1 … 100 against populations
    below and far above them;
  * items as str / int / tuple; weights 0, 1, 2 (count = 0 is a no-op add), value extractors returning None;
    weighted TDigest / HyperLogLog / Bloom / Reservoir adds;
  * durations (`svc`, `merkle_lag_ms`, `repair_ms`, `sync_ms`, `snap_ms`, merge / clear instants) from `dur_ms`:
    lossy values, zero service time, replication lag longer than the anti-entropy period, merges at several
    (lossy) instants during the run, `clear()` of a shard's collectors in mid-run;
  * load regimes: light, sustained overload (hundreds of observations per second per shard with service times far
    above the inter-arrival time), same-instant bursts, occasional long run.
Seeds: every sketch takes `seed=sub_seed(...)`; none of them draws from the module-level `random`."""
from __future__ import annotations

import random

from hv.scenarios.base import T, dur_ms, seed_all, sub_seed

NAME = "sketching"
MODEL = "C20"
COMPONENTS = ["SketchCollector", "TopKCollector", "QuantileEstimator", "LatencyPercentiles", "CountMinSketch",
              "BloomFilter", "HyperLogLog", "TopK", "ReservoirSampler", "TDigest", "MerkleTree", "Source"]

PROBE = ["user-0", "user-1", "user-2", "user-3", "user-5", "user-8", "user-13", "user-17", "user-21", "user-34",
         "ghost-1", "ghost-2", "ghost-3", "k3"]
PROBE_IDX = [0, 1, 2, 3, 5, 8, 13, 17, 21, 34]
QS = [0.01, 0.25, 0.5, 0.9, 0.99]
KINDS = ["cms", "hll", "bloom", "res", "td", "tk", "topk", "quant"]


def gen_cfg(rng):
    regime = rng.choices(["light", "overload", "long"], weights=[64, 24, 12])[0]
    if regime == "long":
        end, rates = rng.choice([8.0, 10.0, 12.0]), [4, 8, 12]
    elif regime == "overload":
        end, rates = rng.choice([2.0, 3.0]), [60, 120, 200]
    else:
        end, rates = rng.choice([2.0, 3.0, 4.0]), [10, 20, 40]
    hll_p = rng.choice([4, 5, 6, 7, 8, 10, 12, 14]) if rng.random() < 0.93 else 16
    if regime == "long":
        hll_p = min(hll_p, 12)        # cardinality() is O(2**p) and the snapshotter calls it every period
    heavy = regime == "overload"
    lo = dur_ms(rng, 0.05, 20, zero=True)
    bursts = []
    if rng.random() < 0.35:
        for _ in range(rng.randint(1, 2)):
            bursts.append([dur_ms(rng, 50, min(2600, end * 1000 - 600)), rng.choice([5, 25, 80]), rng.randrange(2)])
    merges = sorted({dur_ms(rng, 200, end * 1000 - 150) for _ in range(rng.randint(0, 2))}) + [end * 1000 - 100]
    return {
        "end": end,
        "regime": regime,
        "only": rng.sample(KINDS, rng.randint(1, 2)) if rng.random() < 0.15 else None,
        "cms": rng.random() < 0.8,
        "cms_w": rng.choice([1, 8, 16, 64, 272]),
        "cms_d": rng.randint(1, 5),
        "cms_factory": {"eps": rng.choice([0.5, 0.1, 0.01]), "delta": rng.choice([0.5, 0.05, 0.001])}
        if rng.random() < 0.3 else None,
        "cms_weighted": rng.random() < 0.4,
        "hll_p": hll_p,
        "bloom_bits": rng.choice([1, 63, 64, 65, 256, 1024]),
        "bloom_k": rng.choice([None, 1, 2, 4, 7, 8]),
        "bloom_factory": {"n": rng.choice([0, 1, 10, 100, 1000]), "fp": rng.choice([0.5, 0.1, 0.01, 0.001])}
        if rng.random() < 0.3 else None,
        "res_size": rng.choice([1, 3, 8, 20, 100]),
        "td_comp": rng.choice([0.4, 1, 2.5, 10, 25, 100, 500]),
        "all_weighted": rng.random() < 0.3,          # weight extractor also on hll / bloom / res / td
        "zero_weights": rng.random() < 0.4,          # weights 0, 1, 2 instead of 1, 2, 3
        "none_pct": rng.choice([0, 0, 10, 50]),      # share of observations whose extractors return None
        # "mixed": every item type in one stream (str, int, float, tuples with strings — composite keys such as
        # (tenant, key) whose builtin hash is salted per interpreter)
        "item_kind": rng.choice(["str", "int", "tuple", "mixed", "mixed"]),
        "topk": rng.choice([1, 2, 5, 10, 50]),
        "topk_weighted": rng.random() < 0.4,
        "n_items": rng.choice([1, 12, 40, 150, 1000]) if not heavy else rng.choice([40, 150, 1000, 5000]),
        "skew": rng.choice([1, 2, 3]),
        "svc_ms": 20,
        # service time: one of 5 levels between lo and hi (ms); zero and sub-ms values included
        "svc": {"lo_ms": lo, "hi_ms": dur_ms(rng, max(lo, 0.05), 900 if rng.random() < 0.25 else 60)},
        "clients": [[{"rate": rng.choice(rates), "poisson": rng.random() < 0.6}
                     for _ in range(rng.randint(1, 3) if not heavy else rng.randint(1, 2))] for _ in range(2)],
        "bursts": bursts,
        # (MerkleTree.update rebuilds the whole tree: keep it small when the write rate is high)
        "merkle_keys": rng.choice([1, 4, 8]) if heavy else rng.choice([1, 8, 20, 40, 100]),
        "merkle_drop_pct": rng.choice([0, 10, 30, 100]),
        "merkle_lag_ms": dur_ms(rng, 0.1, 60, zero=True) if rng.random() < 0.7 else dur_ms(rng, 100, 1500),
        "merkle_remove_pct": rng.choice([0, 5, 15, 60]),
        "repair_ms": dur_ms(rng, 0.1, 40, zero=True),
        "sync_rate": 5,
        "snap_rate": 2,
        "sync_ms": dur_ms(rng, 40, 1500),
        "snap_ms": dur_ms(rng, 100, 1300),
        "merges": merges,
        "clear_ms": dur_ms(rng, 200, end * 1000 - 300) if rng.random() < 0.3 else None,
    }


def gen_cfg_wide(rng):
    """maximum-coverage configuration: every sketch kind, every item type in one stream"""
    cfg = gen_cfg(rng)
    cfg.update({"only": None, "item_kind": "mixed", "cms": True})
    return cfg


def build(cfg, seed):
    from happysimulator.components.sketching import QuantileEstimator, SketchCollector, TopKCollector
    from happysimulator.components.sketching.quantile_estimator import LatencyPercentiles
    from happysimulator.core.entity import Entity
    from happysimulator.core.event import Event
    from happysimulator.core.simulation import Simulation
    from happysimulator.load.source import Source
    from happysimulator.sketching import (BloomFilter, CountMinSketch, HyperLogLog, MerkleTree, ReservoirSampler,
                                          TDigest, TopK)

    seed_all(seed)
    end = cfg["end"]
    stop = end - 0.4
    only = cfg.get("only")
    use = {k: (only is None or k in only) for k in KINDS}
    use_cms = cfg["cms"] and use["cms"]
    ikind = cfg.get("item_kind", "str")

    def item_of(idx):
        if ikind == "int":
            return idx
        if ikind == "tuple":
            return ("user", idx % 7, idx)
        if ikind == "mixed":
            k = idx % 5
            if k == 0:
                return idx
            if k == 1:
                return ("user", idx % 7, idx)
            if k == 2:
                return (f"tenant-{idx % 3}", f"key-{idx}")
            if k == 3:
                return idx + 0.5
        return f"user-{idx}"

    probe = PROBE if ikind == "str" else [item_of(i) for i in PROBE_IDX] + [item_of(10**6 + i) for i in range(3)]

    def js(x):
        return list(x) if isinstance(x, tuple) else x

    # both shards use the same sketch seeds (a requirement of merge()); the sampler's RNG differs per shard
    def mk_cms():
        f = cfg.get("cms_factory")
        if f:
            return CountMinSketch.from_error_rate(epsilon=f["eps"], delta=f["delta"], seed=sub_seed(seed, "cms"))
        return CountMinSketch(width=cfg["cms_w"], depth=cfg["cms_d"], seed=sub_seed(seed, "cms"))

    def mk_hll():
        return HyperLogLog(precision=cfg["hll_p"], seed=sub_seed(seed, "hll"))

    def mk_bloom():
        f = cfg.get("bloom_factory")
        if f:
            return BloomFilter.from_expected_items(n=f["n"], fp_rate=f["fp"], seed=sub_seed(seed, "bloom"))
        return BloomFilter(size_bits=cfg["bloom_bits"], num_hashes=cfg["bloom_k"], seed=sub_seed(seed, "bloom"))

    def mk_res(tag):
        return ReservoirSampler(size=cfg["res_size"], seed=sub_seed(seed, "res", tag))

    def mk_td():
        return TDigest(compression=float(cfg["td_comp"]), seed=sub_seed(seed, "td"))

    def mk_topk():
        return TopK(k=cfg["topk"], seed=sub_seed(seed, "topk"))

    cust = lambda e: e.context.get("customer")  # noqa: E731
    lat = lambda e: e.context.get("latency")  # noqa: E731
    weight = lambda e: e.context.get("weight", 1)  # noqa: E731
    w_all = weight if cfg.get("all_weighted") else None

    shards = []
    for s in range(2):
        col = {}
        if use_cms:
            col["cms"] = SketchCollector(f"cms-{s}", mk_cms(), cust, weight_extractor=weight if cfg["cms_weighted"] else None)
        if use["hll"]:
            col["hll"] = SketchCollector(f"hll-{s}", mk_hll(), cust, weight_extractor=w_all)
        if use["bloom"]:
            col["bloom"] = SketchCollector(f"bloom-{s}", mk_bloom(), cust, weight_extractor=w_all)
        if use["res"]:
            col["res"] = SketchCollector(f"res-{s}", mk_res(s), cust, weight_extractor=w_all)
        if use["td"]:
            col["td"] = SketchCollector(f"td-{s}", mk_td(), lat, weight_extractor=w_all)
        if use["tk"]:
            col["tk"] = SketchCollector(f"tk-{s}", mk_topk(), cust, weight_extractor=weight)
        if use["topk"]:
            col["topk"] = TopKCollector(f"topk-{s}", k=cfg["topk"], value_extractor=cust,
                                        count_extractor=weight if cfg["topk_weighted"] else None,
                                        seed=sub_seed(seed, "topkc"))
        if use["quant"]:
            col["quant"] = QuantileEstimator(f"quant-{s}", value_extractor=lat, compression=float(cfg["td_comp"]),
                                             seed=sub_seed(seed, "quant"))
        shards.append(col)

    class Replica(Entity):
        def __init__(self, name):
            super().__init__(name)
            self.tree = MerkleTree()
            self.applied = 0

        def handle_event(self, event):
            c = event.context
            self.applied += 1
            if c["op"] == "del":
                self.tree.remove(c["key"])
            else:
                self.tree.update(c["key"], c["value"])
            return None

    rep_a, rep_b = Replica("replica-a"), Replica("replica-b")
    svc = cfg.get("svc")
    w0 = 0 if cfg.get("zero_weights") else 1
    none_pct = cfg.get("none_pct", 0)

    class Worker(Entity):
        def __init__(self, s):
            super().__init__(f"worker-{s}")
            self.s = s
            self.rng = random.Random(sub_seed(seed, "worker", s))
            self.n = 0
            self.done = 0

        def handle_event(self, event):
            self.n += 1
            r = self.rng
            idx = int(cfg["n_items"] * (r.random() ** cfg["skew"]))
            item = item_of(idx)
            t0 = self.now
            if svc is None:
                yield r.randint(1, cfg["svc_ms"]) / 1000.0
            else:
                yield (svc["lo_ms"] + (svc["hi_ms"] - svc["lo_ms"]) * r.randrange(5) / 4.0) / 1000.0
            self.done += 1
            latency = (self.now - t0).to_seconds()
            ctx = {"customer": item, "latency": latency, "weight": w0 + idx % 3, "created_at": t0}
            if none_pct and r.randrange(100) < none_pct:
                ctx["customer"] = None
                ctx["latency"] = None
            out = [Event(time=self.now, event_type="Obs", target=c, context=ctx) for c in shards[self.s].values()]
            # replicated key/value store guarded by Merkle trees
            key = f"k{idx % cfg['merkle_keys']}"
            op = "del" if r.randrange(100) < cfg["merkle_remove_pct"] else "put"
            w = {"op": op, "key": key, "value": f"v{self.s}-{self.n}"}
            out.append(Event(time=self.now, event_type="Write", target=rep_a, context=w))
            if r.randrange(100) >= cfg["merkle_drop_pct"]:
                out.append(Event(time=self.now + cfg["merkle_lag_ms"] / 1000.0, event_type="Write", target=rep_b,
                                 context=w))
            return out

    workers = [Worker(0), Worker(1)]
    repair_s = cfg["repair_ms"] / 1000.0 if "repair_ms" in cfg else 0.002

    class AntiEntropy(Entity):
        def __init__(self):
            super().__init__("anti-entropy")
            self.rounds = []
            self.repaired = 0

        def handle_event(self, event):
            a, b = rep_a.tree, rep_b.tree
            ranges = a.diff(b)
            if len(self.rounds) < 120:
                self.rounds.append([self.now.nanoseconds, len(ranges), [[r.start, r.end] for r in ranges[:4]],
                                    a.root_hash == b.root_hash])
            if not ranges:
                return None
            yield repair_s
            keys = sorted(dict.fromkeys(a.keys() + b.keys()))
            for k in keys:
                if any(r.contains(k) for r in ranges):
                    va = a.get(k)
                    if va is None:
                        if b.remove(k):
                            self.repaired += 1
                    elif b.get(k) != va:
                        b.update(k, va)
                        self.repaired += 1
            return None

    anti = AntiEntropy()

    class Snapshotter(Entity):
        def __init__(self):
            super().__init__("snapshotter")
            self.rows = []

        def handle_event(self, event):
            row = [self.now.nanoseconds]
            for col in shards:
                if "hll" in col:
                    row.append(col["hll"].sketch.cardinality())
                if "topk" in col:
                    row.append([[js(e.item), e.count] for e in col["topk"].top(2)])
                if "quant" in col:
                    q = col["quant"]
                    row.append([q.sample_count, q.min, q.max, q.percentile(90) if q.sample_count else None])
                if "td" in col and col["td"].sketch.item_count:
                    row.append([col["td"].sketch.quantile(0.5), col["td"].sketch.centroid_count])
                if use_cms:
                    row.append([col["cms"].sketch.estimate(x) for x in probe[:4]])
            if len(self.rows) < 150:
                self.rows.append(row)
            return None

    snap = Snapshotter()
    merged = {}
    merge_log = []

    class Merger(Entity):
        """merges the shard sketches into fresh ones (several times during the run, last near the end);
        `Clear` resets the collectors of shard 1"""

        def handle_event(self, event):
            if event.event_type == "Clear":
                for c in shards[1].values():
                    c.clear()
                merge_log.append([self.now.nanoseconds, "clear"])
                return None
            pairs = [("hll", mk_hll), ("bloom", mk_bloom), ("res", lambda: mk_res("m")), ("td", mk_td),
                     ("tk", mk_topk)]
            if use_cms:
                pairs.append(("cms", mk_cms))
            for k, mk in pairs:
                if k not in shards[0]:
                    continue
                m = mk()
                for col in shards:
                    m.merge(col[k].sketch)
                merged[k] = m
            merge_log.append([self.now.nanoseconds, "merge", sorted(merged)])
            return None

    merger = Merger("merger")

    sources = []
    for s in range(2):
        for i, c in enumerate(cfg["clients"][s]):
            mk = Source.poisson if c["poisson"] else Source.constant
            sources.append(mk(rate=c["rate"], target=workers[s], event_type="Tick", name=f"client-{s}-{i}",
                              stop_after=stop))
    sync_rate = 1000.0 / cfg["sync_ms"] if "sync_ms" in cfg else cfg["sync_rate"]
    snap_rate = 1000.0 / cfg["snap_ms"] if "snap_ms" in cfg else cfg["snap_rate"]
    sources.append(Source.constant(rate=sync_rate, target=anti, event_type="Sync", name="src-sync",
                                   stop_after=end - 0.05))
    sources.append(Source.constant(rate=snap_rate, target=snap, event_type="Snap", name="src-snap",
                                   stop_after=end - 0.05))
    ents = [*workers, rep_a, rep_b, anti, snap, merger]
    for col in shards:
        ents += list(col.values())
    sim = Simulation(end_time=T(end), sources=sources, entities=ents)
    if "merges" in cfg:
        for ms in cfg["merges"]:
            sim.schedule(Event(time=T(ms / 1000.0), event_type="Merge", target=merger))
    else:
        sim.schedule(Event(time=T(end - 0.1), event_type="Merge", target=merger))
    if cfg.get("clear_ms") is not None:
        sim.schedule(Event(time=T(cfg["clear_ms"] / 1000.0), event_type="Clear", target=merger))
    for t_ms, n, s in cfg.get("bursts", []):
        for _ in range(n):
            sim.schedule(Event(time=T(t_ms / 1000.0), event_type="Tick", target=workers[s]))

    # ------------------------------------------------------------------ observers
    def cms_view(c):
        return {"est": [[js(x), c.estimate(x)] for x in probe], "n": c.item_count,
                "err0": [c.estimate_with_error(probe[0]).count, c.estimate_with_error(probe[0]).error],
                "self_ip": c.inner_product(c), "w": c.width, "d": c.depth, "mem": c.memory_bytes,
                "eps": c.epsilon, "delta": c.delta}

    def hll_view(h):
        return {"card": h.cardinality(), "n": h.item_count, "se": h.standard_error(), "mem": h.memory_bytes,
                "p": h.precision, "m": h.num_registers}

    def bloom_view(b):
        return {"in": [[js(x), b.contains(x), x in b] for x in probe], "fill": b.fill_ratio,
                "fpr": b.false_positive_rate, "n": b.item_count, "bits": b.size_bits, "k": b.num_hashes}

    def res_view(r):
        return {"sample": [js(x) for x in r.sample()], "n": r.item_count, "size": r.sample_size, "full": r.is_full,
                "cap": r.capacity, "len": len(r), "iter": [js(x) for x in r][:5], "first": js(r[0]) if len(r) else None}

    def td_view(t):
        if t.item_count == 0:
            return {"n": 0, "cdf": t.cdf(0.01), "centroids": t.centroid_count}
        return {"q": [t.quantile(q) for q in QS] + [t.quantile(0), t.quantile(1)],
                "cdf": [t.cdf(x) for x in (0.0, 0.0005, 0.005, 0.02, 0.1, 10.0)], "p99": t.percentile(99),
                "n": t.item_count, "centroids": t.centroid_count, "min": t.min, "max": t.max, "comp": t.compression}

    def tk_view(t):
        e0 = t.estimate_with_error(probe[0])
        return {"top": [[js(e.item), e.count, e.error] for e in t.top(None)][:60], "n": t.item_count,
                "tracked": t.tracked_count, "max_err": t.max_error(), "thr": t.guaranteed_threshold(),
                "est": [[js(x), t.estimate(x), x in t] for x in probe[:6]], "e0": [e0.count, e0.error], "k": t.k}

    views = {"cms": cms_view, "hll": hll_view, "bloom": bloom_view, "res": res_view, "td": td_view, "tk": tk_view}

    def shard_obs(s, k):
        def read():
            c = shards[s][k]
            d = views[k](c.sketch)
            d["events"] = c.events_processed
            return d
        return read

    def topk_obs(c):
        return lambda: {"top": [[js(e.item), e.count, e.error] for e in c.top()][:60],
                        "top3": [js(e.item) for e in c.top(3)],
                        "total": c.total_count, "tracked": c.tracked_count, "max_err": c.max_error(),
                        "thr": c.guaranteed_threshold(), "events": c.events_processed, "k": c.k,
                        "has": [[js(x), x in c, c.estimate(x)] for x in probe[:6]]}

    def quant_obs(q):
        def read():
            sm = q.summary()
            assert isinstance(sm, LatencyPercentiles)
            return {"p50": sm.p50, "p75": sm.p75, "p90": sm.p90, "p95": sm.p95, "p99": sm.p99, "p999": sm.p999,
                    "min": sm.min, "max": sm.max, "count": sm.count, "events": q.events_processed,
                    "cdf": q.cdf(0.01) if sm.count else None, "q": q.quantile(0.5) if sm.count else None,
                    "n": q.sample_count, "comp": q.compression, "mm": [q.min, q.max]}
        return read

    obs = {}
    for s in range(2):
        for k in shards[s]:
            if k == "topk":
                obs[f"topk-{s}"] = topk_obs(shards[s][k])
            elif k == "quant":
                obs[f"quant-{s}"] = quant_obs(shards[s][k])
            else:
                obs[f"{k}-{s}"] = shard_obs(s, k)
    for k in ["hll", "bloom", "res", "td", "tk"] + (["cms"] if use_cms else []):
        obs[f"merged-{k}"] = (lambda k=k: views[k](merged[k]) if k in merged else None)
    obs["merge_log"] = lambda: merge_log
    obs["workers"] = lambda: [[w.n, w.done] for w in workers]
    obs["merkle"] = lambda: {"a": [rep_a.tree.root_hash, rep_a.tree.size, rep_a.applied],
                             "b": [rep_b.tree.root_hash, rep_b.tree.size, rep_b.applied],
                             "diff": [[r.start, r.end] for r in rep_a.tree.diff(rep_b.tree)],
                             "a_items": [[k, v] for k, v in rep_a.tree.items()][:10],
                             "repaired": anti.repaired, "rounds": anti.rounds}
    obs["snap"] = lambda: snap.rows
    return sim, obs
