"""Configuration coverage of the scenario families against the library's constructors.

    python -m hv.scenarios.coverage [--json]

Enumerates (with `inspect`) every public class defined under `happysimulator.components.**`,
`happysimulator.load.**`, `happysimulator.faults.**`, `happysimulator.distributions.**` together with its
`__init__` parameters and classmethod factories, AST-scans the family modules `hv/scenarios/fam_*.py` for calls
`ClassName(...)` / `ClassName.factory(...)`, and reports

  * classes no family ever instantiates (strategies / policies / algorithms that are never exercised);
  * constructor parameters no family ever passes (always left at their default).

Supporting only: it points the family authors at configuration gaps; it is not a verdict.  The C07/C03 evidence
records the two lists (`ctx.stats["constructor_coverage"]`).
"""
from __future__ import annotations

import ast
import dataclasses
import enum
import importlib
import inspect
import json
import pkgutil
import sys
from pathlib import Path

PACKAGES = ["happysimulator.components", "happysimulator.load", "happysimulator.faults",
            "happysimulator.distributions"]
SKIP_PARAMS = {"self", "name", "args", "kwargs"}
# abstract bases / protocols / records that are not configuration choices
SKIP_SUFFIX = ("Stats", "Error", "Exception", "Event", "Protocol", "Result", "Record", "State", "Info", "Entry",
               "Snapshot", "Metrics", "Response", "Request", "Config")


def library_classes():
    """qualified module -> {class name -> {"params": [...], "factories": [...], "enum": [...]}}"""
    out = {}
    for pkg_name in PACKAGES:
        try:
            pkg = importlib.import_module(pkg_name)
        except Exception:
            continue
        mods = [pkg_name]
        if hasattr(pkg, "__path__"):
            mods += [m.name for m in pkgutil.walk_packages(pkg.__path__, pkg_name + ".")]
        for mn in mods:
            try:
                mod = importlib.import_module(mn)
            except Exception:
                continue
            for cname, cls in vars(mod).items():
                if not inspect.isclass(cls) or cls.__module__ != mn or cname.startswith("_"):
                    continue
                if issubclass(cls, BaseException):
                    continue
                if issubclass(cls, enum.Enum):
                    out.setdefault(cname, {"module": mn, "params": [], "factories": [], "abstract": False,
                                           "enum": [m.name for m in cls]})
                    continue
                if cname.endswith(SKIP_SUFFIX):
                    continue
                if dataclasses.is_dataclass(cls) and all(f.default is not dataclasses.MISSING or
                                                         f.default_factory is not dataclasses.MISSING
                                                         for f in dataclasses.fields(cls)) and cname.endswith("Stats"):
                    continue
                try:
                    sig = inspect.signature(cls.__init__)
                    params = [p.name for p in sig.parameters.values()
                              if p.name not in SKIP_PARAMS and p.kind not in (p.VAR_POSITIONAL, p.VAR_KEYWORD)]
                except (TypeError, ValueError):
                    params = []
                facts = [n for n, v in vars(cls).items()
                         if isinstance(v, (classmethod, staticmethod)) and not n.startswith("_")]
                out[cname] = {"module": mn, "params": params, "factories": facts,
                              "abstract": inspect.isabstract(cls) or getattr(cls, "_is_protocol", False),
                              "enum": []}
    return out


def family_calls():
    """class name -> {"families": set, "kwargs": set, "max_pos": int, "factories": set}; plus attribute names used"""
    calls = {}
    attrs = {}
    here = Path(__file__).resolve().parent
    for f in sorted(here.glob("fam_*.py")):
        tree = ast.parse(f.read_text())
        fam = f.stem[4:]
        for node in ast.walk(tree):
            if isinstance(node, ast.Attribute) and isinstance(node.value, ast.Name):
                attrs.setdefault(node.value.id, set()).add(node.attr)
            # `Enum[cfg["x"]]`, `Enum(value)`, `list(Enum)` / `for m in Enum`: every member is reachable
            if isinstance(node, ast.Subscript) and isinstance(node.value, ast.Name):
                attrs.setdefault(node.value.id, set()).add("*")
            if isinstance(node, (ast.For, ast.comprehension)) and isinstance(node.iter, ast.Name):
                attrs.setdefault(node.iter.id, set()).add("*")
            if isinstance(node, ast.Call) and isinstance(node.func, ast.Name) and node.func.id in ("list", "tuple", "sorted") \
                    and node.args and isinstance(node.args[0], ast.Name):
                attrs.setdefault(node.args[0].id, set()).add("*")
            if not isinstance(node, ast.Call):
                continue
            fn = node.func
            cname = fact = None
            if isinstance(fn, ast.Name):
                cname = fn.id
            elif isinstance(fn, ast.Attribute) and isinstance(fn.value, ast.Name):
                cname, fact = fn.value.id, fn.attr
            if cname is None:
                continue
            c = calls.setdefault(cname, {"families": set(), "kwargs": set(), "max_pos": 0, "factories": set(),
                                         "direct": False})
            c["families"].add(fam)
            if fact is None:
                c["direct"] = True
                c["kwargs"].update(k.arg for k in node.keywords if k.arg)
                if any(k.arg is None for k in node.keywords):
                    c["kwargs"].add("**")
                c["max_pos"] = max(c["max_pos"], len(node.args))
            else:
                c["factories"].add(fact)
    # class objects referenced without a call (tables of strategies: {"rr": RoundRobin, ...}[k]())
    names = {}
    for f in sorted(here.glob("fam_*.py")):
        tree = ast.parse(f.read_text())
        for node in ast.walk(tree):
            if isinstance(node, ast.Name):
                names.setdefault(node.id, set()).add(f.stem[4:])
    return calls, names, attrs


def report():
    lib = library_classes()
    calls, names, attrs = family_calls()
    never, unset, enum_gaps = [], {}, {}
    for cname, info in sorted(lib.items()):
        if info["enum"]:
            used = attrs.get(cname, set())
            missing = [] if "*" in used else [m for m in info["enum"] if m not in used]
            if missing and cname in names:
                enum_gaps[cname] = missing
            elif cname not in names:
                enum_gaps[cname] = ["<enum never referenced>"]
            continue
        if info["abstract"]:
            continue
        c = calls.get(cname)
        if c is None and cname not in names:
            never.append(f"{info['module'].replace('happysimulator.', '')}.{cname}")
            continue
        if c is None or not c["direct"]:
            continue   # referenced through a table or only through factories: parameters cannot be attributed
        if "**" in c["kwargs"]:
            continue
        passed = set(c["kwargs"]) | set(info["params"][:c["max_pos"]])
        miss = [p for p in info["params"] if p not in passed]
        if miss:
            unset[cname] = miss
    return {"library_classes": len(lib), "never_instantiated": never, "parameters_never_set": unset,
            "enum_members_never_used": enum_gaps}


def main():
    r = report()
    if "--json" in sys.argv:
        print(json.dumps(r, indent=1, sort_keys=True))
        return
    print(f"{r['library_classes']} library classes")
    print(f"\n== never instantiated by any family ({len(r['never_instantiated'])})")
    for n in r["never_instantiated"]:
        print("  ", n)
    print(f"\n== constructor parameters never set ({len(r['parameters_never_set'])} classes)")
    for k, v in sorted(r["parameters_never_set"].items()):
        print(f"   {k}: {', '.join(v)}")
    print(f"\n== enum members never used ({len(r['enum_members_never_used'])})")
    for k, v in sorted(r["enum_members_never_used"].items()):
        print(f"   {k}: {', '.join(v)}")


if __name__ == "__main__":
    main()
