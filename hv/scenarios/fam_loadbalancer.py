"""Load balancing: LoadBalancer with every strategy of strategies.py (round robin, weighted RR, random, least
connections, weighted least connections, least response time, IP hash, consistent hash with string keys, power of
two choices), HealthChecker probing backends of which one goes down (and comes back), dynamic membership
(remove/add backend, manual mark_unhealthy/healthy) and RandomRouter in front of LBs or backends."""
from __future__ import annotations

import random

from hv.scenarios.base import T, seed_all, stats_of, sub_seed

NAME = "loadbalancer"
MODEL = None
COMPONENTS = ["LoadBalancer", "HealthChecker", "RoundRobin", "WeightedRoundRobin", "Random", "LeastConnections",
              "WeightedLeastConnections", "LeastResponseTime", "IPHash", "ConsistentHash", "PowerOfTwoChoices",
              "RandomRouter", "Server", "Source"]

STRATEGIES = ["rr", "wrr", "random", "leastconn", "wleastconn", "lrt", "iphash", "iphash-key", "chash", "chash-key",
              "p2c"]


def _lb_cfg(rng, n_backends):
    return {
        "strategy": rng.choice(STRATEGIES),
        "vnodes": rng.choice([1, 3, 20, 100]),
        "alpha_pct": rng.choice([10, 30, 100]),
        "weights": [rng.randint(1, 3) for _ in range(n_backends)],
        "on_no_backend": rng.choice(["reject", "queue"]),
        "health": {
            "enabled": rng.random() < 0.8,
            "interval_ms": rng.choice([100, 200, 400]),
            "timeout_ms": rng.choice([20, 50, 90]),
            "healthy_thr": rng.randint(1, 2),
            "unhealthy_thr": rng.randint(1, 3),
            "stop_ms": rng.choice([0, 0, 1500]),
        },
        "remove_ms": rng.choice([0, 0, 600, 1100]),     # remove the last backend at this time ...
        "readd_ms": rng.choice([0, 300, 700]),           # ... and add it again this much later (0 = never)
        "manual_ms": rng.choice([0, 0, 500]),            # mark backend 0 unhealthy by hand, healthy 250 ms later
    }


def gen_cfg(rng):
    n = rng.randint(2, 4)
    down = []
    for _ in range(rng.randint(1, 2)):
        start = rng.choice([200, 400, 800, 1200])
        down.append({"backend": rng.randrange(n), "from_ms": start, "len_ms": rng.choice([150, 400, 900, 5000])})
    n_lbs = rng.choice([1, 1, 2])
    return {
        "n_backends": n,
        "backend_kind": rng.choice(["gen", "gen", "server"]),
        "svc_ms": [[rng.randint(1, 10), rng.randint(10, 60)] for _ in range(n)],
        "conc": [rng.randint(1, 2) for _ in range(n)],
        "qcap": rng.choice([0, 3, 10]),
        "hang_ms": rng.choice([200, 1000, 10000]),
        "down": down,
        "lbs": [_lb_cfg(rng, n) for _ in range(n_lbs)],
        "router_direct": rng.random() < 0.4,      # an extra RandomRouter straight onto the backends
        "sources": [{"rate": rng.choice([20, 40, 60, 100]), "poisson": rng.random() < 0.5,
                     "keys": rng.choice([3, 17, 101])} for _ in range(rng.randint(2, 4))],
        "end": rng.choice([2.0, 3.0, 4.0]),
    }


def _strategy(lc):
    from happysimulator.components.load_balancer import (ConsistentHash, IPHash, LeastConnections, LeastResponseTime,
                                                        PowerOfTwoChoices, Random, RoundRobin,
                                                        WeightedLeastConnections, WeightedRoundRobin)

    def ctx_key(ev):
        return ev.context.get("key")

    s = lc["strategy"]
    if s == "rr":
        return RoundRobin()
    if s == "wrr":
        return WeightedRoundRobin()
    if s == "random":
        return Random()
    if s == "leastconn":
        return LeastConnections()
    if s == "wleastconn":
        return WeightedLeastConnections()
    if s == "lrt":
        return LeastResponseTime(alpha=lc["alpha_pct"] / 100.0)
    if s == "iphash":
        return IPHash()
    if s == "iphash-key":
        return IPHash(get_key=ctx_key)
    if s == "chash":
        return ConsistentHash(virtual_nodes=lc["vnodes"])
    if s == "chash-key":
        return ConsistentHash(virtual_nodes=lc["vnodes"], get_key=ctx_key)
    return PowerOfTwoChoices()


def build(cfg, seed):
    from happysimulator.components.load_balancer import HealthChecker, LeastResponseTime, LoadBalancer
    from happysimulator.components.random_router import RandomRouter
    from happysimulator.components.server import Server
    from happysimulator.core.entity import Entity
    from happysimulator.core.event import Event
    from happysimulator.core.simulation import Simulation
    from happysimulator.distributions import ConstantLatency
    from happysimulator.load.source import SimpleEventProvider, Source

    seed_all(seed)
    end = cfg["end"]
    n = cfg["n_backends"]

    def is_down(idx, now_ns):
        t_ms = now_ns // 1_000_000
        for d in cfg["down"]:
            if d["backend"] == idx and d["from_ms"] <= t_ms < d["from_ms"] + d["len_ms"]:
                return True
        return False

    class Backend(Entity):
        """variable service time; while down, requests and probes hang (for hang_ms) and are never served"""

        def __init__(self, name, idx, rng):
            super().__init__(name)
            self.idx, self.rng = idx, rng
            self.active = 0
            self.served = 0
            self.hung = 0
            self.probes = 0
            self.keys = {}
            self.via = {}

        @property
        def active_requests(self):
            return self.active

        def handle_event(self, event):
            if event.event_type == "health_check":
                self.probes += 1
            else:
                k = event.context.get("key", "?")
                self.keys[k] = self.keys.get(k, 0) + 1
                v = event.context.get("metadata", {}).get("_lb_name", "direct")
                self.via[v] = self.via.get(v, 0) + 1
            self.active += 1
            if is_down(self.idx, self.now.nanoseconds):
                self.hung += 1
                yield cfg["hang_ms"] / 1000.0
                self.active -= 1
                return None
            lo, hi = cfg["svc_ms"][self.idx]
            yield self.rng.randint(lo, hi) / 1000.0
            self.active -= 1
            self.served += 1
            return None

        def stats(self):
            return {"active": self.active, "served": self.served, "hung": self.hung, "probes": self.probes,
                    "keys": [[k, self.keys[k]] for k in sorted(self.keys)][:12], "nkeys": len(self.keys),
                    "via": dict(self.via)}

    backends, obs, entities, pre = [], {}, [], []
    for i in range(n):
        nm = f"backend-{chr(ord('a') + i)}"
        if cfg["backend_kind"] == "gen":
            b = Backend(nm, i, random.Random(sub_seed(seed, "backend", i)))
            obs[nm] = b.stats
        else:
            lo, hi = cfg["svc_ms"][i]
            b = Server(nm, concurrency=cfg["conc"][i], service_time=ConstantLatency((lo + hi) / 2000.0),
                       queue_capacity=cfg["qcap"] or None)
            obs[nm] = (lambda b=b: {"stats": stats_of(b)(), "acc": b.stats_accepted, "drop": b.stats_dropped,
                                    "depth": b.depth, "active": b.active_requests})
        backends.append(b)
        entities.append(b)

    if cfg["backend_kind"] == "server":
        # a library Server cannot "hang": take it down / up through the load balancers instead (below)
        pass

    lbs = []
    for li, lc in enumerate(cfg["lbs"]):
        strat = _strategy(lc)
        lb = LoadBalancer(f"lb{li}", strategy=strat, on_no_backend=lc["on_no_backend"])
        for b, w in zip(backends, lc["weights"]):
            lb.add_backend(b, weight=w)
        lbs.append(lb)
        entities.append(lb)
        obs[lb.name] = stats_of(lb)

        def lb_more(lb=lb, strat=strat):
            d = {"healthy": [b.name for b in lb.healthy_backends], "unhealthy": [b.name for b in lb.unhealthy_backends],
                 "count": lb.backend_count, "healthy_count": lb.healthy_count, "info": []}
            for b in lb.all_backends:
                inf = lb.get_backend_info(b)
                d["info"].append([b.name, inf.weight, inf.is_healthy, inf.consecutive_successes,
                                  inf.consecutive_failures, inf.total_requests, inf.total_failures])
            if isinstance(strat, LeastResponseTime):
                d["rt"] = [[b.name, strat.get_response_time(b)] for b in lb.all_backends]
            return d

        obs[lb.name + ".more"] = lb_more
        h = lc["health"]
        if h["enabled"]:
            hc = HealthChecker(f"hc{li}", load_balancer=lb, interval=h["interval_ms"] / 1000.0,
                               timeout=h["timeout_ms"] / 1000.0, healthy_threshold=h["healthy_thr"],
                               unhealthy_threshold=h["unhealthy_thr"])
            entities.append(hc)
            pre.append(hc.start())
            obs[hc.name] = stats_of(hc)

            def hc_more(hc=hc):
                out = []
                for b in backends:
                    s = hc.get_backend_state(b)
                    out.append([b.name, s.consecutive_successes, s.consecutive_failures,
                                s.last_check_time.nanoseconds if s.last_check_time is not None else None,
                                s.last_check_passed, s.is_checking])
                return {"running": hc.is_running, "states": out}

            obs[hc.name + ".more"] = hc_more
            if h["stop_ms"]:
                pre.append(Event.once(time=T(h["stop_ms"] / 1000.0), event_type=f"hc{li}.stop",
                                      fn=lambda e, hc=hc: hc.stop()))
        last = backends[-1]
        if lc["remove_ms"]:
            pre.append(Event.once(time=T(lc["remove_ms"] / 1000.0), event_type=f"lb{li}.remove",
                                  fn=lambda e, lb=lb, b=last: lb.remove_backend(b)))
            if lc["readd_ms"]:
                pre.append(Event.once(time=T((lc["remove_ms"] + lc["readd_ms"]) / 1000.0), event_type=f"lb{li}.add",
                                      fn=lambda e, lb=lb, b=last, w=lc["weights"][-1]: lb.add_backend(b, weight=w)))
        if lc["manual_ms"]:
            pre.append(Event.once(time=T(lc["manual_ms"] / 1000.0), event_type=f"lb{li}.mark_unhealthy",
                                  fn=lambda e, lb=lb, b=backends[0]: lb.mark_unhealthy(b)))
            pre.append(Event.once(time=T(lc["manual_ms"] / 1000.0 + 0.25), event_type=f"lb{li}.mark_healthy",
                                  fn=lambda e, lb=lb, b=backends[0]: lb.mark_healthy(b)))
        if cfg["backend_kind"] == "server":
            for d in cfg["down"]:
                pre.append(Event.once(time=T(d["from_ms"] / 1000.0), event_type=f"lb{li}.down",
                                      fn=lambda e, lb=lb, b=backends[d["backend"]]: lb.mark_unhealthy(b)))
                up = (d["from_ms"] + d["len_ms"]) / 1000.0
                if up < end:
                    pre.append(Event.once(time=T(up), event_type=f"lb{li}.up",
                                          fn=lambda e, lb=lb, b=backends[d["backend"]]: lb.mark_healthy(b)))

    if len(lbs) > 1:
        entry = RandomRouter("router", targets=lbs)
        entities.append(entry)
        obs["router"] = (lambda r=entry: {"routed": r.stats_routed, "counts": dict(r.target_counts)})
    else:
        entry = lbs[0]
    direct = None
    if cfg["router_direct"]:
        direct = RandomRouter("router-direct", targets=list(backends))
        entities.append(direct)
        obs["router-direct"] = (lambda r=direct: {"routed": r.stats_routed, "counts": dict(r.target_counts)})

    sources = []
    stop = T(end - 0.5)
    for si, sc in enumerate(cfg["sources"]):
        head = direct if (direct is not None and si == len(cfg["sources"]) - 1) else entry

        def ctx(time, count, _si=si, _k=sc["keys"]):
            key = f"user-{(count * 7 + _si * 3) % _k}"
            md = {"client_id": key} if _si % 2 == 0 else {"session_id": f"sess-{count % _k}", "key": f"k{count % 5}"}
            return {"created_at": time, "request_id": count, "key": key, "metadata": md}

        mk = Source.poisson if sc["poisson"] else Source.constant
        src = mk(rate=sc["rate"], name=f"src{si}",
                 event_provider=SimpleEventProvider(head, f"Req{si}", stop, context_fn=ctx))
        sources.append(src)
        obs[src.name] = (lambda s=src: s.generated_count)

    sim = Simulation(end_time=T(end), sources=sources, entities=entities)
    for e in pre:
        sim.schedule(e)
    return sim, obs
