"""Load balancing: LoadBalancer with every strategy of strategies.py (round robin, weighted RR, random, least
connections, weighted least connections, least response time, IP hash, consistent hash with string keys, power of
two choices), HealthChecker probing backends of which one goes down (and comes back), dynamic membership
(remove/add backend, manual mark_unhealthy/healthy) and RandomRouter in front of LBs or backends.

Coverage notes (widened):
  * every constructor parameter: LoadBalancer(backends=[...]) as well as add_backend(weight), on_no_backend,
    HealthChecker interval / timeout / thresholds / check_event_type, LeastResponseTime alpha (incl. 1.0),
    ConsistentHash virtual_nodes 1..300, custom and default key extractors with every default metadata key
    (client_id, client_ip, session_id, user_id, key) and requests WITHOUT a key (round-robin fallback);
  * a "bank" option: one LoadBalancer per strategy (all 11) over the same backends behind a RandomRouter, or
    "tiered": a front LoadBalancer whose backends are the other LoadBalancers;
  * every duration with `dur_ms` (probe interval vs probe timeout vs hang time vs outage length vs service time in
    every order; outage / removal / re-add / manual marking / checker stop and restart instants lossy and > 1 s);
  * 2-8 backends, all backends down at once, sustained overload on concurrency-1 servers with bounded and
    unbounded queues, same-instant bursts, zero service time;
  * RoundRobin.reset(), LoadBalancer.record_failure(), HealthChecker.stop() / start() again while the old cycle is
    still pending.
No hard-coded size constants in load_balancer/*.py (the virtual node count is a parameter).
"""
from __future__ import annotations

import random

from hv.scenarios.base import T, dur_ms, seed_all, stats_of, sub_seed

NAME = "loadbalancer"
MODEL = None
COMPONENTS = ["LoadBalancer", "HealthChecker", "RoundRobin", "WeightedRoundRobin", "Random", "LeastConnections",
              "WeightedLeastConnections", "LeastResponseTime", "IPHash", "ConsistentHash", "PowerOfTwoChoices",
              "RandomRouter", "Server", "Source"]

STRATEGIES = ["rr", "wrr", "random", "leastconn", "wleastconn", "lrt", "iphash", "iphash-key", "chash", "chash-key",
              "p2c"]
KEY_FIELDS = ["client_id", "client_ip", "session_id", "user_id", "key", "mixed", "mixed"]


def _lb_cfg(rng, n_backends, strategy=None, health_p=0.8):
    interval = dur_ms(rng, 20, rng.choice([400, 400, 1500]))
    timeout = dur_ms(rng, 1, max(1, interval - 1))
    if timeout >= interval:                                # the constructor requires timeout < interval
        timeout = round(interval * 0.5, 3)
    return {
        "strategy": strategy or rng.choice(STRATEGIES),
        "vnodes": rng.choice([1, 3, 20, 100, 300]),
        "alpha_pct": rng.choice([1, 10, 30, 100]),
        "weights": [rng.choice([1, 1, 2, 3, 10]) for _ in range(n_backends)],
        "init_backends": rng.random() < 0.25,              # LoadBalancer(backends=[...]) (+ add_backend for weights)
        "on_no_backend": rng.choice(["reject", "queue"]),
        "health": {
            "enabled": rng.random() < health_p,
            "interval_ms": interval,
            "timeout_ms": timeout,
            "healthy_thr": rng.randint(1, 3),
            "unhealthy_thr": rng.randint(1, 3),
            "stop_ms": 0 if rng.random() < 0.6 else dur_ms(rng, 200, 2500),
            "restart_ms": 0 if rng.random() < 0.5 else dur_ms(rng, 1, 800),   # start() again this long after stop
            "etype": rng.choice(["health_check", "health_check", "ping"]),
        },
        "remove_ms": 0 if rng.random() < 0.5 else dur_ms(rng, 100, 2500),   # remove the last backend at this time ...
        "readd_ms": 0 if rng.random() < 0.3 else dur_ms(rng, 1, 1200),       # ... and add it again this much later
        "manual_ms": 0 if rng.random() < 0.6 else dur_ms(rng, 100, 2500),   # mark backend 0 unhealthy by hand ...
        "manual_len_ms": dur_ms(rng, 1, 1200),                               # ... and healthy this much later
        "rr_reset_ms": 0 if rng.random() < 0.7 else dur_ms(rng, 100, 2500),  # RoundRobin.reset()
        "fail_ms": [dur_ms(rng, 100, 2500) for _ in range(rng.choice([0, 0, 1, 3]))],   # lb.record_failure(backend 0)
    }


def gen_cfg(rng):
    long_run = rng.random() < 0.12
    overload = (not long_run) and rng.random() < 0.25
    n = rng.choice([2, 2, 3, 3, 4, 4, 5, 8])
    down = []
    for _ in range(rng.randint(1, 3)):
        down.append({"backend": rng.randrange(n), "from_ms": dur_ms(rng, 100, 2500),
                     "len_ms": dur_ms(rng, 20, rng.choice([400, 1500, 5000]))})
    if rng.random() < 0.15:
        # everything down at once for a while
        t0, ln = dur_ms(rng, 300, 2000), dur_ms(rng, 50, 800)
        down = [{"backend": b, "from_ms": t0, "len_ms": ln} for b in range(n)]
    mode = rng.choice(["single", "single", "two", "bank", "bank", "tiered"])
    if mode == "single":
        lbs = [_lb_cfg(rng, n)]
    elif mode == "two":
        lbs = [_lb_cfg(rng, n) for _ in range(2)]
    elif mode == "bank":
        lbs = [_lb_cfg(rng, n, strategy=st, health_p=0.3) for st in STRATEGIES]
    else:
        lbs = [_lb_cfg(rng, n, health_p=0.5) for _ in range(rng.randint(2, 4))]
    svc_set = []
    if rng.random() < 0.4:
        svc_set = [dur_ms(rng, 0.5, rng.choice([20, 150]), zero=True) for _ in range(rng.randint(1, 4))]
    n_src = rng.randint(2, 4)
    return {
        "n_backends": n,
        "backend_kind": rng.choice(["gen", "gen", "server"]),
        "svc_ms": [[rng.randint(1, 10), rng.randint(10, 60)] for _ in range(n)],
        "svc_set_ms": svc_set,                    # non-empty: service times drawn from this list
        "conc": [rng.randint(1, 2) for _ in range(n)],
        "qcap": rng.choice([0, 0, 1, 3, 10]),
        "hang_ms": dur_ms(rng, 5, rng.choice([200, 1000, 10000])),
        "down": down,
        "lbs": lbs,
        "tiered": mode == "tiered",               # a front LoadBalancer (strategy below) over the LBs
        "front": _lb_cfg(rng, len(lbs), health_p=0.3),
        "router_direct": rng.random() < 0.4,      # an extra RandomRouter straight onto the backends
        "sources": [{"rate": rng.choice([300, 600] if (overload and rng.random() < 0.6) else [20, 40, 60, 100]),
                     "poisson": rng.random() < 0.5, "keys": rng.choice([1, 3, 17, 101, 1009]),
                     "key_field": rng.choice(KEY_FIELDS), "nokey_every": rng.choice([0, 0, 2, 5]),
                     "bursts": [[dur_ms(rng, 50, 2500), rng.choice([3, 10, 40])]
                                for _ in range(rng.choice([0, 0, 1, 2]))]}
                    for _ in range(n_src)],
        "end": rng.choice([8.0, 10.0]) if long_run else rng.choice([2.0, 3.0, 4.0, 2.05, 3.003]),
    }


def _strategy(lc):
    from happysimulator.components.load_balancer import (ConsistentHash, IPHash, LeastConnections, LeastResponseTime,
                                                        PowerOfTwoChoices, Random, RoundRobin,
                                                        WeightedLeastConnections, WeightedRoundRobin)

    def ctx_key(ev):
        return ev.context.get("key")

    s = lc["strategy"]
    if s == "rr":
        return RoundRobin()
    if s == "wrr":
        return WeightedRoundRobin()
    if s == "random":
        return Random()
    if s == "leastconn":
        return LeastConnections()
    if s == "wleastconn":
        return WeightedLeastConnections()
    if s == "lrt":
        return LeastResponseTime(alpha=lc["alpha_pct"] / 100.0)
    if s == "iphash":
        return IPHash()
    if s == "iphash-key":
        return IPHash(get_key=ctx_key)
    if s == "chash":
        return ConsistentHash(virtual_nodes=lc["vnodes"])
    if s == "chash-key":
        return ConsistentHash(virtual_nodes=lc["vnodes"], get_key=ctx_key)
    return PowerOfTwoChoices()


def build(cfg, seed):
    from happysimulator.components.load_balancer import HealthChecker, LeastResponseTime, LoadBalancer, RoundRobin
    from happysimulator.components.random_router import RandomRouter
    from happysimulator.components.server import Server
    from happysimulator.core.entity import Entity
    from happysimulator.core.event import Event
    from happysimulator.core.simulation import Simulation
    from happysimulator.distributions import ConstantLatency
    from happysimulator.load.source import SimpleEventProvider, Source

    seed_all(seed)
    end = cfg["end"]
    n = cfg["n_backends"]
    svc_set = cfg.get("svc_set_ms") or []

    def is_down(idx, now_ns):
        # corpus cfgs of the old shape (no "tiered" key) used whole milliseconds
        t_ms = now_ns / 1_000_000 if "tiered" in cfg else now_ns // 1_000_000
        for d in cfg["down"]:
            if d["backend"] == idx and d["from_ms"] <= t_ms < d["from_ms"] + d["len_ms"]:
                return True
        return False

    class Backend(Entity):
        """variable service time; while down, requests and probes hang (for hang_ms) and are never served"""

        def __init__(self, name, idx, rng):
            super().__init__(name)
            self.idx, self.rng = idx, rng
            self.active = 0
            self.served = 0
            self.hung = 0
            self.probes = 0
            self.keys = {}
            self.via = {}

        @property
        def active_requests(self):
            return self.active

        def handle_event(self, event):
            if event.event_type in ("health_check", "ping"):
                self.probes += 1
            else:
                k = event.context.get("key", "?")
                self.keys[k] = self.keys.get(k, 0) + 1
                v = event.context.get("metadata", {}).get("_lb_name", "direct")
                self.via[v] = self.via.get(v, 0) + 1
            self.active += 1
            if is_down(self.idx, self.now.nanoseconds):
                self.hung += 1
                yield cfg["hang_ms"] / 1000.0
                self.active -= 1
                return None
            if svc_set:
                yield self.rng.choice(svc_set) / 1000.0
            else:
                lo, hi = cfg["svc_ms"][self.idx]
                yield self.rng.randint(lo, hi) / 1000.0
            self.active -= 1
            self.served += 1
            return None

        def stats(self):
            return {"active": self.active, "served": self.served, "hung": self.hung, "probes": self.probes,
                    "keys": [[k, self.keys[k]] for k in sorted(self.keys)][:12], "nkeys": len(self.keys),
                    "via": dict(self.via)}

    backends, obs, entities, pre = [], {}, [], []
    for i in range(n):
        nm = f"backend-{chr(ord('a') + i)}"
        if cfg["backend_kind"] == "gen":
            b = Backend(nm, i, random.Random(sub_seed(seed, "backend", i)))
            obs[nm] = b.stats
        else:
            lo, hi = cfg["svc_ms"][i]
            mean = (svc_set[i % len(svc_set)] if svc_set else (lo + hi) / 2.0) / 1000.0
            b = Server(nm, concurrency=cfg["conc"][i], service_time=ConstantLatency(mean),
                       queue_capacity=cfg["qcap"] or None)
            obs[nm] = (lambda b=b: {"stats": stats_of(b)(), "acc": b.stats_accepted, "drop": b.stats_dropped,
                                    "depth": b.depth, "active": b.active_requests})
        backends.append(b)
        entities.append(b)

    def at(ms, etype, fn):
        if ms / 1000.0 < end:
            pre.append(Event.once(time=T(ms / 1000.0), event_type=etype, fn=fn))

    def make_lb(name, hc_name, lc, members, leaf):
        strat = _strategy(lc)
        weights = (list(lc["weights"]) + [1] * len(members))[:len(members)]
        if lc.get("init_backends"):
            lb = LoadBalancer(name, backends=list(members), strategy=strat, on_no_backend=lc["on_no_backend"])
        else:
            lb = LoadBalancer(name, strategy=strat, on_no_backend=lc["on_no_backend"])
        for b, w in zip(members, weights):
            lb.add_backend(b, weight=w)
        entities.append(lb)
        obs[lb.name] = stats_of(lb)

        def lb_more(lb=lb, strat=strat):
            d = {"healthy": [b.name for b in lb.healthy_backends], "unhealthy": [b.name for b in lb.unhealthy_backends],
                 "count": lb.backend_count, "healthy_count": lb.healthy_count, "info": []}
            for b in lb.all_backends:
                inf = lb.get_backend_info(b)
                d["info"].append([b.name, inf.weight, inf.is_healthy, inf.consecutive_successes,
                                  inf.consecutive_failures, inf.total_requests, inf.total_failures])
            if isinstance(strat, LeastResponseTime):
                d["rt"] = [[b.name, strat.get_response_time(b)] for b in lb.all_backends]
            if hasattr(strat, "get_weight"):
                d["w"] = [[b.name, strat.get_weight(b)] for b in lb.all_backends]
            return d

        obs[lb.name + ".more"] = lb_more
        h = lc["health"]
        if h["enabled"]:
            kw = {"check_event_type": h["etype"]} if "etype" in h else {}
            hc = HealthChecker(hc_name, load_balancer=lb, interval=h["interval_ms"] / 1000.0,
                               timeout=h["timeout_ms"] / 1000.0, healthy_threshold=h["healthy_thr"],
                               unhealthy_threshold=h["unhealthy_thr"], **kw)
            entities.append(hc)
            pre.append(hc.start())
            obs[hc.name] = stats_of(hc)

            def hc_more(hc=hc):
                out = []
                for b in members:
                    s = hc.get_backend_state(b)
                    out.append([b.name, s.consecutive_successes, s.consecutive_failures,
                                s.last_check_time.nanoseconds if s.last_check_time is not None else None,
                                s.last_check_passed, s.is_checking])
                return {"running": hc.is_running, "states": out}

            obs[hc.name + ".more"] = hc_more
            if h["stop_ms"]:
                pre.append(Event.once(time=T(h["stop_ms"] / 1000.0), event_type=f"{hc_name}.stop",
                                      fn=lambda e, hc=hc: hc.stop()))
                if h.get("restart_ms"):
                    # start() hands back the first cycle event of a new cycle chain
                    at(h["stop_ms"] + h["restart_ms"], f"{hc_name}.restart", lambda e, hc=hc: hc.start())
        last = members[-1]
        if lc["remove_ms"]:
            pre.append(Event.once(time=T(lc["remove_ms"] / 1000.0), event_type=f"{name}.remove",
                                  fn=lambda e, lb=lb, b=last: lb.remove_backend(b)))
            if lc["readd_ms"]:
                pre.append(Event.once(time=T((lc["remove_ms"] + lc["readd_ms"]) / 1000.0), event_type=f"{name}.add",
                                      fn=lambda e, lb=lb, b=last, w=weights[-1]: lb.add_backend(b, weight=w)))
        if lc["manual_ms"]:
            pre.append(Event.once(time=T(lc["manual_ms"] / 1000.0), event_type=f"{name}.mark_unhealthy",
                                  fn=lambda e, lb=lb, b=members[0]: lb.mark_unhealthy(b)))
            back = (lc["manual_ms"] + lc["manual_len_ms"]) / 1000.0 if "manual_len_ms" in lc \
                else lc["manual_ms"] / 1000.0 + 0.25
            pre.append(Event.once(time=T(back), event_type=f"{name}.mark_healthy",
                                  fn=lambda e, lb=lb, b=members[0]: lb.mark_healthy(b)))
        if lc.get("rr_reset_ms") and isinstance(strat, RoundRobin):
            at(lc["rr_reset_ms"], f"{name}.rr_reset", lambda e, st=strat: st.reset())
        for k, ms in enumerate(lc.get("fail_ms", [])):
            at(ms, f"{name}.record_failure{k}", lambda e, lb=lb, b=members[0]: lb.record_failure(b))
        if leaf and cfg["backend_kind"] == "server":
            # a library Server cannot "hang": take it down / up through the load balancers instead
            for d in cfg["down"]:
                pre.append(Event.once(time=T(d["from_ms"] / 1000.0), event_type=f"{name}.down",
                                      fn=lambda e, lb=lb, b=backends[d["backend"]]: lb.mark_unhealthy(b)))
                up = (d["from_ms"] + d["len_ms"]) / 1000.0
                if up < end:
                    pre.append(Event.once(time=T(up), event_type=f"{name}.up",
                                          fn=lambda e, lb=lb, b=backends[d["backend"]]: lb.mark_healthy(b)))
        return lb

    lbs = [make_lb(f"lb{li}", f"hc{li}", lc, backends, True) for li, lc in enumerate(cfg["lbs"])]

    if len(lbs) > 1 and cfg.get("tiered"):
        entry = make_lb("front", "hc-front", cfg["front"], lbs, False)
    elif len(lbs) > 1:
        entry = RandomRouter("router", targets=lbs)
        entities.append(entry)
        obs["router"] = (lambda r=entry: {"routed": r.stats_routed, "counts": dict(r.target_counts)})
    else:
        entry = lbs[0]
    direct = None
    if cfg["router_direct"]:
        direct = RandomRouter("router-direct", targets=list(backends))
        entities.append(direct)
        obs["router-direct"] = (lambda r=direct: {"routed": r.stats_routed, "counts": dict(r.target_counts)})

    sources = []
    stop = T(end - 0.5)
    fields = ["client_id", "client_ip", "session_id", "user_id", "key"]
    for si, sc in enumerate(cfg["sources"]):
        head = direct if (direct is not None and si == len(cfg["sources"]) - 1) else entry

        def ctx(time, count, _si=si, _k=sc["keys"], _sc=sc):
            key = f"user-{(count * 7 + _si * 3) % _k}"
            if "key_field" not in _sc:                       # corpus cfgs of the old shape
                md = {"client_id": key} if _si % 2 == 0 else {"session_id": f"sess-{count % _k}",
                                                              "key": f"k{count % 5}"}
                return {"created_at": time, "request_id": count, "key": key, "metadata": md}
            kf = _sc["key_field"]
            if kf == "mixed":
                kf = fields[count % len(fields)]
            md = {kf: key}
            if _sc["nokey_every"] and count % _sc["nokey_every"] == 0:
                # no routing key at all: hash strategies fall back to round robin
                return {"created_at": time, "request_id": count, "metadata": {}}
            return {"created_at": time, "request_id": count, "key": key, "metadata": md}

        mk = Source.poisson if sc["poisson"] else Source.constant
        src = mk(rate=sc["rate"], name=f"src{si}",
                 event_provider=SimpleEventProvider(head, f"Req{si}", stop, context_fn=ctx))
        sources.append(src)
        obs[src.name] = (lambda s=src: s.generated_count)
        for bi, (t_ms, nb) in enumerate(sc.get("bursts", [])):
            if t_ms / 1000.0 >= end - 0.5:
                continue
            for j in range(nb):
                t = T(t_ms / 1000.0)
                pre.append(Event(time=t, event_type=f"Req{si}", target=head,
                                 context=ctx(t, 100000 + bi * 1000 + j)))

    sim = Simulation(end_time=T(end), sources=sources, entities=entities)
    for e in pre:
        sim.schedule(e)
    return sim, obs
