"""Infrastructure: CPUScheduler (FairShare / PriorityPreemptive, several competing tasks), DiskIO (HDD / SSD /
NVMe, queue-depth contention), DNSResolver (string hostnames, tiny LRU cache, TTL expiry, unknown names),
GarbageCollector (StopTheWorld / ConcurrentGC / GenerationalGC; self-scheduled collections + pause() injected
into a request server), PageCache (small capacity, read-ahead, dirty pages, eviction write-back, periodic
flush() by a background flusher) and TCPConnection (AIMD / Cubic / BBR, loss + retransmission timeouts,
several senders sharing one connection).  Every part has its own Source(s) → harness driver that `yield from`s
the component's generator API (as /repo/examples/infrastructure, dns_cache_storm.py, tcp_congestion.py,
gc_pause_cascade.py do) → shared Sink.  `parts` selects which sub-scenarios are present in a run."""
from __future__ import annotations

import random

from hv.scenarios.base import T, dur_ms, seed_all, size_over, stats_of, sub_seed

NAME = "infrastructure"
MODEL = None
COMPONENTS = ["CPUScheduler", "FairShare", "PriorityPreemptive", "DiskIO", "HDD", "SSD", "NVMe", "DNSResolver",
              "DNSRecord", "GarbageCollector", "StopTheWorld", "ConcurrentGC", "GenerationalGC", "PageCache",
              "TCPConnection", "AIMD", "Cubic", "BBR", "Source", "Sink"]

PARTS = ["cpu", "disk", "dns", "gc", "pcache", "tcp"]


GC_STRATEGIES = ["stw", "concurrent", "generational", "default"]
DISK_PROFILES = ["hdd", "ssd", "nvme", "nvme-shallow", "default", "hdd-x", "ssd-x", "nvme-x"]
TCP_CC = ["aimd", "cubic", "bbr", "default", "aimd-x", "cubic-x", "bbr-x"]


def _gc_cfg(rng):
    """one collector: every constructor parameter of every strategy; the pause may be LONGER than the interval"""
    return {
        "strategy": rng.choice(GC_STRATEGIES),
        "interval_ms": dur_ms(rng, 20, 1500),
        # a few ms (the usual regime) or of the order of / above the interval (heavy heap pressure)
        "pause_ms": dur_ms(rng, 1, 60) if rng.random() < 0.5 else dur_ms(rng, 60, 1800),
        "minor_pct": rng.choice([1, 25, 100, 150]),       # minor pause as a percentage of the major pause
        "pressure": rng.choice([None, 0.0, 0.2, 0.8, 0.95, 1.0]),
        "multiplier": rng.choice([None, 0.0, 1.0, 3.0, 8.0]),
        "major_thr": rng.choice([0.0, 0.5, 0.75, 1.0]),
        "primed": rng.random() < 0.85,
    }


def gen_cfg(rng):
    k = rng.randint(2, len(PARTS))
    parts = sorted(rng.sample(PARTS, k))
    gc0 = _gc_cfg(rng)
    return {
        "end": rng.choice([2.0, 3.0, 4.0, 4.0, 9.0] if rng.random() < 0.5 else [2.0, 3.0, 4.0]),
        "parts": parts,
        "poisson": rng.random() < 0.5,
        "cpu": {
            "policy": rng.choice(["fair", "prio", "default"]),
            "quantum_ms": dur_ms(rng, 1, 40),
            "cs_us": rng.choice([0, 5, 100, 1000, None]),
            "rate": rng.choice([5, 10, 20]),
            "work_ms": [dur_ms(rng, 1, 100) for _ in range(4)],
            "n_prio": rng.randint(1, 4),
            "burst": rng.randint(1, 3),
        },
        "disk": {
            "profile": rng.choice(DISK_PROFILES),
            # the "-x" profiles set every constructor parameter
            "seek_ms": dur_ms(rng, 1, 12), "rot_ms": dur_ms(rng, 1, 6), "mbps": rng.choice([20.0, 150.0, 550.0, 3500.0]),
            "qd_penalty": rng.choice([0.0, 0.15, 0.3, 1.0]), "base_r_us": rng.choice([10, 25, 100, 1000]),
            "base_w_us": rng.choice([20, 100, 2000]), "native_qd": rng.choice([1, 2, 32]),
            "overflow": rng.choice([0.0, 0.05, 0.5]),
            "rate": rng.choice([20, 50, 100, 200]),
            "sizes": [rng.choice([1, 512, 4096, 65536, 1048576]) for _ in range(3)],
            "write_pct": rng.choice([0, 30, 50, 100]),
            "burst": rng.randint(1, 4),
        },
        "dns": {
            "cap": size_over(rng, [1, 2, 3, 4], 8),
            "n_hosts": rng.randint(2, 12),
            "ttl_ms": [dur_ms(rng, 10, 1500) for _ in range(12)],
            "root_ms": dur_ms(rng, 1, 20), "tld_ms": dur_ms(rng, 1, 15), "auth_ms": dur_ms(rng, 1, 10),
            "rate": rng.choice([20, 50, 100]),
            "unknown_pct": rng.choice([0, 10, 30]),
            "add_at_ms": rng.choice([None, dur_ms(rng, 300, 1500), dur_ms(rng, 1001, 2500)]),
        },
        "gc": dict(gc0, **{
            # further collectors running next to the first (one per strategy): all variants in one run
            "bank": [_gc_cfg(rng) for _ in range(rng.choice([0, 0, 2, 3]))],
            "every_n": rng.randint(2, 20),
            "svc_ms": dur_ms(rng, 1, 15),
            "rate": rng.choice([20, 50, 100]),
        }),
        "pcache": {
            "cap": rng.randint(1, 8),
            "page_bytes": rng.choice([None, 512, 4096, 65536]),
            "readahead": rng.choice([0, 0, 1, 3, 9]),
            "read_ms": dur_ms(rng, 1, 8), "write_ms": dur_ms(rng, 1, 12),
            "n_pages": rng.randint(4, 24),
            "write_pct": rng.choice([0, 30, 60, 100]),
            # "seq": one driver doing its operations (and the flush) one after another;
            # "conc": every arrival is its own process (several in flight) + a background flusher
            "mode": rng.choice(["seq", "seq", "conc"]),
            "rate": rng.choice([20, 50, 100]),
            "flush_rate": rng.choice([0, 2, 5, 10]),
            "ops_per_req": rng.randint(1, 3),
        },
        "tcp": {
            "cc": rng.choice(TCP_CC),
            # the "-x" variants set every constructor parameter of the congestion control
            "ai": rng.choice([0.5, 1.0, 4.0]), "md": rng.choice([0.1, 0.5, 0.9]),
            "beta": rng.choice([0.2, 0.7, 0.95]), "c": rng.choice([0.1, 0.4, 2.0]),
            "gain": rng.choice([0.5, 1.0, 2.885]), "drain": rng.choice([0.35, 0.75, 1.0]),
            "rtt_ms": dur_ms(rng, 1, 60),
            "loss_pct": rng.choice([0, 1, 5, 20, 50]),
            "rto_ms": dur_ms(rng, 5, 400),
            "cwnd": rng.choice([1, 2, 10, 64]),
            "ssthresh": rng.choice([1, 4, 16, 64]),
            "mss": rng.choice([1, 536, 1460, 9000]),
            "sizes": [rng.choice([1, 100, 1460, 20000, 65536, 200000]) for _ in range(3)],
            "rate": rng.choice([5, 10, 20]),
            "senders": rng.randint(1, 3),
        },
    }


def gen_cfg_wide(rng):
    """maximum-coverage configuration: all parts, one collector per GC strategy (pauses around / above the interval)"""
    cfg = gen_cfg(rng)
    cfg["parts"] = list(PARTS)
    bank = []
    for strat in GC_STRATEGIES:
        g = _gc_cfg(rng)
        g["strategy"] = strat
        g["primed"] = True
        if rng.random() < 0.6:
            g["pause_ms"] = dur_ms(rng, g["interval_ms"] * 0.5, g["interval_ms"] * 3 + 5)
        bank.append(g)
    cfg["gc"]["bank"] = bank
    return cfg


def build(cfg, seed):
    from happysimulator.components.common import Sink
    from happysimulator.components.infrastructure import (
        AIMD, BBR, HDD, SSD, ConcurrentGC, CPUScheduler, Cubic, DiskIO, DNSRecord, DNSResolver, FairShare,
        GarbageCollector, GenerationalGC, NVMe, PageCache, PriorityPreemptive, StopTheWorld, TCPConnection,
    )
    from happysimulator.core.entity import Entity
    from happysimulator.core.event import Event
    from happysimulator.core.simulation import Simulation
    from happysimulator.core.temporal import Instant
    from happysimulator.load.source import Source

    seed_all(seed)
    end = cfg["end"]
    stop = end - 0.7
    parts = cfg["parts"]
    sink = Sink("sink")
    entities = [sink]
    sources = []
    pre = []   # callables run after the Simulation exists (they need clocks)
    obs = {"sink": lambda: {"n": sink.events_received, "lat": sink.latency_stats()}}

    def src(rate, target, name, typ="Tick", until=None):
        mk = Source.poisson if cfg["poisson"] else Source.constant
        sources.append(mk(rate=rate, target=target, event_type=typ, name=name,
                          stop_after=stop if until is None else until))

    def done(ent, event, typ):
        return [ent.forward(event, sink, event_type=typ)]

    # ------------------------------------------------------------------ CPU scheduler
    if "cpu" in parts:
        c = cfg["cpu"]
        q = c["quantum_ms"] / 1000.0
        policy = {"fair": lambda: FairShare(quantum_s=q), "prio": lambda: PriorityPreemptive(quantum_s=q),
                  "default": lambda: None}[c["policy"]]()
        if c["cs_us"] is None:
            cpu = CPUScheduler("cpu", policy=policy)
        else:
            cpu = CPUScheduler("cpu", policy=policy, context_switch_s=c["cs_us"] / 1e6)

        class Submitter(Entity):
            def __init__(self):
                super().__init__("cpu-submitter")
                self.n = 0
                self.finished = []

            def handle_event(self, event):
                # a burst of tasks arriving at the same instant: one process each
                if event.event_type == "Tick":
                    out = []
                    for _ in range(c["burst"]):
                        self.n += 1
                        out.append(Event(time=self.now, event_type="Task", target=self,
                                         context={"id": f"task-{self.n}", "created_at": self.now}))
                    return out
                i = int(event.context["id"].split("-")[1])
                work = c["work_ms"][i % 4] / 1000.0
                yield from cpu.execute(event.context["id"], cpu_time_s=work, priority=(i * 5) % c["n_prio"])
                self.finished.append(event.context["id"])
                return done(self, event, "TaskDone")

        sub = Submitter()
        entities += [cpu, sub]
        # every waiting task polls once per quantum, so bound the number of tasks (about 30)
        src(c["rate"], sub, "src-cpu", until=min(stop, 1.5, 30.0 / (c["rate"] * c["burst"])))
        obs["cpu"] = stats_of(cpu)
        obs["cpu.x"] = lambda: {"depth": cpu.ready_queue_depth, "overhead": cpu.stats.overhead_fraction,
                                "submitted": sub.n, "finished": sub.finished}

    # ------------------------------------------------------------------ Disk I/O
    if "disk" in parts:
        d = cfg["disk"]
        profile = {"hdd": lambda: HDD(), "ssd": lambda: SSD(), "nvme": lambda: NVMe(),
                   "nvme-shallow": lambda: NVMe(native_queue_depth=2, overflow_penalty=0.5),
                   "hdd-x": lambda: HDD(seek_time_s=d["seek_ms"] / 1000.0, rotational_latency_s=d["rot_ms"] / 1000.0,
                                        transfer_rate_mbps=d["mbps"], queue_depth_penalty=d["qd_penalty"]),
                   "ssd-x": lambda: SSD(base_read_latency_s=d["base_r_us"] / 1e6, base_write_latency_s=d["base_w_us"] / 1e6,
                                        transfer_rate_mbps=d["mbps"], queue_depth_factor=d["qd_penalty"]),
                   "nvme-x": lambda: NVMe(base_read_latency_s=d["base_r_us"] / 1e6,
                                          base_write_latency_s=d["base_w_us"] / 1e6, transfer_rate_mbps=d["mbps"],
                                          native_queue_depth=d["native_qd"], overflow_penalty=d["overflow"]),
                   "default": lambda: None}[d["profile"]]()
        disk = DiskIO("disk", profile=profile)

        class IODriver(Entity):
            def __init__(self):
                super().__init__("io-driver")
                self.rng = random.Random(sub_seed(seed, "io"))
                self.n = 0
                self.reads = self.writes = 0

            def handle_event(self, event):
                if event.event_type == "Tick":
                    return [Event(time=self.now, event_type="IO", target=self,
                                  context={"created_at": self.now, "k": j}) for j in range(d["burst"])]
                self.n += 1
                size = d["sizes"][self.n % 3]
                if self.rng.randrange(100) < d["write_pct"]:
                    yield from disk.write(size)
                    self.writes += 1
                else:
                    yield from disk.read(size)
                    self.reads += 1
                return done(self, event, "IODone")

        io = IODriver()
        entities += [disk, io]
        src(d["rate"], io, "src-disk")
        obs["disk"] = stats_of(disk)
        obs["disk.x"] = lambda: {"qd": disk.queue_depth, "avg_r": disk.stats.avg_read_latency_s,
                                 "avg_w": disk.stats.avg_write_latency_s, "reads": io.reads, "writes": io.writes}

    # ------------------------------------------------------------------ DNS resolver
    if "dns" in parts:
        n = cfg["dns"]
        hosts = [f"svc-{i}.example.com" for i in range(n["n_hosts"])]
        records = {h: DNSRecord(h, f"10.0.0.{i + 1}", ttl_s=n["ttl_ms"][i] / 1000.0) for i, h in enumerate(hosts)}
        dns = DNSResolver("dns", cache_capacity=n["cap"], root_latency_s=n["root_ms"] / 1000.0,
                          tld_latency_s=n["tld_ms"] / 1000.0, auth_latency_s=n["auth_ms"] / 1000.0,
                          records=records)

        class Caller(Entity):
            def __init__(self):
                super().__init__("dns-caller")
                self.rng = random.Random(sub_seed(seed, "dns"))
                self.answers = {}
                self.nx = 0
                self.calls = 0

            def handle_event(self, event):
                if event.event_type == "AddRecord":
                    dns.add_record(DNSRecord("late.example.com", "10.9.9.9", ttl_s=0.05))
                    dns.add_record(DNSRecord(hosts[0], "10.7.7.7", ttl_s=0.1))
                    return None
                self.calls += 1
                r = self.rng.randrange(100)
                if r < n["unknown_pct"]:
                    host = self.rng.choice(["nx.example.com", "late.example.com"])
                else:
                    # skewed popularity
                    host = hosts[min(self.rng.randrange(len(hosts)), self.rng.randrange(len(hosts)))]
                ip = yield from dns.resolve(host)
                if ip is None:
                    self.nx += 1
                else:
                    self.answers[host] = self.answers.get(host, 0) + 1
                event.context["created_at"] = event.context.get("created_at", self.now)
                return done(self, event, "Resolved")

        caller = Caller()
        entities += [dns, caller]
        src(n["rate"], caller, "src-dns")
        if n["add_at_ms"] is not None:
            pre.append(lambda sim: sim.schedule(Event(time=Instant.from_seconds(n["add_at_ms"] / 1000.0),
                                                      event_type="AddRecord", target=caller)))
        obs["dns"] = stats_of(dns)
        obs["dns.x"] = lambda: {"size": dns.cache_size, "hit_rate": dns.stats.hit_rate,
                                "avg": dns.stats.avg_resolution_latency_s, "calls": caller.calls, "nx": caller.nx,
                                "answers": sorted(caller.answers.items())}

    # ------------------------------------------------------------------ Garbage collector
    if "gc" in parts:
        g = cfg["gc"]

        def mk_gc(name, gg):
            iv, ps = gg["interval_ms"] / 1000.0, gg["pause_ms"] / 1000.0
            minor = ps * gg.get("minor_pct", 25) / 100.0
            mult = gg.get("multiplier")
            strategy = {"stw": lambda: (StopTheWorld(base_pause_s=ps, interval_s=iv) if mult is None else
                                        StopTheWorld(base_pause_s=ps, interval_s=iv, pressure_multiplier=mult)),
                        "concurrent": lambda: ConcurrentGC(pause_s=ps, interval_s=iv),
                        "generational": lambda: GenerationalGC(minor_pause_s=minor, major_pause_s=ps,
                                                               minor_interval_s=iv,
                                                               major_threshold=gg.get("major_thr", 0.5)),
                        "default": lambda: None}[gg["strategy"]]()
            return GarbageCollector(name, strategy=strategy, heap_pressure=gg["pressure"])

        gc = mk_gc("jvm-gc", g)
        bank = [mk_gc(f"gc-{i}-{gg['strategy']}", gg) for i, gg in enumerate(g.get("bank", []))]

        class GCServer(Entity):
            def __init__(self):
                super().__init__("gc-server")
                self.n = 0
                self.paused_s = 0.0

            def handle_event(self, event):
                self.n += 1
                if self.n % g["every_n"] == 0:
                    p = yield from gc.pause()
                    self.paused_s += p
                yield g["svc_ms"] / 1000.0
                return done(self, event, "Response")

        gsrv = GCServer()
        entities += [gc, gsrv, *bank]
        src(g["rate"], gsrv, "src-gc", typ="Request")
        if g["primed"]:
            pre.append(lambda sim: sim.schedule(gc.prime()))
        for b, gg in zip(bank, g.get("bank", [])):
            if gg["primed"]:
                pre.append(lambda sim, b=b: sim.schedule(b.prime()))
            obs[b.name] = stats_of(b)
        obs["gc"] = stats_of(gc)
        obs["gc.x"] = lambda: {"count": gc.collection_count, "avg": gc.stats.avg_pause_s, "n": gsrv.n,
                               "paused": gsrv.paused_s}

    # ------------------------------------------------------------------ Page cache
    if "pcache" in parts:
        p = cfg["pcache"]
        extra = {} if p.get("page_bytes") is None else {"page_size_bytes": p["page_bytes"]}
        cache = PageCache("os-cache", capacity_pages=p["cap"], readahead_pages=p["readahead"],
                          disk_read_latency_s=p["read_ms"] / 1000.0, disk_write_latency_s=p["write_ms"] / 1000.0, **extra)

        class CacheDriver(Entity):
            def __init__(self):
                super().__init__("cache-driver")
                self.rng = random.Random(sub_seed(seed, "pc"))
                self.ops = 0
                self.busy = False
                self.backlog = 0
                self.flushed = 0

            def _ops(self):
                for _ in range(p["ops_per_req"]):
                    a, b = self.rng.randrange(p["n_pages"]), self.rng.randrange(p["n_pages"])
                    page = min(a, b)
                    if self.rng.randrange(100) < p["write_pct"]:
                        yield from cache.write_page(page)
                    else:
                        yield from cache.read_page(page)
                    self.ops += 1

            def handle_event(self, event):
                if event.event_type == "Flush":
                    if p["mode"] == "seq" and self.busy:
                        return None
                    self.busy = True
                    k = yield from cache.flush()
                    self.busy = False
                    self.flushed += k
                    return None
                if p["mode"] == "seq":
                    # strictly one operation sequence at a time
                    if self.busy:
                        self.backlog += 1
                        return None
                    self.busy = True
                    yield from self._ops()
                    while self.backlog:
                        self.backlog -= 1
                        yield from self._ops()
                    self.busy = False
                    return done(self, event, "PageDone")
                yield from self._ops()
                return done(self, event, "PageDone")

        drv = CacheDriver()
        entities += [cache, drv]
        src(p["rate"], drv, "src-pcache")
        if p["flush_rate"]:
            sources.append(Source.constant(rate=p["flush_rate"], target=drv, event_type="Flush", name="src-flush",
                                           stop_after=end - 0.2))
        obs["pcache"] = stats_of(cache)
        obs["pcache.x"] = lambda: {"cached": cache.pages_cached, "dirty": cache.dirty_pages,
                                   "hit_rate": cache.stats.hit_rate, "ops": drv.ops, "flushed": drv.flushed,
                                   "backlog": drv.backlog}

    # ------------------------------------------------------------------ TCP connection
    if "tcp" in parts:
        t = cfg["tcp"]
        cc = {"aimd": lambda: AIMD(), "cubic": lambda: Cubic(), "bbr": lambda: BBR(),
              "aimd-x": lambda: AIMD(additive_increase=t["ai"], multiplicative_decrease=t["md"]),
              "cubic-x": lambda: Cubic(beta=t["beta"], c=t["c"]),
              "bbr-x": lambda: BBR(gain=t["gain"], drain_gain=t["drain"]),
              "default": lambda: None}[t["cc"]]()
        tcp = TCPConnection("conn", congestion_control=cc, base_rtt_s=t["rtt_ms"] / 1000.0,
                            loss_rate=t["loss_pct"] / 100.0, mss_bytes=t["mss"], initial_cwnd=float(t["cwnd"]),
                            initial_ssthresh=float(t["ssthresh"]), retransmit_timeout_s=t["rto_ms"] / 1000.0)

        class Sender(Entity):
            def __init__(self, i):
                super().__init__(f"sender-{i}")
                self.i = i
                self.sends = 0
                self.completed = 0
                self.cwnd_seen = []

            def handle_event(self, event):
                self.sends += 1
                size = t["sizes"][(self.sends + self.i) % 3]
                yield from tcp.send(size)
                self.completed += 1
                if len(self.cwnd_seen) < 20:
                    self.cwnd_seen.append(tcp.cwnd)
                return done(self, event, "Sent")

        senders = [Sender(i) for i in range(t["senders"])]
        entities += [tcp, *senders]
        for s in senders:
            src(t["rate"], s, f"src-tcp-{s.i}", typ="Send")
        obs["tcp"] = stats_of(tcp)
        for s in senders:
            obs[s.name] = (lambda s=s: {"sends": s.sends, "completed": s.completed, "cwnd": s.cwnd_seen})

    sim = Simulation(end_time=T(end), sources=sources, entities=entities)
    for f in pre:
        f(sim)
    return sim, obs
