"""Faults: a FaultSchedule (CrashNode with / without restart, PauseNode, NetworkPartition symmetric / asymmetric,
InjectLatency, InjectPacketLoss, ReduceCapacity, RandomPartition, cancelled handles, deliberately overlapping
windows of the same kind on the same target) applied to a small pipeline
    Sources → client-i → Network(link) → app-j (holds a unit of Resource "cpu" while working)
            → Network(link) → collector (Sink), and a fraction → library Server "qsrv" → Sink "done".
Crash / pause windows hit the harness nodes, the library Server and a client; network faults hit the links that
carry the traffic; ReduceCapacity hits the shared Resource while grants are outstanding.  Usage follows
/repo/tests/integration/network/test_fault_injection.py (names resolved through the Simulation's entities)."""
from __future__ import annotations

from hv.scenarios.base import T, dataclass_stats, seed_all, stats_of, sub_seed

NAME = "faults"
MODEL = "C06"
COMPONENTS = ["FaultSchedule", "CrashNode", "PauseNode", "NetworkPartition", "InjectLatency", "InjectPacketLoss",
              "ReduceCapacity", "RandomPartition", "FaultHandle", "Network", "NetworkLink", "Resource", "Server",
              "Sink", "Source"]

KINDS = ["crash", "crash_forever", "pause", "partition", "latency", "loss", "capacity"]


def _window(rng, end_ms):
    a = rng.randrange(200, end_ms - 600, 10)
    b = a + rng.randrange(50, 900, 10)
    return a, min(b, end_ms - 100)


def gen_cfg(rng):
    end = rng.choice([3.0, 4.0, 5.0])
    end_ms = int(end * 1000)
    n_clients = rng.randint(2, 3)
    n_apps = rng.randint(1, 2)
    clients = [f"client-{i}" for i in range(n_clients)]
    apps = [f"app-{j}" for j in range(n_apps)]
    nodes = clients + apps + ["collector"]
    links = [[c, a] for c in clients for a in apps] + [[a, "collector"] for a in apps]
    faults = []
    for _ in range(rng.randint(3, 8)):
        kind = rng.choice(KINDS)
        a, b = _window(rng, end_ms)
        if kind in ("crash", "crash_forever", "pause"):
            f = {"kind": kind, "entity": rng.choice(apps + apps + ["qsrv", clients[0], "collector"]), "a": a, "b": b}
        elif kind == "partition":
            k = rng.randint(1, len(nodes) - 1)
            shuffled = rng.sample(nodes, len(nodes))
            f = {"kind": kind, "ga": shuffled[:k], "gb": shuffled[k:], "asym": rng.random() < 0.4, "a": a, "b": b}
        elif kind == "latency":
            f = {"kind": kind, "link": rng.choice(links), "extra_ms": rng.choice([5, 20, 100, 400]), "a": a, "b": b}
        elif kind == "loss":
            f = {"kind": kind, "link": rng.choice(links), "rate_pct": rng.choice([10, 50, 90, 100]), "a": a, "b": b}
        else:
            f = {"kind": kind, "factor_pct": rng.choice([25, 50, 75, 75]), "a": a, "b": b}
        f["cancel"] = rng.random() < 0.15
        faults.append(f)
        if rng.random() < 0.4:
            # a second window of the same fault overlapping the first one
            g = dict(f)
            g["a"] = min(end_ms - 150, f["a"] + rng.randrange(10, 200, 10))
            g["b"] = min(end_ms - 100, max(g["a"] + 20, f["b"] + rng.randrange(-100, 300, 10)))
            g["cancel"] = False
            if kind == "capacity":
                g["factor_pct"] = rng.choice([50, 75])
            faults.append(g)
    return {
        "end": end,
        "n_clients": n_clients,
        "n_apps": n_apps,
        "rate": [rng.choice([10, 20, 40]) for _ in range(n_clients)],
        "poisson": rng.random() < 0.5,
        "link_ms": rng.randint(1, 20),
        "link_loss_pct": rng.choice([0, 0, 5]),
        "default_link": rng.random() < 0.3,
        "svc_ms": rng.randint(5, 60),
        "cpu": rng.choice([1, 2, 3, 4, 4, 6, 8]),
        "q_every": rng.randint(2, 5),
        "qsrv": {"conc": rng.randint(1, 2), "svc_ms": rng.randint(5, 40), "qcap": rng.choice([None, 3, 10])},
        "faults": faults,
        "random_partition": ({"mtbf_ms": rng.choice([200, 500]), "mttr_ms": rng.choice([50, 200])}
                             if rng.random() < 0.3 else None),
    }


def build(cfg, seed):
    from happysimulator.components.common import Sink
    from happysimulator.components.network.link import NetworkLink
    from happysimulator.components.network.network import Network
    from happysimulator.components.resource import Resource
    from happysimulator.components.server import Server
    from happysimulator.core.entity import Entity
    from happysimulator.core.event import Event
    from happysimulator.core.simulation import Simulation
    from happysimulator.core.temporal import Instant
    from happysimulator.distributions import ConstantLatency
    from happysimulator.faults import (
        CrashNode, FaultSchedule, InjectLatency, InjectPacketLoss, NetworkPartition, PauseNode, RandomPartition,
        ReduceCapacity,
    )
    from happysimulator.load.source import Source

    seed_all(seed)
    end = cfg["end"]
    stop = end - 0.5

    collector = Sink("collector")
    done = Sink("done")
    cpu = Resource("cpu", capacity=cfg["cpu"])
    q = cfg["qsrv"]
    qsrv = Server("qsrv", concurrency=q["conc"], service_time=ConstantLatency(q["svc_ms"] / 1000.0),
                  queue_capacity=q["qcap"], downstream=done)

    def link(name):
        return NetworkLink(name=name, latency=ConstantLatency(cfg["link_ms"] / 1000.0),
                           packet_loss_rate=cfg["link_loss_pct"] / 100.0)

    network = Network(name="net", default_link=link("default") if cfg["default_link"] else None)

    class App(Entity):
        """takes a cpu unit, works, forwards the request over the network to the collector (and every
        q_every-th request to the library server)"""

        def __init__(self, name):
            super().__init__(name)
            self.received = self.finished = 0

        def handle_event(self, event):
            self.received += 1
            grant = yield cpu.acquire(1)
            yield cfg["svc_ms"] / 1000.0
            grant.release()
            self.finished += 1
            out = network.send(self, collector, "Result")
            out.context["created_at"] = event.context.get("created_at", self.now)
            out.context["metadata"]["user"] = event.context["metadata"].get("user")
            res = [out]
            if self.finished % cfg["q_every"] == 0:
                res.append(Event(time=self.now, event_type="Job", target=qsrv,
                                 context={"created_at": event.context.get("created_at", self.now)}))
            return res

    apps = [App(f"app-{j}") for j in range(cfg["n_apps"])]

    class Client(Entity):
        def __init__(self, i):
            super().__init__(f"client-{i}")
            self.i = i
            self.sent = 0

        def handle_event(self, event):
            self.sent += 1
            dst = apps[(self.sent + self.i) % len(apps)]
            out = network.send(self, dst, "Request", payload={"user": f"user-{(self.sent * 7 + self.i) % 13}"})
            out.context["created_at"] = self.now
            return [out]

    clients = [Client(i) for i in range(cfg["n_clients"])]
    for c in clients:
        for a in apps:
            network.add_link(c, a, link(f"{c.name}>{a.name}"))
    for a in apps:
        network.add_bidirectional_link(a, collector, link(f"{a.name}<>collector"))

    schedule = FaultSchedule("faults")
    handles = []
    for f in cfg["faults"]:
        k, a, b = f["kind"], f["a"] / 1000.0, f["b"] / 1000.0
        if k == "crash":
            fault = CrashNode(f["entity"], at=a, restart_at=b)
        elif k == "crash_forever":
            fault = CrashNode(f["entity"], at=a)
        elif k == "pause":
            fault = PauseNode(f["entity"], start=a, end=b)
        elif k == "partition":
            fault = NetworkPartition(list(f["ga"]), list(f["gb"]), start=a, end=b, asymmetric=f["asym"])
        elif k == "latency":
            fault = InjectLatency(f["link"][0], f["link"][1], extra_ms=f["extra_ms"], start=a, end=b)
        elif k == "loss":
            fault = InjectPacketLoss(f["link"][0], f["link"][1], loss_rate=f["rate_pct"] / 100.0, start=a, end=b,
                                     network_name="net")
        else:
            fault = ReduceCapacity("cpu", factor=f["factor_pct"] / 100.0, start=a, end=b)
        handles.append((schedule.add(fault), f["cancel"]))
    if cfg["random_partition"]:
        rp = cfg["random_partition"]
        schedule.add(RandomPartition(nodes=[e.name for e in [*clients, *apps, collector]], mtbf=rp["mtbf_ms"] / 1000.0,
                                     mttr=rp["mttr_ms"] / 1000.0, seed=sub_seed(seed, "random-partition")))

    sources = []
    for c in clients:
        mk = Source.poisson if cfg["poisson"] else Source.constant
        sources.append(mk(rate=cfg["rate"][c.i], target=c, event_type="Tick", name=f"src-{c.name}", stop_after=stop))

    sim = Simulation(end_time=T(end), sources=sources,
                     entities=[*clients, *apps, collector, done, cpu, qsrv, network], fault_schedule=schedule)
    # handles are cancelled before the run starts (test_fault_stats_tracking cancels before building the
    # Simulation; cancelling afterwards is the variant in which the events already exist)
    for h, cancel in handles:
        if cancel:
            h.cancel()

    names = [e.name for e in [*clients, *apps, collector]]

    def net_obs():
        links = []
        for c in clients:
            for a in apps:
                links.append((c.name, a.name))
        for a in apps:
            links += [(a.name, "collector"), ("collector", a.name)]
        out = {"routed": network.events_routed, "no_route": network.events_dropped_no_route,
               "partition_drops": network.events_dropped_partition,
               "matrix": [dataclass_stats(m) for m in network.traffic_matrix()],
               "still_partitioned": [[x, y] for x in names for y in names if x != y and network.is_partitioned(x, y)],
               "links": []}
        for s, d in links:
            ln = network.get_link(s, d)
            out["links"].append([s, d, ln.packet_loss_rate, ln.latency.get_latency(Instant.Epoch).to_seconds(),
                                 ln.packets_sent, ln.packets_dropped])
        return out

    obs = {
        "faults": stats_of(schedule),
        "handles": lambda: [h.cancelled for h, _ in handles],
        "net": net_obs,
        "cpu": lambda: {"capacity": cpu.capacity, "available": cpu.available, "waiters": cpu.waiters,
                        "stats": dataclass_stats(cpu.stats)},
        "collector": lambda: {"n": collector.events_received, "lat": collector.latency_stats()},
        "done": lambda: {"n": done.events_received, "lat": done.latency_stats()},
        "qsrv": stats_of(qsrv),
        "qsrv.x": lambda: {"depth": qsrv.depth, "acc": qsrv.stats_accepted, "drop": qsrv.stats_dropped,
                           "util": qsrv.utilization},
    }
    for c in clients:
        obs[c.name] = (lambda c=c: c.sent)
    for a in apps:
        obs[a.name] = (lambda a=a: {"received": a.received, "finished": a.finished})
    return sim, obs
