"""Faults: a FaultSchedule (CrashNode with / without restart, PauseNode, NetworkPartition symmetric / asymmetric,
InjectLatency, InjectPacketLoss, ReduceCapacity, RandomPartition (several at once), cancelled handles — before the
run and in the middle of it —, deliberately overlapping windows of the same kind on the same target, zero-length
and inverted windows, windows that start at 0 or end after the end of the run) applied to a small pipeline
    Sources → client-i → Network(link) → app-j (holds a unit of Resource "cpu" while working)
            → Network(link) → collector (Sink), and a fraction → library Server "qsrv" → Sink "done".
Crash / pause windows hit the harness nodes, the library Server, the sinks, a client, a Source, the Network entity
and the Resource; network faults hit the links that carry the traffic — on the network chosen by `network_name`
(explicit, or None = "first found" with a second Network "net2" of the same topology registered before or after
"net"); ReduceCapacity (factor below, at and above 1) hits the shared Resource while grants are outstanding.
All window boundaries are drawn from the boundary palette `dur_ms` (values that lose a nanosecond in
`Instant.from_seconds`, 1-4 decimal digits, absolute times above 1 s).  Load regimes: light, sustained overload of
the cpu Resource / the bounded or unbounded Server queue, bursts of same-instant requests.
Usage follows /repo/tests/integration/network/test_fault_injection.py (names resolved through the Simulation's
entities)."""
from __future__ import annotations

from hv.scenarios.base import T, dataclass_stats, dur_ms, seed_all, stats_of, sub_seed, shared

NAME = "faults"
MODEL = "C06"
COMPONENTS = ["FaultSchedule", "CrashNode", "PauseNode", "NetworkPartition", "InjectLatency", "InjectPacketLoss",
              "ReduceCapacity", "RandomPartition", "FaultHandle", "Network", "NetworkLink", "Resource", "Server",
              "Sink", "Source", "ConstantLatency", "ExponentialLatency"]

KINDS = ["crash", "crash_forever", "pause", "partition", "latency", "loss", "capacity"]
REGIMES = ["light", "light", "overload", "burst"]


def _r3(x):
    """JSON-exact ms value with at most 3 decimals (int when whole)"""
    x = round(float(x), 3)
    return int(x) if x.is_integer() else x


def _window(rng, end_ms):
    """[a, b] in ms from the boundary palette.  Mostly a < b inside the run; sometimes a = 0, a zero-length window
    (a == b), an inverted one (b < a: the "end" event fires first), or a window that is still open at end_time."""
    a = dur_ms(rng, 0, end_ms - 100, zero=True)
    r = rng.random()
    if r < 0.07:
        b = a                                             # start and end at the same instant
    elif r < 0.12:
        b = dur_ms(rng, 0, max(1, a))                      # inverted / degenerate
    elif r < 0.22:
        b = dur_ms(rng, end_ms - 50, end_ms + 1500)        # ends at / after end_time
    elif r < 0.45:
        b = dur_ms(rng, a, a + 60)                         # very short
    else:
        b = dur_ms(rng, a, min(a + 2500, end_ms + 500))
    return _r3(a), _r3(b)


def gen_cfg(rng):
    end = rng.choice([3.0, 4.0, 5.0]) if rng.random() > 0.12 else rng.choice([8.0, 10.0])
    end_ms = int(end * 1000)
    n_clients = rng.choice([1, 2, 2, 3, 3, 4])
    n_apps = rng.randint(1, 3)
    clients = [f"client-{i}" for i in range(n_clients)]
    apps = [f"app-{j}" for j in range(n_apps)]
    nodes = clients + apps + ["collector"]
    links = [[c, a] for c in clients for a in apps] + [[a, "collector"] for a in apps] + \
            [["collector", a] for a in apps]
    net2 = rng.random() < 0.45
    nets = [None, "net"] + (["net2", "net2"] if net2 else [])
    regime = rng.choice(REGIMES)
    cpu = rng.choice([1, 1, 2, 3, 4, 4, 6, 8]) if regime != "overload" else rng.choice([1, 1, 2])
    victims = apps + apps + ["qsrv", "qsrv", clients[0], "collector", "done", "net", "cpu", f"src-{clients[-1]}"]

    def one_fault(kind):
        a, b = _window(rng, end_ms)
        if kind in ("crash", "crash_forever", "pause"):
            f = {"kind": kind, "entity": rng.choice(victims), "a": a, "b": b}
        elif kind == "partition":
            k = rng.randint(1, len(nodes) - 1)
            shuffled = rng.sample(nodes, len(nodes))
            f = {"kind": kind, "ga": shuffled[:k], "gb": shuffled[k:], "asym": rng.random() < 0.4, "a": a, "b": b}
            if rng.random() < 0.15:                        # groups that overlap (a node on both sides)
                f["gb"] = f["gb"] + f["ga"][:1]
        elif kind == "latency":
            f = {"kind": kind, "link": rng.choice(links),
                 "extra_ms": rng.choice([0, 0.5, 5, 20, 57.3, 100, 400, 1001, 2050]), "a": a, "b": b}
        elif kind == "loss":
            f = {"kind": kind, "link": rng.choice(links), "rate_pct": rng.choice([0, 1, 10, 50, 90, 100]),
                 "a": a, "b": b}
        else:
            # dyadic factors keep capacity arithmetic exact; 10 / 99 (rare) give fractional capacities, where
            # Resource._do_release's `available + amount > capacity` can fail by float rounding (reported)
            # (the library exception is /tmp/orch/found/faults-reducecapacity-float-release.py: 8 * 0.3 already does it)
            pal = [25, 50, 50, 75, 75, 100, 150, 300, 12.5]
            f = {"kind": kind, "factor_pct": rng.choice(pal if rng.random() < 0.93 else [1, 10, 99, 90, 70, 30]),
                 "a": a, "b": b}
        if kind in ("partition", "latency", "loss"):
            f["net"] = rng.choice(nets)
        f["cancel"] = rng.random() < 0.12
        # cancelled in the middle of the run (possibly between activation and deactivation)
        f["cancel_at"] = _r3(dur_ms(rng, 0, end_ms, zero=True)) if rng.random() < 0.12 else None
        return f

    faults = []
    # mostly one fault of EVERY kind in the same run (plus random extras); sometimes only a few random kinds
    all_kinds = rng.random() < 0.6
    kinds = (rng.sample(KINDS, len(KINDS)) if all_kinds else []) + \
            [rng.choice(KINDS) for _ in range(rng.randint(0, 3) if all_kinds else rng.randint(3, 9))]
    for kind in kinds:
        f = one_fault(kind)
        faults.append(f)
        if rng.random() < 0.4:
            # a second (sometimes third) window of the same fault overlapping the first one
            for _ in range(rng.choice([1, 1, 2])):
                g = dict(f)
                g["a"] = _r3(dur_ms(rng, f["a"], max(f["a"], f["b"]) + 50))
                g["b"] = _r3(dur_ms(rng, g["a"], max(g["a"], f["b"]) + 400))
                g["cancel"] = False
                g["cancel_at"] = None
                if kind == "capacity":
                    g["factor_pct"] = rng.choice([50, 75, 200])
                faults.append(g)

    if regime == "light":
        rate = [rng.choice([10, 20, 40, 80]) for _ in range(n_clients)]
        burst = 1
        svc = dur_ms(rng, 5, 60)
    elif regime == "overload":   # arrival rate well above what cpu / qsrv can serve, for the whole run
        rate = [rng.choice([100, 200, 300]) for _ in range(n_clients)]
        burst = 1
        svc = dur_ms(rng, 40, 250)
    else:                        # few ticks, many same-instant requests per tick
        burst = rng.choice([5, 12, 30])
        rate = [rng.choice([2, 5, 10] if burst < 30 else [2, 5]) for _ in range(n_clients)]
        svc = dur_ms(rng, 1, 80, zero=True)
    if end > 6:
        rate = [max(2, r // 3) for r in rate]
    return {
        "end": end,
        "n_clients": n_clients,
        "n_apps": n_apps,
        "regime": regime,
        "rate": rate,
        "burst": burst,
        "poisson": rng.random() < 0.5,
        "link_ms": dur_ms(rng, 0.2, 40, zero=True),
        "link_kind": rng.choice(["const", "const", "exp"]),
        "link_loss_pct": rng.choice([0, 0, 0, 5, 50, 100]),
        "default_link": rng.random() < 0.3,
        "svc_ms": svc,
        "cpu": cpu,
        "q_every": rng.randint(1, 5),
        "qsrv": {"conc": rng.randint(1, 3), "svc_ms": dur_ms(rng, 1, 120, zero=True),
                 "qcap": rng.choice([None, None, 0, 1, 3, 10])},
        "faults": faults,
        "random_partition": None,
        "random_partitions": [{"mtbf_ms": dur_ms(rng, 20, 1500), "mttr_ms": dur_ms(rng, 5, 1500),
                               "n_nodes": rng.randint(2, len(nodes)), "net": rng.choice(nets)}
                              for _ in range(rng.choice([0, 0, 0, 1, 1, 2]))],
        "net2": net2,
        "net2_first": rng.random() < 0.5,
        "net2_every": rng.randint(2, 4),
        "stop_ms": _r3(dur_ms(rng, end_ms - 1200, end_ms + 200)),
        "cancel_after_build": rng.random() < 0.7,
    }


def build(cfg, seed):
    from happysimulator.components.common import Sink
    from happysimulator.components.network.link import NetworkLink
    from happysimulator.components.network.network import Network
    from happysimulator.components.resource import Resource
    from happysimulator.components.server import Server
    from happysimulator.core.entity import Entity
    from happysimulator.core.event import Event
    from happysimulator.core.simulation import Simulation
    from happysimulator.core.temporal import Instant
    from happysimulator.distributions import ConstantLatency, ExponentialLatency
    from happysimulator.faults import (
        CrashNode, FaultSchedule, InjectLatency, InjectPacketLoss, NetworkPartition, PauseNode, RandomPartition,
        ReduceCapacity,
    )
    from happysimulator.load.source import Source

    seed_all(seed)
    end = cfg["end"]
    stop = cfg["stop_ms"] / 1000.0 if "stop_ms" in cfg else end - 0.5
    burst = cfg.get("burst", 1)
    use_net2 = cfg.get("net2", False)

    collector = Sink("collector")
    done = Sink("done")
    cpu = Resource("cpu", capacity=cfg["cpu"])
    q = cfg["qsrv"]
    qsrv = Server("qsrv", concurrency=q["conc"], service_time=ConstantLatency(q["svc_ms"] / 1000.0),
                  queue_capacity=q["qcap"], downstream=done)

    def link(name):
        lat = cfg["link_ms"] / 1000.0
        dist = ExponentialLatency(lat) if cfg.get("link_kind", "const") == "exp" and lat > 0 else ConstantLatency(lat)
        return NetworkLink(name=name, latency=dist, packet_loss_rate=cfg["link_loss_pct"] / 100.0)

    network = Network(name="net", default_link=link("default") if cfg["default_link"] else None)
    net2 = Network(name="net2") if use_net2 else None
    nets = {"net": network, "net2": net2}

    class App(Entity):
        """takes a cpu unit, works, forwards the request over the network to the collector (and every
        q_every-th request to the library server)"""

        def __init__(self, name):
            super().__init__(name)
            self.received = self.finished = self.refused = 0

        def handle_event(self, event):
            self.received += 1
            if cpu.capacity < 1:      # a ReduceCapacity window left less than one unit: acquire(1) would be rejected
                self.refused += 1
                return None
            grant = yield cpu.acquire(1)
            yield cfg["svc_ms"] / 1000.0
            grant.release()
            self.finished += 1
            via = nets.get(event.context["metadata"].get("via", "net")) or network
            out = via.send(self, collector, "Result")
            out.context["created_at"] = event.context.get("created_at", self.now)
            out.context["metadata"]["user"] = event.context["metadata"].get("user")
            res = [out]
            if self.finished % cfg["q_every"] == 0:
                res.append(Event(time=self.now, event_type="Job", target=qsrv,
                                 context={"created_at": event.context.get("created_at", self.now)}))
            return res

    apps = [App(f"app-{j}") for j in range(cfg["n_apps"])]

    class Client(Entity):
        def __init__(self, i):
            super().__init__(f"client-{i}")
            self.i = i
            self.sent = 0

        def handle_event(self, event):
            outs = []
            for _ in range(burst):
                self.sent += 1
                dst = apps[(self.sent + self.i) % len(apps)]
                via = "net2" if use_net2 and self.sent % cfg.get("net2_every", 2) == 0 else "net"
                out = nets[via].send(self, dst, "Request",
                                     payload={"user": f"user-{(self.sent * 7 + self.i) % 13}", "via": via})
                out.context["created_at"] = self.now
                outs.append(out)
            return outs

    clients = [Client(i) for i in range(cfg["n_clients"])]
    for nm, nw in sorted(nets.items()):
        if nw is None:
            continue
        for c in clients:
            for a in apps:
                nw.add_link(c, a, link(f"{nm}:{c.name}>{a.name}" if nm != "net" else f"{c.name}>{a.name}"))
        for a in apps:
            nw.add_bidirectional_link(a, collector, link(f"{nm}:{a.name}<>collector" if nm != "net"
                                                         else f"{a.name}<>collector"))

    schedule = FaultSchedule("faults")
    handles = []
    for f in cfg["faults"]:
        k, a, b = f["kind"], f["a"] / 1000.0, f["b"] / 1000.0
        if k == "crash":
            fault = CrashNode(f["entity"], at=a, restart_at=b)
        elif k == "crash_forever":
            fault = CrashNode(f["entity"], at=a)
        elif k == "pause":
            fault = PauseNode(f["entity"], start=a, end=b)
        elif k == "partition":
            fault = NetworkPartition(shared("faults.ga", list(f["ga"])), shared("faults.gb", list(f["gb"])), start=a, end=b,
                                     asymmetric=f["asym"],
                                     network_name=f.get("net"))
        elif k == "latency":
            fault = InjectLatency(f["link"][0], f["link"][1], extra_ms=f["extra_ms"], start=a, end=b,
                                  network_name=f.get("net"))
        elif k == "loss":
            fault = InjectPacketLoss(f["link"][0], f["link"][1], loss_rate=f["rate_pct"] / 100.0, start=a, end=b,
                                     network_name=f.get("net", "net"))
        else:
            fault = ReduceCapacity("cpu", factor=f["factor_pct"] / 100.0, start=a, end=b)
        handles.append((schedule.add(fault), f["cancel"], f.get("cancel_at")))
    node_names = [e.name for e in [*clients, *apps, collector]]
    if cfg.get("random_partition"):   # old cfg shape: one RandomPartition over all nodes
        rp = cfg["random_partition"]
        schedule.add(RandomPartition(nodes=shared("faults.nodes", list(node_names)), mtbf=rp["mtbf_ms"] / 1000.0,
                                     mttr=rp["mttr_ms"] / 1000.0, seed=sub_seed(seed, "random-partition")))
    for i, rp in enumerate(cfg.get("random_partitions", [])):
        # `seed=`: RandomPartition(seed=None) draws from a private OS-seeded Random (documented: "seed for
        # reproducibility"), never from the module-level `random`
        # the node list is a process-wide shared object (module-level-constant style, base.shared)
        schedule.add(RandomPartition(nodes=shared("faults.nodes", node_names[-rp["n_nodes"]:]), mtbf=rp["mtbf_ms"] / 1000.0,
                                     mttr=rp["mttr_ms"] / 1000.0, seed=sub_seed(seed, "random-partition", i),
                                     network_name=rp["net"]))

    sources = []
    for c in clients:
        mk = Source.poisson if cfg["poisson"] else Source.constant
        sources.append(mk(rate=cfg["rate"][c.i], target=c, event_type="Tick", name=f"src-{c.name}", stop_after=stop))

    class Canceller(Entity):
        """cancels a fault handle in the middle of the run (the handle's events already sit in the heap)"""

        def __init__(self):
            super().__init__("canceller")
            self.done = []

        def handle_event(self, event):
            i = event.context["metadata"]["i"]
            handles[i][0].cancel()
            self.done.append(i)
            return None

    canceller = Canceller()
    net_entities = [network] + ([net2] if net2 is not None else [])
    if cfg.get("net2_first", False):
        net_entities.reverse()
    sim = Simulation(end_time=T(end), sources=sources,
                     entities=[*clients, *apps, collector, done, cpu, qsrv, *net_entities, canceller],
                     fault_schedule=schedule)
    # handles are cancelled before the run starts (test_fault_stats_tracking cancels before building the
    # Simulation; cancelling afterwards is the variant in which the events already exist)
    for i, (h, cancel, cancel_at) in enumerate(handles):
        if cancel:
            h.cancel()
        if cancel_at is not None:
            sim.schedule(Event(time=Instant.from_seconds(cancel_at / 1000.0), event_type="CancelFault",
                               target=canceller, daemon=True, context={"metadata": {"i": i}}))

    def net_obs(nm, nw):
        def read():
            links = []
            for c in clients:
                for a in apps:
                    links.append((c.name, a.name))
            for a in apps:
                links += [(a.name, "collector"), ("collector", a.name)]
            out = {"routed": nw.events_routed, "no_route": nw.events_dropped_no_route,
                   "partition_drops": nw.events_dropped_partition,
                   "matrix": [dataclass_stats(m) for m in nw.traffic_matrix()],
                   "still_partitioned": [[x, y] for x in node_names for y in node_names
                                         if x != y and nw.is_partitioned(x, y)],
                   "links": []}
            for s, d in links:
                ln = nw.get_link(s, d)
                out["links"].append([s, d, ln.packet_loss_rate, type(ln.latency).__name__,
                                     ln.latency.get_latency(Instant.Epoch).to_seconds(),
                                     ln.packets_sent, ln.packets_dropped, ln.bytes_transmitted])
            return out
        return read

    obs = {
        "faults": stats_of(schedule),
        "handles": lambda: [h.cancelled for h, _, _ in handles],
        "cancelled_midrun": lambda: list(canceller.done),
        "net": net_obs("net", network),
        "cpu": lambda: {"capacity": cpu.capacity, "available": cpu.available, "waiters": cpu.waiters,
                        "utilization": cpu.utilization, "stats": dataclass_stats(cpu.stats)},
        "collector": lambda: {"n": collector.events_received, "lat": collector.latency_stats()},
        "done": lambda: {"n": done.events_received, "lat": done.latency_stats()},
        "qsrv": stats_of(qsrv),
        "qsrv.x": lambda: {"depth": qsrv.depth, "acc": qsrv.stats_accepted, "drop": qsrv.stats_dropped,
                           "util": qsrv.utilization},
        "sources": lambda: [[s.name, s.generated_count] for s in sources],
    }
    if net2 is not None:
        obs["net2"] = net_obs("net2", net2)
    for c in clients:
        obs[c.name] = (lambda c=c: c.sent)
    for a in apps:
        obs[a.name] = (lambda a=a: {"received": a.received, "finished": a.finished, "refused": a.refused})
    return sim, obs
