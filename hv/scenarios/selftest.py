"""python -m hv.scenarios.selftest [family …] [--n K] [--seed S]

For each family: K generated configurations, each run twice in this process; prints one line per run
(deliveries, pushes, past pushes, time-travel warnings, max deliveries per instant, spin, library
exception, wall ms) and checks that the two digests agree and the JSON round trip of cfg is exact.
"""
from __future__ import annotations

import json
import random
import sys
import time

import os

_REPO = os.environ.get("HV_REPO", "/repo")     # HV_REPO=<worktree> runs the families against another checkout
sys.path.insert(0, _REPO) if _REPO not in sys.path else None


def main(argv):
    from hv.scenarios import IMPORT_ERRORS, families
    from hv.scenarios.digest import digest_lines, sha
    from hv.scenarios.monitor import run_scenario

    n, seed0, names = 3, 0, []
    it = iter(argv)
    for a in it:
        if a == "--n":
            n = int(next(it))
        elif a == "--seed":
            seed0 = int(next(it))
        elif a == "-v":
            pass
        else:
            names.append(a)
    fams = families()
    for k, v in IMPORT_ERRORS.items():
        print(f"IMPORT-ERROR {k}: {v}")
    bad = 0
    for name in names or sorted(fams):
        if name not in fams:
            print(f"unknown family {name}")
            bad += 1
            continue
        for k in range(n):
            rng = random.Random(f"{name}/{seed0}/{k}")
            # every third configuration is the family's maximum-coverage one, when it defines `gen_cfg_wide`
            gen = getattr(fams[name], "gen_cfg_wide", None) if k % 3 == 2 else None
            cfg = (gen or fams[name].gen_cfg)(rng)
            cfg2 = json.loads(json.dumps(cfg))
            if cfg2 != cfg:
                print(f"{name}: cfg is not JSON-stable")
                bad += 1
            seed = seed0 * 1000 + k
            t0 = time.time()
            r1 = run_scenario(name, cfg2, seed)
            ms = (time.time() - t0) * 1000
            r2 = run_scenario(name, cfg2, seed)
            d1, d2 = digest_lines(r1), digest_lines(r2)
            same = sha(d1) == sha(d2)
            m = r1.mon
            flag = "" if same else "  <-- NOT REPRODUCIBLE IN-PROCESS"
            if not same:
                bad += 1
                for i, (a, b) in enumerate(zip(d1, d2)):
                    if a != b:
                        print(f"   first diff line {i}: {a[:150]} | {b[:150]}")
                        break
            print(f"{name:14s} cfg{k} deliv {m.n_deliveries:6d} push {m.n_pushes:6d} past {m.n_past} tt {m.timetravel} "
                  f"maxPerInstant {m.max_per_instant:4d} spin {m.spin} runaway {m.runaway} err {r1.error or '-'} "
                  f"{ms:6.0f} ms sha {sha(d1)[:12]}{flag}")
            if m.past:
                print("   past:", m.past[:3])
            if "-v" in argv:
                for ln in d1[-12:]:
                    print("   ", ln[:200])
    return 1 if bad else 0


if __name__ == "__main__":
    sys.exit(main(sys.argv[1:]))
