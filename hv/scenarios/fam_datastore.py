"""Data stores: 3–6 client entities issue overlapping get / put / delete (string keys "user-17", "k3") against
  * KVStore (latencies, optional capacity → FIFO eviction) behind a CachedStore of capacity 2–3 with EVERY eviction
    policy (LRU, LFU, TTL, FIFO, Random, SLRU, SampledLRU, Clock, 2Q), write-through or write-back (+ flush,
    invalidate, invalidate_all, TTL expiry sweep), written through each WritePolicy (WriteThrough, WriteBack with
    max_dirty flushes, WriteAround with invalidation);
  * SoftTTLCache (soft/hard TTL that really expire, background refresh, coalescing, capacity);
  * MultiTierCache (L1/L2 CachedStores, each promotion policy);
  * ShardedStore (hash / range / range+boundaries / consistent-hash sharding, scatter_gather);
  * ReplicatedStore (3 replicas with different latencies, each consistency level);
  * Database (1–3 connections so callers wait, per-query-type latency, transactions commit / rollback);
  * CacheWarmer (scheduled before the run; optionally re-started from a handler later in the run).
TTLEviction gets its DEFAULT clock (wall-clock time.time) when cfg["ttl_default_clock"] is true, otherwise a
clock_func reading the simulation clock.
  * cache bank (cfg["bank"]): one more CachedStore per eviction policy — ALL of them in one run — over a shared KVStore
    with a key space that can exceed the policies' internal constants (TwoQueueEviction remembers 50 ghosts), driven by
    a scanner that sweeps the key space cyclically (hundreds of evictions) and re-reads recently evicted keys."""
from __future__ import annotations

import random

from hv.scenarios.base import T, dur_ms, seed_all, size_over, stats_of, sub_seed

NAME = "datastore"
MODEL = "C16"
COMPONENTS = ["KVStore", "CachedStore", "LRUEviction", "LFUEviction", "TTLEviction", "FIFOEviction", "RandomEviction",
              "SLRUEviction", "SampledLRUEviction", "ClockEviction", "TwoQueueEviction", "WriteThrough", "WriteBack",
              "WriteAround", "SoftTTLCache", "MultiTierCache", "PromotionPolicy", "ShardedStore", "HashSharding",
              "RangeSharding", "ConsistentHashSharding", "ReplicatedStore", "ConsistencyLevel", "Database",
              "Transaction", "CacheWarmer", "Source"]

EVICTIONS = ["lru", "lfu", "ttl", "fifo", "random", "slru", "sampled", "clock", "2q"]
WRITE_POLICIES = ["through", "back", "around"]
SHARDINGS = ["hash", "range", "range-b", "consistent"]
LEVELS = ["ONE", "QUORUM", "ALL"]
PROMOTIONS = ["always", "on_second_access", "never"]
OPS = ["c_get", "c_put", "c_del", "c_inv", "c_flush", "p_put",
       "s_get", "s_put", "s_inv",
       "m_get", "m_put", "m_del",
       "sh_get", "sh_put", "sh_del", "sh_sg",
       "r_get", "r_put", "r_del",
       "q_exec", "q_txn"]


def gen_cfg(rng):
    n_clients = rng.randint(3, 6)
    ev = rng.choice(EVICTIONS)
    n_shards = rng.randint(2, 4)
    return {
        "end": rng.choice([2.0, 3.0, 4.0]) if rng.random() < 0.9 else 8.0,
        "n_keys": size_over(rng, [5, 8, 13, 23], 50),
        "n_clients": n_clients,
        "clients": [{"rate": rng.choice([20, 40, 60, 100]), "poisson": rng.random() < 0.5}
                    for _ in range(n_clients)],
        "w": [rng.randint(3, 9), rng.randint(2, 6), rng.randint(0, 2), rng.randint(0, 2), rng.randint(0, 2),
              rng.randint(1, 5),
              rng.randint(1, 6), rng.randint(1, 3), rng.randint(0, 1),
              rng.randint(1, 6), rng.randint(1, 3), rng.randint(0, 2),
              rng.randint(1, 4), rng.randint(1, 4), rng.randint(0, 2), rng.randint(0, 2),
              rng.randint(1, 4), rng.randint(1, 3), rng.randint(0, 2),
              rng.randint(1, 4), rng.randint(1, 4)],
        # backing store + cache
        "db_read_ms": dur_ms(rng, 1, 8),
        "db_write_ms": dur_ms(rng, 2, 12),
        "db_cap": rng.choice([None, None, 4, 10]),
        "eviction": ev,
        # about half of the TTL configurations use the constructor default (time.time)
        "ttl_default_clock": ev == "ttl" and rng.random() < 0.5,
        "ttl_ms": dur_ms(rng, 20, 1200),
        "cache_cap": rng.choice([1, 2, 2, 3, 3, 8]),
        "cache_read_ms": dur_ms(rng, 0.1, 2, zero=True),
        "write_through": rng.random() < 0.5,
        "write_policy": rng.choice(WRITE_POLICIES),
        "wb_max_dirty": rng.randint(1, 4),
        "wb_interval_ms": dur_ms(rng, 20, 1200),
        "slru_ratio_pct": rng.choice([1, 50, 80, 99]),
        "sample_size": rng.randint(1, 6),
        "kin_ratio_pct": rng.choice([1, 25, 50, 99]),
        "inv_all_ms": rng.choice([None, dur_ms(rng, 500, 1500), dur_ms(rng, 1001, 1900)]),
        # cache bank: every eviction policy at once, key space around / above internal constants (2Q: 50 ghosts)
        "bank": (list(EVICTIONS) if rng.random() < 0.75 else sorted(rng.sample(EVICTIONS, 3))) if rng.random() < 0.8 else [],
        "bank_cap": rng.choice([1, 2, 4, 7]),
        # around and above the ghost-list length: a cyclic sweep over K keys re-reads a key K - capacity evictions later
        "bank_keys": rng.choice([12, 30, 45]) if rng.random() < 0.35 else rng.choice([51, 60, 90, 103, 150, 200]),
        "scan_rate": rng.choice([20, 40, 60]),
        "scan_span": rng.randint(2, 5),
        "scan_back": rng.choice([3, 20, 60, 100]),
        "scan_put_pct": rng.choice([0, 10, 40]),
        "sweep_rate": rng.choice([5, 10, 20]),      # TTL policy only: periodic purge of expired entries
        # soft ttl cache
        "soft_ms": dur_ms(rng, 5, 300),
        "hard_extra_ms": dur_ms(rng, 1, 1200, zero=True),
        "sttl_cap": rng.choice([None, 2, 4]),
        # multi tier
        "promotion": rng.choice(PROMOTIONS),
        "l1_cap": rng.randint(1, 2),
        "l2_cap": rng.randint(3, 5),
        "l2_eviction": rng.choice(["lru", "lfu", "fifo", "clock", "slru", "2q"]),
        # sharded
        "n_shards": n_shards,
        "sharding": rng.choice(SHARDINGS),
        "vnodes": rng.choice([3, 20, 100]),
        "shard_cap": rng.choice([None, 3]),
        # replicated
        "rc": rng.choice(LEVELS),
        "wc": rng.choice(LEVELS),
        "replica_ms": [dur_ms(rng, 1, 10) for _ in range(3)],
        "r_timeout_ms": rng.choice([None, None, dur_ms(rng, 1, 20)]),     # None: the family's 50 / 100 ms
        "w_timeout_ms": rng.choice([None, None, dur_ms(rng, 1, 30)]),
        # database
        "max_conn": rng.randint(1, 3),
        "q_callable": rng.random() < 0.5,
        "q_ms": dur_ms(rng, 1, 15),
        "conn_ms": dur_ms(rng, 1, 10),
        "commit_ms": dur_ms(rng, 1, 10),
        "rollback_pct": rng.choice([0, 20, 50]),
        "tx_stmts": rng.randint(1, 3),
        # warmer
        "warm_rate": rng.choice([3, 50, 100, 200, 997]),
        "warm_n": rng.randint(3, 8),
        "warm_ms": dur_ms(rng, 0.1, 5),
        "warm_callable": rng.random() < 0.3,
        "rewarm_ms": dur_ms(rng, 1000, 1600) if rng.random() < 0.25 else None,
    }


def gen_cfg_wide(rng):
    """maximum-coverage configuration: every eviction policy in the bank, a key space well above the policies' internal
    constants, enough sweeps to evict every key several times"""
    cfg = gen_cfg(rng)
    cfg.update({"bank": list(EVICTIONS), "bank_keys": rng.choice([90, 103, 150, 200]), "bank_cap": rng.choice([2, 4, 7]),
                "scan_rate": rng.choice([40, 60]), "scan_span": rng.randint(3, 5), "scan_back": rng.choice([60, 100]),
                "end": max(cfg["end"], 3.0), "n_keys": rng.choice([23, 60, 103])})
    return cfg


def _eviction(kind, cfg, seed, tag, sim_seconds):
    from happysimulator.components.datastore import (
        ClockEviction,
        FIFOEviction,
        LFUEviction,
        LRUEviction,
        RandomEviction,
        SampledLRUEviction,
        SLRUEviction,
        TTLEviction,
        TwoQueueEviction,
    )

    if kind == "lru":
        return LRUEviction()
    if kind == "lfu":
        return LFUEviction()
    if kind == "ttl":
        if cfg["ttl_default_clock"]:
            return TTLEviction(ttl=cfg["ttl_ms"] / 1000.0)      # library default: time.time
        return TTLEviction(ttl=cfg["ttl_ms"] / 1000.0, clock_func=sim_seconds)
    if kind == "fifo":
        return FIFOEviction()
    if kind == "random":
        return RandomEviction(seed=sub_seed(seed, "random-eviction", tag))
    if kind == "slru":
        return SLRUEviction(protected_ratio=cfg["slru_ratio_pct"] / 100.0)
    if kind == "sampled":
        return SampledLRUEviction(sample_size=cfg["sample_size"], seed=sub_seed(seed, "sampled-lru", tag))
    if kind == "clock":
        return ClockEviction()
    return TwoQueueEviction(kin_ratio=cfg["kin_ratio_pct"] / 100.0)


def build(cfg, seed):
    from happysimulator.components.datastore import (
        CachedStore,
        CacheWarmer,
        ConsistencyLevel,
        ConsistentHashSharding,
        Database,
        HashSharding,
        KVStore,
        LRUEviction,
        MultiTierCache,
        RangeSharding,
        ReplicatedStore,
        ShardedStore,
        SoftTTLCache,
        TTLEviction,
        WriteAround,
        WriteBack,
        WriteThrough,
    )
    from happysimulator.core.entity import Entity
    from happysimulator.core.event import Event
    from happysimulator.core.simulation import Simulation
    from happysimulator.core.temporal import Instant
    from happysimulator.load.source import Source

    seed_all(seed)
    end = cfg["end"]
    stop = end - 0.5
    nk = cfg["n_keys"]

    def key(i):
        i %= nk
        return f"user-{i}" if i % 3 else f"k{i}"

    all_keys = [key(i) for i in range(nk)]

    # ---- KVStore + CachedStore ------------------------------------------------------------------------
    db = KVStore("db", read_latency=cfg["db_read_ms"] / 1000.0, write_latency=cfg["db_write_ms"] / 1000.0,
                 delete_latency=cfg["db_read_ms"] / 1000.0, capacity=cfg["db_cap"])
    for i in range(0, nk, 2):
        db.put_sync(key(i), f"init-{i}")

    def sim_seconds():
        return db.now.to_seconds()

    policy = _eviction(cfg["eviction"], cfg, seed, "cache", sim_seconds)
    wp_kind = cfg["write_policy"]
    # the WriteBack policy buffers in the harness, so the cache itself is write-back too in that mode
    write_through = cfg["write_through"] if wp_kind != "back" else False
    cache = CachedStore("cache", backing_store=db, cache_capacity=cfg["cache_cap"], eviction_policy=policy,
                        cache_read_latency=cfg["cache_read_ms"] / 1000.0, write_through=write_through)
    if wp_kind == "through":
        wpol = WriteThrough()
    elif wp_kind == "back":
        wpol = WriteBack(flush_interval=cfg.get("wb_interval_ms", 200) / 1000.0, max_dirty=cfg["wb_max_dirty"])
    else:
        wpol = WriteAround()
    pending = {}          # WriteBack: values buffered by the harness until the policy asks for a flush

    # ---- SoftTTLCache ---------------------------------------------------------------------------------
    db2 = KVStore("db2", read_latency=cfg["db_read_ms"] / 1000.0, write_latency=cfg["db_write_ms"] / 1000.0)
    for i in range(nk):
        if i % 4 != 3:
            db2.put_sync(key(i), f"init2-{i}")
    sttl = SoftTTLCache("sttl", backing_store=db2, soft_ttl=cfg["soft_ms"] / 1000.0,
                        hard_ttl=(cfg["soft_ms"] + cfg["hard_extra_ms"]) / 1000.0, cache_capacity=cfg["sttl_cap"],
                        cache_read_latency=cfg["cache_read_ms"] / 1000.0)

    # ---- MultiTierCache -------------------------------------------------------------------------------
    db3 = KVStore("db3", read_latency=cfg["db_read_ms"] / 1000.0, write_latency=cfg["db_write_ms"] / 1000.0)
    for i in range(1, nk, 2):
        db3.put_sync(key(i), f"init3-{i}")
    l1 = CachedStore("l1", backing_store=db3, cache_capacity=cfg["l1_cap"], eviction_policy=LRUEviction(),
                     cache_read_latency=0.0005)
    l2 = CachedStore("l2", backing_store=db3, cache_capacity=cfg["l2_cap"],
                     eviction_policy=_eviction(cfg["l2_eviction"], cfg, seed, "l2", sim_seconds),
                     cache_read_latency=0.002)
    mtc = MultiTierCache("mtc", tiers=[l1, l2], backing_store=db3, promotion_policy=cfg["promotion"])

    # ---- ShardedStore ---------------------------------------------------------------------------------
    shards = [KVStore(f"shard-{i}", read_latency=(1 + i) / 1000.0, write_latency=(2 + 2 * i) / 1000.0,
                      capacity=cfg["shard_cap"]) for i in range(cfg["n_shards"])]
    sk = cfg["sharding"]
    if sk == "hash":
        strategy = HashSharding()
    elif sk == "range":
        strategy = RangeSharding()
    elif sk == "range-b":
        strategy = RangeSharding(boundaries=["k9", "user-2", "user-5"][: cfg["n_shards"] - 1])
    else:
        strategy = ConsistentHashSharding(virtual_nodes=cfg["vnodes"], seed=sub_seed(seed, "ring"))
    sharded = ShardedStore("sharded", shards=shards, sharding_strategy=strategy)

    # ---- ReplicatedStore ------------------------------------------------------------------------------
    replicas = [KVStore(f"replica-{i}", read_latency=ms / 1000.0, write_latency=2 * ms / 1000.0)
                for i, ms in enumerate(cfg["replica_ms"])]
    repl = ReplicatedStore("repl", replicas=replicas, read_consistency=ConsistencyLevel[cfg["rc"]],
                           write_consistency=ConsistencyLevel[cfg["wc"]],
                           read_timeout=(cfg.get("r_timeout_ms") or 50) / 1000.0,
                           write_timeout=(cfg.get("w_timeout_ms") or 100) / 1000.0)

    # ---- Database -------------------------------------------------------------------------------------
    q_ms = cfg["q_ms"]
    if cfg["q_callable"]:
        def q_latency(q):
            return (q_ms if q.upper().startswith("SELECT") else 2 * q_ms) / 1000.0
    else:
        q_latency = q_ms / 1000.0
    pg = Database("pg", max_connections=cfg["max_conn"], query_latency=q_latency,
                  connection_latency=cfg["conn_ms"] / 1000.0, commit_latency=cfg["commit_ms"] / 1000.0,
                  rollback_latency=cfg["commit_ms"] / 2000.0)
    pg.create_table("users")
    pg.create_table("orders")

    # ---- CacheWarmer ----------------------------------------------------------------------------------
    warm_keys = [key(i) for i in range(cfg["warm_n"])]
    warmer = CacheWarmer("warmer", cache=cache,
                         keys_to_warm=(lambda: list(warm_keys)) if cfg.get("warm_callable") else warm_keys,
                         warmup_rate=float(cfg["warm_rate"]), warmup_latency=cfg.get("warm_ms", 1) / 1000.0)

    shared = {"wb_flushes": 0, "wa_invalidations": 0, "expired_swept": 0, "inv_all": 0, "rewarm": 0, "sweeps": []}

    class Client(Entity):
        def __init__(self, i):
            super().__init__(f"client-{i}")
            self.i = i
            self.rng = random.Random(sub_seed(seed, "client", i))
            self.n = 0
            self.done = 0
            self.ops = {op: 0 for op in OPS}
            self.log = []

        def note(self, op, k, res):
            self.done += 1
            if len(self.log) < 400:
                self.log.append([op, k, res])

        def handle_event(self, event):
            self.n += 1
            rng = self.rng
            op = rng.choices(OPS, weights=cfg["w"])[0]
            self.ops[op] += 1
            # skewed key popularity: half of the traffic on the first three keys
            k = key(rng.randrange(3) if rng.random() < 0.5 else rng.randrange(nk))
            val = f"v{self.i}.{self.n}"
            r = None
            if op == "c_get":
                r = yield from cache.get(k)
            elif op == "c_put":
                yield from cache.put(k, val)
                r = val
            elif op == "c_del":
                r = yield from cache.delete(k)
            elif op == "c_inv":
                if isinstance(policy, TTLEviction):
                    # expiry sweep, the way a TTL cache is maintained
                    expired = policy.get_expired_keys()
                    for kk in expired:
                        cache.invalidate(kk)
                    shared["expired_swept"] += len(expired)
                    r = [len(expired), policy.is_expired(k)]
                else:
                    cache.invalidate(k)
            elif op == "c_flush":
                r = yield from cache.flush()
            elif op == "p_put":
                r = yield from self.policy_put(k, val)
            elif op == "s_get":
                r = yield from sttl.get(k)
            elif op == "s_put":
                yield from sttl.put(k, val)
                r = val
            elif op == "s_inv":
                sttl.invalidate(k)
                r = sttl.is_refreshing(k)
            elif op == "m_get":
                r = yield from mtc.get(k)
            elif op == "m_put":
                yield from mtc.put(k, val)
                r = val
            elif op == "m_del":
                r = yield from mtc.delete(k)
            elif op == "sh_get":
                r = yield from sharded.get(k)
            elif op == "sh_put":
                yield from sharded.put(k, val)
                r = sharded.get_shard_for_key(k)
            elif op == "sh_del":
                r = yield from sharded.delete(k)
            elif op == "sh_sg":
                ks = [key(rng.randrange(nk)) for _ in range(rng.randint(2, 5))]
                got = yield from sharded.scatter_gather(ks)
                r = [[a, got[a]] for a in got]
            elif op == "r_get":
                r = yield from repl.get(k)
            elif op == "r_put":
                r = yield from repl.put(k, val)
            elif op == "r_del":
                r = yield from repl.delete(k)
            elif op == "q_exec":
                q = rng.choice([f"SELECT * FROM users WHERE id='{k}'", f"UPDATE users SET v='{val}' WHERE id='{k}'",
                                f"INSERT INTO orders VALUES ('{k}')", "VACUUM"])
                r = yield from pg.execute(q)
            else:
                tx = yield from pg.begin_transaction()
                for j in range(cfg["tx_stmts"]):
                    q = f"SELECT * FROM orders WHERE u='{k}'" if j % 2 == 0 else f"DELETE FROM orders WHERE u='{k}'"
                    yield from tx.execute(q)
                if rng.randrange(100) < cfg["rollback_pct"]:
                    yield from tx.rollback()
                else:
                    yield from tx.commit()
                r = [tx.id, tx.state.name]
            self.note(op, k, r)

        def policy_put(self, k, val):
            """a write that goes through the configured WritePolicy object"""
            wpol.on_write(k, val)
            if wp_kind == "through":
                if wpol.should_write_through():
                    yield from cache.put(k, val)
                return "through"
            if wp_kind == "around":
                # straight to the backing store, then drop the stale cache entries
                yield from db.put(k, val)
                inv = wpol.get_keys_to_invalidate()
                for kk in inv:
                    cache.invalidate(kk)
                shared["wa_invalidations"] += len(inv)
                return ["around", len(inv)]
            # write-back: buffer, flush when the policy says so, in the order the policy hands out
            pending[k] = val
            yield from cache.put(k, val)
            if wpol.should_flush():
                keys = wpol.get_keys_to_flush()
                for kk in keys:
                    if kk in pending:
                        yield from db.put(kk, pending.pop(kk))
                wpol.on_flush(keys)
                shared["wb_flushes"] += 1
                return ["back-flush", len(keys)]
            return ["back", wpol.dirty_count]

    class Admin(Entity):
        def handle_event(self, event):
            op = event.event_type
            if op == "sweep":
                # periodic maintenance of a TTL cache: purge what the policy reports as expired
                expired = policy.get_expired_keys()
                for kk in expired:
                    cache.invalidate(kk)
                shared["expired_swept"] += len(expired)
                shared["sweeps"].append([len(expired), [policy.is_expired(k) for k in all_keys[:6]]])
            elif op == "inv_all":
                cache.invalidate_all()
                sttl.invalidate_all()
                mtc.invalidate_all()
                shared["inv_all"] += 1
            elif op == "rewarm":
                # cold restart later in the run: warm the cache again
                cache.invalidate_all()
                shared["rewarm"] += 1
                return [warmer.start_warming()]
            return []

    # ---- cache bank: every eviction policy over one backing store, swept by a scanner ------------------
    bank = []
    bank_kinds = cfg.get("bank") or []
    dbb = KVStore("bank-db", read_latency=cfg["db_read_ms"] / 1000.0, write_latency=cfg["db_write_ms"] / 1000.0)
    nbk = cfg.get("bank_keys", 12)

    def bkey(i):
        return f"user:{i % nbk:03d}"

    if bank_kinds:
        for i in range(nbk):
            dbb.put_sync(bkey(i), i)
        for kind in bank_kinds:
            bank.append(CachedStore(f"bank-{kind}", backing_store=dbb, cache_capacity=cfg.get("bank_cap", 2),
                                    eviction_policy=_eviction(kind, dict(cfg, ttl_default_clock=False), seed,
                                                              f"bank-{kind}", sim_seconds),
                                    cache_read_latency=0.0005))

    class Scanner(Entity):
        """cyclic sweep over the bank's key space (so every key is evicted again and again) with re-reads of keys that
        were evicted a while ago; every operation goes to every cache of the bank"""

        def __init__(self):
            super().__init__("scanner")
            self.rng = random.Random(sub_seed(seed, "scanner"))
            self.pos = 0
            self.ops = 0
            self.hits = {c.name: 0 for c in bank}

        def handle_event(self, event):
            r = self.rng
            cap = cfg.get("bank_cap", 2)
            for _ in range(cfg.get("scan_span", 3)):
                u = r.random()
                if u < 0.6:
                    self.pos += 1
                    k = bkey(self.pos)
                elif u < 0.85:
                    # a key that was (re-)inserted a few operations ago: still cached only if the policy protects it
                    k = bkey(self.pos - r.randrange(cap, cap + 4))
                else:
                    k = bkey(self.pos - r.randrange(1, cfg.get("scan_back", 20) + 1))
                put = r.randrange(100) < cfg.get("scan_put_pct", 0)
                for c in bank:
                    if put:
                        yield from c.put(k, f"s{self.ops}")
                    else:
                        before = c.stats.hits
                        yield from c.get(k)
                        self.hits[c.name] += c.stats.hits - before
                self.ops += 1
            return None

    scanner = Scanner()
    clients = [Client(i) for i in range(cfg["n_clients"])]
    admin = Admin("admin")
    sources = []
    if bank:
        sources.append(Source.constant(rate=cfg.get("scan_rate", 20), target=scanner, event_type="Scan",
                                       name="src-scan", stop_after=stop))
    for i, c in enumerate(cfg["clients"]):
        mk = Source.poisson if c["poisson"] else Source.constant
        sources.append(mk(rate=c["rate"], target=clients[i], event_type="Tick", name=f"src-{i}", stop_after=stop))
    if cfg["eviction"] == "ttl":
        sources.append(Source.constant(rate=cfg["sweep_rate"], target=admin, event_type="sweep", name="src-sweep",
                                       stop_after=end - 0.1))
    entities = [db, cache, db2, sttl, db3, l1, l2, mtc, *shards, sharded, *replicas, repl, pg, warmer, admin, *clients,
                dbb, *bank, scanner]
    sim = Simulation(end_time=T(end), sources=sources, entities=entities)
    sim.schedule(warmer.start_warming())
    if cfg["inv_all_ms"] is not None:
        sim.schedule(Event(time=Instant.from_seconds(cfg["inv_all_ms"] / 1000.0), event_type="inv_all", target=admin))
    if cfg["rewarm_ms"] is not None:
        sim.schedule(Event(time=Instant.from_seconds(cfg["rewarm_ms"] / 1000.0), event_type="rewarm", target=admin))

    def kv_obs(s):
        return lambda: {"size": s.size, "keys": s.keys(), "items": [[k, s.get_sync(k)] for k in sorted(s.keys())]}

    def cached_obs(c):
        return lambda: {"size": c.cache_size, "hit_rate": c.hit_rate, "miss_rate": c.miss_rate,
                        "cached": c.get_cached_keys(), "dirty": sorted(c.get_dirty_keys()),
                        "contains": [c.contains_cached(k) for k in all_keys]}

    def policy_obs():
        out = {"kind": cfg["eviction"]}
        for attr in ("probationary_size", "protected_size", "size", "sample_size", "ttl"):
            if hasattr(policy, attr):
                out[attr] = getattr(policy, attr)
        if isinstance(policy, TTLEviction):
            out["expired"] = sorted(policy.get_expired_keys())
        return out

    obs = {
        "db": stats_of(db), "db.x": kv_obs(db),
        "cache": stats_of(cache), "cache.x": cached_obs(cache), "cache.policy": policy_obs,
        "wpol": lambda: {"kind": wp_kind, "dirty": getattr(wpol, "dirty_count", None),
                         "pending": sorted(pending), "through": wpol.should_write_through(),
                         "should_flush": wpol.should_flush()},
        "db2": stats_of(db2), "db2.x": kv_obs(db2),
        "sttl": stats_of(sttl),
        "sttl.x": lambda: {"size": sttl.cache_size, "cached": sttl.get_cached_keys(),
                           "fresh_rate": sttl.stats.fresh_hit_rate, "stale_rate": sttl.stats.stale_hit_rate,
                           "miss_rate": sttl.stats.miss_rate,
                           "refreshing": [k for k in all_keys if sttl.is_refreshing(k)]},
        "db3": stats_of(db3), "db3.x": kv_obs(db3),
        "l1": stats_of(l1), "l1.x": cached_obs(l1), "l2": stats_of(l2), "l2.x": cached_obs(l2),
        "mtc": stats_of(mtc), "mtc.x": lambda: {"hit_rate": mtc.hit_rate, "tiers": mtc.get_tier_stats()},
        "sharded": stats_of(sharded),
        "sharded.x": lambda: {"sizes": sharded.get_shard_sizes(), "keys": sharded.get_all_keys(),
                              "placement": [[k, sharded.get_shard_for_key(k)] for k in all_keys],
                              "dist": sharded.stats.get_shard_distribution()},
        "repl": stats_of(repl),
        "repl.x": lambda: {"status": repl.get_replica_status(), "quorum": repl.quorum_size,
                           "p50r": repl.stats.read_latency_p50, "p99w": repl.stats.write_latency_p99},
        "pg": stats_of(pg),
        "pg.x": lambda: {"active": pg.active_connections, "available": pg.available_connections,
                         "waiters": pg.pending_waiters, "avg": pg.stats.avg_query_latency,
                         "p95": pg.stats.query_latency_p95, "tables": pg.get_table_names()},
        "warmer": stats_of(warmer),
        "warmer.x": lambda: {"progress": warmer.progress, "complete": warmer.is_complete, "started": warmer.is_started},
        "shared": lambda: {k: (list(v) if isinstance(v, list) else v) for k, v in shared.items()},
    }
    for s in shards:
        obs[s.name] = stats_of(s)
        obs[s.name + ".x"] = kv_obs(s)
    if bank:
        obs["bank-db"] = stats_of(dbb)
        obs["scanner"] = lambda: {"ops": scanner.ops, "pos": scanner.pos, "hits": scanner.hits}
        for c in bank:
            obs[c.name] = stats_of(c)
            obs[c.name + ".x"] = (lambda c=c: {"size": c.cache_size, "cached": c.get_cached_keys(),
                                               "hit_rate": c.hit_rate})
    for s in replicas:
        obs[s.name] = stats_of(s)
        obs[s.name + ".x"] = kv_obs(s)
    for c in clients:
        obs[c.name] = (lambda c=c: {"n": c.n, "done": c.done, "ops": c.ops, "log": c.log})
    return sim, obs
