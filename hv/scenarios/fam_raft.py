"""Raft: 3- and 5-node `RaftNode` clusters (KV state machine, replicated `Log`) over a real `Network` with
non-zero, partly random link latencies and some packet loss; short election timeouts so several elections
happen in a few simulated seconds; 2–5 clients submitting set/get/delete/cas commands on overlapping string
keys (to the node they believe is the leader, or to a random node), each racing the commit future against a
timeout; a partition window (leader isolated / minority split / asymmetric), a crash or pause window on a
node (library fault schedule), so re-elections, log repair and step-downs occur.

Widened configuration space: clusters of 1, 2, 3, 4, 5 and 7 nodes; peers given to the constructor (`peers=`) or by
`set_peers`; the default state machine; election timeouts / heartbeat interval / link latency / client timeout from a
boundary palette with overlapping ranges (heartbeat interval longer than the election timeout, link latency longer
than the election timeout, election timeouts of 8–50 ms = election storms, min == max, client timeout shorter than one
network hop); lossless, zero-latency, 50 % and 100 % lossy links; 0–3 partition windows and 0–2 crash / pause windows
on instants that lose a nanosecond in `Instant.from_seconds`, windows that outlive the run; light load, bursts of
same-instant submissions and sustained heavy load (log of a few thousand entries); an occasional long run."""
from __future__ import annotations

import random

from hv.scenarios.base import T, dur_ms, seed_all, stats_of, sub_seed

NAME = "raft"
MODEL = "C11"
COMPONENTS = ["RaftNode", "RaftState", "Log", "LogEntry", "KVStateMachine", "Network", "NetworkLink", "Partition",
              "FaultSchedule", "CrashNode", "PauseNode", "NetworkPartition", "SimFuture", "Source",
              "datacenter_network", "ConstantLatency", "ExponentialLatency"]


def gen_cfg(rng):
    n = rng.choice([1, 2, 3, 3, 3, 4, 5, 5, 7])
    end = rng.choice([3.0, 4.0, 6.0]) if rng.random() > 0.1 else rng.choice([8.0, 10.0])
    end_ms = int(end * 1000)
    r = rng.random()
    if r < 0.6:
        et_min = dur_ms(rng, 50, 300)
    elif r < 0.8:
        et_min = dur_ms(rng, 8 if end <= 6 and n <= 5 else 30, 50)      # election storms
    else:
        et_min = dur_ms(rng, 300, 1500)
    et_max = et_min if rng.random() < 0.15 else dur_ms(rng, et_min, et_min + rng.choice([30, 150, 300, 600]))
    if rng.random() < 0.6:
        hb = dur_ms(rng, min(5 if end <= 6 else 15, et_min), et_min)     # the usual order: heartbeat < election timeout
    else:
        hb = dur_ms(rng, et_min, 3 * et_max)                             # heartbeat interval beyond the election timeout
    parts = []
    for _ in range(rng.choice([0, 1, 1, 2, 2, 3])):
        a = dur_ms(rng, 200, end_ms - 600)
        parts.append({"start": a, "end": dur_ms(rng, a + 1, min(a + 1800, end_ms + 500)),
                      "who": rng.choice(["leader", "leader", "minority", "node0"]),
                      "asym": rng.random() < 0.25, "via": rng.choice(["admin", "fault"])})

    def crash():
        a = dur_ms(rng, 100, end_ms - 500)
        return {"node": rng.randint(0, n - 1), "start": a, "end": dur_ms(rng, a + 1, min(a + 1500, end_ms + 500)),
                "kind": rng.choice(["crash", "pause", "crash-forever"])}

    heavy = rng.random() < 0.2
    clients = [{"rate": rng.choice([5, 10, 20, 40]) if not heavy else rng.choice([100, 200, 400]),
                "poisson": rng.random() < 0.5,
                "policy": rng.choice(["leader", "leader", "random", "known"]),
                "burst": rng.choice([1, 1, 1, 2, 5, 20]) if not heavy else 1}
               for _ in range(rng.randint(2, 5) if not heavy else rng.randint(1, 2))]
    budget = 2500 if end <= 6 else 1500
    while sum(c["rate"] * c["burst"] for c in clients) * end > budget:
        c = max(clients, key=lambda c: c["rate"] * c["burst"])
        if c["burst"] > 1:
            c["burst"] //= 2
        elif c["rate"] > 5:
            c["rate"] = max(5, c["rate"] // 2)
        else:
            break
    return {
        "n": n,
        "end": end,
        "et_min_ms": et_min,
        "et_max_ms": et_max,
        "hb_ms": hb,
        "peers_via": rng.choice(["set", "set", "ctor"]),
        "default_sm": rng.random() < 0.2,          # node 0 is built without `state_machine=`
        "link": rng.choice(["datacenter", "const", "exp", "exp-lossy", "zero", "const-lossy"]),
        "lat_ms": dur_ms(rng, 0.1, 25) if rng.random() < 0.7 else dur_ms(rng, 25, 800),
        "loss": rng.choice([0.0, 0.02, 0.1, 0.5, 1.0]),
        "stagger_ms": dur_ms(rng, 1, 700, zero=True) if rng.random() < 0.5 else 0,     # 0: all timers start at t=0
        "clients": clients,
        "timeout_ms": dur_ms(rng, 1, 1500),
        "keys": rng.randint(1, 6) if rng.random() < 0.85 else 50,
        "parts": parts,
        "crash": crash() if rng.random() < 0.7 else None,
        "crash2": crash() if rng.random() < 0.25 else None,
    }


def build(cfg, seed):
    from happysimulator.components.consensus import RaftNode, RaftState
    from happysimulator.components.consensus.raft_state_machine import KVStateMachine
    from happysimulator.components.network import Network, NetworkLink, datacenter_network
    from happysimulator.core.entity import Entity
    from happysimulator.core.event import Event
    from happysimulator.core.sim_future import SimFuture, any_of
    from happysimulator.core.simulation import Simulation
    from happysimulator.core.temporal import Instant
    from happysimulator.distributions import ConstantLatency, ExponentialLatency
    from happysimulator.faults import CrashNode, FaultSchedule, NetworkPartition, PauseNode
    from happysimulator.load.source import Source

    seed_all(seed)
    n, end = cfg["n"], cfg["end"]
    net = Network(name="raft-net")
    machines = [KVStateMachine() for _ in range(n)]
    timing = dict(election_timeout_min=cfg["et_min_ms"] / 1000.0, election_timeout_max=cfg["et_max_ms"] / 1000.0,
                  heartbeat_interval=cfg["hb_ms"] / 1000.0)
    nodes = []
    for i in range(n):
        kw = dict(timing)
        if not (cfg.get("default_sm") and i == 0):
            kw["state_machine"] = machines[i]
        else:
            machines[i] = None              # the node's own default state machine (not observable through the API)
        if cfg.get("peers_via", "set") == "ctor" and i == n - 1:
            kw["peers"] = list(nodes)       # the last node learns its peers through the constructor
        nodes.append(RaftNode(name=f"raft-{i}", network=net, **kw))
    for i, nd in enumerate(nodes):
        if cfg.get("peers_via", "set") == "ctor" and i == n - 1:
            continue
        nd.set_peers([p for p in nodes if p is not nd])

    def mk_link(name):
        lat = cfg["lat_ms"] / 1000.0
        k = cfg["link"]
        if k == "datacenter":
            return datacenter_network(name)
        if k == "const":
            return NetworkLink(name=name, latency=ConstantLatency(lat))
        if k == "exp":
            return NetworkLink(name=name, latency=ExponentialLatency(lat))
        if k == "zero":
            return NetworkLink(name=name, latency=ConstantLatency(0.0))
        if k == "const-lossy":
            return NetworkLink(name=name, latency=ConstantLatency(lat), packet_loss_rate=cfg["loss"])
        return NetworkLink(name=name, latency=ExponentialLatency(lat), packet_loss_rate=cfg["loss"],
                           jitter=ConstantLatency(0.001))

    for i, a in enumerate(nodes):
        for b in nodes[i + 1:]:
            net.add_bidirectional_link(a, b, mk_link(f"l-{a.name}-{b.name}"))

    class Client(Entity):
        def __init__(self, i, policy, burst=1):
            super().__init__(f"client-{i}")
            self.i, self.policy, self.burst = i, policy, burst
            self.rng = random.Random(sub_seed(seed, "client", i))
            self.n = 0
            self.ok = self.timed_out = self.no_leader = 0
            self.results = []
            self.known = None

        def _pick(self):
            if self.policy == "random":
                return self.rng.choice(nodes)
            if self.policy == "known" and self.known is not None:
                return by_name[self.known]
            leaders = [nd for nd in nodes if nd.is_leader]
            if leaders:
                return leaders[-1] if self.policy == "known" else leaders[0]
            self.no_leader += 1
            return self.rng.choice(nodes)

        def handle_event(self, event):
            k = event.context.get("burst_left", self.burst - 1) if self.burst > 1 else 0
            if k > 0:
                # the remaining submissions of this burst start at the same instant, each in its own process
                yield 0.0, [Event(time=self.now, event_type="Tick", target=self, context={"burst_left": k - 1})]
            self.n += 1
            key = f"user-{self.rng.randrange(cfg['keys'])}"
            op = self.rng.choice(["set", "set", "set", "get", "delete", "cas"])
            cmd = {"op": op, "key": key}
            if op in ("set", "cas"):
                cmd["value"] = self.i * 1000 + self.n
            if op == "cas":
                cmd["expected"] = self.i * 1000 + self.n - 1
            node = self._pick()
            fut = node.submit(cmd)
            timeout = SimFuture()
            yield 0.0, [Event.once(time=self.now + cfg["timeout_ms"] / 1000.0, event_type="ClientTimeout",
                                   fn=lambda e: timeout.resolve("timeout"))]
            idx, val = yield any_of(fut, timeout)
            if idx == 0:
                self.ok += 1
                self.known = node.name
                if len(self.results) < 40:
                    self.results.append([node.name, op, key, val[0], val[1]])
            else:
                self.timed_out += 1
                self.known = node.current_leader
            return None

    by_name = {nd.name: nd for nd in nodes}
    clients = [Client(i, c["policy"], c.get("burst", 1)) for i, c in enumerate(cfg["clients"])]

    def groups(p):
        who = p["who"]
        if who == "leader":
            leaders = [nd for nd in nodes if nd.is_leader]
            a = [leaders[0]] if leaders else [nodes[0]]
        elif who == "minority":
            a = nodes[: (n - 1) // 2]
        else:
            a = [nodes[0]]
        return a, [nd for nd in nodes if nd not in a]

    class Admin(Entity):
        def __init__(self):
            super().__init__("admin")
            self.handles = {}
            self.log = []

        def handle_event(self, event):
            k = event.context["k"]
            if event.event_type == "part":
                a, b = groups(cfg["parts"][k])
                self.handles[k] = net.partition(a, b, asymmetric=cfg["parts"][k]["asym"])
                self.log.append(["part", k, [x.name for x in a]])
            else:
                self.handles[k].heal()
                self.log.append(["heal", k, [nd.name for nd in nodes if nd.is_leader]])
            return None

    admin = Admin()
    faults = FaultSchedule("faults")
    for p in cfg["parts"]:
        if p["via"] == "fault":
            # the fault needs names up front: isolate by position instead of by role
            a = nodes[: (n - 1) // 2] if p["who"] == "minority" else [nodes[-1] if p["who"] == "leader" else nodes[0]]
            faults.add(NetworkPartition([x.name for x in a], [x.name for x in nodes if x not in a],
                                        start=p["start"] / 1000.0, end=p["end"] / 1000.0, asymmetric=p["asym"]))
    for c in (cfg["crash"], cfg.get("crash2")):
        if not c:
            continue
        nm = nodes[c["node"]].name
        if c["kind"] == "crash":
            faults.add(CrashNode(nm, at=c["start"] / 1000.0, restart_at=c["end"] / 1000.0))
        elif c["kind"] == "pause":
            faults.add(PauseNode(nm, start=c["start"] / 1000.0, end=c["end"] / 1000.0))
        else:
            faults.add(CrashNode(nm, at=c["start"] / 1000.0))

    sources = []
    for i, cc in enumerate(cfg["clients"]):
        mk = Source.poisson if cc["poisson"] else Source.constant
        sources.append(mk(rate=cc["rate"], target=clients[i], event_type="Tick", name=f"src-client-{i}",
                          stop_after=end - 0.5))
    sim = Simulation(end_time=T(end), sources=sources, entities=[net, admin, *nodes, *clients],
                     fault_schedule=faults)
    for i, nd in enumerate(nodes):
        if cfg["stagger_ms"] and i:
            # nodes boot one after the other: start() runs under the engine at the boot instant
            sim.schedule(Event.once(time=Instant.from_seconds(i * cfg["stagger_ms"] / 1000.0), event_type="Boot",
                                    fn=lambda e, nd=nd: nd.start(), daemon=True))
        else:
            sim.schedule(nd.start())
    for k, p in enumerate(cfg["parts"]):
        if p["via"] == "admin":
            sim.schedule(Event(time=Instant.from_seconds(p["start"] / 1000.0), event_type="part", target=admin,
                               context={"k": k}))
            sim.schedule(Event(time=Instant.from_seconds(p["end"] / 1000.0), event_type="heal", target=admin,
                               context={"k": k}))

    def node_obs(i):
        nd = nodes[i]

        def read():
            lg = nd.log
            le = lg.last_entry
            return {"state": nd.state.name, "term": nd.current_term,
                    "leaderish": nd.state is RaftState.LEADER, "candidate": nd.state is RaftState.CANDIDATE,
                    "follower": nd.state is RaftState.FOLLOWER,
                    "last_entry": None if le is None else [le.index, le.term],
                    "tail": [[e.index, e.term] for e in lg.entries_from(max(1, lg.last_index - 2))], "leader": nd.current_leader,
                    "is_leader": nd.is_leader, "quorum": nd.quorum_size, "last_index": lg.last_index,
                    "last_term": lg.last_term, "commit": lg.commit_index, "len": len(lg),
                    "log": [[e.index, e.term, e.command] for e in lg.entries_after(0)],
                    "committed": len(lg.committed_entries()), "uncommitted": len(lg.uncommitted_entries()),
                    "kv": None if machines[i] is None else sorted(machines[i].data.items()),
                    "snapshot": None if machines[i] is None else sorted(machines[i].snapshot())}
        return read

    obs = {"net": lambda: {"routed": net.events_routed, "no_route": net.events_dropped_no_route,
                           "partition": net.events_dropped_partition,
                           "matrix": [[s.source, s.destination, s.packets_sent, s.packets_dropped]
                                      for s in net.traffic_matrix()]},
           "admin": lambda: admin.log, "faults": stats_of(faults)}
    for i, nd in enumerate(nodes):
        obs[nd.name] = stats_of(nd)
        obs[nd.name + ".x"] = node_obs(i)
    for cl in clients:
        obs[cl.name] = (lambda cl=cl: {"n": cl.n, "ok": cl.ok, "timeout": cl.timed_out, "no_leader": cl.no_leader,
                                       "known": cl.known, "results": cl.results})
    return sim, obs
