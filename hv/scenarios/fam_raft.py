"""Raft: 3- and 5-node `RaftNode` clusters (KV state machine, replicated `Log`) over a real `Network` with
non-zero, partly random link latencies and some packet loss; short election timeouts so several elections
happen in a few simulated seconds; 2–5 clients submitting set/get/delete/cas commands on overlapping string
keys (to the node they believe is the leader, or to a random node), each racing the commit future against a
timeout; a partition window (leader isolated / minority split / asymmetric), a crash or pause window on a
node (library fault schedule), so re-elections, log repair and step-downs occur."""
from __future__ import annotations

import random

from hv.scenarios.base import T, seed_all, stats_of, sub_seed

NAME = "raft"
MODEL = "C11"
COMPONENTS = ["RaftNode", "Log", "LogEntry", "KVStateMachine", "Network", "NetworkLink", "Partition",
              "FaultSchedule", "CrashNode", "PauseNode", "NetworkPartition", "SimFuture", "Source",
              "datacenter_network", "ConstantLatency", "ExponentialLatency"]


def gen_cfg(rng):
    n = rng.choice([3, 3, 5])
    end = rng.choice([3.0, 4.0, 6.0])
    end_ms = int(end * 1000)
    et_min = rng.choice([100, 150, 250])
    parts = []
    for _ in range(rng.randint(1, 2)):
        a = rng.randint(600, end_ms - 1200)
        parts.append({"start": a, "end": a + rng.randint(300, 1200),
                      "who": rng.choice(["leader", "leader", "minority", "node0"]),
                      "asym": rng.random() < 0.25, "via": rng.choice(["admin", "fault"])})
    crash = None
    if rng.random() < 0.7:
        a = rng.randint(500, end_ms - 1000)
        crash = {"node": rng.randint(0, n - 1), "start": a, "end": a + rng.randint(200, 900),
                 "kind": rng.choice(["crash", "pause", "crash-forever"])}
    return {
        "n": n,
        "end": end,
        "et_min_ms": et_min,
        "et_max_ms": et_min + rng.choice([0, 30, 50, 150, 150, 300, 300, 300]),
        "hb_ms": rng.choice([20, 50, 80]),
        "link": rng.choice(["datacenter", "const", "exp", "exp-lossy"]),
        "lat_ms": rng.randint(1, 25),
        "loss": rng.choice([0.02, 0.1]),
        "stagger_ms": rng.choice([0, 0, 1, 7]),     # 0: every node starts its election timer at t=0
        "clients": [{"rate": rng.choice([5, 10, 20, 40]), "poisson": rng.random() < 0.5,
                     "policy": rng.choice(["leader", "leader", "random", "known"])}
                    for _ in range(rng.randint(2, 5))],
        "timeout_ms": rng.choice([60, 150, 400]),
        "keys": rng.randint(2, 6),
        "parts": parts,
        "crash": crash,
    }


def build(cfg, seed):
    from happysimulator.components.consensus import RaftNode
    from happysimulator.components.consensus.raft_state_machine import KVStateMachine
    from happysimulator.components.network import Network, NetworkLink, datacenter_network
    from happysimulator.core.entity import Entity
    from happysimulator.core.event import Event
    from happysimulator.core.sim_future import SimFuture, any_of
    from happysimulator.core.simulation import Simulation
    from happysimulator.core.temporal import Instant
    from happysimulator.distributions import ConstantLatency, ExponentialLatency
    from happysimulator.faults import CrashNode, FaultSchedule, NetworkPartition, PauseNode
    from happysimulator.load.source import Source

    seed_all(seed)
    n, end = cfg["n"], cfg["end"]
    net = Network(name="raft-net")
    machines = [KVStateMachine() for _ in range(n)]
    nodes = [RaftNode(name=f"raft-{i}", network=net, state_machine=machines[i],
                      election_timeout_min=cfg["et_min_ms"] / 1000.0,
                      election_timeout_max=cfg["et_max_ms"] / 1000.0,
                      heartbeat_interval=cfg["hb_ms"] / 1000.0) for i in range(n)]
    for nd in nodes:
        nd.set_peers([p for p in nodes if p is not nd])

    def mk_link(name):
        lat = cfg["lat_ms"] / 1000.0
        k = cfg["link"]
        if k == "datacenter":
            return datacenter_network(name)
        if k == "const":
            return NetworkLink(name=name, latency=ConstantLatency(lat))
        if k == "exp":
            return NetworkLink(name=name, latency=ExponentialLatency(lat))
        return NetworkLink(name=name, latency=ExponentialLatency(lat), packet_loss_rate=cfg["loss"],
                           jitter=ConstantLatency(0.001))

    for i, a in enumerate(nodes):
        for b in nodes[i + 1:]:
            net.add_bidirectional_link(a, b, mk_link(f"l-{a.name}-{b.name}"))

    class Client(Entity):
        def __init__(self, i, policy):
            super().__init__(f"client-{i}")
            self.i, self.policy = i, policy
            self.rng = random.Random(sub_seed(seed, "client", i))
            self.n = 0
            self.ok = self.timed_out = self.no_leader = 0
            self.results = []
            self.known = None

        def _pick(self):
            if self.policy == "random":
                return self.rng.choice(nodes)
            if self.policy == "known" and self.known is not None:
                return by_name[self.known]
            leaders = [nd for nd in nodes if nd.is_leader]
            if leaders:
                return leaders[-1] if self.policy == "known" else leaders[0]
            self.no_leader += 1
            return self.rng.choice(nodes)

        def handle_event(self, event):
            self.n += 1
            key = f"user-{self.rng.randrange(cfg['keys'])}"
            op = self.rng.choice(["set", "set", "set", "get", "delete", "cas"])
            cmd = {"op": op, "key": key}
            if op in ("set", "cas"):
                cmd["value"] = self.i * 1000 + self.n
            if op == "cas":
                cmd["expected"] = self.i * 1000 + self.n - 1
            node = self._pick()
            fut = node.submit(cmd)
            timeout = SimFuture()
            yield 0.0, [Event.once(time=self.now + cfg["timeout_ms"] / 1000.0, event_type="ClientTimeout",
                                   fn=lambda e: timeout.resolve("timeout"))]
            idx, val = yield any_of(fut, timeout)
            if idx == 0:
                self.ok += 1
                self.known = node.name
                if len(self.results) < 40:
                    self.results.append([node.name, op, key, val[0], val[1]])
            else:
                self.timed_out += 1
                self.known = node.current_leader
            return None

    by_name = {nd.name: nd for nd in nodes}
    clients = [Client(i, c["policy"]) for i, c in enumerate(cfg["clients"])]

    def groups(p):
        who = p["who"]
        if who == "leader":
            leaders = [nd for nd in nodes if nd.is_leader]
            a = [leaders[0]] if leaders else [nodes[0]]
        elif who == "minority":
            a = nodes[: (n - 1) // 2]
        else:
            a = [nodes[0]]
        return a, [nd for nd in nodes if nd not in a]

    class Admin(Entity):
        def __init__(self):
            super().__init__("admin")
            self.handles = {}
            self.log = []

        def handle_event(self, event):
            k = event.context["k"]
            if event.event_type == "part":
                a, b = groups(cfg["parts"][k])
                self.handles[k] = net.partition(a, b, asymmetric=cfg["parts"][k]["asym"])
                self.log.append(["part", k, [x.name for x in a]])
            else:
                self.handles[k].heal()
                self.log.append(["heal", k, [nd.name for nd in nodes if nd.is_leader]])
            return None

    admin = Admin()
    faults = FaultSchedule("faults")
    for p in cfg["parts"]:
        if p["via"] == "fault":
            # the fault needs names up front: isolate by position instead of by role
            a = nodes[: (n - 1) // 2] if p["who"] == "minority" else [nodes[-1] if p["who"] == "leader" else nodes[0]]
            faults.add(NetworkPartition([x.name for x in a], [x.name for x in nodes if x not in a],
                                        start=p["start"] / 1000.0, end=p["end"] / 1000.0, asymmetric=p["asym"]))
    c = cfg["crash"]
    if c:
        nm = nodes[c["node"]].name
        if c["kind"] == "crash":
            faults.add(CrashNode(nm, at=c["start"] / 1000.0, restart_at=c["end"] / 1000.0))
        elif c["kind"] == "pause":
            faults.add(PauseNode(nm, start=c["start"] / 1000.0, end=c["end"] / 1000.0))
        else:
            faults.add(CrashNode(nm, at=c["start"] / 1000.0))

    sources = []
    for i, cc in enumerate(cfg["clients"]):
        mk = Source.poisson if cc["poisson"] else Source.constant
        sources.append(mk(rate=cc["rate"], target=clients[i], event_type="Tick", name=f"src-client-{i}",
                          stop_after=end - 0.5))
    sim = Simulation(end_time=T(end), sources=sources, entities=[net, admin, *nodes, *clients],
                     fault_schedule=faults)
    for i, nd in enumerate(nodes):
        if cfg["stagger_ms"] and i:
            # nodes boot one after the other: start() runs under the engine at the boot instant
            sim.schedule(Event.once(time=Instant.from_seconds(i * cfg["stagger_ms"] / 1000.0), event_type="Boot",
                                    fn=lambda e, nd=nd: nd.start(), daemon=True))
        else:
            sim.schedule(nd.start())
    for k, p in enumerate(cfg["parts"]):
        if p["via"] == "admin":
            sim.schedule(Event(time=Instant.from_seconds(p["start"] / 1000.0), event_type="part", target=admin,
                               context={"k": k}))
            sim.schedule(Event(time=Instant.from_seconds(p["end"] / 1000.0), event_type="heal", target=admin,
                               context={"k": k}))

    def node_obs(i):
        nd = nodes[i]

        def read():
            lg = nd.log
            return {"state": nd.state.name, "term": nd.current_term, "leader": nd.current_leader,
                    "is_leader": nd.is_leader, "quorum": nd.quorum_size, "last_index": lg.last_index,
                    "last_term": lg.last_term, "commit": lg.commit_index, "len": len(lg),
                    "log": [[e.index, e.term, e.command] for e in lg.entries_after(0)],
                    "committed": len(lg.committed_entries()), "uncommitted": len(lg.uncommitted_entries()),
                    "kv": sorted(machines[i].data.items()), "snapshot": sorted(machines[i].snapshot())}
        return read

    obs = {"net": lambda: {"routed": net.events_routed, "no_route": net.events_dropped_no_route,
                           "partition": net.events_dropped_partition,
                           "matrix": [[s.source, s.destination, s.packets_sent, s.packets_dropped]
                                      for s in net.traffic_matrix()]},
           "admin": lambda: admin.log, "faults": stats_of(faults)}
    for i, nd in enumerate(nodes):
        obs[nd.name] = stats_of(nd)
        obs[nd.name + ".x"] = node_obs(i)
    for cl in clients:
        obs[cl.name] = (lambda cl=cl: {"n": cl.n, "ok": cl.ok, "timeout": cl.timed_out, "no_leader": cl.no_leader,
                                       "known": cl.known, "results": cl.results})
    return sim, obs
